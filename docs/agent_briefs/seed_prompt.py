import json, sys, os, glob
pid = sys.argv[1]
w = '/tmp/seed/%sw6' % pid
prop = open(w + '/property.txt').read()
taken = []
for d in sorted(glob.glob('/verif/seeded/%s-*' % pid)):
    m = json.load(open(d + '/meta.json'))
    taken.append('- ' + (m.get('summary') or '')[:300].replace('\n', ' '))
print("""You are helping to evaluate a verification effort for the Python library mongomock (an in-memory emulator of MongoDB/pymongo). Your job is to act as a careful "regression author": produce ONE realistic change to the library that BREAKS the semantic property quoted below, while the library still imports and its whole existing test suite still passes. The change should look like something a well-meaning maintainer could plausibly commit (a refactor, a micro-optimisation, a "simplification", a tidy-up, a reordering), not sabotage, and not a change that ordinary use would expose at once: it should need something SPECIFIC to manifest (a multi-step sequence of operations, an unusual but legal input, a particular combination of options, a fault at a particular point, or two cooperating sites that each look fine alone).

%s
Your working copy: a private git worktree of the library at %s/repo (edit files under %s/repo/mongomock only; do not touch /repo, and do not read or use anything under /verif — that directory is off limits for this task). Python to use: /venv/bin/python with PYTHONPATH=%s/repo (check with `PYTHONPATH=%s/repo /venv/bin/python -c "import mongomock; print(mongomock.__file__)"` that your worktree is what gets imported). pymongo/bson are NOT installed (mongomock.ObjectId is the library's stand-in; request classes such as UpdateOne are not available, so bulk operations go through coll.bulk_write with small stand-in request objects having `_add_to_bulk(self, bulk)` or through coll.initialize_ordered_bulk_op / BulkOperationBuilder if you need them).

Ideas already used by earlier changes for this property (produce something DIFFERENT in mechanism and in the code it touches):
%s

Deliver, in %s/out/:
 1. the change itself, left applied in the worktree (uncommitted; I will take `git diff`);
 2. demo_test.py — a small pytest file (plain asserts, uses only mongomock and the standard library, mocks the clock with unittest.mock.patch('mongomock.utcnow') if needed) whose tests state what the property promises on the specific scenario; it must FAIL with your change and PASS on the unchanged library. Include at least one test that passes in both (a nearby scenario that does not trigger the defect) to show the change is not exposed by ordinary use;
 3. meta.json with keys: "property" (the id), "summary" (what the change does, 2–4 sentences), "needs" (exactly what is needed for it to manifest), "files" (list of files changed), "verified": {"suite_passes_with_change": true/false, "demo_fails_with_change": true/false, "demo_passes_without_change": true/false}.

Required verification before you finish (run all of it yourself and report the last line of each):
 - `cd %s/repo && PYTHONPATH=%s/repo /venv/bin/python -m pytest -q -p no:cacheprovider tests` must give the same result as on the unchanged library (434 passed, 448 skipped);
 - `cd %s/out && PYTHONPATH=%s/repo /venv/bin/python -m pytest -q -p no:cacheprovider demo_test.py` fails with the change;
 - the same command passes WITHOUT the change: `cd %s/repo && git diff > ../out/change.patch && git apply -R ../out/change.patch`, run the demo, then `git apply ../out/change.patch` to put the change back (NEVER use `git stash`: the stash is shared between worktrees and other workers run concurrently) — make sure the change is applied when you finish.
Take care that the property is REALLY violated according to its text (not merely that some behaviour changed): the demo's assertions should follow from the property statement. Read the relevant library code first (mongomock/collection.py, store.py, filtering.py, aggregate.py, helpers.py, database.py, mongo_client.py, thread.py, not_implemented.py, results.py as relevant). Keep the change small (typically < 40 changed lines). Finish with a short report: the diff, the three verification results, and one paragraph on why existing tests do not notice.""" % (prop, w, w, w, w, '\n'.join(taken) or '- (none)', w, w, w, w, w, w))
