/-
  Props.C03 — property theorems for C03 (a pipeline is the composition of its stages, each acting
  as MongoDB defines it).  Only statements live here; lemmas are in Proofs/C03*.lean.

  Impl  = MongoModel/Pipeline.lean   (namespace MongoModel.Pipe: faithful model of
                                      process_pipeline and the stage handlers of aggregate.py; tied
                                      to /repo by the per-run correspondence check)
  Spec  = Spec/Pipeline.lean         (the stages as MongoDB defines them; re-uses the oracles of
                                      C01 / C11 / C12)
  D     = Spec/PipelineDomain.lean   (decidable; named exclusion classes)

  Vocabulary: `Pipe.runPipeline db p docs` runs the stage list `p` on `docs`; a stage is the raw
  document `{op: opts}`; `Pipe.simpleStage db op opts docs` is the handler of `op` (every handler
  but `$facet`).
-/
import Proofs.C03

namespace MongoModel.Props.C03
open MongoModel MongoModel.Proofs.C11 MongoModel.Spec.Pipe

/-! ## sample data for the non-vacuity examples -/

def d0 : Val := .doc [("_id", .int 0), ("k", .int 1), ("a", .int 5), ("l", .arr [.int 1, .int 2])]
def d1 : Val := .doc [("_id", .int 1), ("k", .str "x"), ("a", .int 7), ("l", .arr [])]
def d2 : Val := .doc [("_id", .int 2), ("k", .int 1), ("a", .int 2)]
def d3 : Val := .doc [("_id", .int 3), ("a", .null), ("l", .arr [.int 3])]
def sample : List Val := [d0, d1, d2, d3]
def other : List Val := [.doc [("_id", .int 10), ("fk", .int 1)], .doc [("_id", .int 11), ("fk", .str "y")],
  .doc [("_id", .int 12), ("fk", .int 1)]]
def db : Pipe.Db := ⟨[("c", sample), ("other", other)]⟩

def isOk {α : Type} : R α → Bool
  | .ok _ => true
  | .error _ => false

/-! ## a pipeline is the left-to-right fold of its stages -/

/-- **pipeline_is_fold.** Running `p ++ q` is running `p`, then `q` on its output (an error of `p`
    is the error of the whole); and the run is the monadic left fold of `runStage`. -/
theorem pipeline_is_fold (db : Pipe.Db) (p q : List Val) (docs : List Val) :
    Pipe.runPipeline db (p ++ q) docs =
      (match Pipe.runPipeline db p docs with
       | .error e => .error e
       | .ok mid => Pipe.runPipeline db q mid) ∧
    Pipe.runPipeline db p docs = p.foldlM (fun ds st => Pipe.runStage db st ds) docs :=
  ⟨by rw [Pipe.Proofs.runPipeline_append]; cases Pipe.runPipeline db p docs <;> rfl,
   Pipe.Proofs.runPipeline_eq_foldlM db p docs⟩

/-- a stage document with one operator runs that operator's handler; every operator but
    `$facet` is handled without looking at the rest of the pipeline -/
theorem stage_dispatch (db : Pipe.Db) (op : String) (opts : Val) (docs : List Val) :
    Pipe.runStage db (.doc [(op, opts)]) docs = Pipe.runOp db op opts docs ∧
    (op ≠ "$facet" → Pipe.runOp db op opts docs = Pipe.simpleStage db op opts docs) :=
  ⟨Pipe.Proofs.runStage_single db op opts docs, Pipe.Proofs.runOp_simple db op opts docs⟩

/-- **facet_branches.** `$facet` returns ONE document whose field `title_i` holds the output of
    the i-th sub-pipeline run on the very same input. -/
theorem facet_branches (db : Pipe.Db) (gs : Fields) (docs out : List Val)
    (h : Pipe.runOp db "$facet" (.doc gs) docs = .ok out) :
    ∃ fs, out = [.doc fs] ∧
      List.Forall₂ (fun (g o : String × Val) => ∃ p r, g = (o.1, .arr p) ∧ o.2 = .arr r ∧
        Pipe.runPipeline db p docs = .ok r) gs fs := by
  obtain ⟨fs, h1, h2⟩ := Pipe.Proofs.runOp_facet db gs docs out h
  exact ⟨fs, h1, Pipe.Proofs.facetBranches_ok db gs docs fs h2⟩

example : isOk (Pipe.runOp db "$facet" (.doc [("p", .arr [.doc [("$limit", .int 1)]]),
    ("q", .arr [.doc [("$count", .str "n")]])]) sample) = true := by decide +kernel

/-! ## agreement with the find path, and conservation -/

/-- **match_eq_find.** `$match` returns a sub-list of its input (order kept, nothing invented):
    exactly the documents on which the find matcher `filterApplies` answers true; on stored
    documents it is the very list `find(filter)` returns. -/
theorem match_eq_find (f : Val) (docs out : List Val) (h : Pipe.matchStage f docs = .ok out) :
    out.Sublist docs ∧
    (∀ d, d ∈ out ↔ d ∈ docs ∧ filterApplies (patch f) (patch d) = .ok true) ∧
    ((∀ d ∈ docs, patch d = d) → Pipe.findDocs f docs = .ok out) := by
  obtain ⟨h1, h2, _⟩ := Pipe.Proofs.matchStage_ok h
  exact ⟨h1, h2, fun hn => by rw [← Pipe.Proofs.matchStage_eq_findDocs f docs hn]; exact h⟩

/-- … and `$match` refuses exactly the filters `find` refuses, the empty collection included
    (the two entry points are one function of the filter and the stored documents). -/
theorem match_is_find (f : Val) (docs : List Val) (hn : ∀ d ∈ docs, patch d = d) :
    Pipe.matchStage f docs = Pipe.findDocs f docs :=
  Pipe.Proofs.matchStage_eq_findDocs f docs hn

example : isOk (Pipe.matchStage (.doc [("k", .int 1)]) sample) = true := by decide +kernel

/-- `findDocs` is the selection every read entry point is proved to share (C10's
    `Spec.selectDocs`), taken over the documents of the (key, document) store -/
theorem find_is_the_shared_selection (f : Val) (ps : List (Val × Val)) :
    (Spec.selectDocs f ps).map (fun l => l.map (·.2)) =
      Pipe.filterR (filterApplies f) (ps.map (·.2)) :=
  Pipe.Proofs.selectDocs_eq_filterR f ps

/-- **sort_perm.** Whatever the specification, when `$sort` answers its output is a permutation
    of its input. -/
theorem sort_perm (o : Val) (docs out : List Val) (h : Pipe.sortStage o docs = .ok out) :
    out.Perm docs :=
  Pipe.Proofs.sortStage_perm o docs out h

/-- **sort_eq_find_sort.** `$sort: {k₁: d₁, …}` is `find().sort([(k₁, d₁), …])` inside the domain
    of the sort oracle — the stable sort by the key-by-key BSON order. -/
theorem sort_eq_find_sort (spec : SortSpec) (docs : List Val)
    (h : Spec.Order.specReasons spec docs = []) :
    Pipe.sortStage (.doc (spec.map (fun kd => (kd.1, Val.int kd.2)))) docs
      = getDataset (some spec) docs ∧
    Pipe.sortStage (.doc (spec.map (fun kd => (kd.1, Val.int kd.2)))) docs
      = .ok (isort (Spec.Order.docLt spec) docs) := by
  have e : Pipe.sortStage (.doc (spec.map (fun kd => (kd.1, Val.int kd.2)))) docs
      = aggSort spec docs := Pipe.Proofs.sortFields_int spec docs
  exact ⟨by rw [e]; exact Props.C11.agg_sort_eq_find_sort spec docs h,
         by rw [e]; exact aggSort_eq_spec spec docs (specOk_of_reasons _ _ h)⟩

example : Spec.Order.specReasons [("a", -1), ("k", 1)] sample = [] := by decide +kernel

/-- **skip_limit_eq_slice.** `$skip n` / `$limit n` with a non-negative `n` are `drop` / `take`;
    for every argument the output is a suffix / prefix of the input. -/
theorem skip_limit_eq_slice (n : Int) (docs : List Val) (h : 0 ≤ n) :
    Pipe.skipStage (.int n) docs = .ok (docs.drop n.toNat) ∧
    Pipe.limitStage (.int n) docs = .ok (docs.take n.toNat) :=
  ⟨Pipe.Proofs.skipStage_nonneg n docs h, Pipe.Proofs.limitStage_nonneg n docs h⟩

example : (0 : Int) ≤ 2 := by decide

theorem skip_limit_infix (o : Val) (docs out : List Val) :
    (Pipe.skipStage o docs = .ok out → out <:+ docs) ∧
    (Pipe.limitStage o docs = .ok out → out <+: docs) :=
  ⟨Pipe.Proofs.skipStage_suffix o docs out, Pipe.Proofs.limitStage_prefix o docs out⟩

/-- **count_eq_length.** `$count: name` answers one document `{name: len(input)}` — the number
    `count_documents({})` computes (`countDocuments n 0 absent = n`). -/
theorem count_eq_length (o : Val) (docs out : List Val) (h : Pipe.countStage o docs = .ok out) :
    ∃ s, o = .str s ∧ out = [.doc [(s, .int docs.length)]] ∧
      countDocuments docs.length 0 .absent = .ok (docs.length : Int) := by
  obtain ⟨s, h1, h2⟩ := Pipe.Proofs.countStage_ok o docs out h
  exact ⟨s, h1, h2, by simp [countDocuments]⟩

example : isOk (Pipe.countStage (.str "n") sample) = true := by decide +kernel

/-- **project_eq_find_projection.** On a plain inclusion / exclusion specification the `$project`
    stage is `aggProject` (for every list of documents), hence — on the common domain of the two
    projection oracles — the document the find projection `copyOnlyFields` returns (which lists
    `_id` last in an inclusion: `Props.C12.idLast_perm`). -/
theorem project_eq_find_projection (options : Fields) (docs : List Val)
    (h : options.all (fun kv => isFlag kv.2) = true) :
    Pipe.projectStage (.doc options) docs = aggProject docs (.doc options) ∧
    (∀ d, Spec.Proj.inD (.doc options) d = true → Spec.Proj.aggInD (.doc options) d = true →
      ∃ a, Pipe.projectStage (.doc options) [d] = .ok [a] ∧
        copyOnlyFields d (.doc options) =
          .ok (if Spec.Proj.modeOf (.doc options) = some true then Spec.Proj.idLast a else a)) := by
  refine ⟨Pipe.Proofs.projectStage_flags options docs h, fun d hD hA => ?_⟩
  obtain ⟨a, h1, h2⟩ := Props.C12.find_eq_agg (.doc options) d hD hA
  exact ⟨a, by rw [Pipe.Proofs.projectStage_flags options [d] h]; exact h1, h2⟩

example : [("a", Val.int 1), ("k", Val.bool true), ("_id", Val.int 0)].all (fun kv => isFlag kv.2)
    = true ∧ Spec.Proj.inD (.doc [("a", .int 1), ("k", .bool true), ("_id", .int 0)]) d0 = true ∧
    Spec.Proj.aggInD (.doc [("a", .int 1), ("k", .bool true), ("_id", .int 0)]) d0 = true := by
  decide +kernel

/-! ## `$group` -/

/-- **group_conservation.** Whatever the key expression and accumulators, when `$group` answers
    there are groups `(key, documents)` such that the output is one document per group
    (`accumulate` of the group's documents, then `_id` = the key) and the groups together hold
    every input document exactly once (so the group sizes add up to the input length). -/
theorem group_conservation (options : Fields) (docs out : List Val)
    (h : Pipe.groupStage (.doc options) docs = .ok out) :
    ∃ rs : List (Val × List Val),
      List.Forall₂ (fun r o => ∃ fs, Pipe.accumulate options r.2 = .ok fs ∧
        o = .doc (dset "_id" r.1 fs)) rs out ∧
      (rs.flatMap (·.2)).Perm docs ∧
      (rs.map (fun r => r.2.length)).sum = docs.length := by
  obtain ⟨rs, h1, h2⟩ := Pipe.Proofs.groupStage_groups options docs out h
  refine ⟨rs, Pipe.Proofs.emitGroups_ok options rs out h1, h2, ?_⟩
  rw [← h2.length_eq, List.length_flatMap]

example : isOk (Pipe.groupStage (.doc [("_id", .str "$k"), ("n", .doc [("$sum", .int 1)])]) sample)
    = true := by decide +kernel

/-- **group_partition (on D: scalar keys, no booleans).** The groups have pairwise different
    keys; the group of key `k` holds exactly the documents whose key is equal to `k`, in input
    order; every document's key has a group.  `kds` is the input paired with its keys. -/
theorem group_partition_partial (options : Fields) (idExpr : Val) (docs out : List Val)
    (kds : List (Val × Val))
    (hid : dget "_id" options = some idExpr) (ht : idExpr.truthy = true)
    (hk : Pipe.keyed idExpr docs = .ok kds) (hK : ∀ p ∈ kds, groupKeyOk p.1 = true)
    (h : Pipe.groupStage (.doc options) docs = .ok out) :
    (kds.map (·.2) = docs ∧ ∀ p ∈ kds, Pipe.groupKey idExpr p.2 = .ok p.1) ∧
    ∃ rs : List (Val × List Val),
      List.Forall₂ (fun r o => ∃ fs, Pipe.accumulate options r.2 = .ok fs ∧
        o = .doc (dset "_id" r.1 fs)) rs out ∧
      rs.Pairwise (fun a b => pyEq a.1 b.1 = false) ∧
      (∀ r ∈ rs, (∃ p ∈ kds, p.1 = r.1) ∧
        r.2 = (kds.filter (fun p => pyEq r.1 p.1)).map (·.2)) ∧
      (∀ p ∈ kds, ∃ r ∈ rs, pyEq r.1 p.1 = true) := by
  refine ⟨Pipe.Proofs.keyed_ok idExpr docs kds hk, ?_⟩
  obtain ⟨rs, h1, h2, h3, h4⟩ :=
    Pipe.Proofs.groupStage_partition options idExpr docs out kds hid ht hk hK h
  exact ⟨rs, Pipe.Proofs.emitGroups_ok options rs out h1, h2, h3, h4⟩

/-- the hypotheses are inhabited: keys 1, "x", 1, null (missing) over the sample -/
example : (match Pipe.keyed (.str "$k") sample with
    | .ok kds => kds.all (fun p => groupKeyOk p.1) && kds.length == 4
    | .error _ => false) = true := by decide +kernel

/-- on such keys Python's `==` is MongoDB's key equality (the tie of the BSON order) -/
theorem group_key_equality (a b : Val) (ha : groupKeyOk a = true) (hb : groupKeyOk b = true) :
    pyEq a b = keyEq a b :=
  Pipe.Proofs.pyEq_eq_tie a b ha hb

/-- the keys-pairwise-distinct law without the domain hypothesis, as a decidable check -/
def distinctKeysB : List (Val × List Val) → Bool
  | [] => true
  | r :: rs => rs.all (fun r' => !pyEq r.1 r'.1) && distinctKeysB rs

def group_keys_distinct_full : Prop :=
  ∀ kds : List (Val × Val),
    (match pySorted Pipe.keyedLt false kds with
     | .ok sorted => distinctKeysB (Pipe.groupRuns sorted)
     | .error _ => true) = true

/-- False of the code as it stands (known finding `groupboolnum`): keys `true, 2, 1` sort as
    `1, 2, true` (BSON type order), so `1` and `true` — equal for `groupby` — end in two groups. -/
theorem group_keys_distinct_full_fails : ¬ group_keys_distinct_full := by
  intro h
  have := h [(.bool true, .null), (.int 2, .null), (.int 1, .null)]
  revert this
  decide +kernel

/-- the accumulators against the oracle's folds: `$push` keeps every value in input order,
    `$first` / `$last` the first / last one, `$sum` adds integers -/
theorem accumulators_spec (values : List Val) (is : List Int) :
    Pipe.accApply "$push" values = .ok (.arr values) ∧
    Pipe.accApply "$first" values = .ok (specFirst (values.map some)) ∧
    Pipe.accApply "$last" values = .ok (specLast (values.map some)) ∧
    Pipe.accApply "$sum" (is.map Val.int) = .ok (.int (specSumInt ((is.map Val.int).map some))) :=
  ⟨Pipe.Proofs.acc_push values, Pipe.Proofs.acc_first values, Pipe.Proofs.acc_last values,
   Pipe.Proofs.acc_sum_ints is⟩

/-- the values an accumulator folds: the expression on every document of the group in input
    order, documents on which it is missing skipped -/
theorem accumulator_values (key : Val) (g vs : List Val) (h : Pipe.accValues key g = .ok vs) :
    ∃ rs : List (Option Val),
      List.Forall₂ (fun d r => Expr.evalExprStrict d key = .ok r) g rs ∧ vs = specPush rs :=
  Pipe.Proofs.accValues_ok key g vs h

example : isOk (Pipe.accValues (.str "$a") sample) = true := by decide +kernel

def valIs (a b : Val) : Bool := Val.beq a b

/-- the full-strength `$first` law: the value on the group's first document, null when missing -/
def first_spec_full : Prop :=
  ∀ (key : Val) (g : List Val),
    (match Pipe.accValues key g with
     | .ok vs => (match Pipe.accApply "$first" vs with
                  | .ok v => valIs v (specFirst (g.map (fun d =>
                      match Expr.evalExprStrict d key with | .ok r => r | .error _ => none)))
                  | .error _ => true)
     | .error _ => true) = true

/-- False of the code as it stands (known finding `firstmissing`): documents missing the field
    are skipped, so `$first` answers the first PRESENT value instead of null. -/
theorem first_spec_full_fails : ¬ first_spec_full := by
  intro h
  have := h (.str "$a") [.doc [("_id", .int 0)], .doc [("_id", .int 1), ("a", .int 7)]]
  revert this
  decide +kernel

/-- the full-strength `$addToSet` law: the distinct values -/
def addToSet_spec_full : Prop :=
  ∀ vs : List Val, (match Pipe.accApply "$addToSet" vs with
    | .ok v => valIs v (.arr (specAddToSet vs))
    | .error _ => true) = true

/-- False of the code as it stands (known finding `addtosetfalsy`): `val or None` turns 0 into
    null. -/
theorem addToSet_spec_full_fails : ¬ addToSet_spec_full := by
  intro h
  have := h [.int 0, .int 1]
  revert this
  decide +kernel

/-- **bucket_conservation.** When `$bucket` answers, its output is one document per bucket
    (`accumulate` of the bucket's documents under the `output` specification, `_id` = the bucket
    id) and the buckets together hold every input document exactly once. -/
theorem bucket_conservation (o : Fields) (docs out : List Val)
    (h : Pipe.bucketStage (.doc o) docs = .ok out) :
    ∃ (output : Fields) (rs : List (Val × List Val)),
      List.Forall₂ (fun r d => ∃ fs, Pipe.accumulate output r.2 = .ok fs ∧
        d = .doc (dset "_id" r.1 fs)) rs out ∧
      (rs.flatMap (·.2)).Perm docs := by
  obtain ⟨output, rs, h1, h2⟩ := Pipe.Proofs.bucketStage_groups o docs out h
  exact ⟨output, rs, Pipe.Proofs.emitGroups_ok output rs out h1, h2⟩

example : isOk (Pipe.bucketStage (.doc [("groupBy", .str "$a"),
    ("boundaries", .arr [.int 0, .int 5, .int 10]), ("default", .str "other")]) [d0, d1, d2]) = true := by
  decide +kernel

/-- **bucket_classification.** The bucket of a document whose `groupBy` value is a number `x`:
    the largest boundary `≤ x` when `x` lies in `[first, last)`, the default bucket otherwise
    (no default: OperationFailure). -/
theorem bucket_classification (c : Pipe.BucketCfg) (d v : Val) (x : Num)
    (hv : Expr.evalExprStrict d c.groupBy = .ok (some v)) (hx : v.num? = some x) :
    let index := (c.bounds.filter (fun b => match b.num? with
                                            | some y => Num.le y x | none => false)).length
    Pipe.bucketId c d =
      (if index ≠ 0 && index < c.bounds.length then
        (match c.bounds[index - 1]? with
         | some b => .ok (false, b)
         | none => unmodelled)
       else match c.default with
         | some dv => .ok (c.defaultLast, dv)
         | none => .error .opFail) := by
  intro index
  unfold Pipe.bucketId
  simp only [hv, hx]
  rfl

/-! ## `$unwind` -/

/-- **unwind_flatMap.** The output is the concatenation, in input order, of what each document
    yields by itself (so its length is the sum of the per-document lengths). -/
theorem unwind_flatMap (opts : Val) (docs out : List Val)
    (h : Pipe.unwindStage opts docs = .ok out) :
    ∃ o parts, Pipe.unwindOpts opts = .ok o ∧
      List.Forall₂ (fun d p => Pipe.unwindDoc o d = .ok p) docs parts ∧ out = parts.flatten ∧
      out.length = (parts.map List.length).sum := by
  obtain ⟨o, parts, h1, h2, h3⟩ := Pipe.Proofs.unwindStage_flat opts docs out h
  exact ⟨o, parts, h1, h2, h3, by rw [h3, List.length_flatten]⟩

/-- a document whose field holds a non-empty array yields one document per element, in order:
    the input with the field replaced by the element (then the index written when asked for);
    missing / null / empty-array fields drop the document, or keep it once when
    `preserveNullAndEmptyArrays`. -/
theorem unwind_one_per_element (o : Pipe.UnwindOpts) (d : Val) (x : Val) (xs out : List Val)
    (hg : getByDot d o.path = .ok (.arr (x :: xs))) (h : Pipe.unwindDoc o d = .ok out) :
    out.length = (x :: xs).length ∧
      ∀ (j : Nat) (y : Val), (x :: xs)[j]? = some y →
        ∃ nd, out[j]? = some nd ∧ Pipe.unwindItem o d (some j) y = .ok nd :=
  Pipe.Proofs.unwindDoc_array o d x xs out hg h

example : (match getByDot d0 "l" with | .ok (.arr (_ :: _)) => true | _ => false) = true ∧
    isOk (Pipe.unwindDoc ⟨"l", false, none⟩ d0) = true := by decide +kernel

theorem unwind_missing_null_empty (o : Pipe.UnwindOpts) (d : Val) :
    (getByDot d o.path = .error .keyErr → Pipe.unwindDoc o d = .ok (if o.preserve then [d] else [])) ∧
    (getByDot d o.path = .ok .null → Pipe.unwindDoc o d = .ok (if o.preserve then [d] else [])) ∧
    (getByDot d o.path = .ok (.arr []) → o.preserve = false → Pipe.unwindDoc o d = .ok []) :=
  ⟨Pipe.Proofs.unwindDoc_missing o d, Pipe.Proofs.unwindDoc_null o d,
   Pipe.Proofs.unwindDoc_empty_drop o d⟩

/-- on a top-level field the replaced document is the input with that one field set -/
theorem unwind_item_top (path : String) (pres : Bool) (fs : Fields) (idx : Option Nat) (item : Val)
    (hp : splitDots path = [path]) :
    Pipe.unwindItem ⟨path, pres, none⟩ (.doc fs) idx item = .ok (.doc (dset path item fs)) ∧
    (∀ k, k ≠ path → dget k (dset path item fs) = dget k fs) :=
  ⟨Pipe.Proofs.unwindItem_top path pres fs idx item hp,
   fun k hk => Pipe.Proofs.dget_dset_other path k item hk fs⟩

example : splitDots "l" = ["l"] := by decide +kernel

/-! ## `$lookup`, `$addFields` / `$set`, `$replaceRoot` -/

/-- **lookup_spec.** One output per input, in order; output `i` is input `i` with the `as` field
    set to the array of the foreign documents `find({foreignField: q})` selects — a sub-list of
    the foreign collection, in its order, exactly those the matcher accepts for the local value
    `q` (null when missing, `$in` for a list); no other field changes. -/
theorem lookup_spec (db : Pipe.Db) (o : Fields) (docs out : List Val)
    (h : Pipe.lookupStage db (.doc o) docs = .ok out) :
    ∃ fr lf ff as, Pipe.lookupArg o "from" = .ok fr ∧ Pipe.lookupArg o "localField" = .ok lf ∧
      Pipe.lookupArg o "foreignField" = .ok ff ∧ Pipe.lookupArg o "as" = .ok as ∧
      List.Forall₂ (fun d r =>
        ∃ fs q ms, d = .doc fs ∧ Pipe.lookupQuery fs lf = .ok q ∧
          r = .doc (dset as (.arr ms) fs) ∧ ms.Sublist (db.get fr) ∧
          (∀ x, x ∈ ms ↔ x ∈ db.get fr ∧ filterApplies (patch (.doc [(ff, q)])) x = .ok true) ∧
          (∀ k, k ≠ as → dget k (dset as (.arr ms) fs) = dget k fs)) docs out := by
  obtain ⟨fr, lf, ff, as, h1, h2, h3, h4, h5⟩ := Pipe.Proofs.lookupStage_ok db o docs out h
  refine ⟨fr, lf, ff, as, h1, h2, h3, h4, ?_⟩
  refine h5.imp ?_
  intro d r hdr
  obtain ⟨fs, q, ms, e1, e2, _, e4, e5, e6, _⟩ := Pipe.Proofs.lookupDoc_ok _ lf ff as d r hdr
  exact ⟨fs, q, ms, e1, e2, e4, e5, e6, fun k hk => Pipe.Proofs.dget_dset_other as k _ hk fs⟩

example : isOk (Pipe.lookupStage db (.doc [("from", .str "other"), ("localField", .str "k"),
    ("foreignField", .str "fk"), ("as", .str "j")]) sample) = true := by decide +kernel

/-- **addFields_map / replaceRoot_map.** Both stages rewrite each document independently: the
    output has one document per input, in order, and output `i` is a function of input `i` alone
    (`addFieldsDoc fs`, `replaceRootDoc e`). -/
theorem addFields_map (fs : Fields) (docs out : List Val)
    (h : Pipe.addFieldsStage (.doc fs) docs = .ok out) :
    List.Forall₂ (fun d r => Pipe.Proofs.addFieldsDoc fs d = .ok r) docs out ∧
    out.length = docs.length := by
  have := Pipe.Proofs.addFieldsStage_ok fs docs out h
  exact ⟨this, this.length_eq.symm⟩

example : isOk (Pipe.addFieldsStage (.doc [("r", .doc [("$add", .arr [.str "$a", .int 1])])])
    [d0, d2]) = true := by decide +kernel

theorem replaceRoot_map (fs : Fields) (docs out : List Val)
    (h : Pipe.replaceRootStage (.doc fs) docs = .ok out) :
    ∃ e, dget "newRoot" fs = some e ∧
      List.Forall₂ (fun d r => Pipe.replaceRootDoc e d = .ok r) docs out ∧
      out.length = docs.length := by
  obtain ⟨e, h1, h2⟩ := Pipe.Proofs.replaceRootStage_ok fs docs out h
  exact ⟨e, h1, h2, h2.length_eq.symm⟩

example : isOk (Pipe.replaceRootStage (.doc [("newRoot", .doc [("x", .str "$a")])]) sample) = true := by
  decide +kernel

/-! ## the model against the oracle -/

/-- **stage_eq_spec (on D).** Wherever the oracle speaks about a stage and the case lies in the
    domain, the handler returns exactly what the oracle says. -/
theorem stage_eq_spec_partial (db : Pipe.Db) (op : String) (opts : Val) (docs s : List Val)
    (hD : stageReasons op opts docs = []) (hs : specStage op opts docs = some s) :
    Pipe.simpleStage db op opts docs = .ok s :=
  Pipe.Proofs.stage_eq_spec db op opts docs s hD hs

example : stageReasons "$unwind" (.str "$l") sample = [] ∧
    (specStage "$unwind" (.str "$l") sample).isSome = true := by decide +kernel

example : stageReasons "$match" (.doc [("a", .doc [("$gt", .int 2)])]) sample = [] ∧
    (specStage "$match" (.doc [("a", .doc [("$gt", .int 2)])]) sample).isSome = true := by
  decide +kernel

/-- **pipeline_eq_spec (on D).** A pipeline of single-operator stages each of which lies in the
    domain on the documents the oracle feeds it computes what the oracle computes. -/
theorem pipeline_eq_spec_partial (db : Pipe.Db) (p docs s : List Val)
    (hD : pipelineReasons p docs = []) (hs : specPipeline p docs = some s) :
    Pipe.runPipeline db p docs = .ok s :=
  Pipe.Proofs.pipeline_eq_spec db p docs s hD hs

example : inD [.doc [("$match", .doc [("a", .doc [("$gt", .int 2)])])],
               .doc [("$unwind", .str "$l")], .doc [("$sort", .doc [("a", .int (-1))])],
               .doc [("$limit", .int 2)], .doc [("$count", .str "n")]] sample = true := by
  decide +kernel

def agreeB : R (List Val) → Option (List Val) → Bool
  | .ok a, some b => beqList a b
  | .error _, some _ => false
  | _, none => true

/-- the full-strength statement: wherever the oracle speaks, the handler answers the same -/
def stage_eq_spec_full : Prop :=
  ∀ (op : String) (opts : Val) (docs : List Val),
    agreeB (Pipe.simpleStage ⟨[]⟩ op opts docs) (specStage op opts docs) = true

/-- False of the code as it stands (known finding `countempty`): `$count` over no documents
    returns `{n: 0}`; MongoDB returns no document. -/
theorem stage_eq_spec_full_fails : ¬ stage_eq_spec_full := by
  intro h
  have := h "$count" (.str "n") []
  revert this
  decide +kernel

/-- the full-strength statement about `$unwind` with `includeArrayIndex` -/
def unwind_index_full : Prop :=
  ∀ (f ix : String) (pres : Bool) (d : Val),
    agreeB (Pipe.unwindDoc ⟨f, pres, some ix⟩ d) (some (specUnwindDoc f pres (some ix) d)) = true

/-- False of the code as it stands (known finding `unwindindex`): a document kept by
    `preserveNullAndEmptyArrays` does not get the index field (MongoDB sets it to null). -/
theorem unwind_index_full_fails : ¬ unwind_index_full := by
  intro h
  have := h "l" "i" true (.doc [("_id", .int 0)])
  revert this
  decide +kernel

end MongoModel.Props.C03
