/-
  Props.C03 — property theorems for C03 (a pipeline is the composition of its stages, each acting
  as MongoDB defines it).  Only statements live here; lemmas are in Proofs/C03*.lean.

  Impl  = MongoModel/Pipeline.lean   (namespace MongoModel.Pipe: faithful model of
                                      process_pipeline and the stage handlers of aggregate.py; tied
                                      to /repo by the per-run correspondence check)
  Spec  = Spec/Pipeline.lean         (the stages as MongoDB defines them; re-uses the oracles of
                                      C01 / C11 / C12)
  D     = Spec/PipelineDomain.lean   (decidable; named exclusion classes)

  Vocabulary: `Pipe.runPipeline db p docs` runs the stage list `p` on `docs`; a stage is the raw
  document `{op: opts}`; `Pipe.simpleStage db op opts docs` is the handler of `op` (every handler
  but `$facet`).
-/
import Proofs.C03
import Proofs.C03Ext


namespace MongoModel.Props.C03
open MongoModel MongoModel.Proofs.C11 MongoModel.Spec.Pipe

/-! ## sample data for the non-vacuity examples -/

def d0 : Val := .doc [("_id", .int 0), ("k", .int 1), ("a", .int 5), ("l", .arr [.int 1, .int 2])]
def d1 : Val := .doc [("_id", .int 1), ("k", .str "x"), ("a", .int 7), ("l", .arr [])]
def d2 : Val := .doc [("_id", .int 2), ("k", .int 1), ("a", .int 2)]
def d3 : Val := .doc [("_id", .int 3), ("a", .null), ("l", .arr [.int 3])]
def sample : List Val := [d0, d1, d2, d3]
def other : List Val := [.doc [("_id", .int 10), ("fk", .int 1)], .doc [("_id", .int 11), ("fk", .str "y")],
  .doc [("_id", .int 12), ("fk", .int 1)]]
def db : Pipe.Db := ⟨[("c", sample), ("other", other)]⟩

def isOk {α : Type} : R α → Bool
  | .ok _ => true
  | .error _ => false

/-- the run raises exactly this error -/
def failsWith {α : Type} (r : R α) (e : Err) : Bool :=
  match r with
  | .ok _ => false
  | .error e' => e' == e

def valIs (a b : Val) : Bool := Val.beq a b

/-! ## a pipeline is the left-to-right fold of its stages -/

/-- **pipeline_is_fold.** Running `p ++ q` is running `p`, then `q` on its output (an error of `p`
    is the error of the whole); and the run is the monadic left fold of `runStage`. -/
theorem pipeline_is_fold (db : Pipe.Db) (p q : List Val) (docs : List Val) :
    Pipe.runPipeline db (p ++ q) docs =
      (match Pipe.runPipeline db p docs with
       | .error e => .error e
       | .ok mid => Pipe.runPipeline db q mid) ∧
    Pipe.runPipeline db p docs = p.foldlM (fun ds st => Pipe.runStage db st ds) docs :=
  ⟨by rw [Pipe.Proofs.runPipeline_append]; cases Pipe.runPipeline db p docs <;> rfl,
   Pipe.Proofs.runPipeline_eq_foldlM db p docs⟩

/-- a stage document with one operator runs that operator's handler; every operator but
    `$facet` is handled without looking at the rest of the pipeline -/
theorem stage_dispatch (db : Pipe.Db) (op : String) (opts : Val) (docs : List Val) :
    Pipe.runStage db (.doc [(op, opts)]) docs = Pipe.runOp db op opts docs ∧
    (op ≠ "$facet" → Pipe.runOp db op opts docs = Pipe.simpleStage db op opts docs) :=
  ⟨Pipe.Proofs.runStage_single db op opts docs, Pipe.Proofs.runOp_simple db op opts docs⟩

/-- a stage must be a document with exactly one field: anything else — no operator, several
    operators, not a document — makes the run raise (as MongoDB rejects the pipeline), whatever
    the documents and whatever else the stage holds -/
theorem stage_must_have_one_field (db : Pipe.Db) (st : Val) (docs : List Val)
    (h : ∀ op opts, st ≠ .doc [(op, opts)]) :
    ∃ e, e ≠ Err.unmodelled ∧ Pipe.runStage db st docs = .error e := by
  refine Pipe.Proofs.runStage_rejected db st docs ?_
  unfold stageRejected
  split
  · rename_i op opts; exact absurd rfl (h op opts)
  · rfl

example : ∀ op opts, Val.doc [("$skip", .int 1), ("$limit", .int 1)] ≠ .doc [(op, opts)] := by
  intro op opts h; cases h

/-- **facet_branches.** `$facet` returns ONE document whose field `title_i` holds the output of
    the i-th sub-pipeline run on the very same input. -/
theorem facet_branches (db : Pipe.Db) (gs : Fields) (docs out : List Val)
    (h : Pipe.runOp db "$facet" (.doc gs) docs = .ok out) :
    ∃ fs, out = [.doc fs] ∧
      List.Forall₂ (fun (g o : String × Val) => ∃ p r, g = (o.1, .arr p) ∧ o.2 = .arr r ∧
        Pipe.runPipeline db p docs = .ok r) gs fs := by
  obtain ⟨fs, h1, h2⟩ := Pipe.Proofs.runOp_facet db gs docs out h
  exact ⟨fs, h1, Pipe.Proofs.facetBranches_ok db gs docs fs h2⟩

example : isOk (Pipe.runOp db "$facet" (.doc [("p", .arr [.doc [("$limit", .int 1)]]),
    ("q", .arr [.doc [("$count", .str "n")]])]) sample) = true := by decide +kernel

/-! ## agreement with the find path, and conservation -/

/-- **match_eq_find.** `$match` returns a sub-list of its input (order kept, nothing invented):
    exactly the documents on which the find matcher `filterApplies` answers true; on stored
    documents it is the very list `find(filter)` returns. -/
theorem match_eq_find (f : Val) (docs out : List Val) (h : Pipe.matchStage f docs = .ok out) :
    out.Sublist docs ∧
    (∀ d, d ∈ out ↔ d ∈ docs ∧ filterApplies (patch f) (patch d) = .ok true) ∧
    ((∀ d ∈ docs, patch d = d) → Pipe.findDocs f docs = .ok out) := by
  obtain ⟨h1, h2, _⟩ := Pipe.Proofs.matchStage_ok h
  exact ⟨h1, h2, fun hn => by rw [← Pipe.Proofs.matchStage_eq_findDocs f docs hn]; exact h⟩

/-- … and `$match` refuses exactly the filters `find` refuses, the empty collection included
    (the two entry points are one function of the filter and the stored documents). -/
theorem match_is_find (f : Val) (docs : List Val) (hn : ∀ d ∈ docs, patch d = d) :
    Pipe.matchStage f docs = Pipe.findDocs f docs :=
  Pipe.Proofs.matchStage_eq_findDocs f docs hn

example : isOk (Pipe.matchStage (.doc [("k", .int 1)]) sample) = true := by decide +kernel

/-- `findDocs` is the selection every read entry point is proved to share (C10's
    `Spec.selectDocs`), taken over the documents of the (key, document) store -/
theorem find_is_the_shared_selection (f : Val) (ps : List (Val × Val)) :
    (Spec.selectDocs f ps).map (fun l => l.map (·.2)) =
      Pipe.filterR (filterApplies f) (ps.map (·.2)) :=
  Pipe.Proofs.selectDocs_eq_filterR f ps

/-- **sort_perm.** Whatever the specification, when `$sort` answers its output is a permutation
    of its input. -/
theorem sort_perm (o : Val) (docs out : List Val) (h : Pipe.sortStage o docs = .ok out) :
    out.Perm docs :=
  Pipe.Proofs.sortStage_perm o docs out h

/-- **sort_eq_find_sort.** `$sort: {k₁: d₁, …}` is `find().sort([(k₁, d₁), …])` inside the domain
    of the sort oracle — the stable sort by the key-by-key BSON order. -/
theorem sort_eq_find_sort (spec : SortSpec) (docs : List Val)
    (h : Spec.Order.specReasons spec docs = []) :
    Pipe.sortStage (.doc (spec.map (fun kd => (kd.1, Val.int kd.2)))) docs
      = getDataset (some spec) docs ∧
    Pipe.sortStage (.doc (spec.map (fun kd => (kd.1, Val.int kd.2)))) docs
      = .ok (isort (Spec.Order.docLt spec) docs) := by
  have e : Pipe.sortStage (.doc (spec.map (fun kd => (kd.1, Val.int kd.2)))) docs
      = aggSort spec docs := Pipe.Proofs.sortFields_int spec docs
  exact ⟨by rw [e]; exact Props.C11.agg_sort_eq_find_sort spec docs h,
         by rw [e]; exact aggSort_eq_spec spec docs (specOk_of_reasons _ _ h)⟩

example : Spec.Order.specReasons [("a", -1), ("k", 1)] sample = [] := by decide +kernel

/-- **skip_limit_eq_slice.** `$skip n` with `n ≥ 0` / `$limit n` with `n > 0` are `drop` /
    `take` — the slices `find().skip(n)` / `.limit(n)` take; every other integer is refused
    (OperationFailure), as MongoDB refuses it. -/
theorem skip_limit_eq_slice (n : Int) (docs : List Val) :
    Pipe.skipStage (.int n) docs =
      (if 0 ≤ n then .ok (docs.drop n.toNat) else .error .opFail) ∧
    Pipe.limitStage (.int n) docs =
      (if 0 < n then .ok (docs.take n.toNat) else .error .opFail) :=
  ⟨Pipe.Proofs.skipStage_int n docs, Pipe.Proofs.limitStage_int n docs⟩

/-- … a double that holds a whole number is read as that integer (`$limit: 2.0` keeps two
    documents), and an argument that denotes no integer (a boolean, a fraction, a string, null,
    …) is refused -/
theorem skip_limit_count (o : Val) (docs : List Val) :
    (∀ n, sliceCount o = some n →
      Pipe.skipStage o docs = Pipe.skipStage (.int n) docs ∧
      Pipe.limitStage o docs = Pipe.limitStage (.int n) docs) ∧
    (sliceCount o = none →
      Pipe.skipStage o docs = .error .opFail ∧ Pipe.limitStage o docs = .error .opFail) := by
  refine ⟨fun n h => ?_, fun h => ?_⟩
  · have hc := (Pipe.Proofs.stageCount_eq_spec o).trans h
    exact ⟨by rw [Pipe.Proofs.skipStage_count o n docs hc, Pipe.Proofs.skipStage_int],
           by rw [Pipe.Proofs.limitStage_count o n docs hc, Pipe.Proofs.limitStage_int]⟩
  · have hc := (Pipe.Proofs.stageCount_eq_spec o).trans h
    exact ⟨Pipe.Proofs.skipStage_nocount o docs hc, Pipe.Proofs.limitStage_nocount o docs hc⟩

example : sliceCount (.dbl 2 0) = some 2 ∧ sliceCount (.dbl 6 1) = some 3 ∧
    sliceCount (.dbl 5 1) = none ∧ sliceCount (.bool true) = none ∧ sliceCount (.str "1") = none := by
  decide +kernel

theorem skip_limit_infix (o : Val) (docs out : List Val) :
    (Pipe.skipStage o docs = .ok out → out <:+ docs) ∧
    (Pipe.limitStage o docs = .ok out → out <+: docs) :=
  ⟨Pipe.Proofs.skipStage_suffix o docs out, Pipe.Proofs.limitStage_prefix o docs out⟩

/-- **skip_limit_eq_spec.** For EVERY argument the oracle speaks — documents, or REJECTED
    (`Spec.Pipe.argRejected`: no integer and no whole-number double, a negative `$skip`, a `$limit`
    that is not positive) — and the handler answers accordingly, error cases included.  (Full
    strength: the class `limitdouble` went with its repair.) -/
theorem skip_limit_eq_spec (db : Pipe.Db) (op : String) (o : Val) (docs : List Val)
    (hop : op = "$skip" ∨ op = "$limit") :
    ∃ v, specStageV op o docs = some v ∧ v.agrees (Pipe.simpleStage db op o docs) := by
  obtain ⟨⟨v, hv⟩, hD⟩ := Pipe.Proofs.slice_spec_total op o docs hop
  exact ⟨v, hv, Pipe.Proofs.stageV_eq_spec db op o docs v hD hv⟩

/-- the former witness of `limitdouble`: `$limit: 2.0` keeps two documents -/
example : (match Pipe.limitStage (.dbl 2 0) sample with
    | .ok out => out.length == 2 | .error _ => false) = true ∧
    isOk (Pipe.skipStage (.dbl 0 0) sample) = true ∧
    isOk (Pipe.limitStage (.dbl 5 1) sample) = false := by decide +kernel

/-- **count_eq_length.** `$count: name` answers one document `{name: len(input)}` — the number
    `count_documents({})` computes (`countDocuments n 0 absent = n`) — and NO document when there
    is no input. -/
theorem count_eq_length (o : Val) (docs out : List Val) (h : Pipe.countStage o docs = .ok out) :
    ∃ s, o = .str s ∧ out = (if docs.isEmpty then [] else [.doc [(s, .int docs.length)]]) ∧
      countDocuments docs.length 0 .absent = .ok (docs.length : Int) := by
  obtain ⟨s, h1, h2⟩ := Pipe.Proofs.countStage_ok o docs out h
  exact ⟨s, h1, h2, by simp [countDocuments]⟩

example : isOk (Pipe.countStage (.str "n") sample) = true ∧
    isOk (Pipe.countStage (.str "n") []) = true := by decide +kernel

/-- … and on an accepted name the stage IS the oracle's `$count`, the empty input included -/
theorem count_eq_spec (s : String) (docs : List Val) (hn : countName s = true) :
    Pipe.countStage (.str s) docs =
      .ok (if docs.isEmpty then [] else [.doc [(s, .int docs.length)]]) ∧
    specStage "$count" (.str s) docs =
      some (if docs.isEmpty then [] else [.doc [(s, .int docs.length)]]) :=
  ⟨Pipe.Proofs.count_eq_spec s docs hn, by simp [specStage, hn]⟩

example : countName "n" = true := by decide +kernel

/-- **project_eq_find_projection.** On a plain inclusion / exclusion specification the `$project`
    stage is `aggProject` (for every list of documents), hence — on the common domain of the two
    projection oracles — the document the find projection `copyOnlyFields` returns (which lists
    `_id` last in an inclusion: `Props.C12.idLast_perm`). -/
theorem project_eq_find_projection (options : Fields) (docs : List Val)
    (h : options.all (fun kv => isFlag kv.2) = true) :
    Pipe.projectStage (.doc options) docs = aggProject docs (.doc options) ∧
    (∀ d, Spec.Proj.inD (.doc options) d = true → Spec.Proj.aggInD (.doc options) d = true →
      ∃ a, Pipe.projectStage (.doc options) [d] = .ok [a] ∧
        copyOnlyFields d (.doc options) =
          .ok (if Spec.Proj.modeOf (.doc options) = some true then Spec.Proj.idLast a else a)) := by
  refine ⟨Pipe.Proofs.projectStage_flags options docs h, fun d hD hA => ?_⟩
  obtain ⟨a, h1, h2⟩ := Props.C12.find_eq_agg (.doc options) d hD hA
  exact ⟨a, by rw [Pipe.Proofs.projectStage_flags options [d] h]; exact h1, h2⟩

example : [("a", Val.int 1), ("k", Val.bool true), ("_id", Val.int 0)].all (fun kv => isFlag kv.2)
    = true ∧ Spec.Proj.inD (.doc [("a", .int 1), ("k", .bool true), ("_id", .int 0)]) d0 = true ∧
    Spec.Proj.aggInD (.doc [("a", .int 1), ("k", .bool true), ("_id", .int 0)]) d0 = true := by
  decide +kernel

/-- an exclusion that keeps `_id` explicitly (`{a: 0, _id: 1}`, `_id` in any position) is inside
    both domains: the stage accepts it, as the find projection does (it used to be refused) -/
example : [("a", Val.int 0), ("_id", Val.int 1)].all (fun kv => isFlag kv.2) = true ∧
    Spec.Proj.inD (.doc [("a", .int 0), ("_id", .int 1)]) d0 = true ∧
    Spec.Proj.aggInD (.doc [("a", .int 0), ("_id", .int 1)]) d0 = true ∧
    Spec.Proj.aggInD (.doc [("_id", .int 1), ("a", .int 0)]) d0 = true ∧
    isOk (Pipe.projectStage (.doc [("_id", .int 1), ("a", .int 0)]) sample) = true := by
  decide +kernel

/-! ## `$group` -/

/-- **group_conservation.** Whatever the key expression and accumulators, when `$group` answers
    there are groups `(key, documents)` such that the output is one document per group
    (`accumulate` of the group's documents, then `_id` = the key) and the groups together hold
    every input document exactly once (so the group sizes add up to the input length). -/
theorem group_conservation (options : Fields) (docs out : List Val)
    (h : Pipe.groupStage (.doc options) docs = .ok out) :
    ∃ rs : List (Val × List Val),
      List.Forall₂ (fun r o => ∃ fs, Pipe.accumulate options r.2 = .ok fs ∧
        o = .doc (dset "_id" r.1 fs)) rs out ∧
      (rs.flatMap (·.2)).Perm docs ∧
      (rs.map (fun r => r.2.length)).sum = docs.length := by
  obtain ⟨rs, h1, h2⟩ := Pipe.Proofs.groupStage_groups options docs out h
  refine ⟨rs, Pipe.Proofs.emitGroups_ok options rs out h1, h2, ?_⟩
  rw [← h2.length_eq, List.length_flatMap]

example : isOk (Pipe.groupStage (.doc [("_id", .str "$k"), ("n", .doc [("$sum", .int 1)])]) sample)
    = true := by decide +kernel

/-- **group_partition (on D: scalar keys, no booleans).** The groups have pairwise different
    keys; the group of key `k` holds exactly the documents whose key is equal to `k`, in input
    order; every document's key has a group.  `kds` is the input paired with its keys.  The `_id`
    expression is anything but null — a constant (0, "", …) included: its value is the key of the
    one group.  (`_partial`: boolean and document keys are the findings groupboolnum, groupdockey.) -/
theorem group_partition_partial (options : Fields) (idExpr : Val) (docs out : List Val)
    (kds : List (Val × Val))
    (hid : dget "_id" options = some idExpr) (ht : Expr.isNull idExpr = false)
    (hk : Pipe.keyed idExpr docs = .ok kds) (hK : ∀ p ∈ kds, groupKeyOk p.1 = true)
    (h : Pipe.groupStage (.doc options) docs = .ok out) :
    (kds.map (·.2) = docs ∧ ∀ p ∈ kds, Pipe.groupKey idExpr p.2 = .ok p.1) ∧
    ∃ rs : List (Val × List Val),
      List.Forall₂ (fun r o => ∃ fs, Pipe.accumulate options r.2 = .ok fs ∧
        o = .doc (dset "_id" r.1 fs)) rs out ∧
      rs.Pairwise (fun a b => pyEq a.1 b.1 = false) ∧
      (∀ r ∈ rs, (∃ p ∈ kds, p.1 = r.1) ∧
        r.2 = (kds.filter (fun p => pyEq r.1 p.1)).map (·.2)) ∧
      (∀ p ∈ kds, ∃ r ∈ rs, pyEq r.1 p.1 = true) := by
  refine ⟨Pipe.Proofs.keyed_ok idExpr docs kds hk, ?_⟩
  obtain ⟨rs, h1, h2, h3, h4⟩ :=
    Pipe.Proofs.groupStage_partition options idExpr docs out kds hid ht hk hK h
  exact ⟨rs, Pipe.Proofs.emitGroups_ok options rs out h1, h2, h3, h4⟩

/-- the hypotheses are inhabited: keys 1, "x", 1, null (missing) over the sample; and the falsy
    constant `0` is a key expression like any other -/
example : (match Pipe.keyed (.str "$k") sample with
    | .ok kds => kds.all (fun p => groupKeyOk p.1) && kds.length == 4
    | .error _ => false) = true ∧
    Expr.isNull (.int 0) = false ∧
    (match Pipe.keyed (.int 0) sample with
     | .ok kds => kds.all (fun p => valIs p.1 (.int 0)) && kds.length == 4
     | .error _ => false) = true := by decide +kernel

/-- **group_validates_first.** The accumulators of a `$group` are checked BEFORE any document —
    or `_id` — is read (`Pipe.validateAccs`: every operator of every output field must be an
    implemented accumulator): a bad name is THE error of the stage whatever the documents, none
    included, and whatever else is wrong with the stage; a stage that answers passed the check. -/
theorem group_validates_first (options : Fields) (docs : List Val) :
    (∀ e, Pipe.validateAccs options = .error e → Pipe.groupStage (.doc options) docs = .error e) ∧
    (∀ out, Pipe.groupStage (.doc options) docs = .ok out → Pipe.validateAccs options = .ok ()) :=
  ⟨fun e h => Pipe.Proofs.groupStage_invalid options docs e h,
   fun out h => (Pipe.Proofs.groupStage_ok options docs out h).1⟩

/-- an unknown accumulator is refused over no input too, and before a bad `_id` expression -/
example : Pipe.validateAccs [("_id", .null), ("x", .doc [("$foo", .str "$a")])] = .error .notImpl ∧
    Pipe.validateAccs [("x", .doc [("$stdDevPop", .str "$a")])] = .error .notImpl ∧
    Pipe.validateAccs [("_id", .doc [("$bogus", .int 1)]), ("x", .int 5)] = .error .attrErr ∧
    Pipe.validateAccs [("_id", .str "$k"), ("n", .doc [("$sum", .int 1)])] = .ok () := by
  decide +kernel

/-- **group_null_id / group_empty_input.** `_id: null` puts every document in ONE group, in input
    order; and over no input `$group` answers no group at all — whatever the `_id` expression,
    a constant included (the accumulators being checked all the same). -/
theorem group_null_id (options : Fields) (docs : List Val)
    (hid : dget "_id" options = some .null) (hv : Pipe.validateAccs options = .ok ()) :
    Pipe.groupStage (.doc options) docs =
      Pipe.emitGroups options (if docs.isEmpty then [] else [(.null, docs)]) :=
  Pipe.Proofs.groupStage_null_id options docs hid hv

theorem group_empty_input (options : Fields) (idExpr : Val)
    (hid : dget "_id" options = some idExpr) :
    Pipe.groupStage (.doc options) [] =
      (match Pipe.validateAccs options with
       | .error e => .error e
       | .ok _ => .ok []) :=
  Pipe.Proofs.groupStage_empty options idExpr hid

example : dget "_id" [("_id", Val.null), ("n", .doc [("$sum", .int 1)])] = some .null ∧
    dget "_id" [("_id", Val.int 0), ("n", .doc [("$sum", .int 1)])] = some (.int 0) ∧
    Pipe.validateAccs [("_id", Val.null), ("n", .doc [("$sum", .int 1)])] = .ok () :=
  ⟨rfl, rfl, by decide +kernel⟩

/-- on such keys Python's `==` is MongoDB's key equality (the tie of the BSON order) -/
theorem group_key_equality (a b : Val) (ha : groupKeyOk a = true) (hb : groupKeyOk b = true) :
    pyEq a b = keyEq a b :=
  Pipe.Proofs.pyEq_eq_tie a b ha hb

/-- the keys-pairwise-distinct law without the domain hypothesis, as a decidable check -/
def distinctKeysB : List (Val × List Val) → Bool
  | [] => true
  | r :: rs => rs.all (fun r' => !pyEq r.1 r'.1) && distinctKeysB rs

def group_keys_distinct_full : Prop :=
  ∀ kds : List (Val × Val),
    (match pySorted Pipe.keyedLt false kds with
     | .ok sorted => distinctKeysB (Pipe.groupRuns sorted)
     | .error _ => true) = true

/-- False of the code as it stands (known finding `groupboolnum`): keys `true, 2, 1` sort as
    `1, 2, true` (BSON type order), so `1` and `true` — equal for `groupby` — end in two groups. -/
theorem group_keys_distinct_full_fails : ¬ group_keys_distinct_full := by
  intro h
  have := h [(.bool true, .null), (.int 2, .null), (.int 1, .null)]
  revert this
  decide +kernel

/-- the accumulators against the oracle's folds: `$push` keeps every value in input order,
    `$first` / `$last` the first / last one, `$sum` adds integers -/
theorem accumulators_spec (values : List Val) (is : List Int) :
    Pipe.accApply "$push" values = .ok (.arr values) ∧
    Pipe.accApply "$first" values = .ok (specFirst (values.map some)) ∧
    Pipe.accApply "$last" values = .ok (specLast (values.map some)) ∧
    Pipe.accApply "$sum" (is.map Val.int) = .ok (.int (specSumInt ((is.map Val.int).map some))) :=
  ⟨Pipe.Proofs.acc_push values, Pipe.Proofs.acc_first values, Pipe.Proofs.acc_last values,
   Pipe.Proofs.acc_sum_ints is⟩

/-- the values an accumulator folds: its expression — evaluated like every computed field
    (`Expr.evalExpr`: an operator reads a missing operand as null) — on every document of the
    group in input order; a document on which the value is missing is skipped, except by `$first`
    / `$last`, which read null there (`seenValues`) -/
theorem accumulator_values (firstLast : Bool) (key : Val) (g vs : List Val)
    (h : Pipe.accValues firstLast key g = .ok vs) :
    ∃ rs : List (Option Val),
      List.Forall₂ (fun d r => Expr.evalExpr d key = .ok r) g rs ∧
      vs = Pipe.Proofs.seenValues firstLast rs :=
  Pipe.Proofs.accValues_ok firstLast key g vs h

example : isOk (Pipe.accValues false (.str "$a") sample) = true ∧
    isOk (Pipe.accValues true (.str "$zz") sample) = true := by decide +kernel

/-- **first_last_spec.** `$first` / `$last` answer the value of the group's first / last
    document, NULL when it is missing there — at full strength, whatever the values. -/
theorem first_last_spec (rs : List (Option Val)) :
    Pipe.accApply "$first" (Pipe.Proofs.seenValues true rs) = .ok (specFirst rs) ∧
    Pipe.accApply "$last" (Pipe.Proofs.seenValues true rs) = .ok (specLast rs) :=
  ⟨Pipe.Proofs.acc_first_seen rs, Pipe.Proofs.acc_last_seen rs⟩

/-- the former witness of `firstmissing`: the first document lacks the field → null -/
example : (match Pipe.accValues true (.str "$a")
      [.doc [("_id", .int 0)], .doc [("_id", .int 1), ("a", .int 7)]] with
    | .ok vs => (match Pipe.accApply "$first" vs with | .ok v => valIs v .null | .error _ => false)
    | .error _ => false) = true := by decide +kernel

/-- the full-strength `$addToSet` law: the distinct values -/
def addToSet_spec_full : Prop :=
  ∀ vs : List Val, (match Pipe.accApply "$addToSet" vs with
    | .ok v => valIs v (.arr (specAddToSet vs))
    | .error _ => true) = true

/-- False of the code as it stands (finding `addtosetboolnum`, of the family of `groupboolnum`):
    membership is Python's `==`, so `true` and `1` are one value.  (Falsy values are kept as they
    are since the repair of `addtosetfalsy`: see `acc_addToSet_spec_partial`.) -/
theorem addToSet_spec_full_fails : ¬ addToSet_spec_full := by
  intro h
  have := h [.bool true, .int 1]
  revert this
  decide +kernel

/-- **bucket_conservation.** When `$bucket` answers, its output is one document per bucket
    (`accumulate` of the bucket's documents under the `output` specification, `_id` = the bucket
    id) and the buckets together hold every input document exactly once. -/
theorem bucket_conservation (o : Fields) (docs out : List Val)
    (h : Pipe.bucketStage (.doc o) docs = .ok out) :
    ∃ (output : Fields) (rs : List (Val × List Val)),
      List.Forall₂ (fun r d => ∃ fs, Pipe.accumulate output r.2 = .ok fs ∧
        d = .doc (dset "_id" r.1 fs)) rs out ∧
      (rs.flatMap (·.2)).Perm docs := by
  obtain ⟨output, rs, h1, h2⟩ := Pipe.Proofs.bucketStage_groups o docs out h
  exact ⟨output, rs, Pipe.Proofs.emitGroups_ok output rs out h1, h2⟩

example : isOk (Pipe.bucketStage (.doc [("groupBy", .str "$a"),
    ("boundaries", .arr [.int 0, .int 5, .int 10]), ("default", .str "other")]) [d0, d1, d2]) = true := by
  decide +kernel

/-- `$bucket` checks the accumulators of its `output` before it classifies any document: an
    unknown one is refused over no input too (and comes after the option / boundaries checks) -/
example : failsWith (Pipe.bucketStage (.doc [("groupBy", .str "$a"),
      ("boundaries", .arr [.int 0, .int 5]),
      ("output", .doc [("x", .doc [("$foo", .str "$a")])])]) []) .notImpl = true ∧
    failsWith (Pipe.bucketStage (.doc [("groupBy", .str "$a"), ("boundaries", .arr [.int 5, .int 0]),
      ("output", .doc [("x", .doc [("$foo", .str "$a")])])]) []) .opFail = true ∧
    failsWith (Pipe.groupStage (.doc [("_id", .doc [("$bogus", .int 1)]),
      ("x", .doc [("$stdDevPop", .str "$a")])]) sample) .notImpl = true := by decide +kernel

/-- **bucket_classification.** The bucket of a document whose `groupBy` value is a number `x`:
    the largest boundary `≤ x` when `x` lies in `[first, last)`, the default bucket otherwise
    (no default: OperationFailure). -/
theorem bucket_classification (c : Pipe.BucketCfg) (d v : Val) (x : Num)
    (hv : Expr.evalExprStrict d c.groupBy = .ok (some v)) (hx : v.num? = some x) :
    let index := (c.bounds.filter (fun b => match b.num? with
                                            | some y => Num.le y x | none => false)).length
    Pipe.bucketId c d =
      (if index ≠ 0 && index < c.bounds.length then
        (match c.bounds[index - 1]? with
         | some b => .ok (false, b)
         | none => unmodelled)
       else match c.default with
         | some dv => .ok (c.defaultLast, dv)
         | none => .error .opFail) := by
  intro index
  unfold Pipe.bucketId
  simp only [hv, hx]
  rfl

/-! ## `$unwind` -/

/-- **unwind_flatMap.** The output is the concatenation, in input order, of what each document
    yields by itself (so its length is the sum of the per-document lengths). -/
theorem unwind_flatMap (opts : Val) (docs out : List Val)
    (h : Pipe.unwindStage opts docs = .ok out) :
    ∃ o parts, Pipe.unwindOpts opts = .ok o ∧
      List.Forall₂ (fun d p => Pipe.unwindDoc o d = .ok p) docs parts ∧ out = parts.flatten ∧
      out.length = (parts.map List.length).sum := by
  obtain ⟨o, parts, h1, h2, h3⟩ := Pipe.Proofs.unwindStage_flat opts docs out h
  exact ⟨o, parts, h1, h2, h3, by rw [h3, List.length_flatten]⟩

/-- a document whose field holds a non-empty array yields one document per element, in order:
    the input with the field replaced by the element (then the index written when asked for);
    missing / null / empty-array fields drop the document, or keep it once when
    `preserveNullAndEmptyArrays`. -/
theorem unwind_one_per_element (o : Pipe.UnwindOpts) (d : Val) (x : Val) (xs out : List Val)
    (hg : getByDot d o.path = .ok (.arr (x :: xs))) (h : Pipe.unwindDoc o d = .ok out) :
    out.length = (x :: xs).length ∧
      ∀ (j : Nat) (y : Val), (x :: xs)[j]? = some y →
        ∃ nd, out[j]? = some nd ∧ Pipe.unwindItem o d (some j) y = .ok nd :=
  Pipe.Proofs.unwindDoc_array o d x xs out hg h

example : (match getByDot d0 "l" with | .ok (.arr (_ :: _)) => true | _ => false) = true ∧
    isOk (Pipe.unwindDoc ⟨"l", false, none⟩ d0) = true := by decide +kernel

theorem unwind_missing_null_empty (o : Pipe.UnwindOpts) (d : Val) :
    (getByDot d o.path = .error .keyErr →
      Pipe.unwindDoc o d = if o.preserve then (Pipe.preserved o d).map (fun nd => [nd]) else .ok []) ∧
    (getByDot d o.path = .ok .null →
      Pipe.unwindDoc o d = if o.preserve then (Pipe.preserved o d).map (fun nd => [nd]) else .ok []) ∧
    (getByDot d o.path = .ok (.arr []) → o.preserve = false → Pipe.unwindDoc o d = .ok []) :=
  ⟨Pipe.Proofs.unwindDoc_missing o d, Pipe.Proofs.unwindDoc_null o d,
   Pipe.Proofs.unwindDoc_empty_drop o d⟩

/-- a document kept by `preserveNullAndEmptyArrays` is the document itself, or — when
    `includeArrayIndex` names a field — the document with that field set to NULL -/
theorem unwind_preserved (path : String) (pres : Bool) (d : Val) (ix : String) (fs : Fields) :
    Pipe.preserved ⟨path, pres, none⟩ d = .ok d ∧
    Pipe.preserved ⟨path, pres, some ix⟩ (.doc fs) =
      .ok (.doc (withIndex (some ix) .null fs)) :=
  ⟨rfl, Pipe.Proofs.preserved_any path pres (some ix) fs⟩

/-- on a top-level field the replaced document is the input with that one field set -/
theorem unwind_item_top (path : String) (pres : Bool) (fs : Fields) (idx : Option Nat) (item : Val)
    (hp : splitDots path = [path]) :
    Pipe.unwindItem ⟨path, pres, none⟩ (.doc fs) idx item = .ok (.doc (dset path item fs)) ∧
    (∀ k, k ≠ path → dget k (dset path item fs) = dget k fs) :=
  ⟨Pipe.Proofs.unwindItem_top path pres fs idx item hp,
   fun k hk => Pipe.Proofs.dget_dset_other path k item hk fs⟩

example : splitDots "l" = ["l"] := by decide +kernel

/-! ## `$lookup`, `$addFields` / `$set`, `$replaceRoot` -/

/-- **lookup_spec.** One output per input, in order; output `i` is input `i` with the `as` field
    set to the array of the foreign documents `find({foreignField: q})` selects — a sub-list of
    the foreign collection, in its order, exactly those the matcher accepts for the local value
    `q` (null when missing, `$in` for a list), handed over in stored form (`patch` of each:
    nothing changes on documents that are stored ones, `lookup_fetches_stored_form`); no other
    field changes. -/
theorem lookup_spec (db : Pipe.Db) (o : Fields) (docs out : List Val)
    (h : Pipe.lookupStage db (.doc o) docs = .ok out) :
    ∃ fr lf ff as, Pipe.lookupArg o "from" = .ok fr ∧ Pipe.lookupArg o "localField" = .ok lf ∧
      Pipe.lookupArg o "foreignField" = .ok ff ∧ Pipe.lookupArg o "as" = .ok as ∧
      List.Forall₂ (fun d r =>
        ∃ (fs : Fields) (q : Val) (ms : List Val), d = .doc fs ∧ Pipe.lookupQuery fs lf = .ok q ∧
          r = .doc (dset as (.arr (ms.map patch)) fs) ∧ ms.Sublist (db.get fr) ∧
          (∀ x, x ∈ ms ↔ x ∈ db.get fr ∧ filterApplies (patch (.doc [(ff, q)])) x = .ok true) ∧
          (∀ k, k ≠ as → dget k (dset as (.arr (ms.map patch)) fs) = dget k fs)) docs out := by
  obtain ⟨fr, lf, ff, as, h1, h2, h3, h4, h5⟩ := Pipe.Proofs.lookupStage_ok db o docs out h
  refine ⟨fr, lf, ff, as, h1, h2, h3, h4, ?_⟩
  refine h5.imp ?_
  intro d r hdr
  obtain ⟨fs, q, ms, e1, e2, _, e4, e5, e6, _⟩ := Pipe.Proofs.lookupDoc_ok _ lf ff as d r hdr
  exact ⟨fs, q, ms, e1, e2, by rw [← MongoModel.Proofs.C18.patchList_eq_map]; exact e4, e5, e6,
    fun k hk => Pipe.Proofs.dget_dset_other as k _ hk fs⟩

/-- the fetched documents are handed over as stored: on a foreign collection that holds stored
    documents (datetimes naive, whole milliseconds) the normalisation is the identity -/
theorem lookup_fetches_stored_form (ms : List Val) (h : ∀ x ∈ ms, normalV x = true) :
    ms.map patch = ms := by
  conv => rhs; rw [← List.map_id ms]
  exact List.map_congr_left (fun x hx => by simpa using Pipe.Proofs.normalV_patch x (h x hx))

example : ∀ x ∈ other, normalV x = true := by decide +kernel

example : isOk (Pipe.lookupStage db (.doc [("from", .str "other"), ("localField", .str "k"),
    ("foreignField", .str "fk"), ("as", .str "j")]) sample) = true := by decide +kernel

/-- **addFields_map / replaceRoot_map.** Both stages rewrite each document independently: the
    output has one document per input, in order, and output `i` is a function of input `i` alone
    (`addFieldsDoc fs`, `replaceRootDoc e`). -/
theorem addFields_map (fs : Fields) (docs out : List Val)
    (h : Pipe.addFieldsStage (.doc fs) docs = .ok out) :
    List.Forall₂ (fun d r => Pipe.Proofs.addFieldsDoc fs d = .ok r) docs out ∧
    out.length = docs.length := by
  have := Pipe.Proofs.addFieldsStage_ok fs docs out h
  exact ⟨this, this.length_eq.symm⟩

example : isOk (Pipe.addFieldsStage (.doc [("r", .doc [("$add", .arr [.str "$a", .int 1])])])
    [d0, d2]) = true := by decide +kernel

theorem replaceRoot_map (fs : Fields) (docs out : List Val)
    (h : Pipe.replaceRootStage (.doc fs) docs = .ok out) :
    ∃ e, dget "newRoot" fs = some e ∧
      List.Forall₂ (fun d r => Pipe.replaceRootDoc e d = .ok r) docs out ∧
      out.length = docs.length := by
  obtain ⟨e, h1, h2⟩ := Pipe.Proofs.replaceRootStage_ok fs docs out h
  exact ⟨e, h1, h2, h2.length_eq.symm⟩

example : isOk (Pipe.replaceRootStage (.doc [("newRoot", .doc [("x", .str "$a")])]) sample) = true := by
  decide +kernel

/-! ## the model against the oracle -/

/-- **stage_eq_spec (on D).** Wherever the oracle speaks about a stage and the case lies in the
    domain, the handler returns exactly what the oracle says. -/
theorem stage_eq_spec_partial (db : Pipe.Db) (op : String) (opts : Val) (docs s : List Val)
    (hD : stageReasons op opts docs = []) (hs : specStage op opts docs = some s) :
    Pipe.simpleStage db op opts docs = .ok s :=
  Pipe.Proofs.stage_eq_spec db op opts docs s hD hs

example : stageReasons "$unwind" (.str "$l") sample = [] ∧
    (specStage "$unwind" (.str "$l") sample).isSome = true := by decide +kernel

example : stageReasons "$match" (.doc [("a", .doc [("$gt", .int 2)])]) sample = [] ∧
    (specStage "$match" (.doc [("a", .doc [("$gt", .int 2)])]) sample).isSome = true := by
  decide +kernel

/-- **pipeline_eq_spec (on D).** A pipeline of single-operator stages each of which lies in the
    domain on the documents the oracle feeds it computes what the oracle computes. -/
theorem pipeline_eq_spec_partial (db : Pipe.Db) (p docs s : List Val)
    (hD : pipelineReasons p docs = []) (hs : specPipeline p docs = some s) :
    Pipe.runPipeline db p docs = .ok s :=
  Pipe.Proofs.pipeline_eq_spec db p docs s hD hs

example : inD [.doc [("$match", .doc [("a", .doc [("$gt", .int 2)])])],
               .doc [("$unwind", .str "$l")], .doc [("$sort", .doc [("a", .int (-1))])],
               .doc [("$limit", .int 2)], .doc [("$count", .str "n")]] sample = true := by
  decide +kernel

/-- **stage_rejected_spec.** What MongoDB rejects the code refuses: a `$limit` / `$skip` / `$count`
    argument the rules do not accept raises OperationFailure whatever the input, and a pipeline
    holding a rejected stage (or a stage that is not a one-field document) never answers
    documents — wherever that stage stands and whatever the other stages are. -/
theorem stage_rejected_spec (db : Pipe.Db) (op : String) (opts : Val) (docs : List Val)
    (h : argRejected op opts = true) : Pipe.simpleStage db op opts docs = .error .opFail :=
  Pipe.Proofs.argRejected_opFail db op opts docs h

example : argRejected "$limit" (.int 0) = true ∧ argRejected "$skip" (.int (-1)) = true ∧
    argRejected "$limit" (.dbl 5 1) = true ∧ argRejected "$count" (.str "a.b") = true ∧
    argRejected "$limit" (.bool true) = true ∧ argRejected "$skip" (.int 0) = false := by
  decide +kernel

theorem pipeline_rejected_spec (db : Pipe.Db) (p docs : List Val)
    (h : p.any stageRejected = true) : ∀ out, Pipe.runPipeline db p docs ≠ .ok out :=
  Pipe.Proofs.runPipeline_rejected db p docs h

example : [Val.doc [("$match", .doc [])], .doc [("$limit", .int (-1))]].any stageRejected = true ∧
    [Val.doc [("$match", .doc [])], .doc []].any stageRejected = true := by decide +kernel

/-- **pipelineV_eq_spec (on D).** `pipeline_eq_spec_partial` for the oracle's VERDICT: the
    documents of `specPipeline`, or rejected. -/
theorem pipelineV_eq_spec_partial (db : Pipe.Db) (p docs : List Val) (v : Verdict)
    (hD : pipelineReasonsV p docs = []) (hs : specPipelineV p docs = some v) :
    v.agrees (Pipe.runPipeline db p docs) :=
  Pipe.Proofs.pipelineV_eq_spec db p docs v hD hs

example : pipelineReasonsV [.doc [("$unwind", .str "$l")], .doc [("$skip", .int (-2))]] sample = [] ∧
    (match specPipelineV [.doc [("$unwind", .str "$l")], .doc [("$skip", .int (-2))]] sample with
     | some .rejected => true | _ => false) = true := by decide +kernel

def optDocsAre' (l r : List Val) : Bool := beqList l r

/-- **aggregate_normalises_pipeline.** `Collection.aggregate` hands the stages the pipeline with
    every datetime written in it read as UTC milliseconds, naive — the form of the stored ones
    (`Pipe.normPipeline` = `patch` of every stage): the normalised pipeline holds stored-form
    datetimes only, normalising twice changes nothing, and a pipeline already in that form is
    run as it is. -/
theorem aggregate_normalises_pipeline (db : Pipe.Db) (coll : String) (stages : List Val) :
    Pipe.aggregate db coll (.arr stages) =
      Pipe.runPipeline db (Pipe.normPipeline stages) (db.get coll) ∧
    (∀ st ∈ Pipe.normPipeline stages, normalV st = true) ∧
    Pipe.normPipeline (Pipe.normPipeline stages) = Pipe.normPipeline stages ∧
    ((∀ st ∈ stages, normalV st = true) → Pipe.normPipeline stages = stages) :=
  ⟨rfl, Pipe.Proofs.normPipeline_normal stages, Pipe.Proofs.normPipeline_idem stages,
   Pipe.Proofs.normPipeline_fixes stages⟩

/-- an aware datetime with microseconds in `$addFields` / `$match` is the stored millisecond -/
example : beqList (Pipe.normPipeline
      [.doc [("$addFields", .doc [("t2", .date 1577856600123456 (some 330))])],
       .doc [("$match", .doc [("t", .doc [("$gte", .date 1577836800000999 none)])])]])
      [.doc [("$addFields", .doc [("t2", .date 1577836800123000 none)])],
       .doc [("$match", .doc [("t", .doc [("$gte", .date 1577836800000000 none)])])]] = true := by
  decide +kernel

/-- **aggregate_eq_spec (on D).** The entry point against the oracle's verdict: `aggregate`
    answers what the oracle says about the pipeline AS THE SERVER IS SENT IT (datetimes
    normalised), on the stored documents of the collection. -/
theorem aggregate_eq_spec_partial (db : Pipe.Db) (coll : String) (stages : List Val) (v : Verdict)
    (hD : pipelineReasonsV (Pipe.normPipeline stages) (db.get coll) = [])
    (hs : specPipelineV (Pipe.normPipeline stages) (db.get coll) = some v) :
    v.agrees (Pipe.aggregate db coll (.arr stages)) :=
  Pipe.Proofs.pipelineV_eq_spec db (Pipe.normPipeline stages) (db.get coll) v hD hs

example : pipelineReasonsV (Pipe.normPipeline [.doc [("$match", .doc [("a", .doc [("$gt", .int 2)])])],
      .doc [("$limit", .dbl 2 0)]]) (db.get "c") = [] ∧
    (match specPipelineV (Pipe.normPipeline [.doc [("$match", .doc [("a", .doc [("$gt", .int 2)])])],
      .doc [("$limit", .dbl 2 0)]]) (db.get "c") with
     | some (.docs out) => out.length == 2 | _ => false) = true := by decide +kernel

def agreeB : R (List Val) → Option (List Val) → Bool
  | .ok a, some b => beqList a b
  | .error _, some _ => false
  | _, none => true

/-- the full-strength statement: wherever the oracle speaks, the handler answers the same -/
def stage_eq_spec_full : Prop :=
  ∀ (op : String) (opts : Val) (docs : List Val),
    agreeB (Pipe.simpleStage ⟨[]⟩ op opts docs) (specStage op opts docs) = true

/-- False of the code as it stands — no longer through a class of this property's own
    (`countempty`, `limitdouble` are repaired: on `$skip` / `$limit` / `$count` / `$unwind` the
    handler IS the oracle, see `skip_limit_eq_spec`, `count_eq_spec`, `unwind_eq_spec`), but
    through the findings of the rules the other oracles are built from: C01 `boolnum`, `{a: 1}`
    selects `{a: true}` (Python `==`). -/
theorem stage_eq_spec_full_fails : ¬ stage_eq_spec_full := by
  intro h
  have := h "$match" (.doc [("a", .int 1)]) [.doc [("a", .bool true)]]
  revert this
  decide +kernel

/-- **unwind_eq_spec.** `$unwind` of a top-level field against the oracle, at full strength —
    every document, `preserveNullAndEmptyArrays` or not, with or without `includeArrayIndex`
    (whatever its name): one document per element with the field replaced by the element and the
    index written after it; null index on a value that is no array and on a preserved document. -/
theorem unwind_eq_spec (f : String) (pres : Bool) (ix : Option String) (fs : Fields)
    (hf : splitDots f = [f]) :
    Pipe.unwindDoc ⟨f, pres, ix⟩ (.doc fs) = .ok (specUnwindDoc f pres ix (.doc fs)) :=
  Pipe.Proofs.unwindDoc_eq_spec f pres ix fs hf

example : splitDots "l" = ["l"] ∧
    optDocsAre' (specUnwindDoc "l" true (some "p.i") d0)
      [.doc [("_id", .int 0), ("k", .int 1), ("a", .int 5), ("l", .int 1), ("p", .doc [("i", .int 0)])],
       .doc [("_id", .int 0), ("k", .int 1), ("a", .int 5), ("l", .int 2), ("p", .doc [("i", .int 1)])]]
      = true ∧
    optDocsAre' (specUnwindDoc "l" true (some "a.i") d1)
      [.doc [("_id", .int 1), ("k", .str "x"), ("a", .doc [("i", .null)])]] = true ∧
    optDocsAre' (specUnwindDoc "l" true (some "i") d2)
      [.doc [("_id", .int 2), ("k", .int 1), ("a", .int 2), ("i", .null)]] = true := by
  decide +kernel

/-- … the stage, for the specifications the oracle reads (`unwindArgs`), on documents -/
theorem unwind_stage_eq_spec (opts : Val) (f : String) (pres : Bool) (ix : Option String)
    (docs : List Val) (ha : unwindArgs opts = some (f, pres, ix))
    (hd : ∀ d ∈ docs, ∃ fs, d = .doc fs) :
    Pipe.unwindStage opts docs = .ok (docs.flatMap (specUnwindDoc f pres ix)) :=
  Pipe.Proofs.unwind_eq_spec opts f pres ix docs ha hd

example : (unwindArgs (.doc [("path", .str "$l"), ("preserveNullAndEmptyArrays", .bool true),
    ("includeArrayIndex", .str "p.i")])).isSome = true := by decide +kernel

/-- **unwind_index_written.** What the oracle writes for `includeArrayIndex: k₁.k₂.…`: the index
    can be read back along that name through sub-documents (created, or put in the place of
    whatever was there), and no top-level field other than `k₁` changes. -/
theorem unwind_index_written (k : String) (ks : List String) (i : Val) (gs : Fields) :
    getNested (k :: ks) (setNested (k :: ks) i gs) = some i ∧
    ∀ k', k' ≠ k → dget k' (setNested (k :: ks) i gs) = dget k' gs :=
  ⟨Pipe.Proofs.getNested_setNested (k :: ks) i gs (by simp),
   fun k' h => Pipe.Proofs.dget_setNested_other k k' h ks i gs⟩

/-! ## extension: the remaining stages against the oracle (Spec/PipelineExt.lean)

  The oracle of Spec/PipelineExt.lean speaks about `$group` (with the accumulators `$sum $avg $min
  $max $first $last $push $addToSet`), `$lookup`, `$addFields` / `$set`, `$replaceRoot` and
  `$facet`; expression values are those of the C04 oracle `Spec.specEval`, reached through
  `Props.C04.eval_eq_spec_partial`.  Every domain is a decidable list of named reasons. -/

section Extension
open MongoModel.Spec

/-! ### accumulators -/

/-- **acc_minmax_spec.** Over scalar values of ANY types — null (skipped), booleans, numbers,
    strings, naive dates, ObjectIds: everything `Spec.Order.valLt` places (`orderScalar`; arrays
    and documents are outside that order: scope) — `$min` / `$max` answer the smallest / largest
    value in the BSON order, the earliest among equals, null when there is none. -/
theorem acc_minmax_spec (values : List Val) (h : values.all orderScalar = true) :
    Pipe.accApply "$min" values = .ok (specExtremum false (values.map some)) ∧
    Pipe.accApply "$max" values = .ok (specExtremum true (values.map some)) :=
  ⟨by simpa [Pipe.accApply] using Pipe.Proofs.acc_minmax false values h,
   by simpa [Pipe.accApply] using Pipe.Proofs.acc_minmax true values h⟩

def accIs (r : R Val) (v : Val) : Bool :=
  match r with
  | .ok x => valIs x v
  | .error _ => false

/-- several types at once (the former witness of `minmaxtypes` is the first line): a string is
    larger than every number, a boolean larger than both -/
example : [Val.int 1, .str "x"].all orderScalar = true ∧
    accIs (Pipe.accApply "$max" [.int 1, .str "x"]) (.str "x") = true ∧
    accIs (Pipe.accApply "$min" [.str "b", .null, .dbl 5 1, .bool false, .int (-2)]) (.int (-2)) = true ∧
    accIs (Pipe.accApply "$max" [.str "b", .null, .dbl 5 1, .bool false, .int (-2)]) (.bool false) = true ∧
    [Val.date 1000 none, .date 0 none, .oid 3].all orderScalar = true := by decide +kernel

/-- the oracle answers exactly this value / these documents (a decidable check: `Val` has
    structural `beq`, no `DecidableEq`) -/
def optValIs (r : Option Val) (v : Val) : Bool :=
  match r with
  | some x => valIs x v
  | none => false

def optDocsAre (r : Option (List Val)) (l : List Val) : Bool :=
  match r with
  | some x => beqList x l
  | none => false

/-- **acc_sum_spec.** `$sum` adds the integers and ignores what is not a number — a boolean
    included — when no value is a double (outside the integer oracle: scope). -/
theorem acc_sum_spec (values : List Val) (h : values.all sumOk = true) :
    Pipe.accApply "$sum" values = .ok (.int (specSumInt (values.map some))) :=
  Pipe.Proofs.acc_sum values (fun v hv => List.all_eq_true.mp h v hv)

/-- (the second line is the former witness of `sumbool`) -/
example : [Val.int 3, .str "x", .null, .bool true, .int 4].all sumOk = true ∧
    accIs (Pipe.accApply "$sum" [.bool true, .int 2]) (.int 2) = true := by decide +kernel

/-- **acc_avg_spec.** `$avg` over integers (non-numbers — booleans included — ignored, no double)
    is the EXACT average `sum / count` written as the double `m / 2^e` in lowest terms
    (`binFraction`), null when there is no number — whenever that average is a double
    (`specAvgInt` is `some`, 53 bits of mantissa: `avgFits`). -/
theorem acc_avg_spec (values : List Val) (v : Val) (h : values.all sumOk = true)
    (hs : specAvgInt (values.map some) = some v) (hf : avgFits v = true) :
    Pipe.accApply "$avg" values = .ok v :=
  Pipe.Proofs.acc_avg values (fun x hx => List.all_eq_true.mp h x hx) v hs hf

example : [Val.int 5, .str "x", .bool true, .int 2].all sumOk = true ∧
    optValIs (specAvgInt ([Val.int 5, .str "x", .bool true, .int 2].map some)) (.dbl 7 1) = true ∧
    avgFits (.dbl 7 1) = true := by decide +kernel

/-- the characterisation of the fraction: `m / 2^e = s / n` exactly, with the least `e` -/
theorem avg_is_exact (s : Int) (n : Nat) (m : Int) (e : Nat) (h : binFraction s n = some (m, e)) :
    m * (n : Int) = s * 2 ^ e ∧ ∀ e' < e, ¬ ((n : Int) ∣ s * 2 ^ e') :=
  Pipe.Proofs.binFraction_spec s n m e h

example : binFraction 7 2 = some (7, 1) ∧ binFraction 6 4 = some (3, 1) ∧ binFraction 7 3 = none := by
  decide +kernel

/-- **acc_addToSet_spec (partial).** Over scalar values that are no booleans (`setOk`; a boolean
    is merged with 0 / 1: finding `addtosetboolnum`) `$addToSet` answers each distinct value once,
    AS IT IS — 0, "" and null are values like the others —, by first appearance. -/
theorem acc_addToSet_spec_partial (values : List Val) (h : values.all setOk = true) :
    Pipe.accApply "$addToSet" values = .ok (.arr (specAddToSet values)) :=
  Pipe.Proofs.acc_addToSet values (fun v hv => List.all_eq_true.mp h v hv)

/-- (the former witness of `addtosetfalsy`, `[5, 0, 7]`, is the second line) -/
example : [Val.int 3, .str "", .null, .dbl 3 0, .int 0, .str ""].all setOk = true ∧
    beqList (specAddToSet [Val.int 5, .int 0, .int 7]) [.int 5, .int 0, .int 7] = true ∧
    beqList (specAddToSet [Val.int 3, .str "", .null, .dbl 3 0, .int 0, .str ""])
      [.int 3, .str "", .null, .int 0] = true := by decide +kernel

/-- … and the oracle's set really is "each distinct value once": a sub-list of the values with
    pairwise different elements in which every value has an equal representative. -/
theorem addToSet_is_a_set (values : List Val) :
    (specAddToSet values).Sublist values ∧
    (specAddToSet values).Pairwise (fun a b => keyEq a b = false) ∧
    ∀ v ∈ values, ∃ x ∈ specAddToSet values, keyEq x v = true :=
  ⟨Pipe.Proofs.distinctKeys_sublist values, Pipe.Proofs.distinctKeys_pairwise values,
   Pipe.Proofs.distinctKeys_cover values⟩

/-- **accumulator_eq_spec (partial).** All eight accumulators at once: on the values `vals` the
    accumulator's expression takes on a group (`none` = missing), outside the exclusion classes
    of `accReasons` (one finding — addtosetboolnum — and the scope limits sumfloat, avginexact,
    minmaxscope, setscope), the code's accumulator — which sees the present values, `$first` /
    `$last` also the missing ones as null — answers the oracle's value. -/
theorem accumulator_eq_spec_partial (op : String) (vals : List (Option Val)) (v : Val)
    (hD : accReasons op vals = []) (hs : specAcc op vals = some v) :
    Pipe.accApply op (Pipe.Proofs.seenValues (op = "$first" || op = "$last") vals) = .ok v :=
  Pipe.Proofs.accApply_eq_spec op vals v hD hs

example : accReasons "$avg" [some (.int 5), none, some (.int 2)] = [] ∧
    optValIs (specAcc "$avg" [some (.int 5), none, some (.int 2)]) (.dbl 7 1) = true ∧
    accReasons "$max" [some (.str "a"), some .null, some (.int 7)] = [] ∧
    optValIs (specAcc "$max" [some (.str "a"), some .null, some (.int 7)]) (.str "a") = true ∧
    accReasons "$first" [none, some (.int 7)] = [] ∧
    optValIs (specAcc "$first" [none, some (.int 7)]) .null = true ∧
    accReasons "$addToSet" [some (.int 0), some (.str ""), some (.int 0)] = [] := by
  decide +kernel

/-! ### `$group` -/

def groupSpec : Val := .doc [("_id", .str "$k"), ("n", .doc [("$sum", .int 1)]),
  ("s", .doc [("$sum", .str "$a")]), ("av", .doc [("$avg", .str "$a")]),
  ("mn", .doc [("$min", .str "$a")]), ("mx", .doc [("$max", .str "$a")]),
  ("f", .doc [("$first", .str "$a")]), ("l", .doc [("$last", .str "$_id")]),
  ("p", .doc [("$push", .str "$a")]), ("st", .doc [("$addToSet", .str "$k")]),
  ("t", .doc [("$sum", .doc [("$multiply", .arr [.str "$a", .str "$_id"])])])]

/-- **group_eq_spec (partial).** On the domain `groupReasons = []` — scalar non-boolean keys
    (boolean and document keys: findings groupboolnum, groupdockey), key expression in the C04
    domain — ANY expression, a constant (0, "", null) included, over any input, the empty one
    included —, accumulators among the eight whose argument is in the C04 domain (it is evaluated
    like every computed field), values outside the accumulator exclusion classes — the `$group`
    stage answers the groups of `Spec.specGroups`, each with its accumulator values, as a
    multiset: a permutation of the oracle's documents, each up to the place of `_id`
    (`Spec.Proj.idLast`). -/
theorem group_eq_spec_partial (opts : Val) (docs s : List Val)
    (hD : groupReasons opts docs = []) (hs : specGroupStage opts docs = some s) :
    ∃ out, Pipe.groupStage opts docs = .ok out ∧ out.Perm (s.map Spec.Proj.idLast) :=
  Pipe.Proofs.group_eq_spec_perm opts docs s hD hs

example : groupReasons groupSpec sample = [] ∧ (specGroupStage groupSpec sample).isSome = true ∧
    ((specGroupStage groupSpec sample).map List.length) = some 3 := by decide +kernel

/-- a null `_id` is inside the domain: one group — and none over no input (the former witness
    of `groupnullempty`); so is a falsy constant `_id`, reported as it is (`groupfalsyid`) -/
example : groupReasons (.doc [("_id", .null), ("n", .doc [("$sum", .int 1)])]) sample = [] ∧
    optDocsAre (specGroupStage (.doc [("_id", .null), ("n", .doc [("$sum", .int 1)])]) sample)
      [.doc [("_id", .null), ("n", .int 4)]] = true ∧
    groupReasons (.doc [("_id", .null), ("n", .doc [("$sum", .int 1)])]) [] = [] ∧
    optDocsAre (specGroupStage (.doc [("_id", .null), ("n", .doc [("$sum", .int 1)])]) []) [] = true ∧
    groupReasons (.doc [("_id", .int 0), ("n", .doc [("$sum", .int 1)])]) sample = [] ∧
    optDocsAre (specGroupStage (.doc [("_id", .int 0), ("n", .doc [("$sum", .int 1)])]) sample)
      [.doc [("_id", .int 0), ("n", .int 4)]] = true ∧
    groupReasons (.doc [("_id", .str ""), ("n", .doc [("$sum", .int 1)])]) [] = [] := by
  decide +kernel

/-- an operator as accumulator argument reads a missing operand as null — the former witness of
    `accmissing`, `{$push: {$add: ["$a", "$zz"]}}`, is inside the domain and pushes null; a
    missing FIELD PATH is skipped by `$push` and read as null by `$first` -/
example : groupReasons (.doc [("_id", .null),
      ("p", .doc [("$push", .doc [("$add", .arr [.str "$a", .str "$zz"])])]),
      ("q", .doc [("$push", .str "$zz")]), ("f", .doc [("$first", .str "$zz")])]) [d0] = [] ∧
    optDocsAre (specGroupStage (.doc [("_id", .null),
      ("p", .doc [("$push", .doc [("$add", .arr [.str "$a", .str "$zz"])])]),
      ("q", .doc [("$push", .str "$zz")]), ("f", .doc [("$first", .str "$zz")])]) [d0])
      [.doc [("_id", .null), ("p", .arr [.null]), ("q", .arr []), ("f", .null)]] = true := by
  decide +kernel

/-- **group_eq_spec_sorted (partial).** … and the order is determined: the code lists the groups
    in ascending BSON order of their keys and writes `_id` last — exactly the representative
    `specGroupStageSorted` of the oracle's multiset. -/
theorem group_eq_spec_sorted_partial (opts : Val) (docs s : List Val)
    (hD : groupReasons opts docs = []) (hs : specGroupStageSorted opts docs = some s) :
    Pipe.groupStage opts docs = .ok s :=
  Pipe.Proofs.group_eq_spec_sorted opts docs s hD hs

example : groupReasons groupSpec sample = [] ∧
    (specGroupStageSorted groupSpec sample).isSome = true := by decide +kernel

/-- the sorted representative holds the same documents as the oracle's list -/
theorem group_sorted_is_perm (opts : Val) (docs s : List Val)
    (hs : specGroupStage opts docs = some s) :
    ∃ s' : List Val, specGroupStageSorted opts docs = some (s'.map Spec.Proj.idLast) ∧ s'.Perm s :=
  Pipe.Proofs.specGroupStageSorted_perm opts docs s hs

/-- the full-strength statement: wherever the oracle speaks the stage answers its representative -/
def group_eq_spec_full : Prop :=
  ∀ (opts : Val) (docs : List Val),
    agreeB (Pipe.groupStage opts docs) (specGroupStageSorted opts docs) = true

/-- False of the code as it stands (known finding `groupboolnum`): the keys `1` and `true` are
    one group for `itertools.groupby` (Python `==`) when the sort leaves them adjacent; MongoDB
    keeps a boolean and a number apart. -/
theorem group_eq_spec_full_fails : ¬ group_eq_spec_full := by
  intro h
  have := h (.doc [("_id", .str "$k"), ("n", .doc [("$sum", .int 1)])])
    [.doc [("_id", .int 0), ("k", .int 1)], .doc [("_id", .int 1), ("k", .bool true)]]
  revert this
  decide +kernel

/-! ### `$lookup` -/

def lookupSpec : Val := .doc [("from", .str "other"), ("localField", .str "k"),
  ("foreignField", .str "fk"), ("as", .str "j")]

/-- **lookup_eq_spec (partial).** With top-level `localField` / `foreignField` / `as`, a scalar
    local value (missing = null) and no boolean facing a number (finding `lookupboolnum`; foreign
    dates naive), `$lookup` is `specLookupDoc` on every document: the foreign documents whose
    foreign value equals the local one — or holds it, when it is an array — in foreign order. -/
theorem lookup_eq_spec_partial (db : Pipe.Db) (opts : Val) (docs s : List Val)
    (hD : lookupReasons db opts docs = []) (hs : specLookupStage db opts docs = some s) :
    Pipe.lookupStage db opts docs = .ok s :=
  Pipe.Proofs.lookup_eq_spec db opts docs s hD hs

example : lookupReasons db lookupSpec sample = [] ∧
    (specLookupStage db lookupSpec sample).isSome = true := by decide +kernel

def lookup_eq_spec_full : Prop :=
  ∀ (db : Pipe.Db) (opts : Val) (docs : List Val),
    agreeB (Pipe.lookupStage db opts docs) (specLookupStage db opts docs) = true

/-- False of the code as it stands (known finding `lookupboolnum`): `true` joins `1`. -/
theorem lookup_eq_spec_full_fails : ¬ lookup_eq_spec_full := by
  intro h
  have := h ⟨[("other", [.doc [("_id", .int 10), ("fk", .int 1)]])]⟩ lookupSpec
    [.doc [("_id", .int 0), ("k", .bool true)]]
  revert this
  decide +kernel

/-! ### `$addFields` / `$set`, `$replaceRoot` -/

def addSpec : Val := .doc [("r", .doc [("$add", .arr [.str "$a", .int 1])]), ("a", .str "$k"),
  ("z", .str "$zz")]

/-- **addFields_eq_spec (partial).** For a stage whose entries are field names — dotted ones
    included — none of which is a prefix of another, with expressions in the C04 domain, output
    `i` is input `i` with each name set, in order, to the value the oracle gives its expression
    ON THE INPUT DOCUMENT — an entry never sees what another entry of the same stage wrote, also
    after a dotted name was written into a sub-document — and left alone when that value is
    missing.  A dotted name creates the sub-documents it goes through, puts one in the place of a
    scalar, and THROUGH AN ARRAY writes into every item of it (`Spec.Pipe.setDeepIn`: an item
    that is no document becomes one, an array inside the array is gone through).
    (`_partial`: the C04 domain.) -/
theorem addFields_eq_spec_partial (opts : Val) (docs s : List Val)
    (hD : addFieldsReasons opts docs = []) (hs : specAddFieldsStage opts docs = some s) :
    Pipe.addFieldsStage opts docs = .ok s :=
  Pipe.Proofs.addFields_eq_spec opts docs s hD hs

/-- `a` is overwritten with `$k` while `r` still reads the input's `a`; `z` (missing) is omitted -/
example : addFieldsReasons addSpec [d0, d2] = [] ∧ optDocsAre (specAddFieldsStage addSpec [d0, d2])
    [.doc [("_id", .int 0), ("k", .int 1), ("a", .int 1), ("l", .arr [.int 1, .int 2]), ("r", .int 6)],
     .doc [("_id", .int 2), ("k", .int 1), ("a", .int 1), ("r", .int 3)]] = true := by decide +kernel

/-- the former witness of `addfieldsorder`: `d.n` is written, `r` still reads the input's `d.n`;
    `n.m` creates its parent, `a.z` puts a sub-document in the place of the number `a` -/
example : addFieldsReasons (.doc [("d.n", .int 5), ("r", .str "$d.n"), ("n.m", .str "$_id"),
      ("a.z", .int 1)]) [.doc [("_id", .int 0), ("d", .doc [("n", .int 1)]), ("a", .int 3)]] = [] ∧
    optDocsAre (specAddFieldsStage (.doc [("d.n", .int 5), ("r", .str "$d.n"), ("n.m", .str "$_id"),
      ("a.z", .int 1)]) [.doc [("_id", .int 0), ("d", .doc [("n", .int 1)]), ("a", .int 3)]])
    [.doc [("_id", .int 0), ("d", .doc [("n", .int 5)]), ("a", .doc [("z", .int 1)]), ("r", .int 1),
      ("n", .doc [("m", .int 0)])]] = true := by decide +kernel

/-- a dotted name through an array writes into every item (the former deviation: the array was
    replaced by a document): `q.z` over `q: [{n: 1}, 5, [{n: 2}]]`, and `l.z` over an empty array -/
example : addFieldsReasons (.doc [("q.z", .int 7), ("l.z", .int 1)])
      [.doc [("_id", .int 0), ("q", .arr [.doc [("n", .int 1)], .int 5, .arr [.doc [("n", .int 2)]]]),
        ("l", .arr [])]] = [] ∧
    optDocsAre (specAddFieldsStage (.doc [("q.z", .int 7), ("l.z", .int 1)])
      [.doc [("_id", .int 0), ("q", .arr [.doc [("n", .int 1)], .int 5, .arr [.doc [("n", .int 2)]]]),
        ("l", .arr [])]])
    [.doc [("_id", .int 0), ("q", .arr [.doc [("n", .int 1), ("z", .int 7)], .doc [("z", .int 7)],
        .arr [.doc [("n", .int 2), ("z", .int 7)]]]), ("l", .arr [])]] = true := by decide +kernel

/-- every entry reads the input document: running the entries of a stage one after the other as
    separate stages is in general something else — the oracle's fold never looks at `acc` to
    evaluate an expression -/
theorem addFields_reads_input (d : Val) (name : String) (e : Val) (rest acc : Fields) (k : String)
    (ks : List String) (hn : splitDots name = k :: ks) :
    specSetFields d ((name, e) :: rest) acc =
      (match exprValue e d with
       | some (some v) => specSetFields d rest (setDeepIn acc k ks v)
       | some none => specSetFields d rest acc
       | none => none) := by
  simp only [specSetFields, hn]
  cases exprValue e d with
  | none => rfl
  | some r => cases r <;> rfl

example : splitDots "q.z" = ["q", "z"] := by decide +kernel

/-- **addFields_deep_write.** What the oracle writes for a dotted name: below a document the
    named field (others untouched, in place), in every item of an array, and a fresh chain of
    documents in the place of anything else. -/
theorem addFields_deep_write (k : String) (ks : List String) (v : Val) :
    (∀ xs, setDeep (.arr xs) (k :: ks) v = .arr (xs.map (fun x => setDeep x (k :: ks) v))) ∧
    (∀ fs, setDeep (.doc fs) (k :: ks) v = .doc (setDeepIn fs k ks v)) ∧
    setDeep (.int 3) (k :: ks) v = nestDoc (k :: ks) v ∧ setDeep .null (k :: ks) v = nestDoc (k :: ks) v ∧
    (∀ fs k', k' ≠ k → dget k' (setDeepIn fs k ks v) = dget k' fs) :=
  ⟨fun xs => by rw [setDeep, Pipe.Proofs.setDeepItems_eq_map],
   fun fs => by rw [setDeep], by simp [setDeep], by simp [setDeep],
   fun fs k' h => Pipe.Proofs.dget_setDeepIn_other k k' ks v h fs⟩

/-- **replaceRoot_eq_spec (partial).** `{$replaceRoot: {newRoot: e}}` with `e` in the C04 domain
    answers, for each document, the document `e` evaluates to (the oracle is silent when `e` is
    missing or not a document). -/
theorem replaceRoot_eq_spec_partial (opts : Val) (docs s : List Val)
    (hD : replaceRootReasons opts docs = []) (hs : specReplaceRootStage opts docs = some s) :
    Pipe.replaceRootStage opts docs = .ok s :=
  Pipe.Proofs.replaceRoot_eq_spec opts docs s hD hs

example : replaceRootReasons (.doc [("newRoot", .doc [("x", .str "$a"), ("y", .int 1)])]) sample = [] ∧
    (specReplaceRootStage (.doc [("newRoot", .doc [("x", .str "$a"), ("y", .int 1)])]) sample).isSome
      = true := by decide +kernel

/-! ### `$bucket` -/

def bucketSpec : Val := .doc [("groupBy", .str "$a"), ("boundaries", .arr [.int 0, .int 5, .int 10]),
  ("default", .str "other"),
  ("output", .doc [("n", .doc [("$sum", .int 1)]), ("ids", .doc [("$push", .str "$_id")])])]

def d4 : Val := .doc [("_id", .int 4)]

/-- **bucket_eq_spec (partial).** `$bucket` answers what MongoDB defines: every document goes to
    the bucket `_id: bᵢ` with `bᵢ ≤ groupBy < bᵢ₊₁` (BSON order), to `default` when there is no such
    boundary; one document per non-empty bucket in ascending `_id` order — the boundary order, the
    default bucket where its `_id` sorts —, each with the `output` accumulators (those of `$group`;
    `{count: {$sum: 1}}` when not given) folded over its documents in input order.  Domain
    `bucketReasons = []`: numeric strictly ascending boundaries, `groupBy` a field path whose values
    are numbers or missing, a default that is a number outside `[b₀, bₙ)`, a string or a naive
    date, accumulators inside the `$group` domain.  Outside it, by name: the findings
    bucketcrosstype, bucketboolnum, bucketdefaulttype, bucketdupbounds, bucketdefaultinside,
    bucketgroupbyconst and the scope limits bucketexprstrict, keyscope, nospec (the stage FAILS on
    a document without bucket when there is no default: the oracle is silent there). -/
theorem bucket_eq_spec_partial (opts : Val) (docs s : List Val)
    (hD : bucketReasons opts docs = []) (hs : specBucketStage opts docs = some s) :
    Pipe.bucketStage opts docs = .ok s :=
  Pipe.Proofs.bucket_eq_spec opts docs s hD hs

example : bucketReasons bucketSpec [d0, d1, d2, d4] = [] ∧
    optDocsAre (specBucketStage bucketSpec [d0, d1, d2, d4])
      [.doc [("n", .int 1), ("ids", .arr [.int 2]), ("_id", .int 0)],
       .doc [("n", .int 2), ("ids", .arr [.int 0, .int 1]), ("_id", .int 5)],
       .doc [("n", .int 1), ("ids", .arr [.int 4]), ("_id", .str "other")]] = true := by
  decide +kernel

/-- a numeric default below the lowest boundary comes first; without `output` the buckets are
    counted; the classes outside the domain are told by name -/
example :
    bucketReasons (.doc [("groupBy", .str "$a"), ("boundaries", .arr [.int 3, .dbl 13 1, .int 10]),
      ("default", .int (-1))]) [d0, d1, d2, d4] = [] ∧
    optDocsAre (specBucketStage (.doc [("groupBy", .str "$a"),
      ("boundaries", .arr [.int 3, .dbl 13 1, .int 10]), ("default", .int (-1))]) [d0, d1, d2, d4])
      [.doc [("count", .int 2), ("_id", .int (-1))], .doc [("count", .int 1), ("_id", .int 3)],
       .doc [("count", .int 1), ("_id", .dbl 13 1)]] = true ∧
    bucketReasons bucketSpec [d3] = ["bucketcrosstype"] ∧
    bucketReasons bucketSpec [.doc [("a", .bool true)]] = ["bucketboolnum"] ∧
    bucketReasons (.doc [("groupBy", .str "$a"), ("boundaries", .arr [.int 0, .int 5]),
      ("default", .null)]) [d0] = ["bucketdefaulttype"] ∧
    bucketReasons (.doc [("groupBy", .str "$a"), ("boundaries", .arr [.int 0, .int 5, .int 5]),
      ("default", .str "o")]) [d0] = ["bucketdupbounds"] ∧
    bucketReasons (.doc [("groupBy", .str "$a"), ("boundaries", .arr [.int 0, .int 5]),
      ("default", .int 3)]) [d0] = ["bucketdefaultinside"] ∧
    bucketReasons (.doc [("groupBy", .int 3), ("boundaries", .arr [.int 0, .int 5])]) [d0]
      = ["bucketgroupbyconst"] ∧
    bucketReasons (.doc [("groupBy", .doc [("$add", .arr [.str "$a", .int 1])]),
      ("boundaries", .arr [.int 0, .int 50])]) [d0] = ["bucketexprstrict"] ∧
    -- no default and a document outside every bucket: the oracle is silent
    (specBucketStage (.doc [("groupBy", .str "$a"), ("boundaries", .arr [.int 0, .int 5])]) [d1]).isNone
      = true := by
  decide +kernel

/-- **bucket_no_branch_fails.** Where the oracle is silent for want of a bucket — some document's
    `groupBy` value lies outside every `[bᵢ, bᵢ₊₁)` and there is no default: MongoDB fails with
    "could not find a matching branch" — the code fails too (OperationFailure), provided the
    `groupBy` values are inside the domain (a field path, numbers or missing). -/
theorem bucket_no_branch_fails (opts : Val) (a : BucketArgs) (docs : List Val)
    (ha : bucketArgs opts = some a) (hform : ∃ s, a.groupBy = .str s)
    (htags : exprTags a.groupBy docs = [])
    (hvals : ∀ d ∈ docs, ∃ r, exprValue a.groupBy d = some r ∧ bucketValueReasons r = [])
    (hk : specBucketKeyed a docs = none) :
    Pipe.bucketStage opts docs = .error .opFail :=
  Pipe.Proofs.bucket_no_branch opts a docs ha hform htags hvals hk

example : (match bucketArgs (.doc [("groupBy", .str "$a"), ("boundaries", .arr [.int 0, .int 5])]) with
    | some a => (match a.groupBy with | .str _ => true | _ => false) &&
        (exprTags a.groupBy [d2, d1]).isEmpty &&
        [d2, d1].all (fun d => match exprValue a.groupBy d with
          | some r => (bucketValueReasons r).isEmpty | none => false) &&
        (specBucketKeyed a [d2, d1]).isNone
    | none => false) = true ∧
    failsWith (Pipe.bucketStage (.doc [("groupBy", .str "$a"), ("boundaries", .arr [.int 0, .int 5])])
      [d2, d1]) .opFail = true := by decide +kernel

/-! ### every stage, pipelines, `$facet` -/

/-- **stageX_eq_spec (partial).** `stage_eq_spec_partial` with the extended oracle and domain:
    thirteen stage kinds (`$bucket` with its oracle `specBucketStage`) instead of seven. -/
theorem stageX_eq_spec_partial (db : Pipe.Db) (op : String) (opts : Val) (docs s : List Val)
    (hD : stageReasonsX db op opts docs = []) (hs : specStageX db op opts docs = some s) :
    Pipe.simpleStage db op opts docs = .ok s :=
  Pipe.Proofs.stageX_eq_spec db op opts docs s hD hs

example : stageReasonsX db "$group" groupSpec sample = [] ∧
    (specStageX db "$group" groupSpec sample).isSome = true ∧
    stageReasonsX db "$set" addSpec [d0, d2] = [] ∧
    (specStageX db "$set" addSpec [d0, d2]).isSome = true ∧
    stageReasonsX db "$bucket" bucketSpec [d0, d1, d2, d4] = [] ∧
    (specStageX db "$bucket" bucketSpec [d0, d1, d2, d4]).isSome = true := by decide +kernel

/-- the extension is conservative: on the other stage kinds nothing changes -/
theorem stageX_extends (db : Pipe.Db) (op : String) (opts : Val) (docs : List Val)
    (h : ["$group", "$lookup", "$addFields", "$set", "$replaceRoot", "$bucket"].contains op = false) :
    specStageX db op opts docs = specStage op opts docs ∧
    stageReasonsX db op opts docs = stageReasons op opts docs := by
  simp only [List.contains_cons, List.contains_nil, Bool.or_false, Bool.or_eq_false_iff,
    beq_eq_false_iff_ne, ne_eq] at h
  obtain ⟨h1, h2, h3, h4, h5, h6⟩ := h
  simp [specStageX, stageReasonsX, h1, h2, h3, h4, h5, h6]

/-- … and for the verdict of the extended oracle -/
theorem pipelineXV_eq_spec_partial (db : Pipe.Db) (p docs : List Val) (v : Verdict)
    (hD : pipelineReasonsXV db p docs = []) (hs : specPipelineXV db p docs = some v) :
    v.agrees (Pipe.runPipeline db p docs) :=
  Pipe.Proofs.pipelineXV_eq_spec db p docs v hD hs

example : pipelineReasonsXV db [.doc [("$group", groupSpec)], .doc [("$limit", .int 0)]] sample = [] ∧
    (match specPipelineXV db [.doc [("$group", groupSpec)], .doc [("$limit", .int 0)]] sample with
     | some .rejected => true | _ => false) = true ∧
    pipelineReasonsXV db [.doc [("$group", groupSpec)], .doc [("$limit", .int 2)]] sample = [] ∧
    (match specPipelineXV db [.doc [("$group", groupSpec)], .doc [("$limit", .int 2)]] sample with
     | some (.docs out) => out.length == 2 | _ => false) = true := by decide +kernel

def pipeX : List Val :=
  [.doc [("$match", .doc [("a", .doc [("$gt", .int 1)])])],
   .doc [("$lookup", lookupSpec)],
   .doc [("$addFields", .doc [("nj", .doc [("$size", .str "$j")])])],
   .doc [("$group", .doc [("_id", .str "$k"), ("n", .doc [("$sum", .int 1)]),
      ("m", .doc [("$max", .str "$nj")]), ("ids", .doc [("$push", .str "$_id")])])],
   .doc [("$sort", .doc [("n", .int (-1))])],
   .doc [("$limit", .int 1)]]

/-- **pipelineX_eq_spec (partial).** A pipeline of single-operator stages, each inside the
    extended domain on the documents the oracle feeds it, computes what the oracle computes. -/
theorem pipelineX_eq_spec_partial (db : Pipe.Db) (p docs s : List Val)
    (hD : pipelineReasonsX db p docs = []) (hs : specPipelineX db p docs = some s) :
    Pipe.runPipeline db p docs = .ok s :=
  Pipe.Proofs.pipelineX_eq_spec db p docs s hD hs

example : inDX db pipeX sample = true ∧ optDocsAre (specPipelineX db pipeX sample)
    [.doc [("n", .int 2), ("m", .int 2), ("ids", .arr [.int 0, .int 2]), ("_id", .int 1)]] = true := by
  decide +kernel

/-- … with a `$bucket` stage between others -/
example : inDX db [.doc [("$match", .doc [("a", .doc [("$gt", .int 1)])])], .doc [("$bucket", bucketSpec)],
      .doc [("$sort", .doc [("n", .int (-1))])], .doc [("$limit", .int 1)]] sample = true ∧
    optDocsAre (specPipelineX db [.doc [("$match", .doc [("a", .doc [("$gt", .int 1)])])],
      .doc [("$bucket", bucketSpec)], .doc [("$sort", .doc [("n", .int (-1))])],
      .doc [("$limit", .int 1)]] sample)
    [.doc [("n", .int 2), ("ids", .arr [.int 0, .int 1]), ("_id", .int 5)]] = true := by
  decide +kernel

/-- **facet_eq_spec.** `$facet` answers ONE document that maps each name to the oracle's output of
    its sub-pipeline on the very same input, when every branch is inside the extended domain. -/
theorem facet_eq_spec (db : Pipe.Db) (gs : Fields) (docs : List Val) (fs : Fields)
    (hD : facetReasons db gs docs = []) (hs : specFacet db gs docs = some fs) :
    Pipe.runOp db "$facet" (.doc gs) docs = .ok [.doc fs] :=
  Pipe.Proofs.facet_eq_spec db gs docs fs hD hs

example : facetReasons db [("top", .arr pipeX), ("cnt", .arr [.doc [("$count", .str "n")]])] sample = [] ∧
    optValIs ((specFacet db [("top", .arr pipeX), ("cnt", .arr [.doc [("$count", .str "n")]])] sample).map
      Val.doc) (.doc
      [("top", .arr [.doc [("n", .int 2), ("m", .int 2), ("ids", .arr [.int 0, .int 2]), ("_id", .int 1)]]),
       ("cnt", .arr [.doc [("n", .int 4)]])]) = true := by decide +kernel

end Extension

end MongoModel.Props.C03
