/-
  Props.C14 — single-document operations act on exactly one, well-defined document.
  Statements only; proofs in Proofs/C14*.lean.  Model: `applyUpdateColl … multi=false`,
  `deleteColl … multi=false` (Store.lean) and `findAndModify` (FindModify.lean).
  Collections are assumed to satisfy C05's invariant (`IdInv`, `GoodKeys`): every reachable one
  does.  `c1` is the collection the expiry pass leaves; `sel` the documents the filter selects.
-/
import Proofs.C14

namespace MongoModel.Props.C14
open MongoModel MongoModel.Spec

/-- `update_one` / `replace_one` (no upsert) touch at most the FIRST selected document in natural
    order: every other document is still there, unchanged, and nothing is added. -/
theorem update_one_touches_first_only (cfg : Cfg) (now : Int) (c c1 c' : Coll) (fs : Fields) (u : Val)
    (q : Val × Val) (rest : List (Val × Val)) (r : R UpdateResult)
    (he : expire now c = .ok c1) (hi : IdInv c) (hg : GoodKeys c) (hn : c.ttlIndexes = [])
    (hs : selectDocs (patchDT (.doc fs)) c1.docs = .ok (q :: rest))
    (h : applyUpdateColl cfg now c (.doc fs) u false false = (c', r)) :
    sameExcept q.1 c1.docs c'.docs ∧ c'.docs.length = c1.docs.length :=
  Proofs.C14.update_one_touches_first_only cfg now c c1 c' fs u q rest r he hi hg hn hs h

/-- … and when nothing is selected they change nothing.  Full statement (for any call, failing
    ones included, with TTL indexes): FALSE of the model and of the code — a call that raises
    before the scan (an empty `$set: {}` on server < 5, a non-document update) returns before the
    expiry pass, so expired documents are still stored afterwards. -/
def update_one_no_match_noop_full : Prop :=
  ∀ (cfg : Cfg) (now : Int) (c c1 c' : Coll) (fs : Fields) (u : Val) (r : R UpdateResult),
    expire now c = .ok c1 → c1.docs ≠ [] →
    selectDocs (patchDT (.doc fs)) c1.docs = .ok [] →
    applyUpdateColl cfg now c (.doc fs) u false false = (c', r) →
    c'.docs = c1.docs

theorem update_one_no_match_noop_full_fails : ¬ update_one_no_match_noop_full :=
  Proofs.C14Cex.update_one_no_match_noop_false

/-- what holds for every call: the collection is the expired one, or the call raised before the
    scan and returned the collection exactly as given (nothing changed either way) -/
theorem update_one_no_match_noop_partial (cfg : Cfg) (now : Int) (c c1 c' : Coll) (fs : Fields) (u : Val)
    (r : R UpdateResult) (he : expire now c = .ok c1) (hne : c1.docs ≠ [])
    (hs : selectDocs (patchDT (.doc fs)) c1.docs = .ok [])
    (h : applyUpdateColl cfg now c (.doc fs) u false false = (c', r)) :
    c' = c1 ∨ (c' = c ∧ ∃ e, r = .error e) :=
  Proofs.C14.update_one_no_match_noop_alt cfg now c c1 c' fs u r he hne hs h

/-- … the original conclusion for every successful call -/
theorem update_one_no_match_noop_ok (cfg : Cfg) (now : Int) (c c1 c' : Coll) (fs : Fields)
    (u : Val) (res : UpdateResult) (he : expire now c = .ok c1) (hne : c1.docs ≠ [])
    (hs : selectDocs (patchDT (.doc fs)) c1.docs = .ok [])
    (h : applyUpdateColl cfg now c (.doc fs) u false false = (c', .ok res)) :
    c'.docs = c1.docs :=
  Proofs.C14.update_one_no_match_noop_alt_ok cfg now c c1 c' fs u res he hne hs h

/-- … and for every call on a collection without TTL index -/
theorem update_one_no_match_noop_nottl (cfg : Cfg) (now : Int) (c c1 c' : Coll) (fs : Fields)
    (u : Val) (r : R UpdateResult) (he : expire now c = .ok c1) (hne : c1.docs ≠ [])
    (hn : c.ttlIndexes = [])
    (hs : selectDocs (patchDT (.doc fs)) c1.docs = .ok [])
    (h : applyUpdateColl cfg now c (.doc fs) u false false = (c', r)) :
    c'.docs = c1.docs :=
  Proofs.C14.update_one_no_match_noop_alt_nottl cfg now c c1 c' fs u r he hne hn hs h

/-- `delete_one` removes exactly the first selected document in natural order. -/
theorem delete_one_removes_first (now : Int) (c c1 : Coll) (fs : Fields)
    (q : Val × Val) (rest : List (Val × Val))
    (he : expire now c = .ok c1) (hi : IdInv c) (hg : GoodKeys c)
    (hs : selectDocs (patchDT (.doc fs)) c1.docs = .ok (q :: rest)) :
    (deleteColl now c (.doc fs) false).2 = .ok 1 ∧
    (deleteColl now c (.doc fs) false).1.docs = c1.docs.filter (fun p => !pyEq q.1 p.1) :=
  Proofs.C14.delete_one_removes_first now c c1 fs q rest he hi hg hs

/-- `find_one` with a sort returns the projection of the first selected document in that sort
    order. -/
theorem find_one_is_first_sorted (now : Int) (c c1 : Coll) (fs : Fields) (proj : Val)
    (sort : Option SortSpec) (sel : List (Val × Val)) (out : Option Val)
    (he : expire now c = .ok c1) (hne : c1.docs ≠ [])
    (hs : selectDocs (patchDT (.doc fs)) c1.docs = .ok sel)
    (h : (findOneColl now c (.doc fs) proj sort).2 = .ok out) :
    ∃ t, firstSorted sort sel = .ok t ∧
      (match t with
       | none => out = none
       | some d => copyOnlyFields d proj = .ok (out.getD .null) ∧ out.isSome) :=
  Proofs.C14.find_one_is_first_sorted now c c1 fs proj sort sel out he hne hs h

/-- **find_one_and_delete** acts on exactly the first match in the requested sort order,
    whatever projection is requested, and returns that document's projected image.
    Full statement over ALL model states satisfying `IdInv`/`GoodKeys`: FALSE — the model's state
    space contains collections no history reaches (a stored `_id` that is not normalised to
    milliseconds, an array as store key: `insert` normalises, `storeKey` rejects lists), on which
    the second look-up by `_id` misses the target. -/
def fam_delete_spec_full : Prop :=
  ∀ (cfg : Cfg) (now : Int) (c c1 c' : Coll) (fs : Fields) (proj : Val)
    (sort : Option SortSpec) (sel : List (Val × Val)) (target : Val) (tid : Val) (ret : Option Val),
    expire now c = .ok c1 → IdInv c → GoodKeys c → c.ttlIndexes = [] →
    selectDocs (patchDT (.doc fs)) c1.docs = .ok sel →
    firstSorted sort sel = .ok (some target) → idOf target = some tid →
    isScalar tid = true →
    findAndModify cfg now c (.doc fs) proj none false sort false = (c', .ok ret) →
    sameExcept tid c1.docs c'.docs ∧ c'.docs.length + 1 = c1.docs.length ∧
    copyOnlyFields target proj = .ok (ret.getD .null) ∧ ret.isSome

theorem fam_delete_spec_full_fails : ¬ fam_delete_spec_full :=
  Proofs.C14Cex.fam_delete_spec_false

/-- proved: no store key is an array and the target's `_id` is normalised (`hna`, `hpt`: both
    hold in every state a history reaches) -/
theorem fam_delete_spec_partial (cfg : Cfg) (now : Int) (c c1 c' : Coll) (fs : Fields) (proj : Val)
    (sort : Option SortSpec) (sel : List (Val × Val)) (target : Val) (tid : Val) (ret : Option Val)
    (he : expire now c = .ok c1) (hi : IdInv c) (hg : GoodKeys c) (hn : c.ttlIndexes = [])
    (hna : ∀ p ∈ c.docs, p.1.isArr = false)
    (hs : selectDocs (patchDT (.doc fs)) c1.docs = .ok sel)
    (ht : firstSorted sort sel = .ok (some target)) (hid : idOf target = some tid)
    (hsc : isScalar tid = true) (hpt : patchDT tid = tid)
    (h : findAndModify cfg now c (.doc fs) proj none false sort false = (c', .ok ret)) :
    sameExcept tid c1.docs c'.docs ∧ c'.docs.length + 1 = c1.docs.length ∧
    copyOnlyFields target proj = .ok (ret.getD .null) ∧ ret.isSome :=
  Proofs.C14.fam_delete_spec_alt cfg now c c1 c' fs proj sort sel target tid ret he hi hg hn hna hs
    ht hid hsc hpt h

/-- **find_one_and_update / find_one_and_replace** (a target exists): only the first match in
    sort order may change, nothing is added or removed, with return_document=BEFORE the returned
    document is the projection of the target as it was, with AFTER the projection of the stored
    document under the target's `_id`.  Full statement: FALSE on the same unreachable states as
    `fam_delete_spec_full`. -/
def fam_update_spec_full : Prop :=
  ∀ (cfg : Cfg) (now : Int) (c c1 c' : Coll) (fs : Fields) (proj u : Val) (upsert after : Bool)
    (sort : Option SortSpec) (sel : List (Val × Val)) (target : Val) (tid : Val) (ret : Option Val),
    expire now c = .ok c1 → IdInv c → GoodKeys c → c.ttlIndexes = [] →
    selectDocs (patchDT (.doc fs)) c1.docs = .ok sel →
    firstSorted sort sel = .ok (some target) → idOf target = some tid →
    isScalar tid = true →
    findAndModify cfg now c (.doc fs) proj (some u) upsert sort after = (c', .ok ret) →
    sameExcept tid c1.docs c'.docs ∧ c'.docs.length = c1.docs.length ∧
    (after = false → copyOnlyFields target proj = .ok (ret.getD .null) ∧ ret.isSome) ∧
    (after = true → ∃ p' ∈ c'.docs, pyEq p'.1 tid = true ∧
        copyOnlyFields p'.2 proj = .ok (ret.getD .null))

theorem fam_update_spec_full_fails : ¬ fam_update_spec_full :=
  Proofs.C14Cex.fam_update_spec_false

/-- proved under `hna`, `hpt` (see `fam_delete_spec_partial`); the AFTER conjunct moreover assumes
    that the target has pairwise distinct top-level keys, as every Python dict has -/
theorem fam_update_spec_partial (cfg : Cfg) (now : Int) (c c1 c' : Coll) (fs : Fields) (proj u : Val)
    (upsert after : Bool)
    (sort : Option SortSpec) (sel : List (Val × Val)) (target : Val) (tid : Val) (ret : Option Val)
    (he : expire now c = .ok c1) (hi : IdInv c) (hg : GoodKeys c) (hn : c.ttlIndexes = [])
    (hna : ∀ p ∈ c.docs, p.1.isArr = false)
    (hs : selectDocs (patchDT (.doc fs)) c1.docs = .ok sel)
    (ht : firstSorted sort sel = .ok (some target)) (hid : idOf target = some tid)
    (hsc : isScalar tid = true) (hpt : patchDT tid = tid)
    (h : findAndModify cfg now c (.doc fs) proj (some u) upsert sort after = (c', .ok ret)) :
    sameExcept tid c1.docs c'.docs ∧ c'.docs.length = c1.docs.length ∧
    (after = false → copyOnlyFields target proj = .ok (ret.getD .null) ∧ ret.isSome) ∧
    (after = true → (∀ tfs, target = Val.doc tfs → (dkeys tfs).Nodup) →
      ∃ p' ∈ c'.docs, pyEq p'.1 tid = true ∧
        copyOnlyFields p'.2 proj = .ok (ret.getD .null)) :=
  Proofs.C14.fam_update_spec_alt cfg now c c1 c' fs proj u upsert after sort sel target tid ret
    he hi hg hn hna hs ht hid hsc hpt h

/-- With no match and no upsert `find_one_and_*` returns nothing and changes nothing. -/
theorem fam_no_match_noop (cfg : Cfg) (now : Int) (c c1 c' : Coll) (fs : Fields) (proj : Val)
    (u : Option Val) (sort : Option SortSpec) (after : Bool) (ret : Option Val)
    (he : expire now c = .ok c1) (hne : c1.docs ≠ [])
    (hs : selectDocs (patchDT (.doc fs)) c1.docs = .ok [])
    (h : findAndModify cfg now c (.doc fs) proj u false sort after = (c', .ok ret)) :
    ret = none ∧ c'.docs = c1.docs :=
  Proofs.C14.fam_no_match_noop cfg now c c1 c' fs proj u sort after ret he hne hs h

/-- non-vacuity: three matching documents, descending sort, a projection dropping `_id`: the
    model updates document 3 (first in sort order, last in natural order) and returns `{s: 3}` -/
example : (match findAndModify {} 0
      { docs := [(.int 1, .doc [("_id", .int 1), ("a", .int 1), ("s", .int 1)]),
                 (.int 2, .doc [("_id", .int 2), ("a", .int 1), ("s", .int 2)]),
                 (.int 3, .doc [("_id", .int 3), ("a", .int 1), ("s", .int 3)])] }
      (.doc [("a", .int 1)]) (.doc [("_id", .int 0), ("s", .int 1)])
      (some (.doc [("$set", .doc [("hit", .int 1)])])) false (some [("s", -1)]) false with
    | (c', .ok (some ret)) =>
      ret == .doc [("s", .int 3)] &&
      (c'.lookup (.int 3) == some (.doc [("_id", .int 3), ("a", .int 1), ("s", .int 3), ("hit", .int 1)]))
    | _ => false) = true := by decide +kernel

/-- non-vacuity of the extra hypotheses of the `_partial` theorems on that collection: no store key
    is an array, the target's `_id` is normalised, its keys are distinct -/
example : (∀ p ∈ ([(.int 1, .null), (.int 2, .null), (.int 3, .null)] : List (Val × Val)),
      p.1.isArr = false) ∧ patchDT (.int 3) = .int 3 ∧
    (dkeys [("_id", .int 3), ("a", .int 1), ("s", .int 3)]).Nodup := by
  refine ⟨?_, rfl, by decide⟩
  intro p hp
  simp only [List.mem_cons, List.not_mem_nil, or_false] at hp
  rcases hp with rfl | rfl | rfl <;> rfl

end MongoModel.Props.C14
