/-
  Props.C02 — update operators and replacements transform documents exactly as specified.
  Statements only; proofs in Proofs/C02*.lean.  Model: MongoModel/Update.lean (`runUpdater`,
  `updateSingleField`, `pushValue`, `addEach`, `pullList`, `replaceWhole`, `applyOps`,
  `applyUpdate`, `validateOps`) and `emptyOperatorCheck` / `updatePrecheck` (Store.lean).  The theorems give, operator by operator,
  the EFFECT on the addressed path and the FRAME (what is left untouched).
-/
import Proofs.C02
import Proofs.C02Ext
import Proofs.C02ExtReplace
import Proofs.C02Refuse
import Proofs.C02Positional
import MongoModel.FindModify

namespace MongoModel.Props.C02
open MongoModel MongoModel.Spec

/-! ### $set: effect, intermediate creation, null padding, frame -/

/-- After a successful `$set` the path holds the value — whatever had to be created on the way
    (sub-documents for missing intermediates, nulls to pad an array). -/
theorem set_get (now v : Val) (parts : List String) (d d' : Val) (hp : parts ≠ [])
    (hw : writable parts d = true)
    (h : updateSingleField .set now v parts d = .ok d') : getPath parts d' = some v :=
  Proofs.C02.set_get now v parts d d' hp hw h

/-- A writable path never makes `$set` raise. -/
theorem set_total (now v : Val) (parts : List String) (d : Val) (hp : parts ≠ [])
    (hw : writable parts d = true) : ∃ d', updateSingleField .set now v parts d = .ok d' :=
  Proofs.C02.set_total now v parts d hp hw

/-- `$set` on an array index pads with nulls: the array becomes `padSet xs i v`. -/
theorem set_pads_with_null (now v : Val) (xs : List Val) (i : Nat) :
    runUpdater .set now (.arr xs) (toString i) v = .ok (.arr (padSet xs i v)) :=
  Proofs.C02.set_pads_with_null now v xs i

/-- Frame, top level: any single-field updater leaves every other top-level field as it was, and
    keeps the order of the fields that were there. -/
theorem single_field_frame (u : Updater) (now v : Val) (p : String) (rest : List String)
    (fs fs' : Fields) (h : updateSingleField u now v (p :: rest) (.doc fs) = .ok (.doc fs')) :
    (∀ k, k ≠ p → dget k fs' = dget k fs) ∧
    (dkeys fs').filter (· ≠ p) = (dkeys fs).filter (· ≠ p) :=
  Proofs.C02.single_field_frame u now v p rest fs fs' h

/-! ### $unset, $inc, $min/$max, $pop, $rename -/

/-- `$unset` removes the (first) entry of the field: afterwards the field is gone — provided the
    document did not hold the key twice — and every other field reads as before. -/
theorem unset_removes (now v : Val) (f : String) (fs : Fields) :
    runUpdater .unset now (.doc fs) f v = .ok (.doc (derase f fs)) ∧
    ((dkeys fs).count f ≤ 1 → dget f (derase f fs) = none) ∧
    (∀ k, k ≠ f → dget k (derase f fs) = dget k fs) :=
  Proofs.C02.unset_removes now v f fs

/-- `$inc` adds to the current number, a missing field counting as 0; ints stay ints. -/
theorem inc_adds (now : Val) (f : String) (fs : Fields) (n k : Int) :
    (dget f fs = some (.int n) → runUpdater .inc now (.doc fs) f (.int k) = .ok (.doc (dset f (.int (n + k)) fs))) ∧
    (dget f fs = none → runUpdater .inc now (.doc fs) f (.int k) = .ok (.doc (dset f (.int k) fs))) :=
  Proofs.C02.inc_adds now f fs n k

/-- `$max` keeps the larger of the two numbers, `$min` the smaller (ints). -/
theorem min_max_spec (now : Val) (f : String) (fs : Fields) (n k : Int) (h : dget f fs = some (.int n)) :
    runUpdater .max now (.doc fs) f (.int k) = .ok (.doc (dset f (.int (if k > n then k else n)) fs)) ∧
    runUpdater .min now (.doc fs) f (.int k) = .ok (.doc (dset f (.int (if k < n then k else n)) fs)) :=
  Proofs.C02.min_max_spec now f fs n k h

/-- … and the same on an element of an array (the parent of the last path component is an array,
    addressed by index `i`): the element becomes the larger / smaller of the two, the other
    elements stay; an index past the end stores the value there, padding with nulls.  (Repaired
    defect `minmax-array-noop`: the operators used to leave an array alone.) -/
theorem min_max_array_spec (now : Val) (xs : List Val) (i : Nat) :
    (∀ n k : Int, xs[i]? = some (.int n) →
      runUpdater .max now (.arr xs) (toString i) (.int k) =
        .ok (.arr (xs.set i (.int (if k > n then k else n)))) ∧
      runUpdater .min now (.arr xs) (toString i) (.int k) =
        .ok (.arr (xs.set i (.int (if k < n then k else n))))) ∧
    (∀ v : Val, xs[i]? = none →
      runUpdater .max now (.arr xs) (toString i) v = .ok (.arr (padSet xs i v)) ∧
      runUpdater .min now (.arr xs) (toString i) v = .ok (.arr (padSet xs i v))) :=
  Proofs.C02.min_max_array_spec now xs i

/-- `$pop: 1` drops the last element, `$pop: -1` the first; nothing else changes. -/
theorem pop_spec (now : Val) (f : String) (fs : Fields) (xs : List Val) (h : dget f fs = some (.arr xs)) :
    runUpdater .pop now (.doc fs) f (.int 1) = .ok (.doc (dset f (.arr xs.dropLast) fs)) ∧
    runUpdater .pop now (.doc fs) f (.int (-1)) = .ok (.doc (dset f (.arr (xs.drop 1)) fs)) :=
  Proofs.C02.pop_spec now f fs xs h

/-- … and `$pop` of a path the document does not hold leaves the document alone: a missing
    top-level field, and a dotted path whose first sub-document is missing (nothing is created on
    the way, whatever the operand).  (Repaired defect `pop-missing-refused`: it used to raise
    KeyError, after creating the parents.) -/
theorem pop_missing_noop (now : Val) (f : String) (fs : Fields) (h : dget f fs = none) :
    runUpdater .pop now (.doc fs) f (.int 1) = .ok (.doc fs) ∧
    runUpdater .pop now (.doc fs) f (.int (-1)) = .ok (.doc fs) ∧
    (∀ (v : Val) (q : String) (rest : List String),
      updateSingleField .pop now v (f :: q :: rest) (.doc fs) = .ok (.doc fs)) :=
  ⟨(Proofs.C02Lemmas.pop_missing_field now f fs h).1, (Proofs.C02Lemmas.pop_missing_field now f fs h).2,
   fun v q rest => Proofs.C02Lemmas.pop_missing_parent now v f q rest fs h⟩

/-- `$rename` moves the value under the new name and removes the old one. -/
theorem rename_spec (src dst : String) (fs : Fields) (x : Val)
    (hs : src.toList.contains '.' = false) (hd : dst.toList.contains '.' = false)
    (h : dget src fs = some x) :
    renameFields (.doc [(src, .str dst)]) (.doc fs) = .ok (.doc (dset dst x (derase src fs))) :=
  Proofs.C02.rename_spec src dst fs x hs hd h

/-! ### $push, $addToSet, $pull, $pullAll: order-preserving array edits -/

/-- Python slicing splits a list: `xs[0:i] ++ xs[i:] = xs` for every `i` (negative too). -/
theorem pySlice_split (xs : List Val) (i : Int) :
    pySlice xs (some 0) (some i) ++ pySlice xs (some i) none = xs :=
  Proofs.C02.pySlice_split xs i

/-- `$push` with `$each` (and optionally `$position`) inserts the new elements as one block and
    keeps the order of the old ones: the result is `old.take k ++ each ++ old.drop k` for a
    position `k` inside the old list. -/
theorem push_keeps_order (xs es : List Val) (pos : Option Int) :
    ∃ k, k ≤ xs.length ∧ pushValue (.arr xs) (.doc (("$each", .arr es) ::
        (match pos with | some p => [("$position", .int p)] | none => []))) =
      .ok (.arr (xs.take k ++ es ++ xs.drop k)) :=
  Proofs.C02.push_keeps_order xs es pos

/-- … and the position is the Python one: `old[0:p] + each + old[p:]` (negative `p` counts from
    the end, out-of-range `p` is clamped). -/
theorem push_position_spec (xs es : List Val) (p : Int) :
    pushValue (.arr xs) (.doc [("$each", .arr es), ("$position", .int p)]) =
      .ok (.arr (pySlice xs (some 0) (some p) ++ es ++ pySlice xs (some p) none)) :=
  Proofs.C02.push_position_spec xs es p

/-- a plain `$push` appends -/
theorem push_appends (xs : List Val) (v : Val) (h : ∀ fs, v = .doc fs → dget "$each" fs = none) :
    pushValue (.arr xs) v = .ok (.arr (xs ++ [v])) :=
  Proofs.C02.push_appends xs v h

/-- `$slice` after the push keeps a contiguous part: the first `n` or the last `-n` elements. -/
theorem push_slice_spec (xs es : List Val) (n : Int) :
    pushValue (.arr xs) (.doc [("$each", .arr es), ("$slice", .int n)]) =
      .ok (.arr (if n < 0 then (xs ++ es).drop ((xs ++ es).length - n.natAbs)
                 else (xs ++ es).take n.toNat)) :=
  Proofs.C02.push_slice_spec xs es n

/-- `$addToSet` of a single value appends it unless an equal element is there (`addOne`); with
    `$each` the listed values are added one after the other (`addAll = foldl addOne`), so a value
    listed twice is added once.  (Repaired defect `addtoset-each-dups`: every listed value used to
    be compared with the old array only.) -/
theorem addToSet_spec (xs es : List Val) (v : Val) (hv : ∀ fs, v = .doc fs → dget "$each" fs = none) :
    addToSetValue (.arr xs) (.doc [("$each", .arr es)]) = .ok (.arr (addAll xs es)) ∧
    addToSetValue (.arr xs) v = .ok (.arr (addOne xs v)) :=
  Proofs.C02.addToSet_spec xs es v hv

/-- … which keeps the old elements in order in front, and appends only listed values that were
    not there, no two of them equal. -/
theorem addToSet_each_once (xs es : List Val) :
    ∃ added, addAll xs es = xs ++ added ∧
      (∀ o ∈ added, o ∈ es ∧ pyIn o xs = false) ∧
      added.Pairwise (fun a b => pyEq a b = false) :=
  Proofs.C02.addToSet_each_once xs es

/-- **`$addToSet` takes no clause next to `$each`**: whatever the target holds, `{$each: …}` with
    any other key beside it is a write error (unlike `$push`, which has `$position` / `$sort` /
    `$slice`).  (Repaired defect: the other clause used to be dropped silently.) -/
theorem addToSet_each_only (cur : Val) (vs : Fields) (he : (dget "$each" vs).isSome = true)
    (k : String) (hk : k ∈ dkeys vs) (hne : k ≠ "$each") :
    addToSetValue cur (.doc vs) = .error .writeErr :=
  Proofs.C02Lemmas.addToSet_each_clause cur vs he k hk hne

/-- … and so is the whole update `{$addToSet: {f: {$each: …, k: …}}}` applied to a document
    (matched or being upserted), for a top-level field `f`. -/
theorem addToSet_each_only_update (spec now : Val) (wasInsert : Bool) (f : String) (vs fs : Fields)
    (hf1 : f.toList.contains '.' = false) (hf2 : f.toList.contains '$' = false) (hf3 : f ≠ "")
    (he : (dget "$each" vs).isSome = true) (k : String) (hk : k ∈ dkeys vs) (hne : k ≠ "$each") :
    applyUpdate spec (.doc [("$addToSet", .doc [(f, .doc vs)])]) now wasInsert (.doc fs) =
      .error .writeErr :=
  Proofs.C02Lemmas.addToSet_clause_update spec now wasInsert f vs fs hf1 hf2 hf3 he k hk hne

/-- That is the only thing the clause test refuses: it fires exactly when `$each` is there together
    with another key. -/
theorem addToSet_clause_test (vs : Fields) :
    eachWithOtherClause (.doc vs) = true ↔
      (dget "$each" vs).isSome = true ∧ ∃ k ∈ dkeys vs, k ≠ "$each" :=
  Proofs.C02Lemmas.eachWithOtherClause_iff vs

/-- `$pullAll` removes exactly the elements equal to a listed value, keeping the others in
    order. -/
theorem pullAll_spec (xs vs : List Val) :
    pullAllValue (.arr xs) (.arr vs) = .ok (.arr (xs.filter (fun o => !pyIn o vs))) :=
  Proofs.C02.pullAll_spec xs vs

/-- `$pullAll` through a path that ends in the index of an array item (`c.0` on `c: [[…], …]`):
    the listed values are removed from that item, the other items stay; an index past the end
    reaches nothing.  (Repaired defect `pullall-array-element`: nothing used to be pulled.) -/
theorem pullAll_array_item_spec (xs vs : List Val) (last : String) (i : Nat)
    (hd : isDigits last = true) (hi : pyInt? last = some (i : Int)) :
    (∀ ys, xs[i]? = some (.arr ys) →
      pullAllAt (.arr vs) (.arr xs) last =
        .ok (.arr (xs.set i (.arr (ys.filter (fun o => !pyIn o vs)))))) ∧
    (xs[i]? = none → pullAllAt (.arr vs) (.arr xs) last = .ok (.arr xs)) :=
  Proofs.C02Lemmas.pullAllAt_item xs vs last i hd hi

/-- … and through a path whose last container is neither a sub-document nor an array (a scalar,
    null, a string): nothing to pull from, the container stays.  (Repaired defect
    `pullall-through-scalar-refused`: it used to raise TypeError.) -/
theorem pullAll_through_scalar_noop (value parent : Val) (last : String)
    (hp : ∀ fs, parent ≠ .doc fs) (ha : ∀ xs, parent ≠ .arr xs) :
    pullAllAt value parent last = .ok parent :=
  Proofs.C02Lemmas.pullAllAt_scalar value parent last hp ha

/-- `$pull` of a scalar from an array of scalars removes exactly the equal elements. -/
theorem pull_spec (v : Val) (xs : List Val) (hv : isScalar v = true) (hx : xs.all isScalar = true) :
    pullList v xs = .ok (xs.filter (fun o => !pyEq v o)) :=
  Proofs.C02.pull_spec v xs hv hx

/-- `$pull` along a dotted path edits the array the path leads to (sub-documents by key, arrays by
    index: `getPath`) and nothing else: when the path holds an array, afterwards it holds the
    pulled array; when it does not exist or holds something else, the document is unchanged.
    (Repaired defect `pull-through-array`: the walk used to stop at the first component it could
    not follow and pull from the array it had reached.) -/
theorem pull_path_spec (value : Val) (parts : List String) (d d' : Val)
    (h : pullWalk value parts d = .ok d') :
    (∀ xs, getPath parts d = some (.arr xs) →
      ∃ ys, pullList value xs = .ok ys ∧ getPath parts d' = some (.arr ys)) ∧
    ((∀ xs, getPath parts d ≠ some (.arr xs)) → d' = d) :=
  Proofs.C02.pull_path_spec value parts d d' h

/-- `$pullAll` on a path that does not exist leaves the document exactly as it was — no
    intermediate sub-document is created.  (Repaired defect `pullall-creates-path`.) -/
theorem pullAll_missing_path_noop (spec d : Val) (field : String) (value d' : Val)
    (hm : getPath (splitDots field) d = none)
    (h : pullAllField spec d field value = .ok d') : d' = d :=
  Proofs.C02.pullAll_missing_path_noop spec d field value d' hm h

/-! ### replacement, untouched fields, server versions -/

/-- A replacement yields `_id` followed by the replacement's fields (the kept `_id` must be `==`
    to itself, which every value without duplicate keys is: see the example at the end). -/
theorem replace_spec (doc : Fields) (existing : Fields) (id : Val)
    (hid : dget "_id" existing = some id) (hrefl : pyEq id id = true) (hn : dget "_id" doc = none)
    (hd : doc.all (fun kv => !kv.1.startsWith "$") = true) (hk : (dkeys doc).Nodup) :
    replaceWhole doc (.doc existing) = .ok (.doc (("_id", id) :: doc)) :=
  Proofs.C02.replace_spec doc existing id hid hrefl hn hd hk

/-- **Every top-level field the specification does not address is left untouched**, for any
    operator update that succeeds. -/
theorem untouched_fields (spec now : Val) (wasInsert : Bool) (u : Fields) (fs fs' : Fields)
    (hu : u.all (fun kv => kv.1.startsWith "$") = true) (hne : u ≠ [])
    (h : applyUpdate spec (.doc u) now wasInsert (.doc fs) = .ok (.doc fs')) :
    ∀ k, k ∉ addressed u → dget k fs' = dget k fs :=
  Proofs.C02.untouched_fields spec now wasInsert u fs fs' hu hne h

/-- … and a successful operator update of a document always yields a document (so the `.doc fs'`
    shape in `untouched_fields` and `single_field_frame` is no restriction). -/
theorem update_stays_document (spec now : Val) (wasInsert : Bool) (u : Fields) (fs : Fields) (d' : Val)
    (hu : u.all (fun kv => kv.1.startsWith "$") = true) (hne : u ≠ [])
    (h : applyUpdate spec (.doc u) now wasInsert (.doc fs) = .ok d') : ∃ fs', d' = .doc fs' :=
  Proofs.C02.update_stays_document spec now wasInsert u fs d' hu hne h

theorem single_field_stays_document (u : Updater) (now v : Val) (p : String) (rest : List String)
    (fs : Fields) (d' : Val) (h : updateSingleField u now v (p :: rest) (.doc fs) = .ok d') :
    ∃ fs', d' = .doc fs' :=
  Proofs.C02.single_field_stays_document u now v p rest fs d' h

/-- Before server 5.0 an empty operator document is a write error; from 5.0 on it is accepted
    (and does nothing). -/
theorem empty_operator (fs : Fields) (op : String) (hop : updaterKeys.contains op = true)
    (h : dget op fs = some (.doc [])) :
    emptyOperatorCheck { preV5 := true } fs = .error .writeErr ∧
    emptyOperatorCheck { preV5 := false } fs = .ok () :=
  Proofs.C02.empty_operator fs op hop h

/-! ### the operator names are checked before any document is looked for -/

/-- **Which update documents pass `_validate_update_operators`**: the ones made of known operators
    only, and the replacement documents (first key not a known operator, no key starting with
    `$`).  Everything else is a `ValueError`. -/
theorem validated_update_shapes (u : Fields) :
    validateOps u = .ok () ↔
      (u.all (fun kv => knownOperator kv.1) = true ∨
       (∃ k v rest, u = (k, v) :: rest ∧ knownOperator k = false ∧
          u.all (fun kv => !kv.1.startsWith "$") = true)) :=
  Proofs.C02Lemmas.validateOps_ok_iff u

/-- **An unknown `$operator` anywhere in the update document is refused** (a typo, `$mul`, `$bit`):
    first, last, alone or next to valid operators. -/
theorem unknown_operator_invalid (u : Fields) (k : String) (hk : k ∈ dkeys u)
    (hd : k.startsWith "$" = true) (hu : knownOperator k = false) :
    validateOps u = .error .valueErr :=
  Proofs.C02Lemmas.validateOps_unknown u k hk hd hu

/-- **… before any document is looked for**: when the update document fails the precheck (the
    pre-5.0 empty-operator rule, then the operator names), the call raises and returns the
    collection exactly as it was handed in — no expiry pass, no filter evaluation, no match needed —
    for every collection, every filter (a mapping or not, valid or not), upsert or not, one or
    many.  (Repaired defect: the error used to depend on a document matching.) -/
theorem invalid_update_refused_before_matching (cfg : Cfg) (now : Int) (c : Coll) (f : Val)
    (u : Fields) (upsert multi : Bool) (e : Err) (h : updatePrecheck cfg (patchFields u) = .error e) :
    ∃ e', applyUpdateColl cfg now c f (.doc u) upsert multi = (c, .error e') ∧
      (∀ fs, f = .doc fs → e' = e) :=
  Proofs.C02Lemmas.precheck_refuses cfg now c f u upsert multi e h

/-- … which is the case for every update document holding an unknown `$operator` (the error is
    the `ValueError` from 5.0 on; before 5.0 the empty-operator `WriteError` comes first when
    both apply). -/
theorem unknown_operator_fails_precheck (cfg : Cfg) (u : Fields) (k : String) (hk : k ∈ dkeys u)
    (hd : k.startsWith "$" = true) (hu : knownOperator k = false) :
    ∃ e, updatePrecheck cfg (patchFields u) = .error e ∧ (cfg.preV5 = false → e = .valueErr) :=
  Proofs.C02Lemmas.precheck_unknown cfg u k hk hd hu

/-- non-vacuity: `{$set: {a: 1}, $typo: 1}` is refused on a collection where nothing matches, on one
    where the filter matches (`a` is NOT set), and with a malformed filter; `{$pop: {a: 5}, $typo:
    1}` on a matching document now gives the ValueError for `$typo`, not the WriteError of the
    `$pop` argument (applied alone, the operators would give that WriteError first) -/
example :
    let c : Coll := { docs := [(.int 1, .doc [("_id", .int 1), ("a", .arr [.int 0])])] }
    let u : Val := .doc [("$set", .doc [("a", .int 1)]), ("$typo", .int 1)]
    let isValueErr (r : Coll × R UpdateResult) : Bool :=
      match r with
      | (c', .error .valueErr) => c'.docs == c.docs
      | _ => false
    (isValueErr (applyUpdateColl {} 0 c (.doc [("_id", .int 9)]) u false false) &&
     isValueErr (applyUpdateColl {} 0 c (.doc [("_id", .int 1)]) u false true) &&
     isValueErr (applyUpdateColl {} 0 c (.doc [("a", .doc [("$foo", .int 1)])]) u true false) &&
     isValueErr (applyUpdateColl {} 0 c (.doc []) (.doc [("$pop", .doc [("a", .int 5)]), ("$typo", .int 1)]) false false) &&
     (match applyUpdate (.doc []) (.doc [("$pop", .doc [("a", .int 5)]), ("$typo", .int 1)]) .null false
          (.doc [("_id", .int 1), ("a", .arr [.int 0])]) with
      | .error .writeErr => true | _ => false) &&
     knownOperator "$typo" == false && knownOperator "$mul" == false && knownOperator "$push" &&
     (match validateOps [("x", .int 1), ("y", .int 2)] with | .ok () => true | _ => false)) = true := by
  decide +kernel

/-! ### non-vacuity: one concrete instance per group -/

/-- result of a model call equals the expected value (structural equality) -/
private def okIs (r : R Val) (v : Val) : Bool :=
  match r with
  | .ok x => x == v
  | .error _ => false

/-- the witnesses of the three repaired defects, as whole updates: `{$pullAll: {'c.0': [0]}}` on
    `c: [[-1, 0], 2]`, `{$pullAll: {'d.c': [1]}}` on `d: 2`, `{$pop: {b: 1}}` and `{$pop: {'b.x': 1}}`
    on a document without `b` (no `b: {}` is left behind) -/
example :
    okIs (applyUpdate (.doc []) (.doc [("$pullAll", .doc [("c.0", .arr [.int 0])])]) .null false
        (.doc [("_id", .int 1), ("c", .arr [.arr [.int (-1), .int 0], .int 2])]))
      (.doc [("_id", .int 1), ("c", .arr [.arr [.int (-1)], .int 2])]) = true ∧
    okIs (applyUpdate (.doc []) (.doc [("$pullAll", .doc [("d.c", .arr [.int 1])])]) .null true
        (.doc [("_id", .int 7), ("d", .int 2)])) (.doc [("_id", .int 7), ("d", .int 2)]) = true ∧
    okIs (applyUpdate (.doc []) (.doc [("$pop", .doc [("b", .int 1), ("b.x", .int 1)])]) .null true
        (.doc [("d", .str "x")])) (.doc [("d", .str "x")]) = true ∧
    isDigits "0" = true ∧ pyInt? "0" = some 0 := by decide +kernel

/-- `$set` group: a `$set` through a missing sub-document and past the end of an array; the path
    is `writable` and afterwards reads the value (hypotheses and conclusion of `set_get`) -/
example : (match updateSingleField .set .null (.int 7) ["a", "l", "3"]
      (.doc [("_id", .int 1), ("a", .doc [("l", .arr [.int 0])])]) with
    | .ok d' => d' == .doc [("_id", .int 1), ("a", .doc [("l", .arr [.int 0, .null, .null, .int 7])])]
    | .error _ => false) = true := by decide +kernel

example : writable ["a", "l", "3"] (.doc [("_id", .int 1), ("a", .doc [("l", .arr [.int 0])])]) = true ∧
    writable ["b", "c", "d"] (.doc [("_id", .int 1)]) = true ∧
    writable ["a", "x"] (.doc [("a", .int 1)]) = false := by decide +kernel

example : (getPath ["a", "l", "3"]
      (.doc [("_id", .int 1), ("a", .doc [("l", .arr [.int 0, .null, .null, .int 7])])])
    == some (.int 7)) = true := by decide +kernel

example : okIs (runUpdater .set .null (.arr [.int 0]) (toString 3) (.int 7))
    (.arr [.int 0, .null, .null, .int 7]) = true := by decide +kernel

/-- known finding `nonnumeric-component-skipped` (outside `writable` / `getPath`, which the theorems
    above are stated on): a path component that is no index is dropped when it meets an array, and
    the walk goes on with the next component — the model follows the code: `$pop` of `d.x.0` pops
    from `d[0]`, `$set` of `d.x.0` stores `d[0]`, although nothing is at `d.x.0` -/
example :
    let d : Val := .doc [("_id", .int 1), ("d", .arr [.arr [.str "b", .str "ba"]])]
    getPath ["d", "x", "0"] d = none ∧ writable ["d", "x", "0"] d = false ∧
    okIs (updateSingleField .pop .null (.int (-1)) ["d", "x", "0"] d)
      (.doc [("_id", .int 1), ("d", .arr [.arr [.str "ba"]])]) = true ∧
    okIs (updateSingleField .set .null (.int 5) ["d", "x", "0"] d)
      (.doc [("_id", .int 1), ("d", .arr [.int 5])]) = true := by decide +kernel

/-- `$unset/$inc/$min/$max/$pop/$rename` group -/
example : okIs (runUpdater .inc .null (.doc [("_id", .int 1), ("n", .int 2)]) "n" (.int 5))
      (.doc [("_id", .int 1), ("n", .int 7)]) = true ∧
    okIs (runUpdater .unset .null (.doc [("_id", .int 1), ("n", .int 2)]) "n" (.str ""))
      (.doc [("_id", .int 1)]) = true ∧
    okIs (runUpdater .max .null (.doc [("n", .int 2)]) "n" (.int 5)) (.doc [("n", .int 5)]) = true ∧
    okIs (runUpdater .min .null (.doc [("n", .int 2)]) "n" (.int 5)) (.doc [("n", .int 2)]) = true ∧
    okIs (runUpdater .pop .null (.doc [("l", .arr [.int 1, .int 2, .int 3])]) "l" (.int (-1)))
      (.doc [("l", .arr [.int 2, .int 3])]) = true ∧
    okIs (renameFields (.doc [("a", .str "b")]) (.doc [("a", .int 1), ("c", .int 2)]))
      (.doc [("c", .int 2), ("b", .int 1)]) = true := by decide +kernel

/-- array group: `$position: -1` inserts before the last element; `$slice: -2` keeps the last two;
    `$addToSet` skips what is there (`1 == 1.0`); `$pull: 1` removes `1`, `True` and `1.0` -/
example : okIs (pushValue (.arr [.int 1, .int 2, .int 3])
        (.doc [("$each", .arr [.int 8, .int 9]), ("$position", .int (-1))]))
      (.arr [.int 1, .int 2, .int 8, .int 9, .int 3]) = true ∧
    okIs (pushValue (.arr [.int 1, .int 2]) (.doc [("$each", .arr [.int 3]), ("$slice", .int (-2))]))
      (.arr [.int 2, .int 3]) = true ∧
    okIs (addToSetValue (.arr [.int 1, .int 2]) (.doc [("$each", .arr [.dbl 1 0, .int 3, .int 2])]))
      (.arr [.int 1, .int 2, .int 3]) = true ∧
    okIs (pullAllValue (.arr [.int 1, .int 2, .int 1, .int 3]) (.arr [.int 1, .int 3]))
      (.arr [.int 2]) = true ∧
    (match pullList (.int 1) [.int 1, .bool true, .int 2, .dbl 2 1, .str "1"] with
     | .ok r => Val.arr r == .arr [.int 2, .str "1"]
     | .error _ => false) = true := by decide +kernel

/-- `$addToSet` with a clause next to `$each` (`$position`, a typo, before or after `$each`) is a
    write error, on an array, on a missing field and on a non-array alike -/
example :
    (match addToSetValue (.arr [.int 1]) (.doc [("$each", .arr [.int 9, .int 0]), ("$typo", .int 1)]) with
     | .error .writeErr => true | _ => false) = true ∧
    (match addToSetValue (.int 5) (.doc [("$position", .int 0), ("$each", .arr [.int 9])]) with
     | .error .writeErr => true | _ => false) = true ∧
    (match applyUpdate (.doc []) (.doc [("$addToSet", .doc [("arr", .doc [("$each", .arr [.int 9, .int 0]), ("$typo", .int 1)])])])
        .null false (.doc [("_id", .int 1)]) with
     | .error .writeErr => true | _ => false) = true ∧
    eachWithOtherClause (.doc [("$each", .arr [])]) = false := by decide +kernel

/-- the four repaired defects on their witnesses: `$pullAll` on a missing path, duplicates inside
    `$each`, `$min` on an array element (and past the end), `$pull` with a path into an array of
    scalars (no-op) and through an index -/
example : okIs (applyUpdate (.doc []) (.doc [("$pullAll", .doc [("d.x", .arr [.int 1])])]) .null false
        (.doc [("_id", .int 1), ("a", .int 1)])) (.doc [("_id", .int 1), ("a", .int 1)]) = true ∧
    getPath (splitDots "d.x") (.doc [("_id", .int 1), ("a", .int 1)]) = none ∧
    okIs (applyUpdate (.doc []) (.doc [("$addToSet", .doc [("a", .doc [("$each", .arr [.int 3, .int 3])])])])
        .null false (.doc [("_id", .int 1), ("a", .arr [])])) (.doc [("_id", .int 1), ("a", .arr [.int 3])]) = true ∧
    okIs (applyUpdate (.doc []) (.doc [("$min", .doc [("a.1", .int 0), ("a.3", .int 2)])]) .null false
        (.doc [("_id", .int 1), ("a", .arr [.int 5, .int 5])]))
      (.doc [("_id", .int 1), ("a", .arr [.int 5, .int 0, .null, .int 2])]) = true ∧
    okIs (applyUpdate (.doc []) (.doc [("$pull", .doc [("d.c", .int 5), ("g.0", .int 5)])]) .null false
        (.doc [("_id", .int 1), ("d", .arr [.int 5, .int 6]), ("g", .arr [.arr [.int 5, .int 6]])]))
      (.doc [("_id", .int 1), ("d", .arr [.int 5, .int 6]), ("g", .arr [.arr [.int 6]])]) = true := by
  decide +kernel

/-- replacement / frame group: a mixed operator update succeeds, touches exactly the addressed
    top-level fields `c, e, a, d` and leaves `_id` and `z` alone -/
example : okIs (applyUpdate .null
        (.doc [("$rename", .doc [("c", .str "e")]), ("$pull", .doc [("a.b", .int 1)]),
               ("$push", .doc [("d", .int 9)])]) .null false
        (.doc [("_id", .int 1), ("a", .doc [("b", .arr [.int 1, .int 9])]), ("c", .int 9),
               ("d", .arr [.int 1]), ("z", .int 0)]))
      (.doc [("_id", .int 1), ("a", .doc [("b", .arr [.int 9])]), ("d", .arr [.int 1, .int 9]),
             ("z", .int 0), ("e", .int 9)]) = true ∧
    addressed [("$rename", .doc [("c", .str "e")]), ("$pull", .doc [("a.b", .int 1)]),
               ("$push", .doc [("d", .int 9)])] = ["c", "e", "a", "d"] := by decide +kernel

example : okIs (replaceWhole [("x", .int 1), ("y", .int 2)] (.doc [("_id", .int 5), ("x", .int 0)]))
    (.doc [("_id", .int 5), ("x", .int 1), ("y", .int 2)]) = true := by decide +kernel

/-- why `replace_spec` asks for `pyEq id id`: an `_id` holding a key twice is not `==` to itself
    and the replacement is refused (`_id` "changed") -/
example : pyEq (.doc [("a", .int 1), ("a", .int 2)]) (.doc [("a", .int 1), ("a", .int 2)]) = false ∧
    (match replaceWhole [("x", .int 1)] (.doc [("_id", .doc [("a", .int 1), ("a", .int 2)])]) with
     | .error .opFail => true
     | _ => false) = true := by decide +kernel

/-- server versions: an empty `$set` -/
example : emptyOperatorCheck { preV5 := true } [("$set", .doc [])] = .error .writeErr ∧
    emptyOperatorCheck { preV5 := false } [("$set", .doc [])] = .ok () := by decide +kernel

/-! ### a whole update is the pointwise combination of its entries

The theorems above describe one operator on one path and say that unaddressed fields stay.  The
following ones tie a WHOLE update `{op: {path: arg, …}, …}` to its parts, the entries
`(op, path, arg)` (`Spec.entries`), each taken as an update of its own (`Spec.single`).  The side
condition is that no two entries address the same top-level field: `(addressed u).Nodup`
(`addressed` lists the first component of every path and, for `$rename`, the target too). -/

/-- **Pointwise combination.**  When a (non-empty, `$`-keyed) update whose entries address
    pairwise different top-level fields succeeds on a document, then EVERY entry, run alone on the
    ORIGINAL document, succeeds too, and the result of the whole update holds under each field the
    entry addresses exactly what that entry alone puts there.  Entries do not see each other's
    effects; with `untouched_fields` (all other fields are as before) this determines the result
    field by field.  All operators of the model are covered (`$set $unset $inc $min $max $pop
    $currentDate $setOnInsert $rename $push $addToSet $pull $pullAll`), documents holding a key
    twice included. -/
theorem update_is_pointwise (spec now : Val) (wasInsert : Bool) (u fs fs' : Fields)
    (hu : u.all (fun kv => kv.1.startsWith "$") = true) (hne : u ≠ [])
    (hpos : positionalUpdate u = false) (hd : (addressed u).Nodup)
    (h : applyUpdate spec (.doc u) now wasInsert (.doc fs) = .ok (.doc fs')) :
    ∀ e, e ∈ entries u → ∃ fs₁,
      applyUpdate spec (.doc (single e)) now wasInsert (.doc fs) = .ok (.doc fs₁) ∧
      ∀ k, k ∈ addressed (single e) → dget k fs' = dget k fs₁ :=
  Proofs.C02.update_is_pointwise spec now wasInsert u fs fs' hu hne hpos hd h

/-- non-vacuity: five operators, seven entries (dotted paths, an array index, a `$rename` with
    its two fields, a `$setOnInsert` that is skipped), distinct heads; the update succeeds, and so
    does e.g. its `$inc` entry alone, leaving the same `n` -/
example :
    let u : Fields := [("$set", .doc [("a.x", .int 1), ("l.1", .int 7)]), ("$inc", .doc [("n", .int 2)]),
      ("$rename", .doc [("c", .str "e")]), ("$push", .doc [("p", .int 9)]),
      ("$setOnInsert", .doc [("s", .int 0)]), ("$unset", .doc [("z", .str "")])]
    let fs : Fields := [("_id", .int 1), ("a", .doc [("y", .int 0)]), ("l", .arr [.int 5, .int 6]),
      ("n", .int 40), ("c", .str "v"), ("z", .int 0), ("z", .int 1)]
    u.all (fun kv => kv.1.startsWith "$") = true ∧ u ≠ [] ∧ positionalUpdate u = false ∧
    (addressed u).Nodup ∧
    addressed u = ["a", "l", "n", "c", "e", "p", "s", "z"] ∧ (entries u).length = 7 ∧
    okIs (applyUpdate .null (.doc u) .null false (.doc fs))
      (.doc [("_id", .int 1), ("a", .doc [("y", .int 0), ("x", .int 1)]), ("l", .arr [.int 5, .int 7]),
             ("n", .int 42), ("z", .int 1), ("e", .str "v"), ("p", .arr [.int 9])]) = true ∧
    okIs (applyUpdate .null (.doc (single ("$inc", "n", .int 2))) .null false (.doc fs))
      (.doc [("_id", .int 1), ("a", .doc [("y", .int 0)]), ("l", .arr [.int 5, .int 6]),
             ("n", .int 42), ("c", .str "v"), ("z", .int 0), ("z", .int 1)]) = true := by
  decide +kernel

/-- why the heads must differ: in `$set a: 1` followed by `$inc a: 1` the second entry sees the
    effect of the first one (`a` becomes 2); alone on the original document it yields 6 -/
example :
    let u : Fields := [("$set", .doc [("a", .int 1)]), ("$inc", .doc [("a", .int 1)])]
    ¬ (addressed u).Nodup ∧
    okIs (applyUpdate .null (.doc u) .null false (.doc [("a", .int 5)])) (.doc [("a", .int 2)]) = true ∧
    okIs (applyUpdate .null (.doc (single ("$inc", "a", .int 1))) .null false (.doc [("a", .int 5)]))
      (.doc [("a", .int 6)]) = true := by
  decide +kernel

/-- **An entry reads only the fields it addresses.**  On two documents (without duplicate keys)
    that hold the same values under the top-level fields an entry addresses, the entry fails
    alike, or succeeds on both and leaves the same values under those fields — so an entry
    commutes with any edit of other fields.  (With `untouched_fields` for `single e`: an entry
    neither reads nor writes anything else.  This is the ingredient of `update_is_pointwise`; there
    it is used in a form that also covers documents holding a key twice.) -/
theorem entry_reads_only_its_fields (spec now : Val) (wasInsert : Bool) (e : Entry)
    (fs gs : Fields) (he : e.1.startsWith "$" = true)
    (hpos : positionalUpdate (single e) = false)
    (hk : (dkeys fs).Nodup) (hk' : (dkeys gs).Nodup)
    (hag : ∀ k, k ∈ addressed (single e) → dget k fs = dget k gs) :
    (∀ err, applyUpdate spec (.doc (single e)) now wasInsert (.doc fs) = .error err →
      applyUpdate spec (.doc (single e)) now wasInsert (.doc gs) = .error err) ∧
    (∀ fs', applyUpdate spec (.doc (single e)) now wasInsert (.doc fs) = .ok (.doc fs') →
      ∃ gs', applyUpdate spec (.doc (single e)) now wasInsert (.doc gs) = .ok (.doc gs') ∧
        ∀ k, k ∈ addressed (single e) → dget k fs' = dget k gs') :=
  Proofs.C02.entry_reads_only_its_fields spec now wasInsert e fs gs he hpos hk hk' hag

/-- non-vacuity: a `$rename c → e` on two documents that agree on `c` and `e` (both lack `e`) and
    differ elsewhere -/
example :
    let fs : Fields := [("_id", .int 1), ("c", .str "v"), ("x", .int 0)]
    let gs : Fields := [("c", .str "v"), ("_id", .int 2), ("y", .arr [])]
    let e : Entry := ("$rename", "c", .str "e")
    e.1.startsWith "$" = true ∧ positionalUpdate (single e) = false ∧
    (dkeys fs).Nodup ∧ (dkeys gs).Nodup ∧ addressed (single e) = ["c", "e"] ∧
    (dget "c" fs == dget "c" gs) = true ∧ (dget "e" fs == dget "e" gs) = true ∧
    okIs (applyUpdate .null (.doc (single e)) .null false (.doc fs))
      (.doc [("_id", .int 1), ("x", .int 0), ("e", .str "v")]) = true ∧
    okIs (applyUpdate .null (.doc (single e)) .null false (.doc gs))
      (.doc [("_id", .int 2), ("y", .arr []), ("e", .str "v")]) = true := by
  decide +kernel

/-- **Errors, one direction (no shape condition).**  If some entry alone fails on the original
    document, the whole update fails. -/
theorem update_error_of_entry (spec now : Val) (wasInsert : Bool) (u fs : Fields)
    (hu : u.all (fun kv => kv.1.startsWith "$") = true) (hne : u ≠ [])
    (hpos : positionalUpdate u = false) (hd : (addressed u).Nodup) (e : Entry) (he : e ∈ entries u) (err : Err)
    (h : applyUpdate spec (.doc (single e)) now wasInsert (.doc fs) = .error err) :
    ∃ err', applyUpdate spec (.doc u) now wasInsert (.doc fs) = .error err' :=
  Proofs.C02.update_error_of_entry spec now wasInsert u fs hu hne hpos hd e he err h

/-- **Errors, both directions.**  A well-shaped update (every key one of the model's operators,
    every argument a document — an unknown operator or a non-document argument fails without
    having any entry) with distinct heads fails exactly when one of its entries alone fails on the
    original document.  (Which error is reported may differ: e.g. the `$`-in-path check of
    `$set`-like operators is made for the whole operator document before its first field.) -/
theorem update_error_iff (spec now : Val) (wasInsert : Bool) (u fs : Fields) (hne : u ≠ [])
    (hs : wellShaped u = true) (hpos : positionalUpdate u = false) (hd : (addressed u).Nodup) :
    (∃ err, applyUpdate spec (.doc u) now wasInsert (.doc fs) = .error err) ↔
      ∃ e, e ∈ entries u ∧
        ∃ err, applyUpdate spec (.doc (single e)) now wasInsert (.doc fs) = .error err :=
  Proofs.C02.update_error_iff spec now wasInsert u fs hne hs hpos hd

/-- non-vacuity: a well-shaped update with distinct heads whose second entry (`$inc` of a string
    by a number) fails alone, and the whole update fails; and the shape condition is needed: an
    unknown operator with an empty argument has no entry and fails -/
example :
    let u : Fields := [("$set", .doc [("a", .int 1)]), ("$inc", .doc [("s", .int 1)])]
    let fs : Fields := [("_id", .int 1), ("s", .str "x")]
    u ≠ [] ∧ wellShaped u = true ∧ positionalUpdate u = false ∧ (addressed u).Nodup ∧
    (match applyUpdate .null (.doc u) .null false (.doc fs) with | .error .typeErr => true | _ => false) = true ∧
    (match applyUpdate .null (.doc (single ("$inc", "s", .int 1))) .null false (.doc fs) with
      | .error .typeErr => true | _ => false) = true ∧
    wellShaped [("$foo", .doc [])] = false ∧ (entries [("$foo", .doc [])]).length = 0 ∧
    (match applyUpdate .null (.doc [("$foo", .doc [])]) .null false (.doc fs) with
      | .error .valueErr => true | _ => false) = true := by
  decide +kernel

/-- **Order is irrelevant.**  Two updates with the same entries up to order (operators permuted,
    paths permuted inside an operator document, an operator document split or merged:
    `(entries u).Perm (entries u')`), with distinct heads, that both succeed on a document yield
    the same value under every top-level field — the results differ at most in the ORDER of their
    top-level fields. -/
theorem update_order_irrelevant (spec now : Val) (wasInsert : Bool) (u u' fs fs' fs'' : Fields)
    (hu : u.all (fun kv => kv.1.startsWith "$") = true) (hne : u ≠ [])
    (hu' : u'.all (fun kv => kv.1.startsWith "$") = true) (hne' : u' ≠ [])
    (hpos : positionalUpdate u = false)
    (hd : (addressed u).Nodup) (hp : (entries u).Perm (entries u'))
    (h : applyUpdate spec (.doc u) now wasInsert (.doc fs) = .ok (.doc fs'))
    (h' : applyUpdate spec (.doc u') now wasInsert (.doc fs) = .ok (.doc fs'')) :
    ∀ k, dget k fs' = dget k fs'' :=
  Proofs.C02.update_order_irrelevant spec now wasInsert u u' fs fs' fs'' hu hne hu' hne' hpos hd hp h h'

/-- … and the permuted update does succeed when it is well shaped. -/
theorem update_order_success (spec now : Val) (wasInsert : Bool) (u u' fs fs' : Fields)
    (hu : u.all (fun kv => kv.1.startsWith "$") = true) (hne : u ≠ []) (hne' : u' ≠ [])
    (hs' : wellShaped u' = true) (hpos : positionalUpdate u = false)
    (hd : (addressed u).Nodup) (hp : (entries u).Perm (entries u'))
    (h : applyUpdate spec (.doc u) now wasInsert (.doc fs) = .ok (.doc fs')) :
    ∃ fs'', applyUpdate spec (.doc u') now wasInsert (.doc fs) = .ok (.doc fs'') :=
  Proofs.C02.update_order_success spec now wasInsert u u' fs fs' hu hne hne' hs' hpos hd hp h

/-- non-vacuity: the same three entries in reverse order (operators swapped, the paths inside
    `$set` swapped); both succeed, the new fields `b`, `n` come out in a different order -/
example :
    let u : Fields := [("$set", .doc [("a", .int 1), ("b.c", .int 2)]), ("$inc", .doc [("n", .int 1)])]
    let u' : Fields := [("$inc", .doc [("n", .int 1)]), ("$set", .doc [("b.c", .int 2), ("a", .int 1)])]
    (entries u).Perm (entries u') ∧ positionalUpdate u = false ∧ (addressed u).Nodup ∧
    wellShaped u' = true ∧
    okIs (applyUpdate .null (.doc u) .null false (.doc [("_id", .int 1), ("a", .int 0)]))
      (.doc [("_id", .int 1), ("a", .int 1), ("b", .doc [("c", .int 2)]), ("n", .int 1)]) = true ∧
    okIs (applyUpdate .null (.doc u') .null false (.doc [("_id", .int 1), ("a", .int 0)]))
      (.doc [("_id", .int 1), ("a", .int 1), ("n", .int 1), ("b", .doc [("c", .int 2)])]) = true := by
  refine ⟨?_, by decide +kernel, by decide +kernel, by decide +kernel, by decide +kernel,
    by decide +kernel⟩
  exact (List.reverse_perm _).symm

/-! ### replacement, field by field -/

/-- **What a replacement yields**, for ANY replacement document (`replace_spec` is the case
    without `_id` and without duplicate keys): every field reads the LAST value the replacement
    gives it (`lastGet`), `_id` — when the replacement does not give one — the `_id` of the replaced
    document, and nothing else is there; no key occurs twice; and when the replaced document had
    an `_id`, `_id` is the first field and is `==` to the old one. -/
theorem replace_then_get (doc existing fs' : Fields)
    (h : replaceWhole doc (.doc existing) = .ok (.doc fs')) :
    (∀ k, dget k fs' = match lastGet k doc with
        | some v => some v
        | none => if k = "_id" then dget "_id" existing else none) ∧
    (dkeys fs').Nodup ∧
    (∀ id, dget "_id" existing = some id →
      (dkeys fs').head? = some "_id" ∧ ∃ id', dget "_id" fs' = some id' ∧ pyEq id' id = true) :=
  Proofs.C02.replace_then_get doc existing fs' h

/-- **When a replacement is accepted**: no top-level key starts with `$`, and the `_id` it ends up
    with (its own last `_id`, else the old one) is `==` to the old `_id`. -/
theorem replace_ok_iff (doc existing : Fields) :
    (∃ fs', replaceWhole doc (.doc existing) = .ok (.doc fs')) ↔
      (doc.all (fun kv => !kv.1.startsWith "$") = true ∧
       ∀ id, dget "_id" existing = some id → pyEq ((lastGet "_id" doc).getD id) id = true) :=
  Proofs.C02.replace_ok_iff doc existing

/-- non-vacuity: a replacement giving `x` twice and an `_id` `==` to the old one (`1.0 == 1`): the
    last `x` wins, the new `_id` value is stored, first; a different `_id` is refused -/
example :
    okIs (replaceWhole [("x", .int 1), ("_id", .dbl 1 0), ("x", .int 2)] (.doc [("_id", .int 1), ("y", .int 0)]))
      (.doc [("_id", .dbl 1 0), ("x", .int 2)]) = true ∧
    (lastGet "x" [("x", .int 1), ("_id", .dbl 1 0), ("x", .int 2)] == some (.int 2)) = true ∧
    (match replaceWhole [("_id", .int 2)] (.doc [("_id", .int 1)]) with
      | .error .opFail => true | _ => false) = true := by decide +kernel

/-! ### the positional operator `$`

`{op: {"f.$.x": v}}` with a query that matched an element of the array `f`.  The rule is
`Spec.posIndex` (Spec/UpdatePositional.lean): `$` stands for the index of the FIRST element
satisfying the query's condition on `f`; a query without such a condition, or one no element
satisfies, makes the update an error.  The theorems hold on `Spec.posDomain f filter q`: the query
has no `$`-key, ONE condition on `f` — `f.<path>: c` or `f: {$elemMatch: {…fields…}}`, which
asks the element to match the query `q` — and no other key that merely starts with the letters of
`f`.  The matcher is C01's: the hypotheses `hC01` / `hok` say that on the pairs (`q`, element)
the model's matcher answers what the matching rules say, without raising (`Props.C01.
matches_eq_spec_partial` gives that on C01's domain).  The path is given by its components
(`splitDots key = [f, "$", x]`).  Outside the domain the code departs from the rule in the ways
listed at the end of Spec/UpdatePositional.lean; each class has a kernel-checked witness below and
a replayed one in known_findings.json. -/

/-- **`$` resolves to the first match** (`$set`): on the domain the model's answer is the rule's:
    the document with the field `x` of the FIRST element of `f` satisfying the query's condition
    set to `v` and nothing else changed, or an error when no element satisfies it. -/
theorem positional_resolves_first_match (filter : Fields) (key f x : String) (v now : Val)
    (fs : Fields) (xs : List Val) (q : Val) (hf : plainName f = true) (hx : plainName x = true)
    (hkey : splitDots key = [f, "$", x]) (hdol : hasDollarPart key = true)
    (hD : posDomain f filter q) (ha : dget f fs = some (.arr xs))
    (hnum : pyInt? x = none) (hdocs : xs.all isDocVal = true)
    (hC01 : ∀ el ∈ xs, filterApplies q el = specMatches q el)
    (hok : ∀ el ∈ xs, ∃ b, specMatches q el = .ok b) :
    Agrees (applyUpdate (.doc filter) (.doc [("$set", .doc [(key, v)])]) now false (.doc fs))
      (positionalEdit f filter false (setField x v) fs) :=
  Proofs.C02.positional_resolves_first_match filter key f x v now fs xs q hf hx hkey hdol hD ha hnum
    hdocs hC01 hok

attribute [local instance] MongoModel.Proofs.valDecEq MongoModel.Proofs.C02Lemmas.elemCondDecEq

/-- the example used below: three elements, the query asks for `k = 2` -/
private def exDoc : Fields :=
  [("_id", .int 1), ("a", .arr [.doc [("k", .int 1), ("v", .int 0)], .doc [("k", .int 2), ("v", .int 0)],
    .doc [("k", .int 2), ("v", .int 5)]]), ("c", .int 1)]

private def exXs : List Val :=
  [.doc [("k", .int 1), ("v", .int 0)], .doc [("k", .int 2), ("v", .int 0)], .doc [("k", .int 2), ("v", .int 5)]]

/-- non-vacuity: `{a.k: 2}` / `{a: {$elemMatch: {k: 2}}}` with `{$set: {a.$.v: 9}}`: every
    hypothesis holds, the rule gives index 1, the model sets `v` of the second element -/
example : plainName "a" = true ∧ plainName "v" = true ∧ splitDots "a.$.v" = ["a", "$", "v"] ∧
    hasDollarPart "a.$.v" = true ∧ dget "a" exDoc = some (.arr exXs) ∧ pyInt? "v" = none ∧
    exXs.all isDocVal = true ∧
    (∀ el ∈ exXs, filterApplies (.doc [("k", .int 2)]) el = specMatches (.doc [("k", .int 2)]) el) ∧
    posIndex "a" [("a.k", .int 2)] exXs = some (some 1) ∧
    posIndex "a" [("a", .doc [("$elemMatch", .doc [("k", .int 2)])]), ("c", .int 1)] exXs = some (some 1) ∧
    okIs (applyUpdate (.doc [("a.k", .int 2)]) (.doc [("$set", .doc [("a.$.v", .int 9)])]) .null false (.doc exDoc))
      (.doc [("_id", .int 1), ("a", .arr [.doc [("k", .int 1), ("v", .int 0)],
        .doc [("k", .int 2), ("v", .int 9)], .doc [("k", .int 2), ("v", .int 5)]]), ("c", .int 1)]) = true := by
  decide +kernel

example : posDomain "a" [("a.k", .int 2)] (.doc [("k", .int 2)]) :=
  ⟨by decide +kernel, ("a.k", .int 2), by decide +kernel, by decide +kernel, by decide +kernel⟩

example : posDomain "a" [("a", .doc [("$elemMatch", .doc [("k", .int 2)])]), ("c", .int 1)]
    (.doc [("k", .int 2)]) :=
  ⟨by decide +kernel, ("a", .doc [("$elemMatch", .doc [("k", .int 2)])]), by decide +kernel,
    by decide +kernel, by decide +kernel⟩

example : ∀ el ∈ exXs, ∃ b, specMatches (.doc [("k", .int 2)]) el = .ok b := by
  intro el hm
  simp only [exXs, List.mem_cons, List.not_mem_nil, or_false] at hm
  rcases hm with rfl | rfl | rfl
  · exact ⟨false, by decide +kernel⟩
  · exact ⟨true, by decide +kernel⟩
  · exact ⟨true, by decide +kernel⟩

/-- **Every `_updaters` operator** (`$set $unset $inc $min $max $pop`): the element at the index
    the rule gives — it satisfies the condition, no element before it does — is handed to the
    operator (`runUpdater … el x v`: the per-operator theorems above say what that does), and the
    result is the document with that element replaced. -/
theorem positional_updater_resolves (op : String) (u : Updater) (hop : updaterOf op = some u)
    (filter : Fields) (key f x : String) (v now : Val) (wi : Bool) (fs : Fields) (xs : List Val)
    (q : Val) (hf : plainName f = true) (hx : plainName x = true)
    (hkey : splitDots key = [f, "$", x]) (hdol : hasDollarPart key = true)
    (hD : posDomain f filter q) (ha : dget f fs = some (.arr xs))
    (hC01 : ∀ el ∈ xs, filterApplies q el = specMatches q el)
    (hok : ∀ el ∈ xs, ∃ b, specMatches q el = .ok b) (i : Nat)
    (hi : posIndex f filter xs = some (some i)) :
    ∃ el, xs[i]? = some el ∧ (ElemCond.sub q).sat el = true ∧
      (∀ j, j < i → ∀ ej, xs[j]? = some ej → (ElemCond.sub q).sat ej = false) ∧
      applyUpdate (.doc filter) (.doc [(op, .doc [(key, v)])]) now wi (.doc fs) =
        (runUpdater u now el x v).map (fun el' => Val.doc (dset f (.arr (xs.set i el')) fs)) :=
  Proofs.C02.positional_updater_resolves op u hop filter key f x v now wi fs xs q hf hx hkey hdol hD
    ha hC01 hok i hi

/-- non-vacuity: `$inc` through `a.$.v` with `{a.k: {$gte: 2}}` adds to the second element -/
example : updaterOf "$inc" = some .inc ∧
    posIndex "a" [("a.k", .doc [("$gte", .int 2)])] exXs = some (some 1) ∧
    okIs (applyUpdate (.doc [("a.k", .doc [("$gte", .int 2)])]) (.doc [("$inc", .doc [("a.$.v", .int 3)])])
        .null false (.doc exDoc))
      (.doc [("_id", .int 1), ("a", .arr [.doc [("k", .int 1), ("v", .int 0)],
        .doc [("k", .int 2), ("v", .int 3)], .doc [("k", .int 2), ("v", .int 5)]]), ("c", .int 1)]) = true := by
  decide +kernel

/-- **Frame.**  A successful positional update through `f.$.x` changes nothing but the field `x`
    of the element at the resolved index: every other top-level field, every other element of the
    array (and its length), every other field of that element are as before. -/
theorem positional_frame (op : String) (u : Updater) (hop : updaterOf op = some u)
    (filter : Fields) (key f x : String) (v now : Val) (wi : Bool) (fs fs' : Fields)
    (xs : List Val) (q : Val) (hf : plainName f = true) (hx : plainName x = true)
    (hkey : splitDots key = [f, "$", x]) (hdol : hasDollarPart key = true)
    (hD : posDomain f filter q) (ha : dget f fs = some (.arr xs))
    (hC01 : ∀ el ∈ xs, filterApplies q el = specMatches q el)
    (hok : ∀ el ∈ xs, ∃ b, specMatches q el = .ok b) (i : Nat)
    (hi : posIndex f filter xs = some (some i))
    (h : applyUpdate (.doc filter) (.doc [(op, .doc [(key, v)])]) now wi (.doc fs) = .ok (.doc fs')) :
    (∀ k, k ≠ f → dget k fs' = dget k fs) ∧
    ∃ ys, dget f fs' = some (.arr ys) ∧ ys.length = xs.length ∧
      (∀ j, j ≠ i → ys[j]? = xs[j]?) ∧
      (∀ es, xs[i]? = some (.doc es) →
        ∃ es', ys[i]? = some (.doc es') ∧ ∀ k, k ≠ x → dget k es' = dget k es) :=
  Proofs.C02.positional_frame op u hop filter key f x v now wi fs fs' xs q hf hx hkey hdol hD ha hC01
    hok i hi h

/-- … and at the top level the frame needs no domain at all: `untouched_fields` covers every
    modelled update, positional or not (a positional path `f.$.x` addresses `f`).  Non-vacuity:
    a positional `$unset` next to a plain `$inc` leaves `_id` and `z` alone -/
example :
    let u : Fields := [("$unset", .doc [("a.$.v", .str "")]), ("$inc", .doc [("c", .int 1)])]
    positionalUpdate u = true ∧ addressed u = ["a", "c"] ∧
    okIs (applyUpdate (.doc [("a.k", .int 2)]) (.doc u) .null false (.doc (exDoc ++ [("z", .int 0)])))
      (.doc [("_id", .int 1), ("a", .arr [.doc [("k", .int 1), ("v", .int 0)], .doc [("k", .int 2)],
        .doc [("k", .int 2), ("v", .int 5)]]), ("c", .int 2), ("z", .int 0)]) = true := by
  decide +kernel

/-- **No element satisfies the condition: an error** (`$set $inc $min $max $pop`; the rule's
    "did not find the match needed from the query"). -/
theorem positional_no_match_is_error (op : String) (u : Updater) (hop : updaterOf op = some u)
    (hu : u ≠ .unset)
    (filter : Fields) (key f x : String) (v now : Val) (wi : Bool) (fs : Fields) (xs : List Val)
    (q : Val) (hf : plainName f = true) (hx : plainName x = true)
    (hkey : splitDots key = [f, "$", x]) (hdol : hasDollarPart key = true)
    (hD : posDomain f filter q) (ha : dget f fs = some (.arr xs)) (hnum : pyInt? x = none)
    (hC01 : ∀ el ∈ xs, filterApplies q el = specMatches q el)
    (hok : ∀ el ∈ xs, ∃ b, specMatches q el = .ok b)
    (hi : posIndex f filter xs = some none) :
    ∃ e, applyUpdate (.doc filter) (.doc [(op, .doc [(key, v)])]) now wi (.doc fs) = .error e :=
  Proofs.C02.positional_no_match_is_error op u hop hu filter key f x v now wi fs xs q hf hx hkey hdol
    hD ha hnum hC01 hok hi

/-- non-vacuity: `{a.k: 9}` on the example: the rule says error, the model raises; and why
    `$unset` is left out: with no element to address it silently does nothing -/
example : posIndex "a" [("a.k", .int 9)] exXs = some none ∧
    (match applyUpdate (.doc [("a.k", .int 9)]) (.doc [("$set", .doc [("a.$.v", .int 9)])]) .null false (.doc exDoc) with
     | .error .valueErr => true | _ => false) = true ∧
    okIs (applyUpdate (.doc [("a.k", .int 9)]) (.doc [("$unset", .doc [("a.$.v", .str "")])]) .null false (.doc exDoc))
      (.doc exDoc) = true := by
  decide +kernel

/-- **`f.$` as the whole path** with `$set` replaces the element at the resolved index — as the
    rule has it.  (The statement holds for every `_updaters` operator, which is the finding
    `positional-whole-element-op`: see below.) -/
theorem positional_whole_element (op : String) (u : Updater) (hop : updaterOf op = some u)
    (filter : Fields) (key f : String) (v now : Val) (wi : Bool) (fs : Fields) (xs : List Val)
    (q : Val) (hf : plainName f = true)
    (hkey : splitDots key = [f, "$"]) (hdol : hasDollarPart key = true)
    (hD : posDomain f filter q) (ha : dget f fs = some (.arr xs))
    (hC01 : ∀ el ∈ xs, filterApplies q el = specMatches q el)
    (hok : ∀ el ∈ xs, ∃ b, specMatches q el = .ok b) (i : Nat)
    (hi : posIndex f filter xs = some (some i)) :
    applyUpdate (.doc filter) (.doc [(op, .doc [(key, v)])]) now wi (.doc fs) =
      .ok (.doc (dset f (.arr (xs.set i v)) fs)) :=
  Proofs.C02.positional_whole_element op u hop filter key f v now wi fs xs q hf hkey hdol hD ha hC01
    hok i hi

/-- non-vacuity, and the finding: `{$set: {a.$: 7}}` stores 7 as the second element; so does
    `{$inc: {a.$: 7}}` (a server refuses to increment a document), and `{$unset: {a.$: ""}}`
    stores `""` (a server stores null) -/
example : splitDots "a.$" = ["a", "$"] ∧ hasDollarPart "a.$" = true ∧
    okIs (applyUpdate (.doc [("a.k", .int 2)]) (.doc [("$set", .doc [("a.$", .int 7)])]) .null false (.doc exDoc))
      (.doc [("_id", .int 1), ("a", .arr [.doc [("k", .int 1), ("v", .int 0)], .int 7,
        .doc [("k", .int 2), ("v", .int 5)]]), ("c", .int 1)]) = true ∧
    okIs (applyUpdate (.doc [("a.k", .int 2)]) (.doc [("$inc", .doc [("a.$", .int 7)])]) .null false (.doc exDoc))
      (.doc [("_id", .int 1), ("a", .arr [.doc [("k", .int 1), ("v", .int 0)], .int 7,
        .doc [("k", .int 2), ("v", .int 5)]]), ("c", .int 1)]) = true ∧
    okIs (applyUpdate (.doc [("a.k", .int 2)]) (.doc [("$unset", .doc [("a.$", .str "")])]) .null false (.doc exDoc))
      (.doc [("_id", .int 1), ("a", .arr [.doc [("k", .int 1), ("v", .int 0)], .str "",
        .doc [("k", .int 2), ("v", .int 5)]]), ("c", .int 1)]) = true := by
  decide +kernel

/-- **`$push` through `f.$.l`**: with the query `f: {$elemMatch: q}` the value is pushed to the
    array `l` of the first element matching `q` (`pushAt`: the `$push` theorems above describe the
    edit), an error when there is none. -/
theorem positional_push_first_match (filter : Fields) (key f l : String) (v now : Val) (wi : Bool)
    (fs : Fields) (xs : List Val) (q : Val)
    (hf : plainName f = true) (hl : plainName l = true)
    (hkey : splitDots key = [f, "$", l]) (hdol : hasDollarPart key = true)
    (hq : dget f filter = some (.doc [("$elemMatch", q)]))
    (hD : posDomain f filter q) (ha : dget f fs = some (.arr xs))
    (hC01 : ∀ el ∈ xs, filterApplies q el = specMatches q el)
    (hok : ∀ el ∈ xs, ∃ b, specMatches q el = .ok b) :
    applyUpdate (.doc filter) (.doc [("$push", .doc [(key, v)])]) now wi (.doc fs) =
      match posIndex f filter xs with
      | some (some i) =>
        (match xs[i]? with
         | some el => (pushAt v el l).map (fun el' => Val.doc (dset f (.arr (xs.set i el')) fs))
         | none => unmodelled)
      | _ => .error .writeErr :=
  Proofs.C02.positional_push_first_match filter key f l v now wi fs xs q hf hl hkey hdol hq hD ha hC01
    hok

/-- non-vacuity: `$push` of 4 through `a.$.l` under `{a: {$elemMatch: {k: 2}}}` creates `l` in the
    second element; and the finding `positional-needs-elemmatch`: under the dotted condition
    `{a.k: 2}` — where the rule gives the same index — the model (as the code) raises WriteError -/
example : okIs (applyUpdate (.doc [("a", .doc [("$elemMatch", .doc [("k", .int 2)])])])
        (.doc [("$push", .doc [("a.$.l", .int 4)])]) .null false (.doc exDoc))
      (.doc [("_id", .int 1), ("a", .arr [.doc [("k", .int 1), ("v", .int 0)],
        .doc [("k", .int 2), ("v", .int 0), ("l", .arr [.int 4])], .doc [("k", .int 2), ("v", .int 5)]]),
        ("c", .int 1)]) = true ∧
    posIndex "a" [("a.k", .int 2)] exXs = some (some 1) ∧
    (match applyUpdate (.doc [("a.k", .int 2)]) (.doc [("$push", .doc [("a.$.l", .int 4)])]) .null false (.doc exDoc) with
     | .error .writeErr => true | _ => false) = true := by
  decide +kernel

/-- **A positional entry reads only the field its path starts with** — the counterpart of
    `entry_reads_only_its_fields` for `{op: {"f.$…": v}}` with `op` one of `$set $unset $inc $min
    $max $pop $currentDate`, or `$setOnInsert` on an insert (`posFieldsOp`), whatever the query and
    whatever the path behind `f`: on two documents (without duplicate keys) holding the same value
    under `f` the entry fails alike, or succeeds on both and leaves the same value under `f`.  With
    `untouched_fields` (nothing else is written) the entry neither reads nor writes anything but
    `f`.  (The whole-update theorems below `update_is_pointwise` are stated for updates without
    positional keys: behind the first positional key the code carries the container it reached
    from entry to entry — finding `positional-carried-container` — so entries are not
    independent.) -/
theorem positional_entry_reads_only_its_field (spec now : Val) (wi : Bool) (op key : String)
    (v : Val) (u : Updater) (hop : posFieldsOp op wi = some u) (hdol : hasDollarPart key = true)
    (fs gs : Fields) (hk : (dkeys fs).Nodup) (hk' : (dkeys gs).Nodup)
    (hag : dget (headOf key) fs = dget (headOf key) gs) :
    (∀ err, applyUpdate spec (.doc [(op, .doc [(key, v)])]) now wi (.doc fs) = .error err →
      applyUpdate spec (.doc [(op, .doc [(key, v)])]) now wi (.doc gs) = .error err) ∧
    (∀ fs', applyUpdate spec (.doc [(op, .doc [(key, v)])]) now wi (.doc fs) = .ok (.doc fs') →
      ∃ gs', applyUpdate spec (.doc [(op, .doc [(key, v)])]) now wi (.doc gs) = .ok (.doc gs') ∧
        dget (headOf key) fs' = dget (headOf key) gs') :=
  Proofs.C02.positional_entry_reads_only_its_field spec now wi op key v u hop hdol fs gs hk hk' hag

/-- non-vacuity: `$inc` through `a.$.v` on the example and on a document that shares nothing with
    it but `a`: both succeed and leave the same `a` -/
example :
    let gs : Fields := [("a", .arr exXs), ("_id", .int 2), ("z", .arr [])]
    posFieldsOp "$inc" false = some .inc ∧ posFieldsOp "$setOnInsert" true = some .set ∧
    posFieldsOp "$setOnInsert" false = none ∧ posFieldsOp "$push" false = none ∧
    hasDollarPart "a.$.v" = true ∧ headOf "a.$.v" = "a" ∧ (dkeys exDoc).Nodup ∧ (dkeys gs).Nodup ∧
    dget "a" exDoc = dget "a" gs ∧
    okIs (applyUpdate (.doc [("a.k", .int 2)]) (.doc [("$inc", .doc [("a.$.v", .int 3)])]) .null false (.doc gs))
      (.doc [("a", .arr [.doc [("k", .int 1), ("v", .int 0)], .doc [("k", .int 2), ("v", .int 3)],
        .doc [("k", .int 2), ("v", .int 5)]]), ("_id", .int 2), ("z", .arr [])]) = true := by
  decide +kernel

/-! #### the rule without its domain: false of the code -/

/-- the full-strength statement: whatever the query, `{$set: {"f.$.x": v}}` on a document whose
    `f` is an array of documents does what the rule says (wherever the rule says something) -/
def positional_rule_full : Prop :=
  ∀ (filter : Fields) (key f x : String) (v now : Val) (wasInsert : Bool) (fs : Fields)
    (xs : List Val), plainName f = true → plainName x = true → splitDots key = [f, "$", x] →
    dget f fs = some (.arr xs) → pyInt? x = none → xs.all isDocVal = true →
    Agrees (applyUpdate (.doc filter) (.doc [("$set", .doc [(key, v)])]) now wasInsert (.doc fs))
      (positionalEdit f filter wasInsert (setField x v) fs)

/-- It is false (known finding `positional-unconstrained`): the query `{c: 1}` holds no condition
    on `a`; the rule makes `{$set: {a.$.v: 9}}` an error, the code (and the model) write into the
    first element.  The same witness is replayed on the real code. -/
theorem positional_rule_full_fails : ¬ positional_rule_full := by
  intro h
  have := h [("c", .int 1)] "a.$.v" "a" "v" (.int 9) .null false exDoc exXs (by decide +kernel)
    (by decide +kernel) (by decide +kernel) (by decide +kernel) (by decide +kernel) (by decide +kernel)
  have hs : positionalEdit "a" [("c", .int 1)] false (setField "v" (.int 9)) exDoc = some none := by
    decide +kernel
  rw [hs] at this
  obtain ⟨e, he⟩ := this
  have hi : applyUpdate (.doc [("c", .int 1)]) (.doc [("$set", .doc [("a.$.v", .int 9)])]) .null false
      (.doc exDoc) = .ok (.doc [("_id", .int 1), ("a", .arr [.doc [("k", .int 1), ("v", .int 9)],
        .doc [("k", .int 2), ("v", .int 0)], .doc [("k", .int 2), ("v", .int 5)]]), ("c", .int 1)]) := by
    decide +kernel
  rw [hi] at he
  cases he

/-- the other classes on their witnesses (each replayed on the real code as a known finding):
    `positional-upsert` — on an upsert the rule says error, the model writes into the seed document
    built from `{a.k: 5}`; `positional-prefix-key` — the key `ab` is taken for a condition on `a`
    (AttributeError on its null operand); `positional-value-condition` — `{d: 2}` on an array of
    numbers: the rule gives index 1, the model raises; `positional-carried-container` — the second
    positional key `a.$.c.y` is applied to the element the first one reached (`y` lands in the
    element, not in its `c`); `positional-missing-intermediate` — alone, `a.$.c.y` raises KeyError
    because the element has no `c` (a server creates it) -/
example :
    positionalEdit "a" [("a.k", .int 5)] true (setField "v" (.int 9)) [("a", .doc [("k", .int 5)]), ("_id", .int 7)]
      = some none ∧
    okIs (applyUpdate (.doc [("a.k", .int 5)]) (.doc [("$set", .doc [("a.$.v", .int 9)])]) .null true
        (.doc [("a", .doc [("k", .int 5)]), ("_id", .int 7)]))
      (.doc [("a", .doc [("k", .int 5), ("v", .int 9)]), ("_id", .int 7)]) = true ∧
    posIndex "a" [("a.k", .int 2), ("ab", .null)] exXs = some (some 1) ∧
    (match applyUpdate (.doc [("a.k", .int 2), ("ab", .null)]) (.doc [("$set", .doc [("a.$.v", .int 9)])])
        .null false (.doc exDoc) with
     | .error .attrErr => true | _ => false) = true ∧
    posIndex "d" [("d", .int 2)] [.int 1, .int 2, .int 3] = some (some 1) ∧
    (match applyUpdate (.doc [("d", .int 2)]) (.doc [("$set", .doc [("d.$", .int 9)])]) .null false
        (.doc [("_id", .int 1), ("d", .arr [.int 1, .int 2, .int 3])]) with
     | .error .attrErr => true | _ => false) = true ∧
    okIs (applyUpdate (.doc [("a.k", .int 2)])
        (.doc [("$set", .doc [("a.$.v", .int 7), ("a.$.c.y", .int 3)])]) .null false (.doc exDoc))
      (.doc [("_id", .int 1), ("a", .arr [.doc [("k", .int 1), ("v", .int 0)],
        .doc [("k", .int 2), ("v", .int 7), ("y", .int 3)], .doc [("k", .int 2), ("v", .int 5)]]),
        ("c", .int 1)]) = true ∧
    (match applyUpdate (.doc [("a.k", .int 2)]) (.doc [("$set", .doc [("a.$.c.y", .int 3)])])
        .null false (.doc exDoc) with
     | .error .keyErr => true | _ => false) = true := by
  decide +kernel

/-- `positional-fam-filter-lost`: `find_one_and_update` hands `{_id: <target>}` to the update, so
    the positional path never sees the caller's condition `{a.k: 2}`: it writes into the FIRST
    element, where `update_one` with the same arguments writes into the second -/
example :
    let c : Coll := { docs := [(.int 1, .doc exDoc)] }
    let q : Val := .doc [("a.k", .int 2)]
    let u : Val := .doc [("$set", .doc [("a.$.v", .int 9)])]
    (match findAndModify {} 0 c q .null (some u) false none true with
     | (_, .ok (some d)) => d == .doc [("_id", .int 1), ("a", .arr [.doc [("k", .int 1), ("v", .int 9)],
         .doc [("k", .int 2), ("v", .int 0)], .doc [("k", .int 2), ("v", .int 5)]]), ("c", .int 1)]
     | _ => false) = true ∧
    (match applyUpdateColl {} 0 c q u false false with
     | (c', .ok _) => c'.docs.map (·.2) == [.doc [("_id", .int 1), ("a", .arr [.doc [("k", .int 1), ("v", .int 0)],
         .doc [("k", .int 2), ("v", .int 9)], .doc [("k", .int 2), ("v", .int 5)]]), ("c", .int 1)]]
     | _ => false) = true := by
  decide +kernel

/-- `$[]` / `$[id]` (all elements / `array_filters`, which the callers refuse with
    NotImplementedError): such a component is no `$` for the walk, it is looked up as a key and the
    update fails (TypeError: a list is indexed by a string) — loudly, never a partial write; two
    `$` in one path (nested arrays) re-use the same narrowed condition for the inner array -/
example :
    (match applyUpdate (.doc [("a.k", .int 2)]) (.doc [("$set", .doc [("a.$[].v", .int 9)])]) .null false (.doc exDoc) with
     | .error .typeErr => true | _ => false) = true ∧
    (match applyUpdate (.doc [("a.k", .int 2)]) (.doc [("$set", .doc [("a.$[e].v", .int 9)])]) .null false (.doc exDoc) with
     | .error .typeErr => true | _ => false) = true := by
  decide +kernel

end MongoModel.Props.C02
