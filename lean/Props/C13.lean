/-
  Props.C13 — upsert inserts exactly one well-formed document iff nothing matches.
  Statements only; proofs in Proofs/C13*.lean.  Model: the upsert path of `applyUpdateColl`
  (Store.lean), `expandDots` / `discardOps` (Update.lean).  `c1` is the collection the expiry
  pass leaves, `sel` the documents the filter selects.
-/
import Proofs.C13
import Proofs.C13ExtSeed
import Proofs.C13ExtUpsert
import Proofs.C13ExtId2
import Proofs.C13ExtId3
import Proofs.C13ExtPaths

namespace MongoModel.Props.C13
open MongoModel MongoModel.Spec

/-- When something matches, `upsert=True` changes nothing: the call is the same call without
    upsert (same result, same collection). -/
theorem upsert_like_plain_when_matched (cfg : Cfg) (now : Int) (c c1 : Coll) (fs : Fields) (u : Val)
    (multi : Bool) (q : Val × Val) (rest : List (Val × Val))
    (he : expire now c = .ok c1) (hi : IdInv c) (hg : GoodKeys c)
    (hs : selectDocs (patchDT (.doc fs)) c1.docs = .ok (q :: rest))
    (hok : ∀ e, (applyUpdateColl cfg now c (.doc fs) u false multi).2 ≠ .error e) :
    (applyUpdateColl cfg now c (.doc fs) u true multi).1.docs =
      (applyUpdateColl cfg now c (.doc fs) u false multi).1.docs ∧
    ((applyUpdateColl cfg now c (.doc fs) u true multi).2.toOption.map (fun r => (r.n, r.nModified, r.upserted.isSome)))
      = ((applyUpdateColl cfg now c (.doc fs) u false multi).2.toOption.map (fun r => (r.n, r.nModified, r.upserted.isSome))) :=
  Proofs.C13.upsert_like_plain_when_matched cfg now c c1 fs u multi q rest he hi hg hs hok

/-- The same in full: with a match the two calls are equal — whole state, whole result, errors
    included (no success hypothesis needed). -/
theorem upsert_eq_plain_when_matched (cfg : Cfg) (now : Int) (c c1 : Coll) (fs : Fields) (u : Val)
    (multi : Bool) (q : Val × Val) (rest : List (Val × Val))
    (he : expire now c = .ok c1) (hi : IdInv c) (hg : GoodKeys c)
    (hs : selectDocs (patchDT (.doc fs)) c1.docs = .ok (q :: rest)) :
    applyUpdateColl cfg now c (.doc fs) u true multi =
      applyUpdateColl cfg now c (.doc fs) u false multi :=
  Proofs.C13.upsert_eq_plain_when_matched cfg now c c1 fs u multi q rest he hi hg hs

/-- Without upsert nothing is ever inserted. -/
theorem no_upsert_no_insert (cfg : Cfg) (now : Int) (c c' : Coll) (f u : Val) (multi : Bool)
    (r : UpdateResult) (h : applyUpdateColl cfg now c f u false multi = (c', .ok r)) :
    r.upserted = none ∧ c'.docs.length ≤ c.docs.length :=
  Proofs.C13.no_upsert_no_insert cfg now c c' f u multi r h

/-- **Upsert iff no match**: a successful call reports an upserted `_id` exactly when the filter
    selected nothing; then exactly one document was appended, it is stored under the reported
    `_id`, `n = 1`, nothing counts as modified and nothing existing was touched. -/
theorem upsert_iff_no_match (cfg : Cfg) (now : Int) (c c1 c' : Coll) (fs : Fields) (u : Val)
    (multi : Bool) (sel : List (Val × Val)) (r : UpdateResult)
    (he : expire now c = .ok c1) (hne : c1.docs ≠ []) (hn : c.ttlIndexes = [])
    (hi : IdInv c) (hg : GoodKeys c)
    (hs : selectDocs (patchDT (.doc fs)) c1.docs = .ok sel)
    (h : applyUpdateColl cfg now c (.doc fs) u true multi = (c', .ok r)) :
    (r.upserted.isSome ↔ sel = []) ∧
    (sel = [] → ∃ id d, r.upserted = some id ∧ c'.docs = c1.docs ++ [(id, d)] ∧
        idOf d = some id ∧ r.n = 1 ∧ r.nModified = 0 ∧ r.updatedExisting = false) :=
  Proofs.C13.upsert_iff_no_match cfg now c c1 c' fs u multi sel r he hne hn hi hg hs h

/-- The reported result of an upsert: matched_count 0 and the stored `_id` as upserted_id
    (`updateOut` is what `UpdateResult` shows; a null `_id` cannot be told from "no upsert"). -/
theorem upsert_result (r : UpdateResult) (id : Val) (h : r.upserted = some id) (hn : id ≠ .null) :
    updateOut r = .doc [("matched", .int 0), ("modified", .int r.nModified), ("upserted", id)] :=
  Proofs.C13.upsert_result r id h hn

/-- **The seed**: an equality condition on a plain (undotted) field puts that value into the
    seed, an operator condition contributes nothing, `$eq` contributes its operand. -/
theorem seed_plain_equalities (ss : Fields) (hk : ss.all (fun kv => !kv.1.toList.contains '.' && !kv.1.startsWith "$") = true)
    (hd : (dkeys ss).Nodup) :
    expandDots ss = .ok ss ∧
    (∀ k v, dget k ss = some v → isScalar v = true →
        dget k (match (discardOps (.doc ss)).1 with | .doc fs => fs | _ => []) = some v) ∧
    (∀ k ops, dget k ss = some (.doc ops) → isOps ops = true → dget "$eq" ops = none →
        dget k (match (discardOps (.doc ss)).1 with | .doc fs => fs | _ => []) = none) ∧
    (∀ k x, dget k ss = some (.doc [("$eq", x)]) →
        dget k (match (discardOps (.doc ss)).1 with | .doc fs => fs | _ => []) = some x) :=
  Proofs.C13.seed_plain_equalities ss hk hd

/-- A dotted equality condition is expanded into nested sub-documents. -/
theorem seed_expands_dots (a b : String) (v : Val)
    (ha : a.toList.contains '.' = false) (hb : b.toList.contains '.' = false)
    (hna : a ≠ "") (hnb : b ≠ "") :
    expandDots [(a ++ "." ++ b, v)] = .ok [(a, .doc [(b, v)])] :=
  Proofs.C13.seed_expands_dots a b v ha hb hna hnb

/-- `$setOnInsert` is applied only when inserting. -/
theorem setOnInsert_only_on_insert (spec now body : Val) (d : Val) :
    applyUpdate spec (.doc [("$setOnInsert", body)]) now false d = .ok d ∧
    applyUpdate spec (.doc [("$setOnInsert", body)]) now true d = updateFields .set now body d :=
  Proofs.C13.setOnInsert_only_on_insert spec now body d

/-- non-vacuity: an upsert on a non-empty collection where nothing matches; the seed carries the
    filter's equality, the operator condition is dropped, `$setOnInsert` and `$set` are applied -/
example : (match applyUpdateColl {} 0
      { docs := [(.int 1, .doc [("_id", .int 1), ("a", .int 1)])] }
      (.doc [("a", .int 2), ("b", .doc [("$gt", .int 5)]), ("c.d", .str "x")])
      (.doc [("$set", .doc [("e", .int 9)]), ("$setOnInsert", .doc [("f", .bool true)])]) true false with
    | (c', .ok r) => r.upserted.isSome && c'.docs.length == 2 &&
        (c'.docs.map (·.2))[1]? == some (.doc [("a", .int 2), ("c", .doc [("d", .str "x")]),
          ("_id", .oid 1000), ("e", .int 9), ("f", .bool true)])
    | _ => false) = true := by decide +kernel

/-- non-vacuity: the hypotheses of `upsert_iff_no_match` and `upsert_like_plain_when_matched`
    (expiry, non-empty, no TTL index, `IdInv`, `GoodKeys`) hold on the collection used above -/
example : expire 0 Proofs.C13.exColl = .ok Proofs.C13.exColl ∧ Proofs.C13.exColl.docs ≠ [] ∧
    Proofs.C13.exColl.ttlIndexes = [] ∧ IdInv Proofs.C13.exColl ∧ GoodKeys Proofs.C13.exColl :=
  Proofs.C13.exColl_hyps

/-- non-vacuity: on that collection `{a: 2}` selects nothing and `{a: 1}` selects one document -/
example : (match selectDocs (patchDT (.doc [("a", .int 2)])) Proofs.C13.exColl.docs,
      selectDocs (patchDT (.doc [("a", .int 1)])) Proofs.C13.exColl.docs with
    | .ok s0, .ok s1 => s0.length == 0 && s1.length == 1
    | _, _ => false) = true := by decide +kernel

/-- non-vacuity: an upsert whose filter matches inserts nothing and reports no upserted `_id` -/
example : (match applyUpdateColl {} 0 Proofs.C13.exColl (.doc [("a", .int 1)])
      (.doc [("$set", .doc [("e", .int 9)]), ("$setOnInsert", .doc [("f", .bool true)])]) true false with
    | (c', .ok r) => r.upserted.isNone && r.n == 1 && r.nModified == 1 && c'.docs.length == 1 &&
        (c'.docs.map (·.2))[0]? == some (.doc [("_id", .int 1), ("a", .int 1), ("e", .int 9)])
    | _ => false) = true := by decide +kernel

/-- non-vacuity: a filter with an equality, an operator condition and an `$eq` satisfies the
    hypotheses of `seed_plain_equalities`; its seed is `{a: 2, c: 7}` -/
example : let ss : Fields := [("a", .int 2), ("b", .doc [("$gt", .int 5)]), ("c", .doc [("$eq", .int 7)])]
    (ss.all (fun kv => !kv.1.toList.contains '.' && !kv.1.startsWith "$") &&
      decide ((dkeys ss).Nodup) &&
      (discardOps (.doc ss)).1 == .doc [("a", .int 2), ("c", .int 7)]) = true := by decide +kernel

/-! ## Extension: the last clause of C13 — "when the filter consists of equality conditions that
    the update does not overwrite, the new document is matched by that same filter afterwards" —
    and which `_id` the new document gets.

    Shapes (Spec/UpsertExt.lean): `plainEqualities ss` = every key of the filter is a non-empty
    top-level field name (no dot, no leading `$`) and every value a scalar; `plainKeys ss` = the
    same on the keys only (any conditions); `isOperatorUpdate` / `isReplacement` / `leavesId`
    for the update; `HoldsAll ss fs` = the document `fs` holds `k: v` for every `(k, v)` of `ss`. -/

/-- Any document that holds `k: v` for every condition `k: v` of a plain-equality filter is
    matched by the filter (no distinctness of keys needed, `null` included: a scalar is `==` to
    itself). -/
theorem holds_all_matches (ss fs : Fields) (hk : plainEqualities ss = true) (hf : HoldsAll ss fs) :
    filterApplies (.doc ss) (.doc fs) = .ok true :=
  Proofs.C13Ext.holds_matches ss fs hk hf

/-- The natural statement — scalar equality conditions on undotted, non-`$` keys — WITHOUT the
    requirement that the keys are non-empty. -/
def seed_matches_filter_full : Prop :=
  ∀ ss : Fields,
    ss.all (fun kv => !kv.1.toList.contains '.' && !kv.1.startsWith "$" && isScalar kv.2) = true →
    (dkeys ss).Nodup → filterApplies (.doc ss) (discardOps (.doc ss)).1 = .ok true

/-- The former counterexample (`seed_matches_filter_full_fails`, finding `upsert-empty-key`: for the
    filter `{"": 2}` the seed is `{"": 2}`, and the matcher read the empty key as "the document
    itself") is gone from the Filter model: since the library repair "a filter looks the empty
    field name up like any other field" the seed is matched.  [Minimal edit forced by the C01
    follow-up of that repair; strengthening `seed_matches_filter_partial` to the full statement is
    left to the follower of C13.] -/
example : filterApplies (.doc [("", .int 2)]) (discardOps (.doc [("", .int 2)])).1 = .ok true := by
  decide +kernel

/-- **The seed satisfies its filter** (partial: keys non-empty).  For a filter of plain equality
    conditions with pairwise distinct keys, `expandDots` leaves the filter as it is, and the seed
    `discardOps` builds from it is matched by the filter — the seed proper, and the seed built
    after an `_id` (any value: generated, or taken from the update) was added to a filter that has
    none, which is what the upsert path does. -/
theorem seed_matches_filter_partial (ss : Fields) (hk : plainEqualities ss = true) (hd : (dkeys ss).Nodup) :
    expandDots ss = .ok ss ∧
    filterApplies (.doc ss) (discardOps (.doc ss)).1 = .ok true ∧
    (∀ idv, dget "_id" ss = none →
      expandDots (dset "_id" idv ss) = .ok (dset "_id" idv ss) ∧
      filterApplies (.doc ss) (discardOps (.doc (dset "_id" idv ss))).1 = .ok true) :=
  Proofs.C13Ext.seed_matches_filter ss hk hd

/-- non-vacuity: a three-condition filter (a number, `null`, an aware datetime) is a plain-equality
    filter with distinct keys; its seed is the filter itself -/
example : let ss : Fields := [("a", .int 2), ("b", .null), ("c", .date 1500 (some 60))]
    (plainEqualities ss && decide ((dkeys ss).Nodup) &&
      (discardOps (.doc ss)).1 == .doc ss) = true := by decide +kernel

/-- **The clause itself.**  Filter `ss`: plain equality conditions, distinct keys.  Update `ufs`:
    an operator update none of whose paths starts at a key of the filter (`Spec.addressed`; it MAY
    address `_id` when the filter has no `_id`).  If the upsert call succeeds and reports an
    upserted `_id`, then exactly one document `(id, fs)` was appended, it carries that `_id`, it
    holds every pair of the (normalised) filter, it is matched by the filter, and it is the one
    document of the new collection the filter selects — so a following `find(filter)` returns
    exactly it (`Props.C10.find_is_selection`).
    The clause does not apply to replacements: a replacement overwrites every field of the seed
    but `_id` (see the example below). -/
theorem upsert_then_matched (cfg : Cfg) (now : Int) (c c1 c' : Coll) (ss ufs : Fields)
    (multi : Bool) (sel : List (Val × Val)) (r : UpdateResult)
    (he : expire now c = .ok c1) (hne : c1.docs ≠ []) (hn : c.ttlIndexes = [])
    (hi : IdInv c) (hg : GoodKeys c)
    (hk : plainEqualities ss = true) (hd : (dkeys ss).Nodup)
    (hu : isOperatorUpdate ufs = true)
    (hx : ∀ k ∈ dkeys ss, k ∉ addressed ufs)
    (hs : selectDocs (patchDT (.doc ss)) c1.docs = .ok sel)
    (h : applyUpdateColl cfg now c (.doc ss) (.doc ufs) true multi = (c', .ok r))
    (hup : r.upserted.isSome = true) :
    ∃ id fs, r.upserted = some id ∧ c'.docs = c1.docs ++ [(id, .doc fs)] ∧
      dget "_id" fs = some id ∧
      HoldsAll (patchFields ss) fs ∧
      filterApplies (patchDT (.doc ss)) (.doc fs) = .ok true ∧
      selectDocs (patchDT (.doc ss)) c'.docs = .ok [(id, .doc fs)] :=
  Proofs.C13Ext.upsert_then_matched cfg now c c1 c' ss ufs multi sel r he hne hn hi hg hk hd hu hx hs h hup

/-- non-vacuity: on `exColl` (hypotheses: `exColl_hyps` above) the filter `{a: 2, b: "x"}` with the
    update `{$set: {e: 9}, $inc: {"n.m": 1}}` satisfies every decidable hypothesis, nothing is
    selected, the call succeeds with an upserted `_id`, and the new document is matched -/
example : let ss : Fields := [("a", .int 2), ("b", .str "x")]
    let ufs : Fields := [("$set", .doc [("e", .int 9)]), ("$inc", .doc [("n.m", .int 1)])]
    (plainEqualities ss && decide ((dkeys ss).Nodup) && isOperatorUpdate ufs &&
      decide (∀ k ∈ dkeys ss, k ∉ addressed ufs) &&
      (match selectDocs (patchDT (.doc ss)) Proofs.C13.exColl.docs,
          applyUpdateColl {} 0 Proofs.C13.exColl (.doc ss) (.doc ufs) true false with
       | .ok sel, (c', .ok r) => sel.isEmpty && r.upserted.isSome &&
          (c'.docs.map (·.2))[1]? == some (.doc [("a", .int 2), ("b", .str "x"), ("_id", .oid 1000),
            ("e", .int 9), ("n", .doc [("m", .int 1)])])
       | _, _ => false)) = true := by decide +kernel

/-- the restriction is needed: when the update overwrites a field of the filter, or is a
    replacement, the new document is NOT matched by the filter -/
example :
    (match applyUpdateColl {} 0 Proofs.C13.exColl (.doc [("a", .int 3)]) (.doc [("$inc", .doc [("a", .int 9)])]) true false,
           applyUpdateColl {} 0 Proofs.C13.exColl (.doc [("a", .int 3)]) (.doc [("z", .int 9)]) true false with
     | (c', .ok _), (c'', .ok _) =>
        (selectDocs (.doc [("a", .int 3)]) c'.docs).toOption.map (·.length) == some 0 &&
        (selectDocs (.doc [("a", .int 3)]) c''.docs).toOption.map (·.length) == some 0
     | _, _ => false) = true := by decide +kernel

/-- **The upserted `_id`, 1: the filter's.**  Filter with top-level keys only (any conditions),
    distinct keys, and a scalar `_id: v`; update that leaves `_id` alone (`leavesId`: an operator
    update not addressing `_id`, or a replacement without `_id`).  The reported `_id` is `v`,
    normalised.  (An update that `$set`s `_id` wins over the filter: see `upsert_id_from_set`.) -/
theorem upsert_id_from_filter (cfg : Cfg) (now : Int) (c c1 c' : Coll) (ss ufs : Fields)
    (multi : Bool) (sel : List (Val × Val)) (r : UpdateResult) (id v : Val)
    (he : expire now c = .ok c1) (hne : c1.docs ≠ []) (hn : c.ttlIndexes = [])
    (hi : IdInv c) (hg : GoodKeys c)
    (hk : plainKeys ss = true) (hd : (dkeys ss).Nodup)
    (hv : dget "_id" ss = some v) (hsv : isScalar v = true) (hl : leavesId ufs = true)
    (hs : selectDocs (patchDT (.doc ss)) c1.docs = .ok sel)
    (h : applyUpdateColl cfg now c (.doc ss) (.doc ufs) true multi = (c', .ok r))
    (hup : r.upserted = some id) : id = patchDT v :=
  Proofs.C13Ext.upsert_id_from_filter cfg now c c1 c' ss ufs multi sel r id v he hne hn hi hg hk hd hv hsv hl hs h hup

/-- **2: the replacement's.**  No `_id` in the filter, a replacement (distinct keys) carrying a
    scalar `_id: w`: the reported `_id` is `w`, normalised. -/
theorem upsert_id_from_replacement (cfg : Cfg) (now : Int) (c c1 c' : Coll) (ss ufs : Fields)
    (multi : Bool) (sel : List (Val × Val)) (r : UpdateResult) (id w : Val)
    (he : expire now c = .ok c1) (hne : c1.docs ≠ []) (hn : c.ttlIndexes = [])
    (hi : IdInv c) (hg : GoodKeys c)
    (hk : plainKeys ss = true) (hd : (dkeys ss).Nodup)
    (hv : dget "_id" ss = none)
    (hr : isReplacement ufs = true) (hw : dget "_id" ufs = some w) (hsw : isScalar w = true)
    (hnd : (dkeys ufs).Nodup)
    (hs : selectDocs (patchDT (.doc ss)) c1.docs = .ok sel)
    (h : applyUpdateColl cfg now c (.doc ss) (.doc ufs) true multi = (c', .ok r))
    (hup : r.upserted = some id) : id = patchDT w :=
  Proofs.C13Ext.upsert_id_from_replacement cfg now c c1 c' ss ufs multi sel r id w he hne hn hi hg hk hd hv hr hw hsw hnd hs h hup

/-- **3: the one the update `$set`s / `$setOnInsert`s.**  The update is an operator update
    `pre ++ [op: body] ++ post` with `op` = `$set` or `$setOnInsert`, `body` holds `_id: w` (any
    value) and no other path starting at `_id`, and neither `pre` nor `post` addresses `_id`.  The
    filter may have a scalar `_id` or none: the reported `_id` is `w`, normalised — on an insert
    mongomock lets the update overwrite the filter's `_id`. -/
theorem upsert_id_from_set (cfg : Cfg) (now : Int) (c c1 c' : Coll) (ss pre post body : Fields)
    (op : String) (multi : Bool) (sel : List (Val × Val)) (r : UpdateResult) (id w : Val)
    (he : expire now c = .ok c1) (hne : c1.docs ≠ []) (hn : c.ttlIndexes = [])
    (hi : IdInv c) (hg : GoodKeys c)
    (hk : plainKeys ss = true) (hd : (dkeys ss).Nodup)
    (hv : ∀ v, dget "_id" ss = some v → isScalar v = true)
    (hop : op = "$set" ∨ op = "$setOnInsert")
    (hall : (pre ++ (op, .doc body) :: post).all (fun kv => kv.1.startsWith "$") = true)
    (hpre : "_id" ∉ addressed pre) (hpost : "_id" ∉ addressed post)
    (hw : dget "_id" body = some w)
    (hf : (dkeys body).filter (fun k => headOf k = "_id") = ["_id"])
    (hs : selectDocs (patchDT (.doc ss)) c1.docs = .ok sel)
    (h : applyUpdateColl cfg now c (.doc ss) (.doc (pre ++ (op, .doc body) :: post)) true multi = (c', .ok r))
    (hup : r.upserted = some id) : id = patchDT w :=
  Proofs.C13Ext.upsert_id_from_set cfg now c c1 c' ss pre post body op multi sel r id w he hne hn hi hg hk hd hv hop hall hpre hpost hw hf hs h hup

/-- **4: otherwise a fresh ObjectId.**  No `_id` in the filter and an update that leaves `_id`
    alone: the reported `_id` is the next generated ObjectId of the collection. -/
theorem upsert_id_fresh (cfg : Cfg) (now : Int) (c c1 c' : Coll) (ss ufs : Fields)
    (multi : Bool) (sel : List (Val × Val)) (r : UpdateResult) (id : Val)
    (he : expire now c = .ok c1) (hne : c1.docs ≠ []) (hn : c.ttlIndexes = [])
    (hi : IdInv c) (hg : GoodKeys c)
    (hk : plainKeys ss = true) (hd : (dkeys ss).Nodup)
    (hv : dget "_id" ss = none) (hl : leavesId ufs = true)
    (hs : selectDocs (patchDT (.doc ss)) c1.docs = .ok sel)
    (h : applyUpdateColl cfg now c (.doc ss) (.doc ufs) true multi = (c', .ok r))
    (hup : r.upserted = some id) : id = .oid c.nextOid :=
  Proofs.C13Ext.upsert_id_fresh cfg now c c1 c' ss ufs multi sel r id he hne hn hi hg hk hd hv hl hs h hup

/-- the upserted `_id` of a call on `exColl`, `none` when the call fails or upserts nothing -/
def exUpsertedId (f u : Val) : Option Val :=
  match applyUpdateColl {} 0 Proofs.C13.exColl f u true false with
  | (_, .ok r) => r.upserted
  | _ => none

/-- non-vacuity of the four `_id` theorems on `exColl`: the filter's (an aware datetime, reported
    normalised; also under a replacement without `_id`), the replacement's, the `$setOnInsert`'s
    (also against a filter `_id`), a fresh one; the decidable hypotheses hold on these inputs -/
example :
    (plainKeys [("_id", .date 1500 (some 1)), ("a", .doc [("$gt", .int 5)])] &&
     leavesId [("$set", .doc [("e", .int 9)])] && leavesId [("z", .int 1)] && leavesId [] &&
     exUpsertedId (.doc [("_id", .date 1500 (some 1)), ("a", .doc [("$gt", .int 5)])])
        (.doc [("$set", .doc [("e", .int 9)])]) == some (patchDT (.date 1500 (some 1))) &&
     exUpsertedId (.doc [("_id", .int 7)]) (.doc [("z", .int 1)]) == some (.int 7) &&
     exUpsertedId (.doc [("_id", .int 7)]) (.doc []) == some (.int 7) &&
     isReplacement [("z", .int 1), ("_id", .str "k")] &&
     exUpsertedId (.doc [("a", .int 2)]) (.doc [("z", .int 1), ("_id", .str "k")]) == some (.str "k") &&
     decide ((dkeys ([("_id", .int 9), ("f.g", .int 1)] : Fields)).filter (fun k => headOf k = "_id") = ["_id"]) &&
     decide ("_id" ∉ addressed [("$set", .doc [("e", .int 9)])]) &&
     exUpsertedId (.doc [("a", .int 2)]) (.doc [("$set", .doc [("e", .int 9)]),
        ("$setOnInsert", .doc [("_id", .int 9), ("f.g", .int 1)])]) == some (.int 9) &&
     exUpsertedId (.doc [("_id", .int 7)]) (.doc [("$set", .doc [("_id", .int 9)])]) == some (.int 9) &&
     exUpsertedId (.doc [("a", .int 2)]) (.doc [("$set", .doc [("e", .int 9)])])
        == some (.oid Proofs.C13.exColl.nextOid) &&
     exUpsertedId (.doc [("a", .int 2)]) (.doc [("z", .int 1)]) == some (.oid Proofs.C13.exColl.nextOid))
    = true := by decide +kernel

/-- the hypothesis "leaves `_id` alone" of `upsert_id_fresh` is needed: an update that `$unset`s
    `_id` removes the seed's generated ObjectId and `insertDoc` generates the next one -/
example : (exUpsertedId (.doc [("a", .int 5)]) (.doc [("$unset", .doc [("_id", .int 1)])])
    == some (.oid (Proofs.C13.exColl.nextOid + 1))) = true := by decide +kernel

/-! ## Extension: the seed of ANY filter whose keys do not conflict (generalises
    `seed_plain_equalities` and `seed_expands_dots` to dotted paths of any depth).

    `prefixFree ss`: no key is a dotted prefix of (or equal to) another; `noDollarParts ss`: no
    component of a key is an operator (so no top-level `$and` / `$or`); `getPath`: reading a dotted
    path (Spec/UpdateSpec.lean).  The success of `expandDots` is a hypothesis: it is what the
    upsert path needs anyway (the examples show it holds on conflict-free filters). -/

/-- **The seed at every path.**  When `_expand_dots` succeeds on a filter with prefix-free keys
    without operator components, the expanded filter holds at the path of every item its
    condition, and the seed holds there what `_discard_operators` leaves of that condition
    (nothing when it is dropped). -/
theorem seed_at_paths (ss ex : Fields) (h : expandDots ss = .ok ex) (hp : prefixFree ss)
    (hnd : noDollarParts ss = true) :
    (∀ kv ∈ ss, getPath (splitDots kv.1) (.doc ex) = some kv.2) ∧
    (∀ kv ∈ ss, getPath (splitDots kv.1) (discardOps (.doc ex)).1 =
        if (discardOps kv.2).2 then none else some (discardOps kv.2).1) :=
  Proofs.C13Ext.seed_paths ss ex h hp hnd

/-- … in particular: an equality condition `p: v` (scalar `v`) puts `v` at the path `p`, `p: {$eq:
    x}` puts `x` there, and an operator condition leaves nothing at its path. -/
theorem seed_at_paths_cases (ss ex : Fields) (h : expandDots ss = .ok ex) (hp : prefixFree ss)
    (hnd : noDollarParts ss = true) :
    (∀ k v, (k, v) ∈ ss → isScalar v = true →
        getPath (splitDots k) (discardOps (.doc ex)).1 = some v) ∧
    (∀ k x, (k, Val.doc [("$eq", x)]) ∈ ss →
        getPath (splitDots k) (discardOps (.doc ex)).1 = some x) ∧
    (∀ k ops, (k, Val.doc ops) ∈ ss → isOps ops = true → dget "$eq" ops = none →
        getPath (splitDots k) (discardOps (.doc ex)).1 = none) :=
  Proofs.C13Ext.seed_paths_cases ss ex h hp hnd

/-- non-vacuity: a filter with paths of depth 3, 2, 1, an operator condition and an `$eq`, sharing
    prefixes, is prefix-free without operator components, expands, and its seed is as stated -/
example : let ss : Fields := [("a.b.c", .int 1), ("a.b.d", .doc [("$gt", .int 2)]), ("a.e", .str "x"),
      ("f", .doc [("$eq", .int 4)]), ("g.h", .doc [("$in", .arr [.int 1])])]
    (decide (prefixFree ss) && noDollarParts ss &&
      (match expandDots ss with
       | .ok ex => (discardOps (.doc ex)).1 == .doc [("a", .doc [("b", .doc [("c", .int 1)]), ("e", .str "x")]),
            ("f", .int 4)]
       | _ => false)) = true := by decide +kernel

/-- the prefix condition is needed: `{a: {c: 2}, "a.b": 1}` expands without error, but the second
    item is written INTO the sub-document of the first, which no longer holds its own condition -/
example : (decide (prefixFree [("a", .doc [("c", .int 2)]), ("a.b", .int 1)]) == false &&
    (match expandDots [("a", .doc [("c", .int 2)]), ("a.b", .int 1)] with
     | .ok ex => getPath ["a"] (.doc ex) == some (.doc [("c", .int 2), ("b", .int 1)])
     | _ => false)) = true := by decide +kernel

end MongoModel.Props.C13
