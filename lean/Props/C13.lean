/-
  Props.C13 — upsert inserts exactly one well-formed document iff nothing matches.
  Statements only; proofs in Proofs/C13*.lean.  Model: the upsert path of `applyUpdateColl`
  (Store.lean), `upsertSeed` = `discardOps`, then `expandDots` (Update.lean).  `c1` is the
  collection the expiry pass leaves, `sel` the documents the filter selects.
-/
import Proofs.C13
import Proofs.C13ExtSeed
import Proofs.C13ExtUpsert
import Proofs.C13ExtId2
import Proofs.C13ExtId3
import Proofs.C13ExtPaths

namespace MongoModel.Props.C13
open MongoModel MongoModel.Spec

/-- a model call gave this value (structural equality) -/
private def gives (r : R Val) (v : Val) : Bool :=
  match r with
  | .ok x => x == v
  | .error _ => false

/-- a model call raised the WriteError -/
private def raisesWriteError (r : R Val) : Bool :=
  match r with
  | .error .writeErr => true
  | _ => false

/-- When something matches, `upsert=True` changes nothing: the call is the same call without
    upsert (same result, same collection). -/
theorem upsert_like_plain_when_matched (cfg : Cfg) (now : Int) (c c1 : Coll) (fs : Fields) (u : Val)
    (multi : Bool) (q : Val × Val) (rest : List (Val × Val))
    (he : expire now c = .ok c1) (hi : IdInv c) (hg : GoodKeys c)
    (hs : selectDocs (patchDT (.doc fs)) c1.docs = .ok (q :: rest))
    (hok : ∀ e, (applyUpdateColl cfg now c (.doc fs) u false multi).2 ≠ .error e) :
    (applyUpdateColl cfg now c (.doc fs) u true multi).1.docs =
      (applyUpdateColl cfg now c (.doc fs) u false multi).1.docs ∧
    ((applyUpdateColl cfg now c (.doc fs) u true multi).2.toOption.map (fun r => (r.n, r.nModified, r.upserted.isSome)))
      = ((applyUpdateColl cfg now c (.doc fs) u false multi).2.toOption.map (fun r => (r.n, r.nModified, r.upserted.isSome))) :=
  Proofs.C13.upsert_like_plain_when_matched cfg now c c1 fs u multi q rest he hi hg hs hok

/-- The same in full: with a match the two calls are equal — whole state, whole result, errors
    included (no success hypothesis needed). -/
theorem upsert_eq_plain_when_matched (cfg : Cfg) (now : Int) (c c1 : Coll) (fs : Fields) (u : Val)
    (multi : Bool) (q : Val × Val) (rest : List (Val × Val))
    (he : expire now c = .ok c1) (hi : IdInv c) (hg : GoodKeys c)
    (hs : selectDocs (patchDT (.doc fs)) c1.docs = .ok (q :: rest)) :
    applyUpdateColl cfg now c (.doc fs) u true multi =
      applyUpdateColl cfg now c (.doc fs) u false multi :=
  Proofs.C13.upsert_eq_plain_when_matched cfg now c c1 fs u multi q rest he hi hg hs

/-- Without upsert nothing is ever inserted. -/
theorem no_upsert_no_insert (cfg : Cfg) (now : Int) (c c' : Coll) (f u : Val) (multi : Bool)
    (r : UpdateResult) (h : applyUpdateColl cfg now c f u false multi = (c', .ok r)) :
    r.upserted = none ∧ c'.docs.length ≤ c.docs.length :=
  Proofs.C13.no_upsert_no_insert cfg now c c' f u multi r h

/-- **Upsert iff no match**: a successful call reports an upserted `_id` exactly when the filter
    selected nothing; then exactly one document was appended, it is stored under the reported
    `_id`, `n = 1`, nothing counts as modified and nothing existing was touched. -/
theorem upsert_iff_no_match (cfg : Cfg) (now : Int) (c c1 c' : Coll) (fs : Fields) (u : Val)
    (multi : Bool) (sel : List (Val × Val)) (r : UpdateResult)
    (he : expire now c = .ok c1) (hne : c1.docs ≠ []) (hn : c.ttlIndexes = [])
    (hi : IdInv c) (hg : GoodKeys c)
    (hs : selectDocs (patchDT (.doc fs)) c1.docs = .ok sel)
    (h : applyUpdateColl cfg now c (.doc fs) u true multi = (c', .ok r)) :
    (r.upserted.isSome ↔ sel = []) ∧
    (sel = [] → ∃ id d, r.upserted = some id ∧ c'.docs = c1.docs ++ [(id, d)] ∧
        idOf d = some id ∧ r.n = 1 ∧ r.nModified = 0 ∧ r.updatedExisting = false) :=
  Proofs.C13.upsert_iff_no_match cfg now c c1 c' fs u multi sel r he hne hn hi hg hs h

/-- The reported result of an upsert: matched_count 0 and the stored `_id` as upserted_id
    (`updateOut` is what `UpdateResult` shows) — whatever the `_id`, null included.  (An upsert
    storing `_id: null` used to report matched_count 1; the repaired defect is recorded under
    C10 as `upsert-null-id-matched` — the counts are C10's —, C13's own records of the null `_id`
    are `nullid` and `fam-upsert-null-id-return`.) -/
theorem upsert_result (r : UpdateResult) (id : Val) (h : r.upserted = some id) :
    updateOut r = .doc [("matched", .int 0), ("modified", .int r.nModified), ("upserted", id)] :=
  Proofs.C13.upsert_result r id h

/-- non-vacuity: an upsert whose filter gives `_id: null` stores that `_id` and reports
    matched_count 0 -/
example : (match applyUpdateColl {} 0 Proofs.C13.exColl (.doc [("_id", .null), ("a", .int 7)])
      (.doc [("$set", .doc [("b", .int 2)])]) true false with
    | (c', .ok r) => r.upserted == some .null && c'.docs.length == 2 &&
        updateOut r == .doc [("matched", .int 0), ("modified", .int 0), ("upserted", .null)]
    | _ => false) = true := by decide +kernel

/-- **The seed**: `_discard_operators` keeps the equality conditions of the filter
    (`Spec.equalities`): an equality condition on a plain (undotted) field puts that value into
    the seed, an operator condition contributes nothing, `$eq` contributes its operand; and
    `_expand_dots` leaves such conditions as they are. -/
theorem seed_plain_equalities (ss : Fields) (hk : ss.all (fun kv => !kv.1.toList.contains '.' && !kv.1.startsWith "$") = true)
    (hd : (dkeys ss).Nodup) :
    expandDots (equalities ss) = .ok (equalities ss) ∧
    (∀ k v, dget k ss = some v → isScalar v = true → dget k (equalities ss) = some v) ∧
    (∀ k ops, dget k ss = some (.doc ops) → isOps ops = true → dget "$eq" ops = none →
        dget k (equalities ss) = none) ∧
    (∀ k x, dget k ss = some (.doc [("$eq", x)]) → dget k (equalities ss) = some x) :=
  Proofs.C13.seed_plain_equalities ss hk hd

/-- A dotted equality condition is expanded into nested sub-documents (any component may be the
    empty field name). -/
theorem seed_expands_dots (a b : String) (v : Val)
    (ha : a.toList.contains '.' = false) (hb : b.toList.contains '.' = false) :
    expandDots [(a ++ "." ++ b, v)] = .ok [(a, .doc [(b, v)])] :=
  Proofs.C13.seed_expands_dots a b v ha hb

/-- `$setOnInsert` is applied only when inserting, and then it acts as `$set` (positional paths
    included: C02); without a `$` in its paths that is `updateFields .set`. -/
theorem setOnInsert_only_on_insert (spec now body : Val) (d : Val) :
    applyUpdate spec (.doc [("$setOnInsert", body)]) now false d = .ok d ∧
    applyUpdate spec (.doc [("$setOnInsert", body)]) now true d =
      applyUpdate spec (.doc [("$set", body)]) now true d ∧
    (positionalUpdate [("$setOnInsert", body)] = false →
      applyUpdate spec (.doc [("$setOnInsert", body)]) now true d = updateFields .set now body d) :=
  Proofs.C13.setOnInsert_only_on_insert spec now body d

/-- non-vacuity: an upsert on a non-empty collection where nothing matches; the seed carries the
    filter's equality, the operator condition is dropped, `$setOnInsert` and `$set` are applied -/
example : (match applyUpdateColl {} 0
      { docs := [(.int 1, .doc [("_id", .int 1), ("a", .int 1)])] }
      (.doc [("a", .int 2), ("b", .doc [("$gt", .int 5)]), ("c.d", .str "x")])
      (.doc [("$set", .doc [("e", .int 9)]), ("$setOnInsert", .doc [("f", .bool true)])]) true false with
    | (c', .ok r) => r.upserted.isSome && c'.docs.length == 2 &&
        (c'.docs.map (·.2))[1]? == some (.doc [("a", .int 2), ("c", .doc [("d", .str "x")]),
          ("_id", .oid 1000), ("e", .int 9), ("f", .bool true)])
    | _ => false) = true := by decide +kernel

/-- non-vacuity: the hypotheses of `upsert_iff_no_match` and `upsert_like_plain_when_matched`
    (expiry, non-empty, no TTL index, `IdInv`, `GoodKeys`) hold on the collection used above -/
example : expire 0 Proofs.C13.exColl = .ok Proofs.C13.exColl ∧ Proofs.C13.exColl.docs ≠ [] ∧
    Proofs.C13.exColl.ttlIndexes = [] ∧ IdInv Proofs.C13.exColl ∧ GoodKeys Proofs.C13.exColl :=
  Proofs.C13.exColl_hyps

/-- non-vacuity: on that collection `{a: 2}` selects nothing and `{a: 1}` selects one document -/
example : (match selectDocs (patchDT (.doc [("a", .int 2)])) Proofs.C13.exColl.docs,
      selectDocs (patchDT (.doc [("a", .int 1)])) Proofs.C13.exColl.docs with
    | .ok s0, .ok s1 => s0.length == 0 && s1.length == 1
    | _, _ => false) = true := by decide +kernel

/-- non-vacuity: an upsert whose filter matches inserts nothing and reports no upserted `_id` -/
example : (match applyUpdateColl {} 0 Proofs.C13.exColl (.doc [("a", .int 1)])
      (.doc [("$set", .doc [("e", .int 9)]), ("$setOnInsert", .doc [("f", .bool true)])]) true false with
    | (c', .ok r) => r.upserted.isNone && r.n == 1 && r.nModified == 1 && c'.docs.length == 1 &&
        (c'.docs.map (·.2))[0]? == some (.doc [("_id", .int 1), ("a", .int 1), ("e", .int 9)])
    | _ => false) = true := by decide +kernel

/-- non-vacuity: a filter with an equality, an operator condition and an `$eq` satisfies the
    hypotheses of `seed_plain_equalities`; its seed is `{a: 2, c: 7}` -/
example : let ss : Fields := [("a", .int 2), ("b", .doc [("$gt", .int 5)]), ("c", .doc [("$eq", .int 7)])]
    (ss.all (fun kv => !kv.1.toList.contains '.' && !kv.1.startsWith "$") &&
      decide ((dkeys ss).Nodup) &&
      (equalities ss == [("a", .int 2), ("c", .int 7)]) &&
      (match expandDots (equalities ss) with | .ok ex => ex == equalities ss | _ => false)) = true := by
  decide +kernel

/-! ## Extension: the last clause of C13 — "when the filter consists of equality conditions that
    the update does not overwrite, the new document is matched by that same filter afterwards" —
    and which `_id` the new document gets.

    Shapes (Spec/UpsertExt.lean): `plainEqualities ss` = every key of the filter is a top-level
    field name (no dot, no leading `$`; the empty name included) and every value a scalar; `plainKeys ss` = the
    same on the keys only (any conditions); `isOperatorUpdate` / `isReplacement` / `leavesId`
    for the update; `HoldsAll ss fs` = the document `fs` holds `k: v` for every `(k, v)` of `ss`. -/

/-- Any document that holds `k: v` for every condition `k: v` of a plain-equality filter is
    matched by the filter (no distinctness of keys needed, `null` included: a scalar is `==` to
    itself). -/
theorem holds_all_matches (ss fs : Fields) (hk : plainEqualities ss = true) (hf : HoldsAll ss fs) :
    filterApplies (.doc ss) (.doc fs) = .ok true :=
  Proofs.C13Ext.holds_matches ss fs hk hf

/-- **The seed satisfies its filter.**  For a filter of plain equality conditions with pairwise
    distinct keys — the empty field name included — and whatever `_id` the upsert path chooses
    (the filter's own when it has one, else any value: generated, or taken from the update), the
    seed `upsertSeed` builds exists and is matched by the filter.  (Repaired defect
    `upsert-empty-key`: the matcher used to read the key `""` as "the document itself", so the seed
    of `{"": 2}` was not matched and repeating the call inserted again; the statement used to carry
    "keys non-empty" and a `_full_fails` companion.) -/
theorem seed_matches_filter (ss : Fields) (hk : plainEqualities ss = true) (hd : (dkeys ss).Nodup)
    (idv : Val) (hid : ∀ v, dget "_id" ss = some v → idv = v) :
    ∃ sf, upsertSeed ss idv = .ok (.doc sf) ∧ HoldsAll ss sf ∧
      filterApplies (.doc ss) (.doc sf) = .ok true :=
  Proofs.C13Ext.seed_matches_filter ss hk hd idv hid

/-- the witness of the repaired defect `upsert-empty-key`: the filter `{"": 2}` satisfies the
    hypotheses, its seed is `{"": 2, _id: …}` and is matched; on the collection of the witness the
    upsert inserts, the filter then selects exactly the new document, and a second identical call
    matches it instead of inserting again -/
example : let ss : Fields := [("", .int 2)]
    (plainEqualities ss && decide ((dkeys ss).Nodup) &&
      (match upsertSeed ss (.oid 7) with
       | .ok seed => seed == .doc [("", .int 2), ("_id", .oid 7)] &&
           filterApplies (.doc ss) seed == .ok true
       | _ => false) &&
      (match applyUpdateColl {} 0 Proofs.C13.exColl (.doc ss) (.doc [("$set", .doc [("e", .int 9)])]) true false with
       | (c', .ok r) => r.upserted.isSome && c'.docs.length == 2 &&
           (selectDocs (.doc ss) c'.docs).toOption.map (·.length) == some 1 &&
           (match applyUpdateColl {} 0 c' (.doc ss) (.doc [("$set", .doc [("e", .int 9)])]) true false with
            | (c'', .ok r') => r'.upserted.isNone && r'.n == 1 && c''.docs.length == 2
            | _ => false)
       | _ => false)) = true := by decide +kernel

/-- non-vacuity: a three-condition filter (a number, `null`, an aware datetime) is a plain-equality
    filter with distinct keys; its seed is the filter itself with the chosen `_id` -/
example : let ss : Fields := [("a", .int 2), ("b", .null), ("c", .date 1500 (some 60))]
    (plainEqualities ss && decide ((dkeys ss).Nodup) &&
      gives (upsertSeed ss (.int 5)) (.doc (ss ++ [("_id", .int 5)]))) = true := by decide +kernel

/-- **The clause itself.**  Filter `ss`: plain equality conditions, distinct keys.  Update `ufs`:
    an operator update none of whose paths starts at a key of the filter (`Spec.addressed`; it MAY
    address `_id` when the filter has no `_id`).  If the upsert call succeeds and reports an
    upserted `_id`, then exactly one document `(id, fs)` was appended, it carries that `_id`, it
    holds every pair of the (normalised) filter, it is matched by the filter, and it is the one
    document of the new collection the filter selects — so a following `find(filter)` returns
    exactly it (`Props.C10.find_is_selection`).
    The clause does not apply to replacements: a replacement overwrites every field of the seed
    but `_id` (see the example below). -/
theorem upsert_then_matched (cfg : Cfg) (now : Int) (c c1 c' : Coll) (ss ufs : Fields)
    (multi : Bool) (sel : List (Val × Val)) (r : UpdateResult)
    (he : expire now c = .ok c1) (hne : c1.docs ≠ []) (hn : c.ttlIndexes = [])
    (hi : IdInv c) (hg : GoodKeys c)
    (hk : plainEqualities ss = true) (hd : (dkeys ss).Nodup)
    (hu : isOperatorUpdate ufs = true)
    (hx : ∀ k ∈ dkeys ss, k ∉ addressed ufs)
    (hs : selectDocs (patchDT (.doc ss)) c1.docs = .ok sel)
    (h : applyUpdateColl cfg now c (.doc ss) (.doc ufs) true multi = (c', .ok r))
    (hup : r.upserted.isSome = true) :
    ∃ id fs, r.upserted = some id ∧ c'.docs = c1.docs ++ [(id, .doc fs)] ∧
      dget "_id" fs = some id ∧
      HoldsAll (patchFields ss) fs ∧
      filterApplies (patchDT (.doc ss)) (.doc fs) = .ok true ∧
      selectDocs (patchDT (.doc ss)) c'.docs = .ok [(id, .doc fs)] :=
  Proofs.C13Ext.upsert_then_matched cfg now c c1 c' ss ufs multi sel r he hne hn hi hg hk hd hu hx hs h hup

/-- non-vacuity: on `exColl` (hypotheses: `exColl_hyps` above) the filter `{a: 2, b: "x"}` with the
    update `{$set: {e: 9}, $inc: {"n.m": 1}}` satisfies every decidable hypothesis, nothing is
    selected, the call succeeds with an upserted `_id`, and the new document is matched -/
example : let ss : Fields := [("a", .int 2), ("b", .str "x")]
    let ufs : Fields := [("$set", .doc [("e", .int 9)]), ("$inc", .doc [("n.m", .int 1)])]
    (plainEqualities ss && decide ((dkeys ss).Nodup) && isOperatorUpdate ufs &&
      decide (∀ k ∈ dkeys ss, k ∉ addressed ufs) &&
      (match selectDocs (patchDT (.doc ss)) Proofs.C13.exColl.docs,
          applyUpdateColl {} 0 Proofs.C13.exColl (.doc ss) (.doc ufs) true false with
       | .ok sel, (c', .ok r) => sel.isEmpty && r.upserted.isSome &&
          (c'.docs.map (·.2))[1]? == some (.doc [("a", .int 2), ("b", .str "x"), ("_id", .oid 1000),
            ("e", .int 9), ("n", .doc [("m", .int 1)])])
       | _, _ => false)) = true := by decide +kernel

/-- the restriction is needed: when the update overwrites a field of the filter, or is a
    replacement, the new document is NOT matched by the filter -/
example :
    (match applyUpdateColl {} 0 Proofs.C13.exColl (.doc [("a", .int 3)]) (.doc [("$inc", .doc [("a", .int 9)])]) true false,
           applyUpdateColl {} 0 Proofs.C13.exColl (.doc [("a", .int 3)]) (.doc [("z", .int 9)]) true false with
     | (c', .ok _), (c'', .ok _) =>
        (selectDocs (.doc [("a", .int 3)]) c'.docs).toOption.map (·.length) == some 0 &&
        (selectDocs (.doc [("a", .int 3)]) c''.docs).toOption.map (·.length) == some 0
     | _, _ => false) = true := by decide +kernel

/-- **The upserted `_id`, 1: the filter's.**  Filter with top-level keys only (any conditions),
    distinct keys, and a scalar `_id: v`; update that leaves `_id` alone (`leavesId`: an operator
    update not addressing `_id`, or a replacement without `_id`).  The reported `_id` is `v`,
    normalised.  (An update that `$set`s `_id` wins over the filter: see `upsert_id_from_set`.) -/
theorem upsert_id_from_filter (cfg : Cfg) (now : Int) (c c1 c' : Coll) (ss ufs : Fields)
    (multi : Bool) (sel : List (Val × Val)) (r : UpdateResult) (id v : Val)
    (he : expire now c = .ok c1) (hne : c1.docs ≠ []) (hn : c.ttlIndexes = [])
    (hi : IdInv c) (hg : GoodKeys c)
    (hk : plainKeys ss = true) (hd : (dkeys ss).Nodup)
    (hv : dget "_id" ss = some v) (hsv : isScalar v = true) (hl : leavesId ufs = true)
    (hs : selectDocs (patchDT (.doc ss)) c1.docs = .ok sel)
    (h : applyUpdateColl cfg now c (.doc ss) (.doc ufs) true multi = (c', .ok r))
    (hup : r.upserted = some id) : id = patchDT v :=
  Proofs.C13Ext.upsert_id_from_filter cfg now c c1 c' ss ufs multi sel r id v he hne hn hi hg hk hd hv hsv hl hs h hup

/-- **2: the replacement's.**  No `_id` in the filter, a replacement (distinct keys) carrying a
    scalar `_id: w`: the reported `_id` is `w`, normalised. -/
theorem upsert_id_from_replacement (cfg : Cfg) (now : Int) (c c1 c' : Coll) (ss ufs : Fields)
    (multi : Bool) (sel : List (Val × Val)) (r : UpdateResult) (id w : Val)
    (he : expire now c = .ok c1) (hne : c1.docs ≠ []) (hn : c.ttlIndexes = [])
    (hi : IdInv c) (hg : GoodKeys c)
    (hk : plainKeys ss = true) (hd : (dkeys ss).Nodup)
    (hv : dget "_id" ss = none)
    (hr : isReplacement ufs = true) (hw : dget "_id" ufs = some w) (hsw : isScalar w = true)
    (hnd : (dkeys ufs).Nodup)
    (hs : selectDocs (patchDT (.doc ss)) c1.docs = .ok sel)
    (h : applyUpdateColl cfg now c (.doc ss) (.doc ufs) true multi = (c', .ok r))
    (hup : r.upserted = some id) : id = patchDT w :=
  Proofs.C13Ext.upsert_id_from_replacement cfg now c c1 c' ss ufs multi sel r id w he hne hn hi hg hk hd hv hr hw hsw hnd hs h hup

/-- **3: the one the update `$set`s / `$setOnInsert`s.**  The update is an operator update
    `pre ++ [op: body] ++ post` with `op` = `$set` or `$setOnInsert`, `body` holds `_id: w` (any
    value) and no other path starting at `_id`, and neither `pre` nor `post` addresses `_id`.  The
    filter may have a scalar `_id` or none: the reported `_id` is `w`, normalised — on an insert
    mongomock lets the update overwrite the filter's `_id`. -/
theorem upsert_id_from_set (cfg : Cfg) (now : Int) (c c1 c' : Coll) (ss pre post body : Fields)
    (op : String) (multi : Bool) (sel : List (Val × Val)) (r : UpdateResult) (id w : Val)
    (he : expire now c = .ok c1) (hne : c1.docs ≠ []) (hn : c.ttlIndexes = [])
    (hi : IdInv c) (hg : GoodKeys c)
    (hk : plainKeys ss = true) (hd : (dkeys ss).Nodup)
    (hv : ∀ v, dget "_id" ss = some v → isScalar v = true)
    (hop : op = "$set" ∨ op = "$setOnInsert")
    (hall : (pre ++ (op, .doc body) :: post).all (fun kv => kv.1.startsWith "$") = true)
    (hpre : "_id" ∉ addressed pre) (hpost : "_id" ∉ addressed post)
    (hw : dget "_id" body = some w)
    (hf : (dkeys body).filter (fun k => headOf k = "_id") = ["_id"])
    (hs : selectDocs (patchDT (.doc ss)) c1.docs = .ok sel)
    (h : applyUpdateColl cfg now c (.doc ss) (.doc (pre ++ (op, .doc body) :: post)) true multi = (c', .ok r))
    (hup : r.upserted = some id) : id = patchDT w :=
  Proofs.C13Ext.upsert_id_from_set cfg now c c1 c' ss pre post body op multi sel r id w he hne hn hi hg hk hd hv hop hall hpre hpost hw hf hs h hup

/-- **4: otherwise a fresh ObjectId.**  No `_id` in the filter and an update that leaves `_id`
    alone: the reported `_id` is the next generated ObjectId of the collection. -/
theorem upsert_id_fresh (cfg : Cfg) (now : Int) (c c1 c' : Coll) (ss ufs : Fields)
    (multi : Bool) (sel : List (Val × Val)) (r : UpdateResult) (id : Val)
    (he : expire now c = .ok c1) (hne : c1.docs ≠ []) (hn : c.ttlIndexes = [])
    (hi : IdInv c) (hg : GoodKeys c)
    (hk : plainKeys ss = true) (hd : (dkeys ss).Nodup)
    (hv : dget "_id" ss = none) (hl : leavesId ufs = true)
    (hs : selectDocs (patchDT (.doc ss)) c1.docs = .ok sel)
    (h : applyUpdateColl cfg now c (.doc ss) (.doc ufs) true multi = (c', .ok r))
    (hup : r.upserted = some id) : id = .oid c.nextOid :=
  Proofs.C13Ext.upsert_id_fresh cfg now c c1 c' ss ufs multi sel r id he hne hn hi hg hk hd hv hl hs h hup

/-- the upserted `_id` of a call on `exColl`, `none` when the call fails or upserts nothing -/
def exUpsertedId (f u : Val) : Option Val :=
  match applyUpdateColl {} 0 Proofs.C13.exColl f u true false with
  | (_, .ok r) => r.upserted
  | _ => none

/-- non-vacuity of the four `_id` theorems on `exColl`: the filter's (an aware datetime, reported
    normalised; also under a replacement without `_id`), the replacement's, the `$setOnInsert`'s
    (also against a filter `_id`), a fresh one; the decidable hypotheses hold on these inputs -/
example :
    (plainKeys [("_id", .date 1500 (some 1)), ("a", .doc [("$gt", .int 5)])] &&
     leavesId [("$set", .doc [("e", .int 9)])] && leavesId [("z", .int 1)] && leavesId [] &&
     exUpsertedId (.doc [("_id", .date 1500 (some 1)), ("a", .doc [("$gt", .int 5)])])
        (.doc [("$set", .doc [("e", .int 9)])]) == some (patchDT (.date 1500 (some 1))) &&
     exUpsertedId (.doc [("_id", .int 7)]) (.doc [("z", .int 1)]) == some (.int 7) &&
     exUpsertedId (.doc [("_id", .int 7)]) (.doc []) == some (.int 7) &&
     isReplacement [("z", .int 1), ("_id", .str "k")] &&
     exUpsertedId (.doc [("a", .int 2)]) (.doc [("z", .int 1), ("_id", .str "k")]) == some (.str "k") &&
     decide ((dkeys ([("_id", .int 9), ("f.g", .int 1)] : Fields)).filter (fun k => headOf k = "_id") = ["_id"]) &&
     decide ("_id" ∉ addressed [("$set", .doc [("e", .int 9)])]) &&
     exUpsertedId (.doc [("a", .int 2)]) (.doc [("$set", .doc [("e", .int 9)]),
        ("$setOnInsert", .doc [("_id", .int 9), ("f.g", .int 1)])]) == some (.int 9) &&
     exUpsertedId (.doc [("_id", .int 7)]) (.doc [("$set", .doc [("_id", .int 9)])]) == some (.int 9) &&
     exUpsertedId (.doc [("a", .int 2)]) (.doc [("$set", .doc [("e", .int 9)])])
        == some (.oid Proofs.C13.exColl.nextOid) &&
     exUpsertedId (.doc [("a", .int 2)]) (.doc [("z", .int 1)]) == some (.oid Proofs.C13.exColl.nextOid))
    = true := by decide +kernel

/-- the hypothesis "leaves `_id` alone" of `upsert_id_fresh` is needed: an update that `$unset`s
    `_id` removes the seed's generated ObjectId and `insertDoc` generates the next one -/
example : (exUpsertedId (.doc [("a", .int 5)]) (.doc [("$unset", .doc [("_id", .int 1)])])
    == some (.oid (Proofs.C13.exColl.nextOid + 1))) = true := by decide +kernel

/-! ## Extension: the seed of ANY filter (generalises `seed_plain_equalities` and
    `seed_expands_dots` to dotted paths of any depth), and when it cannot be built.

    `equalities ss` = what `_discard_operators` keeps of the filter; `prefixFree eqs`: no key is a
    dotted prefix of (or equal to) another; `noDollarKeys ss`: no top-level key is an operator (so
    no `$and` / `$or`); `getPath`: reading a dotted path (Spec/UpdateSpec.lean).

    Repaired defect `upsert-op-under-eq`: `_expand_dots` used to run BEFORE `_discard_operators`,
    so an operator condition below an equality (`{b: {}, "b.k": {$gt: 1}}`) was merged into the
    equality's value and took it away; the statements below used to ASSUME `prefixFree` of the whole
    filter.  Now only the equality conditions are expanded, and prefix-freeness of those is what
    the code enforces: the expansion succeeds exactly then (`seed_conflict_iff`). -/

/-- **`_expand_dots` succeeds exactly on prefix-free keys**, and raises the WriteError 'cannot
    infer query fields to set' on every other set of conditions (a key stated twice, a key that is
    a dotted prefix of another one, in either order, whatever the values). -/
theorem seed_conflict_iff (eqs : Fields) :
    ((∃ ex, expandDots eqs = .ok ex) ↔ prefixFree eqs) ∧
    (¬ prefixFree eqs → expandDots eqs = .error .writeErr) :=
  ⟨Proofs.C13Ext.expand_ok_iff eqs, Proofs.C13Ext.expand_conflict eqs⟩

/-- … for the upsert: the seed of a filter (with the chosen `_id`) can be built exactly when no
    EQUALITY condition lies at or below another one — operator conditions do not count — and
    otherwise the upsert raises that WriteError. -/
theorem upsert_seed_conflict (ss : Fields) (idv : Val)
    (hnd : noDollarKeys (dset "_id" idv ss) = true) :
    ((∃ seed, upsertSeed ss idv = .ok seed) ↔ prefixFree (equalities (dset "_id" idv ss))) ∧
    (¬ prefixFree (equalities (dset "_id" idv ss)) → upsertSeed ss idv = .error .writeErr) :=
  Proofs.C13Ext.upsertSeed_conflict ss idv hnd

/-- **The seed at every path.**  When the equality conditions of a filter (distinct keys, no
    top-level operator) expand, they are prefix-free, the seed holds at the path of every condition
    that is not dropped what `_discard_operators` leaves of it, and at the path of a dropped
    (operator) condition it holds nothing — unless an equality condition lies at, above or below
    that path. -/
theorem seed_at_paths (ss ex : Fields) (hnd : noDollarKeys ss = true) (hk : (dkeys ss).Nodup)
    (h : expandDots (equalities ss) = .ok ex) :
    prefixFree (equalities ss) ∧
    (∀ kv ∈ ss, (discardOps kv.2).2 = false →
        getPath (splitDots kv.1) (.doc ex) = some (discardOps kv.2).1) ∧
    (∀ kv ∈ ss, (discardOps kv.2).2 = true →
        (∀ kv' ∈ ss, (discardOps kv'.2).2 = false →
          ¬ splitDots kv'.1 <+: splitDots kv.1 ∧ ¬ splitDots kv.1 <+: splitDots kv'.1) →
        getPath (splitDots kv.1) (.doc ex) = none) :=
  Proofs.C13Ext.seed_paths ss ex hnd hk h

/-- … in particular: an equality condition `p: v` (scalar `v`) puts `v` at the path `p`, `p: {$eq:
    x}` puts `x` there, and an operator condition leaves nothing at its path (when no equality
    condition reaches there). -/
theorem seed_at_paths_cases (ss ex : Fields) (hnd : noDollarKeys ss = true) (hk : (dkeys ss).Nodup)
    (h : expandDots (equalities ss) = .ok ex) :
    (∀ k v, (k, v) ∈ ss → isScalar v = true → getPath (splitDots k) (.doc ex) = some v) ∧
    (∀ k x, (k, Val.doc [("$eq", x)]) ∈ ss → getPath (splitDots k) (.doc ex) = some x) ∧
    (∀ k ops, (k, Val.doc ops) ∈ ss → isOps ops = true → dget "$eq" ops = none →
        (∀ kv' ∈ ss, (discardOps kv'.2).2 = false →
          ¬ splitDots kv'.1 <+: splitDots k ∧ ¬ splitDots k <+: splitDots kv'.1) →
        getPath (splitDots k) (.doc ex) = none) :=
  Proofs.C13Ext.seed_paths_cases ss ex hnd hk h

/-- … and the seed of the upsert is that expansion (the filter with the chosen `_id`). -/
theorem upsert_seed_is_expansion (ss : Fields) (idv : Val)
    (hnd : noDollarKeys (dset "_id" idv ss) = true) :
    upsertSeed ss idv = (expandDots (equalities (dset "_id" idv ss))).map Val.doc :=
  Proofs.C13Ext.upsertSeed_eq ss idv hnd

/-- non-vacuity: a filter with paths of depth 3, 2, 1, an operator condition and an `$eq`, sharing
    prefixes, has distinct keys and no top-level operator; its equality conditions are
    prefix-free, expand, and the seed is as stated -/
example : let ss : Fields := [("a.b.c", .int 1), ("a.b.d", .doc [("$gt", .int 2)]), ("a.e", .str "x"),
      ("f", .doc [("$eq", .int 4)]), ("g.h", .doc [("$in", .arr [.int 1])])]
    (noDollarKeys ss && decide ((dkeys ss).Nodup) && decide (prefixFree (equalities ss)) &&
      (equalities ss == [("a.b.c", .int 1), ("a.e", .str "x"), ("f", .int 4)]) &&
      (match expandDots (equalities ss) with
       | .ok ex => ex == [("a", .doc [("b", .doc [("c", .int 1)]), ("e", .str "x")]), ("f", .int 4)]
       | _ => false)) = true := by decide +kernel

/-- the witness of the repaired defect `upsert-op-under-eq`: in `{b: {}, "b.k": {$gt: 1}}` the
    operator condition is dropped BEFORE the expansion, so the equality `b: {}` is the only
    condition left, nothing conflicts, and the seed holds `b: {}` (it used to lose `b`) — in either
    key order, and also over a scalar value -/
example :
    (gives (upsertSeed [("b", .doc []), ("b.k", .doc [("$gt", .int 1)])] (.oid 7))
        (.doc [("b", .doc []), ("_id", .oid 7)]) &&
     gives (upsertSeed [("b.k", .doc [("$gt", .int 1)]), ("b", .doc [])] (.oid 7))
        (.doc [("b", .doc []), ("_id", .oid 7)]) &&
     gives (upsertSeed [("b", .int 3), ("b.k", .doc [("$gt", .int 1)])] (.oid 7))
        (.doc [("b", .int 3), ("_id", .oid 7)]) &&
     (match applyUpdateColl {} 0 Proofs.C13.exColl
          (.doc [("b", .doc []), ("b.k", .doc [("$gt", .int 1)])]) (.doc [("$set", .doc [("n", .int 1)])]) true false with
      | (c', .ok r) => r.upserted.isSome &&
          (c'.docs.map (·.2))[1]? == some (.doc [("b", .doc []), ("_id", .oid 1000), ("n", .int 1)])
      | _ => false)) = true := by decide +kernel

/-- what the code enforces: an EQUALITY below another one is a conflict, in either order and
    whatever the upper value is (it used to be merged into a sub-document given as the value); so
    is an `_id.x` condition next to an `_id` (given or generated) -/
example :
    (decide (prefixFree [("a", .doc [("c", .int 2)]), ("a.b", .int 1)]) == false &&
     raisesWriteError (upsertSeed [("a", .doc [("c", .int 2)]), ("a.b", .int 1)] (.oid 7)) &&
     raisesWriteError (upsertSeed [("a.b", .int 1), ("a", .doc [("c", .int 2)])] (.oid 7)) &&
     raisesWriteError (upsertSeed [("a", .int 5), ("a.b", .int 1)] (.oid 7)) &&
     raisesWriteError (upsertSeed [("a.b", .doc [("$eq", .int 1)]), ("a.b.c", .int 1)] (.oid 7)) &&
     raisesWriteError (upsertSeed [("_id.k", .int 1)] (.oid 7)) &&
     raisesWriteError (upsertSeed [("_id", .doc [("j", .int 1)]), ("_id.k", .int 1)] (.doc [("j", .int 1)])))
    = true := by decide +kernel

end MongoModel.Props.C13
