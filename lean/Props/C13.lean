/-
  Props.C13 — upsert inserts exactly one well-formed document iff nothing matches.
  Statements only; proofs in Proofs/C13*.lean.  Model: the upsert path of `applyUpdateColl`
  (Store.lean), `expandDots` / `discardOps` (Update.lean).  `c1` is the collection the expiry
  pass leaves, `sel` the documents the filter selects.
-/
import Proofs.C13

namespace MongoModel.Props.C13
open MongoModel MongoModel.Spec

/-- When something matches, `upsert=True` changes nothing: the call is the same call without
    upsert (same result, same collection). -/
theorem upsert_like_plain_when_matched (cfg : Cfg) (now : Int) (c c1 : Coll) (fs : Fields) (u : Val)
    (multi : Bool) (q : Val × Val) (rest : List (Val × Val))
    (he : expire now c = .ok c1) (hi : IdInv c) (hg : GoodKeys c)
    (hs : selectDocs (patchDT (.doc fs)) c1.docs = .ok (q :: rest))
    (hok : ∀ e, (applyUpdateColl cfg now c (.doc fs) u false multi).2 ≠ .error e) :
    (applyUpdateColl cfg now c (.doc fs) u true multi).1.docs =
      (applyUpdateColl cfg now c (.doc fs) u false multi).1.docs ∧
    ((applyUpdateColl cfg now c (.doc fs) u true multi).2.toOption.map (fun r => (r.n, r.nModified, r.upserted.isSome)))
      = ((applyUpdateColl cfg now c (.doc fs) u false multi).2.toOption.map (fun r => (r.n, r.nModified, r.upserted.isSome))) :=
  Proofs.C13.upsert_like_plain_when_matched cfg now c c1 fs u multi q rest he hi hg hs hok

/-- The same in full: with a match the two calls are equal — whole state, whole result, errors
    included (no success hypothesis needed). -/
theorem upsert_eq_plain_when_matched (cfg : Cfg) (now : Int) (c c1 : Coll) (fs : Fields) (u : Val)
    (multi : Bool) (q : Val × Val) (rest : List (Val × Val))
    (he : expire now c = .ok c1) (hi : IdInv c) (hg : GoodKeys c)
    (hs : selectDocs (patchDT (.doc fs)) c1.docs = .ok (q :: rest)) :
    applyUpdateColl cfg now c (.doc fs) u true multi =
      applyUpdateColl cfg now c (.doc fs) u false multi :=
  Proofs.C13.upsert_eq_plain_when_matched cfg now c c1 fs u multi q rest he hi hg hs

/-- Without upsert nothing is ever inserted. -/
theorem no_upsert_no_insert (cfg : Cfg) (now : Int) (c c' : Coll) (f u : Val) (multi : Bool)
    (r : UpdateResult) (h : applyUpdateColl cfg now c f u false multi = (c', .ok r)) :
    r.upserted = none ∧ c'.docs.length ≤ c.docs.length :=
  Proofs.C13.no_upsert_no_insert cfg now c c' f u multi r h

/-- **Upsert iff no match**: a successful call reports an upserted `_id` exactly when the filter
    selected nothing; then exactly one document was appended, it is stored under the reported
    `_id`, `n = 1`, nothing counts as modified and nothing existing was touched. -/
theorem upsert_iff_no_match (cfg : Cfg) (now : Int) (c c1 c' : Coll) (fs : Fields) (u : Val)
    (multi : Bool) (sel : List (Val × Val)) (r : UpdateResult)
    (he : expire now c = .ok c1) (hne : c1.docs ≠ []) (hn : c.ttlIndexes = [])
    (hi : IdInv c) (hg : GoodKeys c)
    (hs : selectDocs (patchDT (.doc fs)) c1.docs = .ok sel)
    (h : applyUpdateColl cfg now c (.doc fs) u true multi = (c', .ok r)) :
    (r.upserted.isSome ↔ sel = []) ∧
    (sel = [] → ∃ id d, r.upserted = some id ∧ c'.docs = c1.docs ++ [(id, d)] ∧
        idOf d = some id ∧ r.n = 1 ∧ r.nModified = 0 ∧ r.updatedExisting = false) :=
  Proofs.C13.upsert_iff_no_match cfg now c c1 c' fs u multi sel r he hne hn hi hg hs h

/-- The reported result of an upsert: matched_count 0 and the stored `_id` as upserted_id
    (`updateOut` is what `UpdateResult` shows; a null `_id` cannot be told from "no upsert"). -/
theorem upsert_result (r : UpdateResult) (id : Val) (h : r.upserted = some id) (hn : id ≠ .null) :
    updateOut r = .doc [("matched", .int 0), ("modified", .int r.nModified), ("upserted", id)] :=
  Proofs.C13.upsert_result r id h hn

/-- **The seed**: an equality condition on a plain (undotted) field puts that value into the
    seed, an operator condition contributes nothing, `$eq` contributes its operand. -/
theorem seed_plain_equalities (ss : Fields) (hk : ss.all (fun kv => !kv.1.toList.contains '.' && !kv.1.startsWith "$") = true)
    (hd : (dkeys ss).Nodup) :
    expandDots ss = .ok ss ∧
    (∀ k v, dget k ss = some v → isScalar v = true →
        dget k (match (discardOps (.doc ss)).1 with | .doc fs => fs | _ => []) = some v) ∧
    (∀ k ops, dget k ss = some (.doc ops) → isOps ops = true → dget "$eq" ops = none →
        dget k (match (discardOps (.doc ss)).1 with | .doc fs => fs | _ => []) = none) ∧
    (∀ k x, dget k ss = some (.doc [("$eq", x)]) →
        dget k (match (discardOps (.doc ss)).1 with | .doc fs => fs | _ => []) = some x) :=
  Proofs.C13.seed_plain_equalities ss hk hd

/-- A dotted equality condition is expanded into nested sub-documents. -/
theorem seed_expands_dots (a b : String) (v : Val)
    (ha : a.toList.contains '.' = false) (hb : b.toList.contains '.' = false)
    (hna : a ≠ "") (hnb : b ≠ "") :
    expandDots [(a ++ "." ++ b, v)] = .ok [(a, .doc [(b, v)])] :=
  Proofs.C13.seed_expands_dots a b v ha hb hna hnb

/-- `$setOnInsert` is applied only when inserting. -/
theorem setOnInsert_only_on_insert (spec now body : Val) (d : Val) :
    applyUpdate spec (.doc [("$setOnInsert", body)]) now false d = .ok d ∧
    applyUpdate spec (.doc [("$setOnInsert", body)]) now true d = updateFields .set now body d :=
  Proofs.C13.setOnInsert_only_on_insert spec now body d

/-- non-vacuity: an upsert on a non-empty collection where nothing matches; the seed carries the
    filter's equality, the operator condition is dropped, `$setOnInsert` and `$set` are applied -/
example : (match applyUpdateColl {} 0
      { docs := [(.int 1, .doc [("_id", .int 1), ("a", .int 1)])] }
      (.doc [("a", .int 2), ("b", .doc [("$gt", .int 5)]), ("c.d", .str "x")])
      (.doc [("$set", .doc [("e", .int 9)]), ("$setOnInsert", .doc [("f", .bool true)])]) true false with
    | (c', .ok r) => r.upserted.isSome && c'.docs.length == 2 &&
        (c'.docs.map (·.2))[1]? == some (.doc [("a", .int 2), ("c", .doc [("d", .str "x")]),
          ("_id", .oid 1000), ("e", .int 9), ("f", .bool true)])
    | _ => false) = true := by decide +kernel

/-- non-vacuity: the hypotheses of `upsert_iff_no_match` and `upsert_like_plain_when_matched`
    (expiry, non-empty, no TTL index, `IdInv`, `GoodKeys`) hold on the collection used above -/
example : expire 0 Proofs.C13.exColl = .ok Proofs.C13.exColl ∧ Proofs.C13.exColl.docs ≠ [] ∧
    Proofs.C13.exColl.ttlIndexes = [] ∧ IdInv Proofs.C13.exColl ∧ GoodKeys Proofs.C13.exColl :=
  Proofs.C13.exColl_hyps

/-- non-vacuity: on that collection `{a: 2}` selects nothing and `{a: 1}` selects one document -/
example : (match selectDocs (patchDT (.doc [("a", .int 2)])) Proofs.C13.exColl.docs,
      selectDocs (patchDT (.doc [("a", .int 1)])) Proofs.C13.exColl.docs with
    | .ok s0, .ok s1 => s0.length == 0 && s1.length == 1
    | _, _ => false) = true := by decide +kernel

/-- non-vacuity: an upsert whose filter matches inserts nothing and reports no upserted `_id` -/
example : (match applyUpdateColl {} 0 Proofs.C13.exColl (.doc [("a", .int 1)])
      (.doc [("$set", .doc [("e", .int 9)]), ("$setOnInsert", .doc [("f", .bool true)])]) true false with
    | (c', .ok r) => r.upserted.isNone && r.n == 1 && r.nModified == 1 && c'.docs.length == 1 &&
        (c'.docs.map (·.2))[0]? == some (.doc [("_id", .int 1), ("a", .int 1), ("e", .int 9)])
    | _ => false) = true := by decide +kernel

/-- non-vacuity: a filter with an equality, an operator condition and an `$eq` satisfies the
    hypotheses of `seed_plain_equalities`; its seed is `{a: 2, c: 7}` -/
example : let ss : Fields := [("a", .int 2), ("b", .doc [("$gt", .int 5)]), ("c", .doc [("$eq", .int 7)])]
    (ss.all (fun kv => !kv.1.toList.contains '.' && !kv.1.startsWith "$") &&
      decide ((dkeys ss).Nodup) &&
      (discardOps (.doc ss)).1 == .doc [("a", .int 2), ("c", .int 7)]) = true := by decide +kernel

end MongoModel.Props.C13
