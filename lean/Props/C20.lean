/-
  Props.C20 — unsupported MongoDB features fail loudly instead of being silently ignored.

  Translated model.  `Generated.tables` (the dispatch tables of the code), `Generated.vocab`
  (the OBSERVED disposition of every name of the MongoDB 5.0 vocabulary, of the code's tables,
  near-miss and seeded random names, at each of the 16 syntactic positions) and
  `Generated.options` (method × option × opt-out setting) are rewritten from the working tree of
  /repo on every run (harness/extract_vocab.py, harness/extract_options.py), so the theorems
  below that quantify over those finite tables are re-proved against what the code does now.
  `MongoModel.Vocab.dispatch` is the hand-written dispatch STRUCTURE of each position over those
  tables; `dispatch_agrees` ties it to the observations, `unknown_raises` is the part no table
  can give: it holds for EVERY name and EVERY table.

  Names are codes (`MongoModel.Vocab.enc`: UTF-8 bytes, little-endian base 256); a name starts
  with `$` iff `isOp code`.

  Known findings (the code really fails the property there; witnesses replayed on the real code
  by the check; `knownIgnoredPairs`, `knownIgnoredSitePairs`, `knownSilent` are generated from
  the `known` entries of known_findings.json):
  * `$ne` / `$nin` in a condition whose path reaches no value select every document whatever
    their operand is (`ignored:queryFieldDeadEnd:$ne`, `…:$nin`; `known_ignored_are_ne_nin`
    names them) — a deviation of the matcher that shows here as an operator taking no part;
  * ONE option is still accepted without an opt-out: `Collection.find(collation=…)`, which the
    library stores on the cursor on purpose (`known_silent_is_find_collation` names it);
  * the EXPRESSION parts of the stages (`$project`, `$addFields` / `$set`, `$replaceRoot`,
    `$group` `_id`, `groupBy` of `$bucket`, the argument of every accumulator, `startWith` of
    `$graphLookup`) and its `restrictSearchWithMatch` are looked at only while a document is
    read: on an EMPTY collection an unsupported name there is let through (`lazy-empty:<site>`,
    `knownLazyEmptySites`; `lazy_empty_sites_are_expressions_or_filters`).  The accumulator NAMES
    of `$group` / `$bucket` are checked before any document is read since 6f29a71
    (`accumulator_names_loud_on_empty_input`).
  Repaired in the library and gone from every exclusion list (the witnesses are probed again on
  every run, harness/props/c20.py `judge_fixed`):
  * top-level `$not` accepted and ignored (b0b21d1);
  * the three positions that validated nothing: a condition whose path reaches no value (6c55e75),
    an update that matches no document (1244abc), the clauses next to `$each` in `$addToSet`
    (6c1d985) — `unknown_raises` now holds at EVERY position (`Position.lazy` and the list
    `knownIgnoredPositions` are gone, `unknown_raises_full_fails` is deleted);
  * the options dropped silently by `find` / `find_one` (session: d0b630a; `find_one` collation:
    08d4d98), `aggregate` (b1f1430), `create_index` (a8af69f), `find_one_and_*` (1dab744), bulk
    `add_*` (51ec724), `Database.command` (612f87a), and the opt-outs that did not work
    (`aggregate(session)` b1f1430, `Database` methods 4a36577) — `opt_out_is_honoured` holds over
    the whole table and there is no list of ineffective opt-outs any more.
  When a defect is fixed in /repo: set its entry to "fixed" in known_findings.json, and once no
  `ignored` entry is left delete the `_full`/`_full_fails` pair and rename `_partial`.
-/
import Proofs.C20Tables

namespace MongoModel.Props.C20
open MongoModel.Vocab

/-! ## the observed vocabulary table -/

/-- The full-strength statement: no name of the vocabulary is ignored at any position. -/
def no_vocab_name_ignored_full : Prop :=
  ∀ e ∈ Generated.vocab, e.disp ≠ .ignored

/-- It is false of the code as it stands (`$ne` / `$nin` on a path that reaches no value): the
    regenerated table contains an `ignored` entry. -/
theorem no_vocab_name_ignored_full_fails : ¬ no_vocab_name_ignored_full := by
  intro h
  obtain ⟨e, he, hd⟩ := List.any_eq_true.mp Proofs.C20.some_entry_ignored
  exact h e he (by simpa using hd)

/-- **Table theorem (partial: modulo the listed known findings).**  Every (position, name) of
    the regenerated table that is observed `ignored` is a listed known finding — a NEW ignored
    entry breaks this proof, and the check reports the probing call as the failing input. -/
theorem no_vocab_name_ignored_partial :
    ∀ e ∈ Generated.vocab, e.disp = .ignored →
      (e.pos, e.code) ∈ Generated.knownIgnoredPairs :=
  Proofs.C20.rows_known_entries _ _ Proofs.C20.rows_known

/-- **The listed cases, by name**: `$ne` and `$nin` in a condition whose path reaches no value. -/
theorem known_ignored_are_ne_nin :
    ∀ p ∈ Generated.knownIgnoredPairs, p.1 = .queryFieldDeadEnd ∧ (p.2 = cNe ∨ p.2 = cNin) :=
  Proofs.C20.known_ignored_pairs_are_ne_nin

/-- **No name is ignored, but for `$ne` / `$nin` on a path that reaches no value.**  Over the
    whole regenerated table — every name of the vocabulary, of the code's tables, near-miss and
    random names, at each of the 16 positions, the three formerly lazy ones included. -/
theorem no_vocab_name_ignored_except_ne_nin :
    ∀ e ∈ Generated.vocab, e.disp = .ignored →
      e.pos = .queryFieldDeadEnd ∧ (e.code = cNe ∨ e.code = cNin) :=
  fun e he h => known_ignored_are_ne_nin (e.pos, e.code) (no_vocab_name_ignored_partial e he h)

/-- the hypothesis is inhabited: the table does contain ignored entries to which it applies -/
example : ∃ e ∈ Generated.vocab, e.disp = .ignored := by
  obtain ⟨e, he, hd⟩ := List.any_eq_true.mp Proofs.C20.some_entry_ignored
  exact ⟨e, he, by simpa using hd⟩

/-- **Structure = observation.**  For every entry of the regenerated table the dispatch model
    over the regenerated code tables gives exactly the observed disposition (and the entry's
    code is the encoding of its name). -/
theorem dispatch_agrees :
    ∀ e ∈ Generated.vocab,
      enc e.name = e.code ∧ dispatch Generated.tables e.pos e.code = e.disp :=
  Proofs.C20.rows_ok_entries _ _ Proofs.C20.rows_ok

/-- the code tables of the model are the tables read off the source -/
theorem tables_are_the_source_tables : Generated.tables = Generated.tablesS.map enc :=
  Proofs.C20.tables_encoded

/-! ## the dispatch structure: every name, every table -/

/-- **Unknown names raise — at every position** (the full statement; formerly
    `unknown_raises_partial`, which excluded three lazy positions, next to a proved
    `unknown_raises_full_fails`).  Whatever the tables are, a name that starts with `$` and for
    which the position has no branch at all ends in the default branch, which raises:
    NotImplementedError for stages and accumulators, OperationFailure / WriteError / ValueError
    elsewhere. -/
theorem unknown_raises (T : Tables Code) (pos : Position) (k : Code)
    (hop : isOp k = true) (hk : k ∉ recognised T pos) :
    dispatch T pos k = defaultRaise pos :=
  Proofs.C20.unknown_raises T pos k hop hk

/-- the same in the form of the former `unknown_raises_full` -/
theorem unknown_raises_everywhere :
    ∀ (T : Tables Code) (pos : Position) (k : Code), isOp k = true → k ∉ recognised T pos →
      (dispatch T pos k).raises = true :=
  Proofs.C20.unknown_raises_everywhere

/-- non-vacuity: `$typo` is not recognised as a query operator by the regenerated tables, nor
    at the three positions that used to validate nothing -/
example : isOp 478628377636 = true ∧
    478628377636 ∉ recognised Generated.tables .queryField ∧
    478628377636 ∉ recognised Generated.tables .queryFieldDeadEnd ∧
    478628377636 ∉ recognised Generated.tables .updateNoMatch ∧
    478628377636 ∉ recognised Generated.tables .addToSetModifier := by decide +kernel

/-- At the positions whose default branch does not even look at the `$` (inside `$not`, update
    operator — a document matching or not —, `$push` and `$addToSet` clause, stage, accumulator,
    `$type` alias) ANY unrecognised key raises. -/
theorem unknown_raises_strict (T : Tables Code) (pos : Position) (k : Code)
    (hs : Proofs.C20.Position.strict pos = true) (hk : k ∉ recognised T pos) :
    dispatch T pos k = defaultRaise pos :=
  Proofs.C20.unknown_raises_strict T pos k hs hk

example : Proofs.C20.Position.strict .typeAlias = true ∧
    enc "integer" ∉ recognised Generated.tables .typeAlias := by decide +kernel

/-- **The structure ignores a name only in the listed ways**: a connective of
    `LOGICAL_OPERATOR_MAP` other than `$not` whose value is truthy whatever its operands say, at
    the top level of a filter or of an `$elemMatch` query; `$ne` / `$nin` in a condition whose
    path reaches no value; an update operator that the pre-check `_validate_update_operators`
    lets through and the operator loop has no branch for, when no document matches; an
    accumulator that the pre-check `_validate_accumulators` lets through and `_accumulate_group`
    has no branch for (it has no default branch any more, 6f29a71). -/
theorem ignored_only_structurally (T : Tables Code) (pos : Position) (k : Code)
    (h : dispatch T pos k = .ignored) :
    (k ∈ T.logicalConst ∧ k ∈ T.logicalOps ∧ k ≠ cNot ∧
      (pos = .queryTop ∨ pos = .queryElemMatch)) ∨
    (pos = .queryFieldDeadEnd ∧ (k = cNe ∨ k = cNin)) ∨
    (pos = .updateNoMatch ∧ k ∈ T.updateChecked ∧ k ∉ T.updaters ∧ k ∉ T.updateInline) ∨
    (pos = .accumulator ∧ k ∈ T.groupChecked ∧ k ∉ T.groupingMap ∧ k ∉ T.groupInline) :=
  Proofs.C20.ignored_only_structurally T pos k h

/-- the first alternative is inhabited by tables with a constant connective other than `$not`
    (today's `LOGICAL_OPERATOR_MAP` has none: its only constant entry, `$not`, is no longer taken
    at the top level — the repaired finding `ignored:queryTop:$not`) -/
example : dispatch { Tables.empty with logicalOps := [cAll], logicalConst := [cAll] } .queryTop cAll
    = .ignored := by decide +kernel

/-- the second by any table that implements `$ne`, the third by a pre-check that lets through
    a name the operator loop does not know -/
example : dispatch { Tables.empty with operatorMap := [cNe] } .queryFieldDeadEnd cNe = .ignored ∧
    dispatch { Tables.empty with updateChecked := [7] } .updateNoMatch 7 = .ignored ∧
    dispatch { Tables.empty with groupChecked := [7] } .accumulator 7 = .ignored := by
  decide +kernel

/-- **The pre-check of the accumulators lets through only what `_accumulate_group` has a branch
    for** (regenerated tables: the names `_validate_accumulators` accepts against
    `_GROUPING_OPERATOR_MAP` and the `elif operator == '$op'` branches).  `_accumulate_group` has
    no default branch any more (6f29a71): a name in the first and not in the second would give
    no output field, silently. -/
theorem accumulator_precheck_within_loop :
    ∀ k ∈ Generated.tables.groupChecked,
      k ∈ Generated.tables.groupingMap ∨ k ∈ Generated.tables.groupInline := by
  intro k hk
  have := List.all_eq_true.mp Proofs.C20.accumulator_precheck_within_loop_tbl k hk
  simpa using this

/-- **The pre-check of an update lets through only what the operator loop has a branch for**
    (regenerated tables: `_updaters` ∪ `_OTHER_UPDATE_OPERATORS` against `_updaters` and the
    `elif k == '$op'` branches of `_apply_update`). -/
theorem update_precheck_within_loop :
    ∀ k ∈ Generated.tables.updateChecked,
      k ∈ Generated.tables.updaters ∨ k ∈ Generated.tables.updateInline := by
  intro k hk
  have := List.all_eq_true.mp Proofs.C20.update_precheck_within_loop_tbl k hk
  simpa using this

/-- **Over the regenerated tables the structure ignores nothing but `$ne` / `$nin` on a path
    that reaches no value** — for EVERY name (probed or not) and every position. -/
theorem generated_dispatch_ignores_only_ne_nin (pos : Position) (k : Code)
    (h : dispatch Generated.tables pos k = .ignored) :
    pos = .queryFieldDeadEnd ∧ (k = cNe ∨ k = cNin) :=
  Proofs.C20.generated_dispatch_ignores_only_ne_nin pos k h

example : dispatch Generated.tables .queryFieldDeadEnd cNe = .ignored := by decide +kernel

/-- `$not` at the top level of a filter raises, and is evaluated inside `$elemMatch`, whatever
    the tables say about `LOGICAL_OPERATOR_MAP` -/
example : dispatch { Tables.empty with logicalOps := [cNot], logicalConst := [cNot] } .queryTop cNot
    = .raisesOther ∧
    dispatch { Tables.empty with logicalOps := [cNot], logicalConst := [cNot] } .queryElemMatch cNot
    = .implemented := by decide +kernel

/-- Stages the code declares without a handler, and everything else that has no handler, raise
    NotImplementedError. -/
theorem stage_without_handler_raises (T : Tables Code) (k : Code) (h : k ∉ T.stagesImpl) :
    dispatch T .stage k = .raisesNotImplemented :=
  Proofs.C20.stage_none_raises T k h

/-- `$type` aliases mapped to `None` raise NotImplementedError. -/
theorem type_alias_none_raises (T : Tables Code) (k : Code) (h : k ∉ T.typeImpl)
    (h' : k ∈ T.typeNone) : dispatch T .typeAlias k = .raisesNotImplemented :=
  Proofs.C20.type_none_raises T k h h'

example : (7 : Code) ∉ ({ Tables.empty with typeNone := [7] }).typeImpl ∧
    (7 : Code) ∈ ({ Tables.empty with typeNone := [7] }).typeNone := by decide

/-- The four expression positions go through one dispatcher. -/
theorem expr_positions_agree (T : Tables Code) (k : Code) :
    dispatch T .exprAddFields k = dispatch T .exprProject k ∧
    dispatch T .exprMatchExpr k = dispatch T .exprProject k ∧
    dispatch T .exprGroupId k = dispatch T .exprProject k :=
  Proofs.C20.expr_positions_agree T k

/-! ## the consumers of the shared dispatchers (every part of a stage that carries names) -/

/-- **Every consumer follows its dispatcher.**  `Generated.sites` are the parts of the stage
    specifications that reach a dispatch helper (`_accumulate_group`, `_parse_expression`,
    `process_pipeline`, `filter_applies`, and whatever else the source has that consults a table
    of `$`-names), derived on every run from the syntax tree of `mongomock/aggregate.py` and a
    traced run of every stage.  At each of them every probed name gets the disposition the
    dispatcher of the helper gives it — or the site raises (it may be stricter: `newRoot` must
    evaluate to a document).  A consumer that drops a name its dispatcher refuses (`output` of
    `$bucket` with an accumulator that is not implemented) breaks this proof. -/
theorem sites_follow_dispatch :
    ∀ e ∈ Generated.siteVocab,
      dispatch Generated.tables e.pos e.code = e.disp ∨ e.disp.raises = true :=
  Proofs.C20.siteRows_ok_entries _ _ Proofs.C20.site_rows_ok

/-- **No name is ignored at a consumer site** (modulo listed known findings — none today). -/
theorem no_site_name_ignored :
    ∀ e ∈ Generated.siteVocab, e.disp = .ignored →
      (e.site, e.code) ∈ Generated.knownIgnoredSitePairs :=
  Proofs.C20.siteRows_known_entries _ _ Proofs.C20.site_rows_known

/-! ### empty input: a refusal must not depend on there being a document to read -/

/-- The full-strength statement: a name that a site refuses on a populated collection (every
    probing call raises) is refused by the same calls on an empty collection. -/
def sites_loud_on_empty_input_full : Prop :=
  ∀ e ∈ Generated.siteVocab, e.disp.raises = true → e.onEmpty = .raises

/-- False as it stands (known findings `lazy-empty:<site>`): the expression parts of the stages
    are parsed once per document, so never on an empty collection. -/
theorem sites_loud_on_empty_input_full_fails : ¬ sites_loud_on_empty_input_full := by
  intro h
  obtain ⟨e, he, hd⟩ := List.any_eq_true.mp Proofs.C20.some_site_silent_on_empty
  simp only [Bool.and_eq_true, decide_eq_true_eq] at hd
  have := h e he hd.1
  rw [hd.2] at this
  exact absurd this (by decide)

/-- **Loud on empty input (partial: outside the listed sites).**  Every refusal observed at a
    site was tried again on an empty collection, and it is repeated there — except at the sites
    listed as `lazy-empty:<site>`. -/
theorem sites_loud_on_empty_input_partial :
    ∀ e ∈ Generated.siteVocab, e.disp.raises = true → e.site ∉ Generated.knownLazyEmptySites →
      e.onEmpty = .raises := by
  intro e he hr hn
  obtain ⟨h1, h2⟩ := Proofs.C20.siteRows_empty_entries _ _ Proofs.C20.site_rows_empty e he
  cases ho : e.onEmpty with
  | notProbed => exact absurd ho (h1 hr)
  | raises => rfl
  | silent => exact absurd (h2 ho) hn

/-- **The listed sites, by kind**: each is a part of a stage that is handed to the expression
    parser or to the matcher (`restrictSearchWithMatch`) — no accumulator-name site, no
    sub-pipeline of `$facet`. -/
theorem lazy_empty_sites_are_expressions_or_filters :
    ∀ i ∈ Generated.knownLazyEmptySites,
      Proofs.C20.siteFamily i = some .expr ∨ Proofs.C20.siteFamily i = some .query := by
  intro i hi
  have := List.all_eq_true.mp Proofs.C20.lazy_empty_families_tbl i hi
  simpa using this

/-- **Accumulator names and sub-pipeline stages are refused on empty input too** (6f29a71 for
    the accumulators: `_validate_accumulators` runs before `$group` / `$bucket` read any
    document): at every site whose helper dispatches accumulators or stages, a name refused on
    a populated collection is refused on an empty one. -/
theorem accumulator_names_loud_on_empty_input :
    ∀ e ∈ Generated.siteVocab,
      (Proofs.C20.siteFamily e.site = some .accumulator ∨
        Proofs.C20.siteFamily e.site = some .stage) →
      e.disp.raises = true → e.onEmpty = .raises := by
  intro e he hf hr
  apply sites_loud_on_empty_input_partial e he hr
  intro hmem
  rcases lazy_empty_sites_are_expressions_or_filters e.site hmem with h | h <;>
    rcases hf with hf | hf <;> rw [hf] at h <;> cases h

/-- non-vacuity: the table has refusals at accumulator-name sites, repeated on empty input -/
example : ∃ e ∈ Generated.siteVocab, Proofs.C20.siteFamily e.site = some .accumulator ∧
    e.disp.raises = true ∧ e.onEmpty = .raises := by
  obtain ⟨e, he, hd⟩ := List.any_eq_true.mp Proofs.C20.some_accumulator_refused_on_empty
  simp only [Bool.and_eq_true, beq_iff_eq, decide_eq_true_eq] at hd
  exact ⟨e, he, hd.1.1, hd.1.2, hd.2⟩

/-- **Unknown names raise at every consumer site**: a probed `$name` for which the site's
    dispatcher has no branch at all makes the call raise there. -/
theorem site_unknown_raises :
    ∀ e ∈ Generated.siteVocab, isOp e.code = true →
      e.code ∉ recognised Generated.tables e.pos → e.disp.raises = true :=
  fun e he h2 h3 =>
    Proofs.C20.site_unknown_raises Generated.tables e (sites_follow_dispatch e he) h2 h3

/-- **The list of sites is complete for the source**: every call of a dispatch helper in a
    module-level function of `mongomock/aggregate.py` is reached by a probed site. -/
theorem every_call_site_probed :
    callSitesCovered Generated.callSites Generated.sites = true :=
  Proofs.C20.call_sites_covered

/-- non-vacuity: every site was probed with names that raise there (so a site of the list is
    never an empty promise), and `$typo` is an unrecognised accumulator -/
example : (List.range Generated.sites.length).all (fun i =>
    Generated.siteVocab.any (fun e => e.site == i && e.disp.raises)) = true :=
  Proofs.C20.every_site_has_a_refusal

example : isOp 478628377636 = true ∧
    478628377636 ∉ recognised Generated.tables .accumulator := by decide +kernel

/-! ## the option matrix -/

/-- The full-strength statement: without opt-out no relevant option is accepted silently. -/
def options_loud_full : Prop :=
  ∀ e ∈ Generated.options, e.optedOut = false → e.relevant = true → e.disp ≠ .accepted

/-- False as it stands (known finding `silent-option:Collection.find:collation`). -/
theorem options_loud_full_fails : ¬ options_loud_full := by
  intro h
  obtain ⟨e, he, hd⟩ := List.any_eq_true.mp Proofs.C20.some_option_silent
  simp only [Bool.and_eq_true, Bool.not_eq_true', decide_eq_true_eq] at hd
  exact h e he hd.1.1 hd.1.2 hd.2

/-- **Options are loud (partial: modulo the listed known findings).**  On every probed method,
    a relevant option (session, collation, array_filters, let; hint on writes) that the caller
    has not opted out of is accepted silently only in the listed cases. -/
theorem options_loud_partial :
    ∀ e ∈ Generated.options, e.optedOut = false → e.relevant = true → e.disp = .accepted →
      e.key ∈ Generated.knownSilent :=
  fun e he h1 h2 h3 => Proofs.C20.options_loud e he h1 h2 h3

example : ∃ e ∈ Generated.options, e.optedOut = false ∧ e.relevant = true ∧
    e.disp = .accepted := by
  obtain ⟨e, he, hd⟩ := List.any_eq_true.mp Proofs.C20.some_option_silent
  simp only [Bool.and_eq_true, Bool.not_eq_true', decide_eq_true_eq] at hd
  exact ⟨e, he, hd.1.1, hd.1.2, hd.2⟩

/-- **The listed cases, by name.**  After the repairs of the library the list of options that
    are dropped silently has one member: the `collation` argument of `Collection.find`. -/
theorem known_silent_is_find_collation :
    ∀ k ∈ Generated.knownSilent,
      Generated.methods[k.1]? = some ("Collection", "find") ∧ k.2 = .collation :=
  Proofs.C20.known_silent_is_find_collation

/-- **Options are loud, but for `find(collation=…)`.**  Over the whole regenerated table: a
    relevant option the caller has not opted out of makes the call raise, on every method other
    than `Collection.find` and for every option other than `collation`. -/
theorem options_loud_except_find_collation :
    ∀ e ∈ Generated.options, e.optedOut = false → e.relevant = true → e.disp = .accepted →
      Generated.methods[e.mid]? = some ("Collection", "find") ∧ e.option = .collation :=
  fun e he h1 h2 h3 => known_silent_is_find_collation e.key (options_loud_partial e he h1 h2 h3)

/-- **Options are loud in company (modulo the listed known finding).**  For every method and
    every ordered pair (A, B) of distinct options it accepts, called with BOTH present — A opted
    out with `ignore_feature` or not, B not opted out: a relevant B is accepted silently only
    where B alone already is (`find(collation=…)`).  An opted-out option does not shield the
    options that accompany it. -/
theorem options_loud_pairs :
    ∀ e ∈ Generated.optionPairs, e.relevant = true → e.disp = .accepted →
      e.key ∈ Generated.knownSilent :=
  fun e he h2 h3 => Proofs.C20.options_pairs e he h2 h3

/-- the table does contain pairs with A opted out in which B is (rightly) rejected -/
example : ∃ e ∈ Generated.optionPairs, e.relevant = true ∧ e.aOptedOut = true ∧
    e.disp = .raisesNotImplemented := by
  obtain ⟨e, he, hd⟩ := List.any_eq_true.mp Proofs.C20.some_pair_rejected
  simp only [Bool.and_eq_true, decide_eq_true_eq] at hd
  exact ⟨e, he, hd.1.1, hd.1.2, hd.2⟩

/-- **Every opt-out is honoured** (full statement, the whole table, no exception): for session,
    collation, array_filters, let, on every method that knows the option at all (does not
    reject it as an unknown argument, `raisesOther`), the call goes through once the caller has
    opted out with `ignore_feature`.  (Formerly false: `aggregate(session=…)` and the `Database`
    methods raised after `ignore_feature`; repaired by b1f1430 and 4a36577.) -/
theorem opt_out_is_honoured :
    ∀ e ∈ Generated.options, e.option.ignorable = true → e.optedOut = true →
      e.disp ≠ .raisesOther → e.disp = .accepted :=
  fun e he h1 h2 h3 => Proofs.C20.opt_out_honoured e he h1 h2 h3

/-- the table does contain opted-out options that are let through -/
example : ∃ e ∈ Generated.options, e.option.ignorable = true ∧ e.optedOut = true ∧
    e.disp = .accepted := by
  obtain ⟨e, he, hd⟩ := List.any_eq_true.mp Proofs.C20.some_optout_effective
  simp only [Bool.and_eq_true, decide_eq_true_eq] at hd
  exact ⟨e, he, hd.1.1, hd.1.2, hd.2⟩

/-- The full-strength statement: an option a method recognises is ignored iff opted out. -/
def options_ignored_iff_opted_out_full : Prop :=
  ∀ e ∈ Generated.options, e.option.ignorable = true → e.disp ≠ .raisesOther →
    (e.disp = .accepted ↔ e.optedOut = true)

/-- False as it stands, in ONE direction only (the other one is `opt_out_is_honoured`): the known
    finding `silent-option:Collection.find:collation` is accepted without an opt-out. -/
theorem options_ignored_iff_opted_out_full_fails : ¬ options_ignored_iff_opted_out_full := by
  intro h
  obtain ⟨e, he, hd⟩ := List.any_eq_true.mp Proofs.C20.some_ignorable_silent
  simp only [Bool.and_eq_true, Bool.not_eq_true', decide_eq_true_eq] at hd
  have := (h e he hd.1.1 (by rw [hd.2]; decide)).mp hd.2
  rw [hd.1.2] at this
  exact absurd this (by decide)

/-- **Ignored iff opted out (partial: modulo `find(collation=…)`).**  For session, collation,
    array_filters, let: wherever the method does not reject the option as unknown
    (`raisesOther`), the option is accepted exactly when the caller has opted out with
    `ignore_feature`.  The only exclusion list left is `knownSilent`, i.e.
    `Collection.find(collation)`; the list of ineffective opt-outs is gone. -/
theorem options_ignored_iff_opted_out_partial :
    ∀ e ∈ Generated.options, e.option.ignorable = true → e.disp ≠ .raisesOther →
      e.key ∉ Generated.knownSilent →
      (e.disp = .accepted ↔ e.optedOut = true) :=
  fun e he h1 h2 h3 => Proofs.C20.options_iff e he h1 h2 h3

/-- … and raises NotImplementedError otherwise: **an ignorable option the caller has not opted
    out of raises NotImplementedError** on every method that knows it, `find(collation=…)`
    excepted. -/
theorem options_not_implemented_unless_opted_out :
    ∀ e ∈ Generated.options, e.option.ignorable = true → e.disp ≠ .raisesOther →
      e.key ∉ Generated.knownSilent → e.optedOut = false → e.disp = .raisesNotImplemented := by
  intro e he h1 h2 h3 h4
  have hiff := options_ignored_iff_opted_out_partial e he h1 h2 h3
  cases hd : e.disp with
  | raisesNotImplemented => rfl
  | raisesOther => exact absurd hd h2
  | accepted => rw [h4] at hiff; exact absurd (hiff.mp hd) (by decide)

/-- the table does contain ignorable options that raise NotImplementedError for want of an
    opt-out (the pair probes above: even next to an opted-out one) -/
example : ∃ e ∈ Generated.options, e.option.ignorable = true ∧ e.optedOut = false ∧
    e.key ∉ Generated.knownSilent ∧ e.disp = .raisesNotImplemented := by
  obtain ⟨e, he, hd⟩ := List.any_eq_true.mp Proofs.C20.some_ignorable_loud
  simp only [Bool.and_eq_true, Bool.not_eq_true', decide_eq_true_eq, List.contains_eq_mem,
    decide_eq_false_iff_not] at hd
  exact ⟨e, he, hd.1.1.1, hd.1.1.2, hd.1.2, hd.2⟩

/-! ## the opt-out switches (`not_implemented.py`), every state and feature name -/

/-- After `ignore_feature(f)` the guard of `f` lets the option through. -/
theorem ignore_then_passes (fs fs' : Features) (f : String) (h : ignoreFeature fs f = some fs') :
    raiseForFeature fs' f = .passes :=
  Proofs.C20.ignore_then_passes fs fs' f h

/-- After `warn_on_feature(f)` it raises NotImplementedError. -/
theorem warn_then_raises (fs fs' : Features) (f : String) (h : warnOnFeature fs f = some fs') :
    raiseForFeature fs' f = .raisesNotImplemented :=
  Proofs.C20.warn_then_raises fs fs' f h

/-- Opting out of one feature changes the guard of no other feature ("and only then"). -/
theorem ignore_frame (fs fs' : Features) (f g : String) (hne : g ≠ f)
    (h : ignoreFeature fs f = some fs') : raiseForFeature fs' g = raiseForFeature fs g :=
  Proofs.C20.ignore_frame fs fs' f g hne h

example : ignoreFeature [("session", false), ("collation", false)] "session"
    = some [("session", true), ("collation", false)] := by decide

/-- A guarded option (`if value: raise_for_feature(feature, …)`) that is given is let through
    iff the feature is opted out. -/
theorem guard_passes_iff (fs : Features) (f : String) (b : Bool) (h : fs.lookup f = some b) :
    optionGuard fs f true = .passes ↔ b = true :=
  Proofs.C20.guard_passes_iff fs f b h

/-- **Independent guards** (the shape of `_apply_update`, `_delete`, `count_documents`): in a
    sequence of independent `if value: raise_for_feature(..)` guards over known features, a given
    option whose feature is not opted out makes the call raise, wherever it stands in the
    sequence and whatever the other options and their opt-outs are. -/
theorem guards_independent (fs : Features) (gs : List (String × Bool)) (f : String)
    (hknown : ∀ g ∈ gs, (fs.lookup g.1).isSome = true)
    (hmem : (f, true) ∈ gs) (hf : fs.lookup f = some false) :
    guardSeq fs gs = .raisesNotImplemented :=
  Proofs.C20.guardSeq_loud fs gs f hknown hmem hf

/-- non-vacuity: session opted out and given first, collation given and not opted out -/
example : guardSeq [("session", true), ("collation", false)]
    [("session", true), ("collation", true)] = .raisesNotImplemented := by decide

end MongoModel.Props.C20
