/-
  Props.C10 — every filter-taking operation uses one match relation; counts equal the change.
  Statements only; proofs in Proofs/C10*.lean.  Model: `findColl`, `countColl`, `deleteColl`,
  `applyUpdateColl`, `distinctColl` of MongoModel/Store.lean.  All of them are compared with
  `Spec.selectDocs (patchDT f)` on the collection the expiry pass leaves.
-/
import Proofs.C10

namespace MongoModel.Props.C10
open MongoModel MongoModel.Spec

/-- `find` yields exactly the selected documents, in natural order. -/
theorem find_is_selection (now : Int) (c c1 : Coll) (fs : Fields) (he : expire now c = .ok c1)
    (hne : c1.docs ≠ []) :
    (findColl now c (.doc fs)).2 = (selectDocs (patchDT (.doc fs)) c1.docs).map (·.map (·.2)) :=
  Proofs.C10.find_is_selection now c c1 fs he hne

/-- `count_documents` is the size of what `find` yields (and raises exactly when `find` does). -/
theorem count_eq_find (now : Int) (c : Coll) (fs : Fields) :
    (countColl now c (.doc fs) 0 none).2 = (findColl now c (.doc fs)).2.map (fun ms => (ms.length : Int)) :=
  Proofs.C10.count_eq_find now c fs

/-- skip / limit arithmetic of `count_documents`. -/
theorem count_skip_limit (now : Int) (c : Coll) (fs : Fields) (skip lim : Int) (hl : 0 < lim) :
    (countColl now c (.doc fs) skip (some (.int lim))).2 =
      (findColl now c (.doc fs)).2.map (fun ms => min (max ((ms.length : Int) - skip) 0) lim) :=
  Proofs.C10.count_skip_limit now c fs skip lim hl

/-- `delete_many` removes exactly the selected documents and reports their number, which is the
    drop in collection size. -/
theorem delete_many_eq_find (now : Int) (c c1 : Coll) (fs : Fields) (sel : List (Val × Val))
    (he : expire now c = .ok c1) (hne : c1.docs ≠ []) (hi : IdInv c) (hg : GoodKeys c)
    (hs : selectDocs (patchDT (.doc fs)) c1.docs = .ok sel) :
    (deleteColl now c (.doc fs) true).2 = .ok sel.length ∧
    (deleteColl now c (.doc fs) true).1.docs = c1.docs.filter (fun p => !sel.any (fun q => pyEq q.1 p.1)) ∧
    (deleteColl now c (.doc fs) true).1.docs.length + sel.length = c1.docs.length :=
  Proofs.C10.delete_many_eq_find now c c1 fs sel he hne hi hg hs

/-- `delete_one` removes the first selected document, if any. -/
theorem delete_one_eq_find (now : Int) (c c1 : Coll) (fs : Fields) (sel : List (Val × Val))
    (he : expire now c = .ok c1) (hne : c1.docs ≠ []) (hi : IdInv c) (hg : GoodKeys c)
    (hs : selectDocs (patchDT (.doc fs)) c1.docs = .ok sel) :
    (deleteColl now c (.doc fs) false).2 = .ok (min sel.length 1) ∧
    (deleteColl now c (.doc fs) false).1.docs.length + min sel.length 1 = c1.docs.length :=
  Proofs.C10.delete_one_eq_find now c c1 fs sel he hne hi hg hs

/-- `update_many` matches exactly the selected documents: when it succeeds without upserting,
    `matched_count` is their number; `modified_count` never exceeds it. -/
theorem update_many_matched_eq_find (cfg : Cfg) (now : Int) (c c1 c' : Coll) (fs : Fields) (u : Val)
    (sel : List (Val × Val)) (res : UpdateResult)
    (he : expire now c = .ok c1) (hne : c1.docs ≠ []) (hi : IdInv c) (hg : GoodKeys c)
    (hs : selectDocs (patchDT (.doc fs)) c1.docs = .ok sel)
    (h : applyUpdateColl cfg now c (.doc fs) u false true = (c', .ok res)) :
    res.n = sel.length ∧ res.nModified ≤ res.n ∧ res.upserted = none :=
  Proofs.C10.update_many_matched_eq_find cfg now c c1 c' fs u sel res he hne hi hg hs h

/-- `update_one` has a target iff something is selected (on collections whose store keys are
    pairwise distinct and well behaved — every reachable one, see C05; without that hypothesis the
    statement is refuted by `update_one_target_iff_counterexample`: two entries under one key). -/
theorem update_one_target_iff_partial (cfg : Cfg) (now : Int) (c c1 c' : Coll) (fs : Fields) (u : Val)
    (sel : List (Val × Val)) (res : UpdateResult)
    (he : expire now c = .ok c1) (hne : c1.docs ≠ []) (hi : IdInv c) (hg : GoodKeys c)
    (hs : selectDocs (patchDT (.doc fs)) c1.docs = .ok sel)
    (h : applyUpdateColl cfg now c (.doc fs) u false false = (c', .ok res)) :
    res.n = min sel.length 1 :=
  Proofs.C10.update_one_target_iff_alt' cfg now c c1 c' fs u sel res he hne hi hg hs h

/-- non-vacuity: a filter selecting a proper non-empty subset of a three-document collection -/
example : (match selectDocs (.doc [("a", .doc [("$gt", .int 1)])])
    [(.int 1, .doc [("_id", .int 1), ("a", .int 1)]), (.int 2, .doc [("_id", .int 2), ("a", .int 2)]),
     (.int 3, .doc [("_id", .int 3), ("a", .arr [.int 0, .int 5])])] with
    | .ok sel => sel.map (·.1) == [.int 2, .int 3]
    | .error _ => false) = true := by decide +kernel

end MongoModel.Props.C10
