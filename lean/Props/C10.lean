/-
  Props.C10 — every filter-taking operation uses one match relation; counts equal the change.
  Statements only; proofs in Proofs/C10*.lean.  Model: `findColl`, `countColl`, `deleteColl`,
  `applyUpdateColl`, `distinctColl` of MongoModel/Store.lean.  All of them are compared with
  `Spec.selectDocs (patchDT f)` on the collection the expiry pass leaves.
-/
import Proofs.C10
import Proofs.C10ExtDistinct
import Proofs.C10ExtSingle
import Proofs.C10ExtMatch
import Proofs.C10ExtModified
import Proofs.C10ExtCex
import Proofs.C10ExtOne
import Proofs.C10ExtStep
import Proofs.C10ExtInsert
import Proofs.C10ExtCount
import Proofs.C10ExtBulk
import Proofs.C10ExtUpsert
import Proofs.C10ExtLazy
import Proofs.C10ExtDemo

namespace MongoModel.Props.C10
open MongoModel MongoModel.Spec

/-- `find` yields exactly the selected documents, in natural order. -/
theorem find_is_selection (now : Int) (c c1 : Coll) (fs : Fields) (he : expire now c = .ok c1)
    (hne : c1.docs ≠ []) :
    (findColl now c (.doc fs)).2 = (selectDocs (patchDT (.doc fs)) c1.docs).map (·.map (·.2)) :=
  Proofs.C10.find_is_selection now c c1 fs he hne

/-- `count_documents` is the size of what `find` yields (and raises exactly when `find` does). -/
theorem count_eq_find (now : Int) (c : Coll) (fs : Fields) :
    (countColl now c (.doc fs) 0 none).2 = (findColl now c (.doc fs)).2.map (fun ms => (ms.length : Int)) :=
  Proofs.C10.count_eq_find now c fs

/-- skip / limit arithmetic of `count_documents`. -/
theorem count_skip_limit (now : Int) (c : Coll) (fs : Fields) (skip lim : Int) (hl : 0 < lim) :
    (countColl now c (.doc fs) skip (some (.int lim))).2 =
      (findColl now c (.doc fs)).2.map (fun ms => min (max ((ms.length : Int) - skip) 0) lim) :=
  Proofs.C10.count_skip_limit now c fs skip lim hl

/-- `delete_many` removes exactly the selected documents and reports their number, which is the
    drop in collection size. -/
theorem delete_many_eq_find (now : Int) (c c1 : Coll) (fs : Fields) (sel : List (Val × Val))
    (he : expire now c = .ok c1) (hne : c1.docs ≠ []) (hi : IdInv c) (hg : GoodKeys c)
    (hs : selectDocs (patchDT (.doc fs)) c1.docs = .ok sel) :
    (deleteColl now c (.doc fs) true).2 = .ok sel.length ∧
    (deleteColl now c (.doc fs) true).1.docs = c1.docs.filter (fun p => !sel.any (fun q => pyEq q.1 p.1)) ∧
    (deleteColl now c (.doc fs) true).1.docs.length + sel.length = c1.docs.length :=
  Proofs.C10.delete_many_eq_find now c c1 fs sel he hne hi hg hs

/-- `delete_one` removes the first selected document, if any. -/
theorem delete_one_eq_find (now : Int) (c c1 : Coll) (fs : Fields) (sel : List (Val × Val))
    (he : expire now c = .ok c1) (hne : c1.docs ≠ []) (hi : IdInv c) (hg : GoodKeys c)
    (hs : selectDocs (patchDT (.doc fs)) c1.docs = .ok sel) :
    (deleteColl now c (.doc fs) false).2 = .ok (min sel.length 1) ∧
    (deleteColl now c (.doc fs) false).1.docs.length + min sel.length 1 = c1.docs.length :=
  Proofs.C10.delete_one_eq_find now c c1 fs sel he hne hi hg hs

/-- `update_many` matches exactly the selected documents: when it succeeds without upserting,
    `matched_count` is their number; `modified_count` never exceeds it. -/
theorem update_many_matched_eq_find (cfg : Cfg) (now : Int) (c c1 c' : Coll) (fs : Fields) (u : Val)
    (sel : List (Val × Val)) (res : UpdateResult)
    (he : expire now c = .ok c1) (hne : c1.docs ≠ []) (hi : IdInv c) (hg : GoodKeys c)
    (hs : selectDocs (patchDT (.doc fs)) c1.docs = .ok sel)
    (h : applyUpdateColl cfg now c (.doc fs) u false true = (c', .ok res)) :
    res.n = sel.length ∧ res.nModified ≤ res.n ∧ res.upserted = none :=
  Proofs.C10.update_many_matched_eq_find cfg now c c1 c' fs u sel res he hne hi hg hs h

/-- `update_one` has a target iff something is selected (on collections whose store keys are
    pairwise distinct and well behaved — every reachable one, see C05; without that hypothesis the
    statement is refuted by `update_one_target_iff_counterexample`: two entries under one key). -/
theorem update_one_target_iff_partial (cfg : Cfg) (now : Int) (c c1 c' : Coll) (fs : Fields) (u : Val)
    (sel : List (Val × Val)) (res : UpdateResult)
    (he : expire now c = .ok c1) (hne : c1.docs ≠ []) (hi : IdInv c) (hg : GoodKeys c)
    (hs : selectDocs (patchDT (.doc fs)) c1.docs = .ok sel)
    (h : applyUpdateColl cfg now c (.doc fs) u false false = (c', .ok res)) :
    res.n = min sel.length 1 :=
  Proofs.C10.update_one_target_iff_alt' cfg now c c1 c' fs u sel res he hne hi hg hs h

/-- non-vacuity: a filter selecting a proper non-empty subset of a three-document collection -/
example : (match selectDocs (.doc [("a", .doc [("$gt", .int 1)])])
    [(.int 1, .doc [("_id", .int 1), ("a", .int 1)]), (.int 2, .doc [("_id", .int 2), ("a", .int 2)]),
     (.int 3, .doc [("_id", .int 3), ("a", .arr [.int 0, .int 5])])] with
    | .ok sel => sel.map (·.1) == [.int 2, .int 3]
    | .error _ => false) = true := by decide +kernel

/-! ## Extension: the remaining entry points and the remaining counts

`distinct`, `find_one`, `find_one_and_*`, the aggregation `$match` stage and `bulk_write` are
related to the SAME selection `Spec.selectDocs (patchDT f)`; `modified_count`, `deleted_count`,
`inserted_id(s)` and the bulk counters are related to what changed.  Vocabulary:
Spec/CountsExt.lean. -/

/-- the collection of the non-vacuity examples below: four documents, the filter `{a: 2}` selects
    the last three -/
def demo : Coll :=
  { docs := [(.int 1, .doc [("_id", .int 1), ("a", .int 1), ("t", .arr [.int 1, .int 2])]),
             (.int 2, .doc [("_id", .int 2), ("a", .int 2), ("t", .arr [.dbl 1 0, .int 3])]),
             (.int 3, .doc [("_id", .int 3), ("a", .int 2), ("t", .int 2)]),
             (.int 4, .doc [("_id", .int 4), ("a", .int 2)])] }

/-- `demo` satisfies the invariant hypotheses used below (C05: every reachable collection does) -/
example : IdInv demo ∧ GoodKeys demo := Proofs.C10Ext.inv_check demo (by decide +kernel)

example : demo.ttlIndexes = [] ∧ demo.docs ≠ [] ∧ expire 0 demo = .ok demo ∧
    (∀ p ∈ demo.docs, p.1.isArr = false) := by
  refine ⟨rfl, by simp [demo], rfl, ?_⟩
  intro p hp
  simp only [demo, List.mem_cons, List.not_mem_nil, or_false] at hp
  rcases hp with rfl | rfl | rfl | rfl <;> rfl

/-! ### 1. distinct -/

/-- **distinct_eq_find.** `distinct(key, filter)` reads its values from exactly the documents the
    shared selection yields: every returned value is one of the items (`Spec.distinctItems`: the
    values the path reaches, an array standing for its elements, a missing field for nothing) of a
    SELECTED document; every item of every selected document is returned, itself or a value
    Python-`==` to it (`pyEq`: `1 == 1.0 == True` — the code collects into a `set`); and no two
    returned values are `==`. -/
theorem distinct_eq_find (now : Int) (c c1 : Coll) (key : String) (fs : Fields)
    (sel : List (Val × Val)) (vs : List Val) (he : expire now c = .ok c1) (hne : c1.docs ≠ [])
    (hs : selectDocs (patchDT (.doc fs)) c1.docs = .ok sel)
    (h : (distinctColl now c key (.doc fs)).2 = .ok vs) :
    (∀ x ∈ vs, ∃ p ∈ sel, ∃ its, distinctItems key p.2 = .ok its ∧ x ∈ its) ∧
    (∀ p ∈ sel, ∃ its, distinctItems key p.2 = .ok its ∧
      ∀ x ∈ its, x ∈ vs ∨ pyIn x vs = true) ∧
    vs.Pairwise (fun a b => pyEq a b = false) :=
  Proofs.C10Ext.distinct_eq_find now c c1 key fs sel vs he hne hs h

/-- … exactly: the answer is the de-duplication (first occurrence kept, up to `pyEq`) of the
    items of the selected documents, in natural order, all of them hashable. -/
theorem distinct_exact (now : Int) (c c1 : Coll) (key : String) (fs : Fields)
    (sel : List (Val × Val)) (vs : List Val) (he : expire now c = .ok c1) (hne : c1.docs ≠ [])
    (hs : selectDocs (patchDT (.doc fs)) c1.docs = .ok sel)
    (h : (distinctColl now c key (.doc fs)).2 = .ok vs) :
    ∃ iss, List.Forall₂ (fun (p : Val × Val) its => distinctItems key p.2 = .ok its) sel iss ∧
      (∀ x ∈ iss.flatten, hashableKey x = true) ∧ vs = dedupe iss.flatten :=
  Proofs.C10Ext.distinct_exact now c c1 key fs sel vs he hne hs h

/-- `distinct` answers exactly when every SELECTED document yields its items and all of them are
    hashable (a list or sub-document inside a list is not: `TypeError`); documents the filter
    does not select are never looked at. -/
theorem distinct_answers_iff (now : Int) (c c1 : Coll) (key : String) (fs : Fields)
    (sel : List (Val × Val)) (he : expire now c = .ok c1) (hne : c1.docs ≠ [])
    (hs : selectDocs (patchDT (.doc fs)) c1.docs = .ok sel) :
    (∃ vs, (distinctColl now c key (.doc fs)).2 = .ok vs) ↔
      ∀ p ∈ sel, ∃ its, distinctItems key p.2 = .ok its ∧ ∀ x ∈ its, hashableKey x = true :=
  Proofs.C10Ext.distinct_answers_iff now c c1 key fs sel he hne hs

/-- … and it raises whatever `find` raises on that filter. -/
theorem distinct_raises_with_find (now : Int) (c : Coll) (key : String) (f : Val) (e : Err)
    (h : (findColl now c f).2 = .error e) : (distinctColl now c key f).2 = .error e :=
  Proofs.C10Ext.distinct_raises_with_find now c key f e h

/-- non-vacuity: `distinct("t", {a: 2})` on `demo` reads `[1.0, 3]`, `2` and nothing (document 4
    has no `t`) from the three selected documents — not the `1`, `2` of document 1; without
    filter the `1` of document 1 comes first and hides the `1.0` of document 2 -/
example :
    (match (distinctColl 0 demo "t" (.doc [("a", .int 2)])).2 with
     | .ok vs => vs == [.dbl 1 0, .int 3, .int 2]
     | .error _ => false) = true ∧
    (match (distinctColl 0 demo "t" (.doc [])).2 with
     | .ok vs => vs == [.int 1, .int 2, .int 3]
     | .error _ => false) = true ∧
    (match selectDocs (patchDT (.doc [("a", .int 2)])) demo.docs with
     | .ok sel => sel.map (·.1) == [.int 2, .int 3, .int 4]
     | .error _ => false) = true := by decide +kernel

/-! ### 2. find_one and find_one_and_* -/

/-- **find_one_in_selection.** `find_one(filter, projection, sort)` returns nothing exactly when
    the shared selection is empty; otherwise it returns the projection of a SELECTED document, the
    first one in the requested sort order. -/
theorem find_one_in_selection (now : Int) (c c1 : Coll) (fs : Fields) (proj : Val)
    (sort : Option SortSpec) (sel : List (Val × Val)) (out : Option Val)
    (he : expire now c = .ok c1) (hne : c1.docs ≠ [])
    (hs : selectDocs (patchDT (.doc fs)) c1.docs = .ok sel)
    (h : (findOneColl now c (.doc fs) proj sort).2 = .ok out) :
    (out = none ↔ sel = []) ∧
    (∀ o, out = some o → ∃ p ∈ sel, firstSorted sort sel = .ok (some p.2) ∧
      copyOnlyFields p.2 proj = .ok o) :=
  Proofs.C10Ext.find_one_in_selection now c c1 fs proj sort sel out he hne hs h

/-- **fam_target_in_selection.** `find_one_and_update / _replace / _delete` (`update = none` is
    the delete, called as the entry point calls it: no upsert, BEFORE) on a collection without TTL
    index: with an empty selection and no upsert it returns nothing and changes nothing; otherwise
    its target is a SELECTED entry `p` — the first in sort order —, no entry under another key
    changes (`sameExcept`), and with return_document=BEFORE the projection of `p` is returned.
    `hna`, `hid` hold in every reachable state (`storeKey` rejects lists; `insert` normalises):
    without them the statement fails on unreachable states (Props/C14 `fam_*_spec_full_fails`). -/
theorem fam_target_in_selection (cfg : Cfg) (now : Int) (c c' : Coll) (fs : Fields) (proj : Val)
    (update : Option Val) (upsert after : Bool) (sort : Option SortSpec)
    (sel : List (Val × Val)) (ret : Option Val)
    (hne : c.docs ≠ []) (hi : IdInv c) (hg : GoodKeys c) (hn : c.ttlIndexes = [])
    (hna : ∀ p ∈ c.docs, p.1.isArr = false)
    (hs : selectDocs (patchDT (.doc fs)) c.docs = .ok sel)
    (hid : ∀ p ∈ sel, ∀ tid, idOf p.2 = some tid → isScalar tid = true ∧ patchDT tid = tid)
    (hda : update = none → upsert = false ∧ after = false)
    (h : findAndModify cfg now c (.doc fs) proj update upsert sort after = (c', .ok ret)) :
    (sel = [] → upsert = false → ret = none ∧ c'.docs = c.docs) ∧
    (sel ≠ [] → ∃ p ∈ sel, ∃ tid, idOf p.2 = some tid ∧
      firstSorted sort sel = .ok (some p.2) ∧ sameExcept tid c.docs c'.docs ∧
      (after = false → copyOnlyFields p.2 proj = .ok (ret.getD .null) ∧ ret.isSome)) :=
  Proofs.C10Ext.fam_target_in_selection cfg now c c' fs proj update upsert after sort sel ret hne hi
    hg hn hna hs hid hda h

/-- non-vacuity: on `demo`, `find_one_and_update({a: 2}, {$set: {hit: 1}}, sort=[(_id, -1)])`
    returns document 4 (selected, first in sort order, last in natural order) and rewrites it;
    `find_one({a: 7})` returns nothing; every selected `_id` is a normalised scalar -/
example :
    (match findAndModify {} 0 demo (.doc [("a", .int 2)]) .null
        (some (.doc [("$set", .doc [("hit", .int 1)])])) false (some [("_id", -1)]) false with
     | (c', .ok (some ret)) =>
       ret == .doc [("_id", .int 4), ("a", .int 2)] &&
       (c'.lookup (.int 4) == some (.doc [("_id", .int 4), ("a", .int 2), ("hit", .int 1)]))
     | _ => false) = true ∧
    (match (findOneColl 0 demo (.doc [("a", .int 7)]) .null none).2 with
     | .ok none => true
     | _ => false) = true ∧
    demo.docs.all (fun p => match idOf p.2 with
      | some tid => isScalar tid && (patchDT tid == tid)
      | none => false) = true := by decide +kernel

/-! ### 3. the aggregation `$match` stage -/

/-- **aggregate_match_eq_find.** The `$match` stage applied to the stored documents (what the
    collection holds after the expiry pass `aggregate` starts with, as `find` does) answers what
    `find` answers on the same filter — the same documents in the same order, the same error, the
    empty collection included (the filter is validated on `{}`).  `hn`: the stored documents are
    normalised, as `insert` / `update` leave them (the hypothesis of Props.C03.match_is_find). -/
theorem aggregate_match_eq_find (now : Int) (c c1 : Coll) (fs : Fields)
    (he : expire now c = .ok c1) (hn : ∀ p ∈ c1.docs, patch p.2 = p.2) :
    Pipe.matchStage (.doc fs) (c1.docs.map (·.2)) = (findColl now c (.doc fs)).2 :=
  Proofs.C10Ext.aggregate_match_eq_find now c c1 fs he hn

/-- … in C10's terms: `$match` selects with the shared match relation. -/
theorem aggregate_match_is_selection (now : Int) (c c1 : Coll) (fs : Fields)
    (he : expire now c = .ok c1) (hne : c1.docs ≠ []) (hn : ∀ p ∈ c1.docs, patch p.2 = p.2) :
    Pipe.matchStage (.doc fs) (c1.docs.map (·.2)) =
      (selectDocs (patchDT (.doc fs)) c1.docs).map (·.map (·.2)) :=
  Proofs.C10Ext.aggregate_match_is_selection now c c1 fs he hne hn

/-- non-vacuity: the documents of `demo` are normalised and `$match {a: 2}` keeps three of them -/
example :
    demo.docs.all (fun p => patch p.2 == p.2) = true ∧
    (match Pipe.matchStage (.doc [("a", .int 2)]) (demo.docs.map (·.2)) with
     | .ok ds => ds.length == 3
     | .error _ => false) = true := by decide +kernel

/-! ### 4. the counts -/

/-- **update_many_modified_count** (collections without TTL index: expiry is C09's): a successful
    non-upserting `update_many` reports `matched_count` = the number of selected documents and
    `modified_count` = the number of selected documents whose CONTENT changed — the document
    stored under the entry's key AFTER the call is no longer `==`, as a dict, to what it was
    (`Spec.contentChangedAfter`; Python `==`: blind to key order and to `1 == 1.0`); the store
    keys are the same, in the same order, and nothing is upserted.
    (Until library commit 5452702 this natural reading was false: a document built by an upsert
    is an OrderedDict, the change test compared two OrderedDicts order-sensitively, and an update
    that only re-ordered its keys was counted — the repaired finding `modified-order-only`; the
    theorem was `update_many_modified_count_partial`, stated with the code's own test, next to
    `…_full_fails` and `…_plain`.) -/
theorem update_many_modified_count (cfg : Cfg) (now : Int) (c c' : Coll) (fs : Fields)
    (u : Val) (sel : List (Val × Val)) (res : UpdateResult)
    (hi : IdInv c) (hg : GoodKeys c) (hn : c.ttlIndexes = [])
    (hs : selectDocs (patchDT (.doc fs)) c.docs = .ok sel)
    (h : applyUpdateColl cfg now c (.doc fs) u false true = (c', .ok res)) :
    res.n = sel.length ∧ res.nModified = (sel.filter (contentChangedAfter c')).length ∧
    c'.docs.map (·.1) = c.docs.map (·.1) ∧ res.upserted = none :=
  Proofs.C10Ext.update_many_counts cfg now c c' fs u sel res hi hg hn hs h

/-- regression example (the witness of the repaired finding `modified-order-only`): the collection
    `update_one({_id: 1}, {$set: {c: 1, d: 2}}, upsert=True)` leaves; `update_many({},
    {$rename: {c: "c"}})` matches the document, re-orders its keys (`_id, d, c`), changes nothing
    of its content — and reports `modified_count` 0; the hypotheses of the theorem hold -/
example :
    ((applyUpdateColl {} 0 {} (.doc [("_id", .int 1)])
      (.doc [("$set", .doc [("c", .int 1), ("d", .int 2)])]) true false).1.docs
        == Proofs.C10Ext.cUps.docs) = true ∧
    IdInv Proofs.C10Ext.cUps ∧ GoodKeys Proofs.C10Ext.cUps ∧
    (match applyUpdateColl {} 0 Proofs.C10Ext.cUps (.doc []) Proofs.C10Ext.renameCC false true with
     | (c', .ok r) =>
       r.n == 1 && r.nModified == 0 &&
       (Proofs.C10Ext.cUps.docs.filter (contentChangedAfter c')).length == 0 &&
       c'.docs.map (fun p => match p.2 with | .doc fs => dkeys fs | _ => []) == [["_id", "d", "c"]]
     | _ => false) = true :=
  ⟨Proofs.C10Ext.cUps_is_upserted, Proofs.C10Ext.cUps_inv, Proofs.C10Ext.cUps_good,
   Proofs.C10Ext.reorder_not_modified⟩

/-- non-vacuity: `update_many({a: 2}, {$set: {t: 2}})` on `demo` matches 3 documents and modifies
    2 (document 3 already has `t: 2`) -/
example :
    (match applyUpdateColl {} 0 demo (.doc [("a", .int 2)]) (.doc [("$set", .doc [("t", .int 2)])])
        false true with
     | (c', .ok res) =>
       res.n == 3 && res.nModified == 2 &&
       (match selectDocs (patchDT (.doc [("a", .int 2)])) demo.docs with
        | .ok sel => (sel.filter (contentChangedAfter c')).map (·.1) == [.int 2, .int 4]
        | .error _ => false)
     | _ => false) = true := by decide +kernel

/-- **update_one_counts** (`update_one` and `replace_one` are this one call of `_apply_update`):
    `matched_count` is 1 when something is selected and 0 otherwise; `modified_count` is 1 exactly
    when the content of the FIRST selected document changed; nothing is upserted. -/
theorem update_one_counts (cfg : Cfg) (now : Int) (c c' : Coll) (fs : Fields) (u : Val)
    (sel : List (Val × Val)) (res : UpdateResult)
    (hne : c.docs ≠ []) (hi : IdInv c) (hg : GoodKeys c) (hn : c.ttlIndexes = [])
    (hs : selectDocs (patchDT (.doc fs)) c.docs = .ok sel)
    (h : applyUpdateColl cfg now c (.doc fs) u false false = (c', .ok res)) :
    res.n = (sel.take 1).length ∧
    res.nModified = ((sel.take 1).filter (contentChangedAfter c')).length ∧
    res.upserted = none :=
  Proofs.C10Ext.update_one_counts cfg now c c' fs u sel res hne hi hg hn hs h

/-- what the client sees — `update_one`: `UpdateResult(matched, modified, upserted_id=None)`. -/
theorem update_one_reports (cfg : Cfg) (now : Int) (c c' : Coll) (fs : Fields) (u up out : Val)
    (sel : List (Val × Val))
    (hne : c.docs ≠ []) (hi : IdInv c) (hg : GoodKeys c) (hn : c.ttlIndexes = [])
    (hs : selectDocs (patchDT (.doc fs)) c.docs = .ok sel) (hup : boolOf up = false)
    (h : stepColl cfg now c (.arr [.str "update_one", .doc fs, u, up]) = (c', .val out)) :
    out = reportOf (sel.take 1).length ((sel.take 1).filter (contentChangedAfter c')).length :=
  Proofs.C10Ext.update_one_reports cfg now c c' fs u up out sel hne hi hg hn hs hup h

/-- … `replace_one`: the same. -/
theorem replace_one_reports (cfg : Cfg) (now : Int) (c c' : Coll) (fs : Fields) (r up out : Val)
    (sel : List (Val × Val))
    (hne : c.docs ≠ []) (hi : IdInv c) (hg : GoodKeys c) (hn : c.ttlIndexes = [])
    (hs : selectDocs (patchDT (.doc fs)) c.docs = .ok sel) (hup : boolOf up = false)
    (h : stepColl cfg now c (.arr [.str "replace_one", .doc fs, r, up]) = (c', .val out)) :
    out = reportOf (sel.take 1).length ((sel.take 1).filter (contentChangedAfter c')).length :=
  Proofs.C10Ext.replace_one_reports cfg now c c' fs r up out sel hne hi hg hn hs hup h

/-- … `update_many`. -/
theorem update_many_reports (cfg : Cfg) (now : Int) (c c' : Coll) (fs : Fields) (u up out : Val)
    (sel : List (Val × Val))
    (hi : IdInv c) (hg : GoodKeys c) (hn : c.ttlIndexes = [])
    (hs : selectDocs (patchDT (.doc fs)) c.docs = .ok sel) (hup : boolOf up = false)
    (h : stepColl cfg now c (.arr [.str "update_many", .doc fs, u, up]) = (c', .val out)) :
    out = reportOf sel.length (sel.filter (contentChangedAfter c')).length :=
  Proofs.C10Ext.update_many_reports cfg now c c' fs u up out sel hi hg hn hs hup h

/-- non-vacuity: `replace_one({a: 2}, {a: 9})` on `demo` reports matched 1, modified 1 and
    rewrites document 2, the first selected one; `update_one({a: 7}, …)` reports 0, 0 -/
example :
    (match stepColl {} 0 demo (.arr [.str "replace_one", .doc [("a", .int 2)],
        .doc [("a", .int 9)], .bool false]) with
     | (c', .val out) =>
       out == reportOf 1 1 && (c'.lookup (.int 2) == some (.doc [("_id", .int 2), ("a", .int 9)]))
     | _ => false) = true ∧
    (match stepColl {} 0 demo (.arr [.str "update_one", .doc [("a", .int 7)],
        .doc [("$set", .doc [("x", .int 1)])], .bool false]) with
     | (_, .val out) => out == reportOf 0 0
     | _ => false) = true := by decide +kernel

/-- **An upsert reports no matched document** (library commit 1314e5d): whatever `_id` the
    upserted document got — null included — `UpdateResult` shows `matched_count` 0 and the stored
    `_id` as `upserted_id`.  (`UpdateResult.matched_count` used to tell an upsert from a match by
    `upserted_id is not None`, which a null `_id` defeats: the repaired finding
    `upsert-null-id-matched`.) -/
theorem upsert_reports_no_match (r : UpdateResult) (id : Val) (h : r.upserted = some id) :
    updateOut r = .doc [("matched", .int 0), ("modified", .int r.nModified), ("upserted", id)] :=
  Proofs.C10Ext.upsert_out r id h

/-- **matched_count = the size of the selection, also on the upsert path**: an upserting
    `update_one` / `update_many` / `replace_one` whose filter selects nothing (collection with
    documents, no TTL index) and which succeeds appends exactly one document and reports matched 0
    (= |selection|), modified 0, upserted = that document's `_id`. -/
theorem upsert_counts (cfg : Cfg) (now : Int) (c c' : Coll) (fs : Fields) (u : Val)
    (multi : Bool) (r : UpdateResult)
    (hne : c.docs ≠ []) (hn : c.ttlIndexes = []) (hi : IdInv c) (hg : GoodKeys c)
    (hs : selectDocs (patchDT (.doc fs)) c.docs = .ok [])
    (h : applyUpdateColl cfg now c (.doc fs) u true multi = (c', .ok r)) :
    ∃ id d, c'.docs = c.docs ++ [(id, d)] ∧ idOf d = some id ∧
      updateOut r = .doc [("matched", .int 0), ("modified", .int 0), ("upserted", id)] :=
  Proofs.C10Ext.upsert_reports cfg now c c' fs u multi r hne hn hi hg hs h

/-- … and in a bulk: a successful `UpdateOne` / `UpdateMany` / `ReplaceOne` request that upserted
    adds nothing to `nMatched`, its `n` to `nUpserted`, and lists the `_id` — null or not — under
    the request's index. -/
theorem bulk_upsert_counts (cfg : Cfg) (now : Int) (c c' : Coll) (idx : Nat) (kind : String)
    (f u up : Val) (g : BulkTotals → BulkTotals) (res : UpdateResult) (id : Val)
    (hk : kind = "UpdateOne" ∨ kind = "UpdateMany" ∨ kind = "ReplaceOne")
    (ha : applyUpdateColl cfg now c f u (boolOf up) (kind == "UpdateMany") = (c', .ok res))
    (hid : res.upserted = some id)
    (h : bulkOne cfg now c idx (.arr [.str kind, f, u, up]) = (c', .ok g)) (t : BulkTotals) :
    (g t).nMatched = t.nMatched ∧ (g t).nUpserted = t.nUpserted + res.n ∧
    (g t).upserted = t.upserted ++ [Val.doc [("index", .int idx), ("_id", id)]] ∧
    (g t).nModified = t.nModified + res.nModified :=
  Proofs.C10Ext.bulk_upsert_totals cfg now c c' idx kind f u up g res id hk ha hid h t

/-- non-vacuity of the three, and the regression example of the repaired finding
    `upsert-null-id-matched` (its witness): on `{_id: 1}`, `update_one({_id: null}, {$set: {a: 1}},
    upsert=True)` stores `{_id: null, a: 1}` and reports matched 0, upserted null; as the request
    of a bulk it gives `nMatched` 0, `nUpserted` 1, `upserted: [{index: 0, _id: null}]` -/
example :
    let c : Coll := { docs := [(.int 1, .doc [("_id", .int 1)])], forceCreated := true }
    (match stepColl {} 0 c (.arr [.str "update_one", .doc [("_id", .null)],
        .doc [("$set", .doc [("a", .int 1)])], .bool true]) with
     | (c', .val out) =>
       out == .doc [("matched", .int 0), ("modified", .int 0), ("upserted", .null)] &&
       c'.docs.map (·.2) == [.doc [("_id", .int 1)], .doc [("_id", .null), ("a", .int 1)]]
     | _ => false) = true ∧
    (match bulkWrite {} 0 c [.arr [.str "UpdateOne", .doc [("_id", .null)],
        .doc [("$set", .doc [("a", .int 1)])], .bool true]] true with
     | (_, .val (.doc t)) =>
       dget "nMatched" t == some (.int 0) && dget "nUpserted" t == some (.int 1) &&
       dget "upserted" t == some (.arr [.doc [("index", .int 0), ("_id", .null)]])
     | _ => false) = true :=
  Proofs.C10Ext.null_id_upsert_witness

/-- **update_one vs the shared selection**, natural reading: a successful `update_one` implies
    that the selection is defined (`find` with the same filter does not raise) and
    `matched_count = min |selection| 1`.  FALSE — known finding `lazy-raise`: `update_one` stops at
    its first match, so a filter that raises only on a LATER document is accepted by `update_one`
    and rejected by every other entry point. -/
def update_one_selection_defined_full : Prop :=
  ∀ (cfg : Cfg) (now : Int) (c c1 c' : Coll) (fs : Fields) (u : Val) (res : UpdateResult),
    expire now c = .ok c1 → c1.docs ≠ [] → IdInv c → GoodKeys c →
    applyUpdateColl cfg now c (.doc fs) u false false = (c', .ok res) →
    ∃ sel, selectDocs (patchDT (.doc fs)) c1.docs = .ok sel ∧ res.n = min sel.length 1

theorem update_one_selection_defined_full_fails : ¬ update_one_selection_defined_full :=
  Proofs.C10Ext.update_one_selection_defined_false

/-- the exact class: a successful `update_one` (no upsert) has evaluated the matcher on the stored
    documents up to the first one it accepts — that one is matched, the ones before it are
    selected by nobody, the ones after it are not looked at — or on all of them, accepting none.
    (When the selection IS defined this is `update_one_target_iff_partial` above.) -/
theorem update_one_selection_defined_partial (cfg : Cfg) (now : Int) (c c1 c' : Coll) (fs : Fields)
    (u : Val) (res : UpdateResult)
    (he : expire now c = .ok c1) (hne : c1.docs ≠ []) (hi : IdInv c) (hg : GoodKeys c)
    (h : applyUpdateColl cfg now c (.doc fs) u false false = (c', .ok res)) :
    (∃ pre q post, c1.docs = pre ++ q :: post ∧ selectDocs (patchDT (.doc fs)) pre = .ok [] ∧
      filterApplies (patchDT (.doc fs)) q.2 = .ok true ∧ res.n = 1) ∨
    (selectDocs (patchDT (.doc fs)) c1.docs = .ok [] ∧ res.n = 0) :=
  Proofs.C10Ext.update_one_lazy cfg now c c1 c' fs u res he hne hi.1 hg h

/-- non-vacuity (and the witness of `lazy-raise`): two documents, `{$or: [{c: 3}, {c: {$in: 1}}]}`
    matches the first through its first branch and raises on the second -/
example :
    (match applyUpdateColl {} 0 Proofs.C10Ext.cLazy (.doc Proofs.C10Ext.fLazy)
        (.doc [("$set", .doc [("x", .int 1)])]) false false with
     | (_, .ok res) => res.n == 1
     | _ => false) = true ∧
    (match (findColl 0 Proofs.C10Ext.cLazy (.doc Proofs.C10Ext.fLazy)).2 with
     | .error _ => true
     | .ok _ => false) = true := by decide +kernel

/-- **delete_count_eq_size_drop.** `deleted_count` of `delete_one` / `delete_many` is exactly the
    drop in the number of stored documents (counted after the expiry pass the call starts with),
    whatever the collection — empty included — and whatever the filter. -/
theorem delete_count_eq_size_drop (now : Int) (c c1 : Coll) (fs : Fields) (multi : Bool) (n : Nat)
    (he : expire now c = .ok c1) (hi : IdInv c) (hg : GoodKeys c)
    (h : (deleteColl now c (.doc fs) multi).2 = .ok n) :
    (deleteColl now c (.doc fs) multi).1.docs.length + n = c1.docs.length :=
  Proofs.C10Ext.delete_count_eq_size_drop now c c1 fs multi n he hi hg h

/-- … and it is the size of the selection (1 at most for `delete_one`), the collection the expiry
    pass leaves empty included. -/
theorem delete_count_eq_selection (now : Int) (c c1 : Coll) (fs : Fields) (sel : List (Val × Val))
    (multi : Bool) (n : Nat)
    (he : expire now c = .ok c1) (hi : IdInv c) (hg : GoodKeys c)
    (hs : selectDocs (patchDT (.doc fs)) c1.docs = .ok sel)
    (h : (deleteColl now c (.doc fs) multi).2 = .ok n) :
    n = (if multi then sel.length else min sel.length 1) :=
  Proofs.C10Ext.delete_count_all now c c1 fs sel multi n he hi hg hs h

/-- non-vacuity: `delete_many({a: 2})` on `demo` reports 3 and leaves 1 document -/
example :
    (match deleteColl 0 demo (.doc [("a", .int 2)]) true with
     | (c', .ok n) => n == 3 && c'.docs.length == 1
     | _ => false) = true := by decide +kernel

/-- **insert_one_id.** A successful `insert_one` (no TTL index) appends exactly one entry: the
    document as stored (`Spec.storedForm`: normalised, with the generated `_id` when it had none),
    under the key the call returns, which is that document's `_id` and was not a key before. -/
theorem insert_one_id (cfg : Cfg) (now : Int) (c c' : Coll) (d out : Val) (hn : c.ttlIndexes = [])
    (h : stepColl cfg now c (.arr [.str "insert_one", d]) = (c', .val out)) :
    c'.docs = c.docs ++ [(out, storedForm d out)] ∧ idOf (storedForm d out) = some out ∧
      c.hasKey out = false :=
  Proofs.C10Ext.insert_one_id cfg now c c' d out hn h

/-- **insert_many_ids.** A successful `insert_many` (ordered or not, no TTL index) appends one
    entry per input document, in order, and returns exactly their `_id`s (= store keys), in that
    order: `inserted_ids` are exactly the new `_id`s. -/
theorem insert_many_ids (cfg : Cfg) (now : Int) (c c' : Coll) (ds : List Val) (ordered out : Val)
    (hn : c.ttlIndexes = [])
    (h : stepColl cfg now c (.arr [.str "insert_many", .arr ds, ordered]) = (c', .val out)) :
    ∃ new, c'.docs = c.docs ++ new ∧ out = .arr (new.map (·.1)) ∧
      List.Forall₂ (fun d (p : Val × Val) => p.2 = storedForm d p.1 ∧ idOf p.2 = some p.1) ds new :=
  Proofs.C10Ext.insert_many_ids cfg now c c' ds ordered out hn h

/-- non-vacuity: an unordered `insert_many` of two documents (one without `_id`) into `demo`
    returns `[7, ObjectId(1000)]` and stores six documents -/
example :
    (match stepColl {} 0 demo (.arr [.str "insert_many",
        .arr [.doc [("_id", .int 7), ("a", .int 0)], .doc [("a", .int 5)]], .bool false]) with
     | (c', .val out) => out == .arr [.int 7, .oid 1000] && c'.docs.length == 6
     | _ => false) = true := by decide +kernel

/-! ### 5. bulk_write -/

/-- **bulk_counts_eq_selection.** For a successful `bulk_write` (ordered or not) of non-upserting
    requests, `nMatched` and `nRemoved` are the sums, over the requests, of the sizes of their
    selections (`Spec.bulkCounts`: `selectDocs` on the collection the request runs on, i.e. the one
    its predecessors issued one at a time leave; 1 at most for `UpdateOne` / `ReplaceOne` /
    `DeleteOne`), `nInserted` is the number of `InsertOne` requests, nothing is upserted.
    `hinv`: the invariant of C05 on the collections between the requests (every reachable one
    satisfies it); `hc`: every selection is defined — without it `UpdateOne` falls under
    `lazy-raise` (see `update_one_selection_defined_full_fails`). -/
theorem bulk_counts_eq_selection (cfg : Cfg) (now : Int) (c c' : Coll) (reqs : List Val)
    (ordered : Bool) (out : Val) (M D : Nat)
    (hp : reqs.all plainRequest = true) (hu : reqs.all noUpsert = true)
    (hinv : ∀ k < reqs.length, IdInv (seqOps cfg now ((reqs.take k).map asSingle) c) ∧
      GoodKeys (seqOps cfg now ((reqs.take k).map asSingle) c))
    (hc : bulkCounts cfg now reqs c = .ok (M, D))
    (h : bulkWrite cfg now c reqs ordered = (c', .val out)) :
    ∃ t : BulkTotals, out = t.toVal ∧ t.nMatched = M ∧ t.nRemoved = D ∧
      t.nInserted = (reqs.filter isInsertOne).length ∧ t.nUpserted = 0 ∧ t.upserted = [] ∧
      t.errors = [] :=
  Proofs.C10Ext.bulk_counts_eq_selection cfg now c c' reqs ordered out M D hp hu hinv hc h

/-- one step of it: what a successful request adds to the running totals (with Props.C15
    `counts_are_sums`: the loop continues from `f t`). -/
theorem bulk_request_adds_selection (cfg : Cfg) (now : Int) (c c' : Coll) (idx : Nat) (r : Val)
    (g : BulkTotals → BulkTotals) (a b : Nat) (hi : IdInv c) (hg : GoodKeys c)
    (hu : noUpsert r = true) (hc : requestCounts now c r = .ok (a, b))
    (h : bulkOne cfg now c idx r = (c', .ok g)) (t : BulkTotals) :
    (g t).nMatched = t.nMatched + a ∧ (g t).nRemoved = t.nRemoved + b ∧
    (g t).nInserted = t.nInserted + ((if isInsertOne r then 1 else 0 : Nat) : Int) ∧
    (g t).nUpserted = t.nUpserted ∧ (g t).upserted = t.upserted ∧ (g t).errors = t.errors :=
  Proofs.C10Ext.one_adds cfg now c c' idx r g a b hi hg hu hc h t

/-- the bulk of the non-vacuity example: the `UpdateMany` changes what the later requests select -/
def demoReqs : List Val := [
  .arr [.str "UpdateMany", .doc [("a", .int 2)], .doc [("$set", .doc [("a", .int 1)])], .bool false],
  .arr [.str "InsertOne", .doc [("_id", .int 9), ("a", .int 1)]],
  .arr [.str "UpdateOne", .doc [("a", .int 1)], .doc [("$set", .doc [("b", .int 1)])], .bool false],
  .arr [.str "DeleteMany", .doc [("a", .int 1)]],
  .arr [.str "DeleteOne", .doc [("a", .int 1)]]]

/-- non-vacuity: the hypotheses hold of `demoReqs` on `demo`; the selections have the sizes
    3, –, 5 (1 matched), 5, 0: `nMatched = 3 + 1`, `nRemoved = 5 + 0` -/
example :
    (demoReqs.all plainRequest && demoReqs.all noUpsert) = true ∧
    (∀ k < demoReqs.length, IdInv (seqOps {} 0 ((demoReqs.take k).map asSingle) demo) ∧
      GoodKeys (seqOps {} 0 ((demoReqs.take k).map asSingle) demo)) ∧
    (match bulkCounts {} 0 demoReqs demo with
     | .ok md => md == (4, 5)
     | .error _ => false) = true ∧
    (match (bulkWrite {} 0 demo demoReqs true).2 with
     | .val (.doc fs) => dget "nMatched" fs == some (.int 4) && dget "nRemoved" fs == some (.int 5)
         && dget "nInserted" fs == some (.int 1)
     | _ => false) = true :=
  ⟨by decide +kernel, Proofs.C10Ext.along_check {} 0 demoReqs demo (by decide +kernel),
   by decide +kernel, by decide +kernel⟩

end MongoModel.Props.C10
