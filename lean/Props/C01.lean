/-
  Props.C01 — property theorems for C01 (query filters select exactly what MongoDB's rules
  select).  Only statements of the property live here; helper lemmas are in Proofs/C01*.lean.

  Impl  = MongoModel.filterApplies   (faithful model of mongomock/filtering.py, tied to the
                                      code by the per-run correspondence check)
  Spec  = MongoModel.Spec.specMatches (the rules of the property text)
  D     = MongoModel.Spec.inD        (decidable; its negation is the list of named exclusion
                                      classes of Spec/MatchDomain.lean)
-/
import Proofs.C01

namespace MongoModel.Props.C01
open MongoModel MongoModel.Spec

/-- The full-strength statement: wherever both the model and the oracle give an answer, they
    give the same one. -/
def matches_eq_spec_full : Prop :=
  ∀ f d b b', filterApplies f d = .ok b → specMatches f d = .ok b' → b = b'

/-- It is false of the code as it stands (known finding `boolnum`): `{a: 1}` selects
    `{a: true}` because Python's `==` identifies `True` with `1`. The same witness is replayed
    on the real code by the check. -/
theorem matches_eq_spec_full_fails : ¬ matches_eq_spec_full := by
  intro h
  have := h (.doc [("a", .int 1)]) (.doc [("a", .bool true)]) true false (by decide +kernel) (by decide +kernel)
  exact absurd this (by decide)

/-- **Main theorem (partial: on D).** On every (filter, document) pair of the domain the
    matcher answers exactly what the rules say, without raising. -/
theorem matches_eq_spec_partial (f d : Val) (h : inD f d = true) :
    filterApplies f d = specMatches f d :=
  Proofs.C01.matches_eq_spec f d h

/-- D is inhabited by non-trivial pairs: a nested connective, a dotted path through an array of
    sub-documents, an ordering operator, `$in`, `$not`. -/
example : inD
    (.doc [("$or", .arr [.doc [("a.b", .doc [("$gt", .int 2)])],
                         .doc [("c", .doc [("$not", .doc [("$in", .arr [.str "x", .null])])])]]),
           ("d", .int 5)])
    (.doc [("a", .arr [.doc [("b", .int 3)], .doc [("b", .int 7)]]), ("c", .str "y"), ("d", .int 5)])
    = true := by decide +kernel

/-! ### Former exclusion classes, now inside D

The library defects behind the classes `ext:$all` (an empty `$all` selected everything, a null
item of `$all` missed a missing field), `ext:$size` (`$size` applied to scalars and
sub-documents), `emptydocoperand`, `nullorder` and `deadend` are repaired (known_findings.json,
status "fixed"); `$all`, `$size`, the empty sub-document operand, ordering against null and paths
that run into a scalar are part of D, so `matches_eq_spec_partial` covers them.  The former witnesses of these findings, as
positive examples: each lies in D and the matcher now answers what the rules say. -/

/-- `{a: {$all: []}}` selects nothing (it selected `{a: -1}`). -/
example :
    inD (.doc [("a", .doc [("$all", .arr [])])]) (.doc [("a", .int (-1))]) = true ∧
    filterApplies (.doc [("a", .doc [("$all", .arr [])])]) (.doc [("a", .int (-1))]) = .ok false ∧
    specMatches (.doc [("a", .doc [("$all", .arr [])])]) (.doc [("a", .int (-1))]) = .ok false := by
  decide +kernel

/-- `{a: {$all: [null]}}` selects a document without `a` (it did not). -/
example :
    inD (.doc [("a", .doc [("$all", .arr [.null])])]) (.doc []) = true ∧
    filterApplies (.doc [("a", .doc [("$all", .arr [.null])])]) (.doc []) = .ok true ∧
    specMatches (.doc [("a", .doc [("$all", .arr [.null])])]) (.doc []) = .ok true := by
  decide +kernel

/-- `$all` over the elements of an array value and over several reached scalars is in D. -/
example :
    inD (.doc [("a.b", .doc [("$all", .arr [.int 1, .str "x"])])])
      (.doc [("a", .arr [.doc [("b", .int 1)], .doc [("b", .str "x")], .doc []])]) = true ∧
    inD (.doc [("a", .doc [("$not", .doc [("$all", .arr [.int 1, .int 3])])])])
      (.doc [("a", .arr [.int 1, .int 2])]) = true := by
  decide +kernel

/-- `{a: {$size: 1}}` does not select `{a: "ba"}` (it did: a truthy scalar counted as one). -/
example :
    inD (.doc [("a", .doc [("$size", .int 1)])]) (.doc [("a", .str "ba")]) = true ∧
    filterApplies (.doc [("a", .doc [("$size", .int 1)])]) (.doc [("a", .str "ba")]) = .ok false ∧
    specMatches (.doc [("a", .doc [("$size", .int 1)])]) (.doc [("a", .str "ba")]) = .ok false := by
  decide +kernel

/-- `{a: {}}` does not select `{}` (it did), it selects `{a: {}}` and `{a: [{}]}`. -/
example :
    inD (.doc [("a", .doc [])]) (.doc []) = true ∧
    filterApplies (.doc [("a", .doc [])]) (.doc []) = .ok false ∧
    specMatches (.doc [("a", .doc [])]) (.doc []) = .ok false ∧
    filterApplies (.doc [("a", .doc [])]) (.doc [("a", .doc [])]) = .ok true ∧
    filterApplies (.doc [("a", .doc [])]) (.doc [("a", .arr [.doc []])]) = .ok true := by
  decide +kernel

/-- `{c: {$lte: null}}` selects a document without `c` (it did not). -/
example :
    inD (.doc [("c", .doc [("$lte", .null)])]) (.doc [("a", .int 2)]) = true ∧
    filterApplies (.doc [("c", .doc [("$lte", .null)])]) (.doc [("a", .int 2)]) = .ok true ∧
    specMatches (.doc [("c", .doc [("$lte", .null)])]) (.doc [("a", .int 2)]) = .ok true := by
  decide +kernel

/-- `{'a.b': null}` selects `{a: 5}` (it did not: the path dead-ended in the scalar and the
    matcher saw no candidate at all).  Since the repair the matcher reaches exactly the values
    the rules say a path reaches (`Proofs.C01Lemmas.cands_eq_reach`), and the class `deadend` is
    gone from D. -/
example :
    inD (.doc [("a.b", .null)]) (.doc [("a", .int 5)]) = true ∧
    filterApplies (.doc [("a.b", .null)]) (.doc [("a", .int 5)]) = .ok true ∧
    specMatches (.doc [("a.b", .null)]) (.doc [("a", .int 5)]) = .ok true ∧
    inD (.doc [("a.b", .doc [("$exists", .bool false)])]) (.doc [("a", .null)]) = true ∧
    filterApplies (.doc [("a.b", .doc [("$exists", .bool false)])]) (.doc [("a", .null)]) = .ok true := by
  decide +kernel

/-- The empty field name is a field name (it was a scope limit of the model, and a defect of the
    library: `{'': 1}` compared the whole document with `1`, so it missed `{'': 1}`).  Since the
    repair every dot-separated component of a key, the empty one included, names a field: keys
    like `''`, `'a.'`, `'.'`, `'a..b'` are inside D (the class `badkey` now only holds negative
    array indexes), the matcher answers what the rules say, and the rules read `'a.'` as "the
    field `''` inside `a`" — through arrays of sub-documents too. -/
example :
    inD (.doc [("", .int 2)]) (.doc [("", .int 2)]) = true ∧
    filterApplies (.doc [("", .int 2)]) (.doc [("", .int 2)]) = .ok true ∧
    specMatches (.doc [("", .int 2)]) (.doc [("", .int 2)]) = .ok true ∧
    filterApplies (.doc [("", .int 2)]) (.doc [("a", .int 2)]) = .ok false ∧
    inD (.doc [("a.", .doc [("$gt", .int 2)])])
      (.doc [("a", .arr [.doc [("", .int 5)], .doc [("b", .int 7)]])]) = true ∧
    filterApplies (.doc [("a.", .doc [("$gt", .int 2)])])
      (.doc [("a", .arr [.doc [("", .int 5)], .doc [("b", .int 7)]])]) = .ok true ∧
    inD (.doc [(".", .null)]) (.doc [("", .int 2)]) = true ∧
    filterApplies (.doc [(".", .null)]) (.doc [("", .int 2)]) = .ok true ∧
    inD (.doc [("a..b", .str "x")]) (.doc [("a", .doc [("", .doc [("b", .str "x")])])]) = true ∧
    filterApplies (.doc [("a..b", .str "x")]) (.doc [("a", .doc [("", .doc [("b", .str "x")])])])
      = .ok true := by
  decide +kernel

/-- `$elemMatch` stays outside D (a scope limit, no longer a known finding): its former witness
    `{c: {$elemMatch: {$size: 1}}}` on `{c: ["b", 2]}` went away with the `$size` repair. -/
example :
    filterApplies (.doc [("c", .doc [("$elemMatch", .doc [("$size", .int 1)])])])
      (.doc [("c", .arr [.str "b", .int 2])]) = .ok false ∧
    specMatches (.doc [("c", .doc [("$elemMatch", .doc [("$size", .int 1)])])])
      (.doc [("c", .arr [.str "b", .int 2])]) = .ok false := by
  decide +kernel

/-! ### Laws that hold for every input (no domain hypothesis) -/

/-- `$ne` holds exactly when `$eq` does not — for every key, operand and document. -/
theorem ne_eq_not_eq (key : String) (v d : Val) :
    applyKey (.doc [("$ne", v)]) key d = (applyKey (.doc [("$eq", v)]) key d).map (!·) :=
  Proofs.C01.ne_eq_not_eq key v d

/-- `$nin` holds exactly when `$in` does not (and raises exactly when `$in` raises). -/
theorem nin_eq_not_in (key : String) (v d : Val) :
    applyKey (.doc [("$nin", v)]) key d = (applyKey (.doc [("$in", v)]) key d).map (!·) :=
  Proofs.C01.nin_eq_not_in key v d

/-- `$not` is the negation of its operand condition whenever the path reaches something. -/
theorem not_eq_neg (key : String) (gs : Fields) (d : Val) (cs : List (Option Val))
    (hc : candsKey key d = .ok cs) (hne : cs ≠ [])
    (hk : gs.all (fun kv => operatorMapKeys.contains kv.1 || logicalKeys.contains kv.1) = true) :
    applyKey (.doc [("$not", .doc gs)]) key d = (applyKey (.doc gs) key d).map (!·) :=
  Proofs.C01.not_eq_neg key gs d cs hc hne hk

/-- Ordering operators never relate values of different BSON type classes. -/
theorem cmp_bracketed (op : CmpOp) (a b : Val) (h : a.tc ≠ b.tc) :
    bsonCompare op a b false = .ok false := by
  simp [bsonCompare, h]

/-- `$and` is conjunction, `$or` disjunction, `$nor` negated disjunction of the sub-filters
    (stated on sub-filters that do not raise). -/
theorem and_is_conj (qs : List Val) (d : Val) (bs : List Bool)
    (h : qs.map (applyVal · d) = bs.map .ok) : allApply qs d = .ok (bs.all id) :=
  Proofs.C01.and_is_conj qs d bs h

theorem or_is_disj (qs : List Val) (d : Val) (bs : List Bool)
    (h : qs.map (applyVal · d) = bs.map .ok) : anyApply qs d = .ok (bs.any id) :=
  Proofs.C01.or_is_disj qs d bs h

theorem nor_is_neg_disj (qs : List Val) (d : Val) (bs : List Bool)
    (h : qs.map (applyVal · d) = bs.map .ok) : norApply qs d = .ok (!(bs.any id)) :=
  Proofs.C01.nor_is_neg_disj qs d bs h

/-- Path traversal: whenever the matcher follows a dotted path (it gives up only on a negative
    array index) it reaches exactly the values the rules say the path reaches — a branch that
    runs into null or a scalar counts as a missing field.  (False before the `deadend` repair:
    `a.b` reached nothing in `{a: 5}`.)  The components are arbitrary strings: an empty one is a
    field name like any other. -/
theorem path_reaches_spec (ps : List String) (d : Val) (cs : List (Option Val))
    (h : cands ps d = .ok cs) : cs = reach ps d :=
  Proofs.C01.cands_eq_reach ps d cs h

example :
    (match cands ["a", "b"] (.doc [("a", .arr [.doc [("b", .int 1)], .int 5, .doc [("b", .null)],
        .doc [("c", .int 2)]])]) with
     | .ok cs => cs == [some (.int 1), some .null, none]
     | .error _ => false) = true ∧
    (match cands ["a", "b"] (.doc [("a", .int 5)]) with
     | .ok cs => cs == [none]
     | .error _ => false) = true := by decide +kernel

/-- The same for the key as the filter spells it — **every** key, no exclusion: the matcher
    splits the key at its dots and each component, the empty one included, is a field name
    (`''` is the field named `''`, `'a.'` the field `''` inside `a`, `'.'` the field `''` inside
    the field `''`).  Before the repair "a filter looks the empty field name up like any other
    field" the matcher ended the path at an empty remainder (`''` reached the document itself,
    `'a.'` reached what `'a'` reaches) and the model gave no answer on such keys. -/
theorem key_reaches_spec (key : String) (d : Val) (cs : List (Option Val))
    (h : candsKey key d = .ok cs) : cs = reach (splitDots key) d :=
  Proofs.C01.candsKey_eq_reach key d cs h

example :
    let reaches (key : String) (d : Val) (want : List (Option Val)) : Bool :=
      match candsKey key d with
      | .ok cs => cs == want
      | .error _ => false
    reaches "" (.doc [("", .int 1), ("a", .int 2)]) [some (.int 1)] = true ∧
    reaches "" (.doc [("a", .int 2)]) [none] = true ∧
    reaches "a." (.doc [("a", .arr [.doc [("", .int 3)], .doc [("", .arr [.int 4])], .int 7, .doc []])])
      [some (.int 3), some (.arr [.int 4]), none] = true ∧
    reaches "a.1." (.doc [("a", .arr [.int 0, .doc [("", .int 5)]])]) [some (.int 5)] = true ∧
    reaches "." (.doc [("", .doc [("", .int 9)])]) [some (.int 9)] = true ∧
    reaches "a..b" (.doc [("a", .int 5)]) [none] = true := by decide +kernel

/-- On a document the empty key looks the field `''` up, and nothing else. -/
theorem empty_key_is_a_field (fs : Fields) : candsKey "" (.doc fs) = .ok [dget "" fs] :=
  Proofs.C01.candsKey_empty fs

/-! ### Malformed filters: what is rejected whatever the document, and what still is not

The rules reject a filter with a malformed part whatever the document is (`specMatches` raises).
The matcher validates while it evaluates.  Since the repair "the operators of a condition are
checked also when its key reaches no value" the operator *names* of a condition are checked once
per key, before the candidates are looked at; what is still reached only by evaluation — names
inside `$not` and `$elemMatch`, the operators' arguments, and every key that follows one that has
already failed — is the known finding `lazyvalidation`. -/

/-- An operator condition that holds a name which is no operator is rejected for **every** key
    and **every** document — whatever the key reaches, nothing included (an index past the end of
    an array, a field name over an array of scalars), and whatever the other operators of the
    condition say (`$all` failing first, `$exists: false` on no value).  Before the repair the
    check sat inside the loop over the reached values, so that `{'a.0': {$foo: 1}}` was accepted
    on `{a: []}`.  (`$options` next to `$regex` is outside the model.) -/
theorem unknown_operator_rejected (fs : Fields) (key : String) (d : Val)
    (hops : isOpsFilter (.doc fs) = true)
    (hunk : ∃ op, op ∈ dkeys fs ∧ operatorMapKeys.contains op = false ∧ op ≠ "$not")
    (hopt : ¬ ("$options" ∈ dkeys fs ∧ "$regex" ∈ dkeys fs)) :
    applyKey (.doc fs) key d = .error .opFail ∨ applyKey (.doc fs) key d = .error .notImpl :=
  Proofs.C01.unknown_operator_rejected fs key d hops hunk hopt

/-- the hypotheses hold for `{$all: [5], $foo: 1}` and `{$exists: false, $near: 1}`; on a key that
    reaches nothing the first is an `OperationFailure`, the second a `NotImplementedError` -/
example :
    isOpsFilter (.doc [("$all", .arr [.int 5]), ("$foo", .int 1)]) = true ∧
    (∃ op, op ∈ dkeys [("$all", Val.arr [.int 5]), ("$foo", .int 1)] ∧
      operatorMapKeys.contains op = false ∧ op ≠ "$not") ∧
    ¬ ("$options" ∈ dkeys [("$all", Val.arr [.int 5]), ("$foo", .int 1)] ∧
       "$regex" ∈ dkeys [("$all", Val.arr [.int 5]), ("$foo", .int 1)]) ∧
    applyKey (.doc [("$all", .arr [.int 5]), ("$foo", .int 1)]) "a.0" (.doc [("a", .arr [])])
      = .error .opFail ∧
    applyKey (.doc [("$exists", .bool false), ("$near", .int 1)]) "a.b" (.doc [("a", .arr [.int 1])])
      = .error .notImpl :=
  ⟨by decide +kernel, ⟨"$foo", by decide +kernel, by decide +kernel, by decide +kernel⟩,
   by decide +kernel, by decide +kernel, by decide +kernel⟩

/-- The full-strength statement about malformed filters: whatever the rules reject, the matcher
    rejects (on the inputs the oracle expresses). -/
def rejects_malformed_full : Prop :=
  ∀ f d e, specMatches f d = .error e → e ≠ .unmodelled → ∃ e', filterApplies f d = .error e'

/-- It is false of the code as it stands (known finding `lazyvalidation`): `{c: 1, $or: []}` is
    accepted — and does not select — when `c` differs from 1, because the keys of a filter are
    evaluated in order and the first one that fails ends the evaluation.  The same witness is
    replayed on the real code by the check. -/
theorem rejects_malformed_full_fails : ¬ rejects_malformed_full := by
  intro h
  obtain ⟨e', he⟩ := h (.doc [("c", .int 1), ("$or", .arr [])]) (.doc [("c", .int 2)]) .opFail
    (by decide +kernel) (by decide)
  have hok : filterApplies (.doc [("c", .int 1), ("$or", .arr [])]) (.doc [("c", .int 2)]) = .ok false := by
    decide +kernel
  rw [hok] at he
  cases he

/-- The other places that are reached by evaluation only (same finding): a name inside `$not`
    or an argument of an operator on a key that reaches nothing, an argument behind an operator
    of the same condition that already failed.  The rules reject each of these filters. -/
example :
    filterApplies (.doc [("a.0", .doc [("$not", .doc [("$foo", .int 1)])])]) (.doc [("a", .arr [])])
      = .ok false ∧
    specMatches (.doc [("a.0", .doc [("$not", .doc [("$foo", .int 1)])])]) (.doc [("a", .arr [])])
      = .error .opFail ∧
    filterApplies (.doc [("a.0", .doc [("$in", .int 5)])]) (.doc [("a", .arr [])]) = .ok false ∧
    specMatches (.doc [("a.0", .doc [("$in", .int 5)])]) (.doc [("a", .arr [])]) = .error .opFail ∧
    filterApplies (.doc [("a", .doc [("$gt", .int 1), ("$in", .int 5)])]) (.doc [("a", .int 0)])
      = .ok false ∧
    specMatches (.doc [("a", .doc [("$gt", .int 1), ("$in", .int 5)])]) (.doc [("a", .int 0)])
      = .error .opFail := by
  decide +kernel

/-- **Partial (a condition made of one unknown operator).**  Whatever the key is and whatever it
    reaches in the document, the matcher rejects the filter with the error the rules give
    (`NotImplementedError` for an operator of MongoDB's vocabulary that the library does not
    implement, `OperationFailure` for any other name). -/
theorem rejects_malformed_partial (key op : String) (sv d : Val)
    (hk : key.startsWith "$" = false) (hop : op.startsWith "$" = true)
    (hunk : operatorMapKeys.contains op = false) (hn : op ≠ "$not") :
    ∃ e, (e = .opFail ∨ e = .notImpl) ∧
      filterApplies (.doc [(key, .doc [(op, sv)])]) d = .error e ∧
      specMatches (.doc [(key, .doc [(op, sv)])]) d = .error e :=
  Proofs.C01.unknown_single_eq_spec key op sv d hk hop hunk hn

/-- non-vacuity: `{'a.0': {$foo: 1}}` and `{'': {$geoWithin: 1}}` on documents in which the key
    reaches nothing (the first was accepted before the repair) -/
example :
    ("a.0".startsWith "$" = false ∧ "$foo".startsWith "$" = true ∧
      operatorMapKeys.contains "$foo" = false ∧ "$foo" ≠ "$not") ∧
    filterApplies (.doc [("a.0", .doc [("$foo", .int 1)])]) (.doc [("a", .arr [])]) = .error .opFail ∧
    specMatches (.doc [("a.0", .doc [("$foo", .int 1)])]) (.doc [("a", .arr [])]) = .error .opFail ∧
    filterApplies (.doc [("", .doc [("$geoWithin", .int 1)])]) (.doc [("a", .arr [])]) = .error .notImpl ∧
    specMatches (.doc [("", .doc [("$geoWithin", .int 1)])]) (.doc [("a", .arr [])]) = .error .notImpl := by
  decide +kernel

/-- Equality to null also matches a missing field. -/
theorem null_eq_missing (key : String) (d : Val) (h : candsKey key d = .ok [none]) :
    applyKey .null key d = .ok true :=
  Proofs.C01.null_eq_missing key d h

end MongoModel.Props.C01
