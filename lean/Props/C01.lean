/-
  Props.C01 — property theorems for C01 (query filters select exactly what MongoDB's rules
  select).  Only statements of the property live here; helper lemmas are in Proofs/C01*.lean.

  Impl  = MongoModel.filterApplies   (faithful model of mongomock/filtering.py, tied to the
                                      code by the per-run correspondence check)
  Spec  = MongoModel.Spec.specMatches (the rules of the property text)
  D     = MongoModel.Spec.inD        (decidable; its negation is the list of named exclusion
                                      classes of Spec/MatchDomain.lean)
-/
import Proofs.C01

namespace MongoModel.Props.C01
open MongoModel MongoModel.Spec

/-- The full-strength statement: wherever both the model and the oracle give an answer, they
    give the same one. -/
def matches_eq_spec_full : Prop :=
  ∀ f d b b', filterApplies f d = .ok b → specMatches f d = .ok b' → b = b'

/-- It is false of the code as it stands (known finding `boolnum`): `{a: 1}` selects
    `{a: true}` because Python's `==` identifies `True` with `1`. The same witness is replayed
    on the real code by the check. -/
theorem matches_eq_spec_full_fails : ¬ matches_eq_spec_full := by
  intro h
  have := h (.doc [("a", .int 1)]) (.doc [("a", .bool true)]) true false (by decide +kernel) (by decide +kernel)
  exact absurd this (by decide)

/-- **Main theorem (partial: on D).** On every (filter, document) pair of the domain the
    matcher answers exactly what the rules say, without raising. -/
theorem matches_eq_spec_partial (f d : Val) (h : inD f d = true) :
    filterApplies f d = specMatches f d :=
  Proofs.C01.matches_eq_spec f d h

/-- D is inhabited by non-trivial pairs: a nested connective, a dotted path through an array of
    sub-documents, an ordering operator, `$in`, `$not`. -/
example : inD
    (.doc [("$or", .arr [.doc [("a.b", .doc [("$gt", .int 2)])],
                         .doc [("c", .doc [("$not", .doc [("$in", .arr [.str "x", .null])])])]]),
           ("d", .int 5)])
    (.doc [("a", .arr [.doc [("b", .int 3)], .doc [("b", .int 7)]]), ("c", .str "y"), ("d", .int 5)])
    = true := by decide +kernel

/-! ### Laws that hold for every input (no domain hypothesis) -/

/-- `$ne` holds exactly when `$eq` does not — for every key, operand and document. -/
theorem ne_eq_not_eq (key : String) (v d : Val) :
    applyKey (.doc [("$ne", v)]) key d = (applyKey (.doc [("$eq", v)]) key d).map (!·) :=
  Proofs.C01.ne_eq_not_eq key v d

/-- `$nin` holds exactly when `$in` does not (and raises exactly when `$in` raises). -/
theorem nin_eq_not_in (key : String) (v d : Val) :
    applyKey (.doc [("$nin", v)]) key d = (applyKey (.doc [("$in", v)]) key d).map (!·) :=
  Proofs.C01.nin_eq_not_in key v d

/-- `$not` is the negation of its operand condition whenever the path reaches something. -/
theorem not_eq_neg (key : String) (gs : Fields) (d : Val) (cs : List (Option Val))
    (hc : candsKey key d = .ok cs) (hne : cs ≠ [])
    (hk : gs.all (fun kv => operatorMapKeys.contains kv.1 || logicalKeys.contains kv.1) = true) :
    applyKey (.doc [("$not", .doc gs)]) key d = (applyKey (.doc gs) key d).map (!·) :=
  Proofs.C01.not_eq_neg key gs d cs hc hne hk

/-- Ordering operators never relate values of different BSON type classes. -/
theorem cmp_bracketed (op : CmpOp) (a b : Val) (h : a.tc ≠ b.tc) :
    bsonCompare op a b false = .ok false := by
  simp [bsonCompare, h]

/-- `$and` is conjunction, `$or` disjunction, `$nor` negated disjunction of the sub-filters
    (stated on sub-filters that do not raise). -/
theorem and_is_conj (qs : List Val) (d : Val) (bs : List Bool)
    (h : qs.map (applyVal · d) = bs.map .ok) : allApply qs d = .ok (bs.all id) :=
  Proofs.C01.and_is_conj qs d bs h

theorem or_is_disj (qs : List Val) (d : Val) (bs : List Bool)
    (h : qs.map (applyVal · d) = bs.map .ok) : anyApply qs d = .ok (bs.any id) :=
  Proofs.C01.or_is_disj qs d bs h

theorem nor_is_neg_disj (qs : List Val) (d : Val) (bs : List Bool)
    (h : qs.map (applyVal · d) = bs.map .ok) : norApply qs d = .ok (!(bs.any id)) :=
  Proofs.C01.nor_is_neg_disj qs d bs h

/-- Equality to null also matches a missing field. -/
theorem null_eq_missing (key : String) (d : Val) (h : candsKey key d = .ok [none]) :
    applyKey .null key d = .ok true :=
  Proofs.C01.null_eq_missing key d h

end MongoModel.Props.C01
