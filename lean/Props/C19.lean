/-
  C19 — a collection can be used from several threads without deadlock or corruption.

  Objects: `RWLock.step` is the interpreter of N threads running flat code compiled from lists of
  `CollectionStore` method calls (`MongoModel/RWLock.lean`); `pstep` is the lock protocol on its
  own with most-general clients (`MongoModel/RWLockProto.lean`); `Generated.protocol` and
  `Generated.discipline` are REGENERATED from mongomock/thread.py and mongomock/store.py by
  tracing on every check.  Statements only; proofs are in `Proofs/C19*.lean`.
-/
import Proofs.C19Main
namespace MongoModel.Props.C19
open MongoModel.RWLock MongoModel.Generated

/-! ## tie to the code: what the translators produced is the reference protocol / discipline -/

theorem protocol_is_reference : Generated.protocol = referenceProtocol := by decide

theorem discipline_is_reference : Generated.discipline = referenceDiscipline := by decide

/-! ## (b) kernel-checked closed sets for the regenerated protocol, N = 2 and 3 -/

/-- the certificate for 2 threads contains the initial state, is closed under every action of
    every thread and contains no bad and no deadlocked state (evaluated by the kernel) -/
theorem cert_2_checked : pcheckCert Generated.protocol C2 2 = true := cert2_ok

theorem cert_3_checked : pcheckCert Generated.protocol C3 3 = true := cert3_ok

/-- a checked certificate covers every execution of any length: no reachable state of the
    protocol machine is bad (exclusion violated, failing release, lock leaked) or deadlocked -/
theorem closed_set_sound (P : Protocol) (C : Cert) (n : Nat) (h : pcheckCert P C n = true) :
    ∀ s, PReach P n s → pbad P s = false ∧ pdeadlocked P s = false :=
  closed_set_sound' h

example : pcheckCert Generated.protocol C2 2 = true := cert_2_checked

theorem protocol_safe_2 : PGood Generated.protocol 2 := pgood_of_cert cert_2_checked
theorem protocol_safe_3 : PGood Generated.protocol 3 := pgood_of_cert cert_3_checked

/-! ## from the protocol machine to programs -/

/-- for code whose phase tags are a correct account of the protocol (`conformant`, decidable) the
    projection of every reachable state of the interpreter is reachable for the protocol machine -/
theorem refinement (P : Protocol) (cfg : Cfg) (hc : cfg.conformant P = true) :
    ∀ s, Reach cfg s → PReach P cfg.codes.length (proj cfg s) := sim hc

/-- three threads: `_documents` iteration with a throwing consumer, a write, a failing read -/
def sampleScenario : Scenario :=
  { docs0 := [0, 1], idx0 := [], ttl0 := [], expired := [0],
    progs := [[{ m := .documents, throwAt := 1 }], [{ m := .setItem, key := 2 }],
              [{ m := .getItem, key := 2 }, { m := .expireDocuments }]] }

def sampleCfg : Cfg := mkCfg Generated.protocol Generated.discipline sampleScenario

theorem sample_ok : sampleCfg.conformant Generated.protocol = true ∧ sampleCfg.disciplined = true ∧
    sampleCfg.ttlFrozen = true ∧ sampleCfg.codes.length = 3 := by decide +kernel

example : ∃ cfg : Cfg, cfg.conformant Generated.protocol = true := ⟨sampleCfg, sample_ok.1⟩

/-- every single store-method call compiles (with the regenerated protocol and discipline) to
    conformant, disciplined code — complete table over the twelve methods -/
def allMethods : List Method :=
  [.contains, .getItem, .setItem, .delItem, .len, .documents, .isEmpty, .expireDocuments,
   .removeExpired, .createIndex, .createIndexTtl, .dropIndex]

theorem store_methods_conformant :
    allMethods.all (fun m =>
      let code := compile Generated.protocol Generated.discipline [{ m := m, key := 1, throwAt := 1 }]
      conformant Generated.protocol code && docsGuarded code && docsIterScoped code &&
        noNestedDel code) = true := by decide +kernel

/-- N = 2 or 3 threads, ANY conformant programs: no exclusion violation (two writers, or a writer
    with a reader, inside), no lock still held / counter non-zero once all threads are outside
    their sections (in particular after sections that ended with a raise), no deadlock, no failing
    lock release -/
theorem released_and_deadlock_free (cfg : Cfg) (hc : cfg.conformant Generated.protocol = true)
    (hn : cfg.codes.length = 2 ∨ cfg.codes.length = 3) (s : State) (hr : Reach cfg s) :
    exclusionViolated cfg s = false ∧ leaked cfg s = false ∧ deadlocked cfg s = false ∧
      noLockFault s := by
  rcases hn with h | h
  · exact program_safe hc (h ▸ protocol_safe_2) s hr
  · exact program_safe hc (h ▸ protocol_safe_3) s hr

example : sampleCfg.conformant Generated.protocol = true ∧
    (sampleCfg.codes.length = 2 ∨ sampleCfg.codes.length = 3) := ⟨sample_ok.1, Or.inr sample_ok.2.2.2⟩

/-! ## the property, full strength and what holds -/

/-- full statement: every reachable state of every (≤ 3 thread) program over the store methods
    is free of exclusion violations, internal errors, leaked locks and deadlock -/
def thread_safe_full : Prop :=
  ∀ sc : Scenario, sc.progs.length = 2 ∨ sc.progs.length = 3 →
    ∀ s, Reach (mkCfg Generated.protocol Generated.discipline sc) s →
      bad [] (mkCfg Generated.protocol Generated.discipline sc) s = false ∧
      deadlocked (mkCfg Generated.protocol Generated.discipline sc) s = false

/-- KNOWN FINDING `ttl-index-race`: `_ttl_indexes` is iterated and mutated outside any lock
    section; thread 0 is inside `_remove_expired_documents` of `1 in store` when thread 1 creates
    a second TTL index, and thread 0's next `next()` raises "dictionary changed size" -/
def ttlRaceScenario : Scenario :=
  { docs0 := [0, 1], idx0 := [], ttl0 := [0], expired := [0],
    progs := [[{ m := .contains, key := 1 }], [{ m := .createIndexTtl, key := 1 }]] }

def ttlRaceSchedule : List Nat :=
  [0, 0, 1, 1, 0, 0, 0, 0, 0, 0, 0, 0, 0, 0, 0, 0, 0, 0, 0, 0, 0, 0, 0, 0, 0, 0, 0, 0, 0, 0, 0, 0,
   0, 0, 0]

theorem ttl_race_witness :
    (match runSched (mkCfg Generated.protocol Generated.discipline ttlRaceScenario)
        (initState (mkCfg Generated.protocol Generated.discipline ttlRaceScenario))
        ttlRaceSchedule with
     | some s => faulted [] s
     | none => false) = true := by decide +kernel

theorem thread_safe_full_fails : ¬ thread_safe_full := by
  intro h
  have hw := ttl_race_witness
  split at hw
  · rename_i s hs
    have hr := reach_run ttlRaceSchedule _ s Reach.init hs
    have := (h ttlRaceScenario (Or.inl rfl) s hr).1
    simp only [bad, Bool.or_eq_false_iff] at this
    rw [this.1.2] at hw
    exact Bool.false_ne_true hw
  · exact Bool.false_ne_true hw

/-- what holds: exclusion class `ttl-index-race` removed (`ttlFrozen`: no thread creates a TTL
    index or drops an index), programs conformant and disciplined (decidable; true of all code
    compiled from the regenerated discipline, see `store_methods_conformant`) -/
theorem thread_safe_partial (cfg : Cfg) (hc : cfg.conformant Generated.protocol = true)
    (hd : cfg.disciplined = true) (hfz : cfg.ttlFrozen = true)
    (hn : cfg.codes.length = 2 ∨ cfg.codes.length = 3) (s : State) (hr : Reach cfg s) :
    bad [] cfg s = false ∧ deadlocked cfg s = false := by
  rcases hn with h | h
  · exact program_correct hc (h ▸ protocol_safe_2) hd hfz s hr
  · exact program_correct hc (h ▸ protocol_safe_3) hd hfz s hr

example : sampleCfg.conformant Generated.protocol = true ∧ sampleCfg.disciplined = true ∧
    sampleCfg.ttlFrozen = true ∧ (sampleCfg.codes.length = 2 ∨ sampleCfg.codes.length = 3) :=
  ⟨sample_ok.1, sample_ok.2.1, sample_ok.2.2.1, Or.inr sample_ok.2.2.2⟩

/-! ## (a) the reference protocol, ANY number of threads -/

/-- `mutex_inv`: in every reachable state of the protocol machine, for any number of threads, the
    counters and the holders of the five locks are determined by the positions of the threads
    (see `MutexInv`: e.g. `rc` = number of threads between the increment and the decrement of
    the read switch; `no_writers` is held iff a writer is inside or some reader is past the
    switch) -/
theorem mutex_inv (n : Nat) (s : PState) (hr : PReach referenceProtocol n s) : MutexInv s :=
  mutexInv_reach s hr

/-- at most one writer is inside its section -/
theorem writers_exclusive (n : Nat) (s : PState) (hr : PReach referenceProtocol n s) :
    s.pos.countP isWBody ≤ 1 := by
  rw [countP_isWBody]; exact (inv_exclusion (mutexInv_reach s hr)).1

/-- a writer inside excludes every reader -/
theorem writer_excludes_readers (n : Nat) (s : PState) (hr : PReach referenceProtocol n s)
    (hw : 1 ≤ s.pos.countP isWBody) : s.pos.countP (· == Phase.body false) = 0 := by
  rw [countP_isWBody] at hw
  have := (inv_exclusion (mutexInv_reach s hr)).2 hw
  have hc : s.pos.countP (· == Phase.body false) ≤ cnt s.pos .rb := by
    unfold cnt
    apply List.countP_mono_left
    intro p _ hp
    simp only [beq_iff_eq] at hp
    subst hp; rfl
  omega

example : ∃ s, PReach referenceProtocol 2 s ∧ 1 ≤ s.pos.countP isWBody :=
  ⟨_, reach_prun [(0, .begin true), (0, .op), (0, .op), (0, .op), (0, .op), (0, .op)] _ _
      PReach.init rfl, by decide⟩

/-- concurrent readers are admitted together: a state with two readers inside is reachable -/
theorem readers_admitted_together :
    ∃ s, PReach referenceProtocol 2 s ∧ s.pos = [Phase.body false, Phase.body false] := by
  have h := two_readers_inside
  cases hs : prun referenceProtocol (pinit 2) twoReaders with
  | none => rw [hs] at h; simp at h
  | some s =>
    rw [hs] at h
    exact ⟨s, reach_prun twoReaders _ s PReach.init hs, by simpa using h⟩

/-- the lock is released when the guarded operation raises: the release executed after a raise
    is the release executed normally, and whenever all threads are outside their sections —
    however those ended — every lock is free and both counters are zero -/
theorem released_on_raise :
    (referenceProtocol.rRelRaise = referenceProtocol.rRel ∧
     referenceProtocol.wRelRaise = referenceProtocol.wRel) ∧
    ∀ (n : Nat) (s : PState), PReach referenceProtocol n s → s.pos.all (· == .out) = true →
      s.lk.free = true := by
  refine ⟨⟨rfl, rfl⟩, fun n s hr hall => ?_⟩
  have := inv_not_leaked (mutexInv_reach s hr)
  simp only [pleaked, hall, Bool.true_and, Bool.not_eq_false'] at this
  exact this

/-- no deadlock, no failing release, for ANY number of threads (hand proof from `mutex_inv`) -/
theorem reference_protocol_good (n : Nat) : PGood referenceProtocol n := reference_good n

/-- the property for ANY number of threads: since the regenerated protocol is the reference
    protocol, every conformant, disciplined program that leaves `_ttl_indexes` alone has no bad and
    no deadlocked reachable state -/
theorem thread_safe_partial_any_n (cfg : Cfg) (hc : cfg.conformant Generated.protocol = true)
    (hd : cfg.disciplined = true) (hfz : cfg.ttlFrozen = true) (s : State) (hr : Reach cfg s) :
    bad [] cfg s = false ∧ deadlocked cfg s = false :=
  program_correct hc (protocol_is_reference ▸ reference_good _) hd hfz s hr

example : sampleCfg.conformant Generated.protocol = true ∧ sampleCfg.disciplined = true ∧
    sampleCfg.ttlFrozen = true := ⟨sample_ok.1, sample_ok.2.1, sample_ok.2.2.1⟩

/-! ## (c) a reader sees one state -/

/-- while a thread is inside a reader section (e.g. iterating `documents`), no step of any thread
    changes `_documents` — corollary of exclusion and the discipline -/
theorem snapshot_iteration (cfg : Cfg) (hc : cfg.conformant Generated.protocol = true)
    (hd : cfg.disciplined = true) (hn : cfg.codes.length = 2 ∨ cfg.codes.length = 3)
    (s s' : State) (t u : Nat) (hr : Reach cfg s) (hu : insideR cfg s u = true)
    (h : step cfg s t = some s') : s'.sh.docs = s.sh.docs := by
  rcases hn with hl | hl
  · exact snapshot hc (hl ▸ protocol_safe_2) hd hr hu h
  · exact snapshot hc (hl ▸ protocol_safe_3) hd hr hu h

end MongoModel.Props.C19
