/-
  C19 — a collection can be used from several threads without deadlock or corruption.

  Objects: `RWLock.step` is the interpreter of N threads running flat code compiled from lists of
  `CollectionStore` method calls (`MongoModel/RWLock.lean`); `pstep` is the lock protocol on its
  own with most-general clients (`MongoModel/RWLockProto.lean`); `Generated.protocol` and
  `Generated.discipline` are REGENERATED from mongomock/thread.py and mongomock/store.py by
  tracing on every check.  Statements only; proofs are in `Proofs/C19*.lean`.
-/
import Proofs.C19Raise
namespace MongoModel.Props.C19
open MongoModel.RWLock MongoModel.Generated

/-! ## tie to the code: what the translators produced is the reference protocol / discipline -/

theorem protocol_is_reference : Generated.protocol = referenceProtocol := by decide

theorem discipline_is_reference : Generated.discipline = referenceDiscipline := by decide

/-! ## (b) kernel-checked closed sets for the regenerated protocol, N = 2 and 3 -/

/-- the certificate for 2 threads contains the initial state, is closed under every action of
    every thread and contains no bad and no deadlocked state (evaluated by the kernel) -/
theorem cert_2_checked : pcheckCert Generated.protocol C2 2 = true := cert2_ok

theorem cert_3_checked : pcheckCert Generated.protocol C3 3 = true := cert3_ok

/-- a checked certificate covers every execution of any length: no reachable state of the
    protocol machine is bad (exclusion violated, failing release, lock leaked) or deadlocked -/
theorem closed_set_sound (P : Protocol) (C : Cert) (n : Nat) (h : pcheckCert P C n = true) :
    ∀ s, PReach P n s → pbad P s = false ∧ pdeadlocked P s = false :=
  closed_set_sound' h

example : pcheckCert Generated.protocol C2 2 = true := cert_2_checked

theorem protocol_safe_2 : PGood Generated.protocol 2 := pgood_of_cert cert_2_checked
theorem protocol_safe_3 : PGood Generated.protocol 3 := pgood_of_cert cert_3_checked

/-! ## from the protocol machine to programs -/

/-- for code whose phase tags are a correct account of the protocol (`conformant`, decidable) the
    projection of every reachable state of the interpreter is reachable for the protocol machine -/
theorem refinement (P : Protocol) (cfg : Cfg) (hc : cfg.conformant P = true) :
    ∀ s, Reach cfg s → PReach P cfg.codes.length (proj cfg s) := sim hc

/-- three threads: `_documents` iteration with a throwing consumer; a write and the creation of a
    TTL index; a failing read, an expiry pass and the drop of a TTL index -/
def sampleScenario : Scenario :=
  { docs0 := [0, 1], idx0 := [0], ttl0 := [0], expired := [0],
    progs := [[{ m := .documents, throwAt := 1 }],
              [{ m := .setItem, key := 2 }, { m := .createIndexTtl, key := 1 }],
              [{ m := .getItem, key := 2 }, { m := .expireDocuments }, { m := .dropIndex, key := 0 }]] }

def sampleCfg : Cfg := mkCfg Generated.protocol Generated.discipline sampleScenario

theorem sample_ok : sampleCfg.conformant Generated.protocol = true ∧ sampleCfg.disciplined = true ∧
    sampleCfg.mutatesTtl = true ∧ sampleCfg.walksTtl = true ∧ sampleCfg.codes.length = 3 := by
  decide +kernel

example : ∃ cfg : Cfg, cfg.conformant Generated.protocol = true := ⟨sampleCfg, sample_ok.1⟩

/-- every single store-method call compiles (with the regenerated protocol and discipline) to
    conformant, disciplined code — complete table over the thirteen methods -/
def allMethods : List Method :=
  [.contains, .getItem, .setItem, .delItem, .discard, .len, .documents, .isEmpty, .expireDocuments,
   .removeExpired, .createIndex, .createIndexTtl, .dropIndex]

theorem store_methods_conformant :
    allMethods.all (fun m =>
      let code := compile Generated.protocol Generated.discipline [{ m := m, key := 1, throwAt := 1 }]
      conformant Generated.protocol code && docsGuarded code && docsIterScoped code &&
        noNestedDel code && ttlIterSnapshotted code) = true := by decide +kernel

/-- N = 2 or 3 threads, ANY conformant programs: no exclusion violation (two writers, or a writer
    with a reader, inside), no lock still held / counter non-zero once all threads are outside
    their sections (in particular after sections that ended with a raise), no deadlock, no failing
    lock release -/
theorem released_and_deadlock_free (cfg : Cfg) (hc : cfg.conformant Generated.protocol = true)
    (hn : cfg.codes.length = 2 ∨ cfg.codes.length = 3) (s : State) (hr : Reach cfg s) :
    exclusionViolated cfg s = false ∧ leaked cfg s = false ∧ deadlocked cfg s = false ∧
      noLockFault s := by
  rcases hn with h | h
  · exact program_safe hc (h ▸ protocol_safe_2) s hr
  · exact program_safe hc (h ▸ protocol_safe_3) s hr

example : sampleCfg.conformant Generated.protocol = true ∧
    (sampleCfg.codes.length = 2 ∨ sampleCfg.codes.length = 3) :=
  ⟨sample_ok.1, Or.inr sample_ok.2.2.2.2⟩

/-! ## the property -/

/-- N = 2 or 3 threads, ANY programs — reads, writes, expiry passes, creation of (TTL) indexes,
    index drops — whose compiled code is conformant and disciplined (decidable; true of all code
    compiled from the regenerated discipline, see `store_methods_conformant`; recomputed by the
    driver for every generated scenario): no reachable state has an exclusion violation, an
    internal error of any kind (`faulted []`: changed-size / mutated-during-iteration errors,
    a key vanished under the expiry pass, a failing lock release), or a leaked lock, and none is
    deadlocked.  There is no exclusion class any more: the former hypothesis `ttlFrozen` (no thread
    creates a TTL index or drops an index; known finding `ttl-index-race`, repaired) is gone. -/
theorem thread_safe (cfg : Cfg) (hc : cfg.conformant Generated.protocol = true)
    (hd : cfg.disciplined = true)
    (hn : cfg.codes.length = 2 ∨ cfg.codes.length = 3) (s : State) (hr : Reach cfg s) :
    bad [] cfg s = false ∧ deadlocked cfg s = false := by
  rcases hn with h | h
  · exact program_correct hc (h ▸ protocol_safe_2) hd s hr
  · exact program_correct hc (h ▸ protocol_safe_3) hd s hr

/-- the hypotheses are satisfied by a program that creates a TTL index, drops a TTL index and runs
    expiry passes concurrently -/
example : sampleCfg.conformant Generated.protocol = true ∧ sampleCfg.disciplined = true ∧
    sampleCfg.mutatesTtl = true ∧ sampleCfg.walksTtl = true ∧
    (sampleCfg.codes.length = 2 ∨ sampleCfg.codes.length = 3) :=
  ⟨sample_ok.1, sample_ok.2.1, sample_ok.2.2.1, sample_ok.2.2.2.1, Or.inr sample_ok.2.2.2.2⟩

/-! ### the finding `ttl-index-race` (fixed): what the discipline of store.py was before

  `_remove_expired_documents` iterated the live `_ttl_indexes` dict, which `create_index` /
  `drop_index` change outside every section.  The schedule that made the unrepaired code raise
  "dictionary changed size during iteration" still does so in the model of the UNREPAIRED
  discipline (`unrepairedDiscipline`), and the same scenario compiled from the regenerated
  discipline satisfies the hypotheses of `thread_safe`. -/

/-- thread 0 is inside `_remove_expired_documents` of `1 in store` when thread 1 creates a second
    TTL index -/
def ttlRaceScenario : Scenario :=
  { docs0 := [0, 1], idx0 := [], ttl0 := [0], expired := [0],
    progs := [[{ m := .contains, key := 1 }], [{ m := .createIndexTtl, key := 1 }]] }

def ttlRaceSchedule : List Nat :=
  [0, 0, 1, 1, 0, 0, 0, 0, 0, 0, 0, 0, 0, 0, 0, 0, 0, 0, 0, 0, 0, 0, 0, 0, 0, 0, 0, 0, 0, 0, 0, 0,
   0, 0, 0]

def unrepairedCfg : Cfg := mkCfg Generated.protocol unrepairedDiscipline ttlRaceScenario

/-- under the OLD discipline thread 0's next `next()` on the dict iterator raises -/
theorem unrepaired_ttl_race :
    (match runSched unrepairedCfg (initState unrepairedCfg) ttlRaceSchedule with
     | some s => faulted [] s
     | none => false) = true := by decide +kernel

/-- hence the property fails for the old discipline: a reachable state with an internal error -/
theorem unrepaired_not_thread_safe : ∃ s, Reach unrepairedCfg s ∧ bad [] unrepairedCfg s = true := by
  have hw := unrepaired_ttl_race
  split at hw
  · rename_i s hs
    exact ⟨s, reach_run ttlRaceSchedule _ s Reach.init hs, by simp [bad, hw]⟩
  · exact absurd hw Bool.false_ne_true

/-- and `thread_safe` does not apply to it: the old code is conformant to the lock protocol but
    not disciplined (it iterates the live `_ttl_indexes`) -/
theorem unrepaired_not_disciplined :
    unrepairedCfg.conformant Generated.protocol = true ∧ unrepairedCfg.disciplined = false := by
  decide +kernel

/-- the same scenario compiled from the regenerated (repaired) discipline: the hypotheses of
    `thread_safe` hold, so NO schedule leads to an error; in particular the old one does not -/
def repairedCfg : Cfg := mkCfg Generated.protocol Generated.discipline ttlRaceScenario

theorem repaired_ok : repairedCfg.conformant Generated.protocol = true ∧
    repairedCfg.disciplined = true ∧ repairedCfg.mutatesTtl = true ∧
    repairedCfg.walksTtl = true ∧ repairedCfg.codes.length = 2 := by decide +kernel

theorem repaired_ttl_race_gone (s : State) (hr : Reach repairedCfg s) :
    bad [] repairedCfg s = false ∧ deadlocked repairedCfg s = false :=
  thread_safe repairedCfg repaired_ok.1 repaired_ok.2.1 (Or.inl repaired_ok.2.2.2.2) s hr

/-! ## (a) the reference protocol, ANY number of threads -/

/-- `mutex_inv`: in every reachable state of the protocol machine, for any number of threads, the
    counters and the holders of the five locks are determined by the positions of the threads
    (see `MutexInv`: e.g. `rc` = number of threads between the increment and the decrement of
    the read switch; `no_writers` is held iff a writer is inside or some reader is past the
    switch) -/
theorem mutex_inv (n : Nat) (s : PState) (hr : PReach referenceProtocol n s) : MutexInv s :=
  mutexInv_reach s hr

/-- at most one writer is inside its section -/
theorem writers_exclusive (n : Nat) (s : PState) (hr : PReach referenceProtocol n s) :
    s.pos.countP isWBody ≤ 1 := by
  rw [countP_isWBody]; exact (inv_exclusion (mutexInv_reach s hr)).1

/-- a writer inside excludes every reader -/
theorem writer_excludes_readers (n : Nat) (s : PState) (hr : PReach referenceProtocol n s)
    (hw : 1 ≤ s.pos.countP isWBody) : s.pos.countP (· == Phase.body false) = 0 := by
  rw [countP_isWBody] at hw
  have := (inv_exclusion (mutexInv_reach s hr)).2 hw
  have hc : s.pos.countP (· == Phase.body false) ≤ cnt s.pos .rb := by
    unfold cnt
    apply List.countP_mono_left
    intro p _ hp
    simp only [beq_iff_eq] at hp
    subst hp; rfl
  omega

example : ∃ s, PReach referenceProtocol 2 s ∧ 1 ≤ s.pos.countP isWBody :=
  ⟨_, reach_prun [(0, .begin true), (0, .op), (0, .op), (0, .op), (0, .op), (0, .op)] _ _
      PReach.init rfl, by decide⟩

/-- concurrent readers are admitted together: a state with two readers inside is reachable -/
theorem readers_admitted_together :
    ∃ s, PReach referenceProtocol 2 s ∧ s.pos = [Phase.body false, Phase.body false] := by
  have h := two_readers_inside
  cases hs : prun referenceProtocol (pinit 2) twoReaders with
  | none => rw [hs] at h; simp at h
  | some s =>
    rw [hs] at h
    exact ⟨s, reach_prun twoReaders _ s PReach.init hs, by simpa using h⟩

/-- the lock is released when the guarded operation raises: the release executed after a raise
    is the release executed normally, and whenever all threads are outside their sections —
    however those ended — every lock is free and both counters are zero -/
theorem released_on_raise :
    (referenceProtocol.rRelRaise = referenceProtocol.rRel ∧
     referenceProtocol.wRelRaise = referenceProtocol.wRel) ∧
    ∀ (n : Nat) (s : PState), PReach referenceProtocol n s → s.pos.all (· == .out) = true →
      s.lk.free = true := by
  refine ⟨⟨rfl, rfl⟩, fun n s hr hall => ?_⟩
  have := inv_not_leaked (mutexInv_reach s hr)
  simp only [pleaked, hall, Bool.true_and, Bool.not_eq_false'] at this
  exact this

/-- no deadlock, no failing release, for ANY number of threads (hand proof from `mutex_inv`) -/
theorem reference_protocol_good (n : Nat) : PGood referenceProtocol n := reference_good n

/-- the property for ANY number of threads: since the regenerated protocol is the reference
    protocol, every conformant, disciplined program — TTL index creation and index drops
    included — has no bad and no deadlocked reachable state -/
theorem thread_safe_any_n (cfg : Cfg) (hc : cfg.conformant Generated.protocol = true)
    (hd : cfg.disciplined = true) (s : State) (hr : Reach cfg s) :
    bad [] cfg s = false ∧ deadlocked cfg s = false :=
  program_correct hc (protocol_is_reference ▸ reference_good _) hd s hr

example : sampleCfg.conformant Generated.protocol = true ∧ sampleCfg.disciplined = true ∧
    sampleCfg.mutatesTtl = true := ⟨sample_ok.1, sample_ok.2.1, sample_ok.2.2.1⟩

/-! ## (d) what raises: only what the source says; removing a document with `discard` never fails

  `Collection._delete` used to remove the documents it had read with `del self._store[doc_id]`
  (store method `__delitem__`): a second deleter — another `delete_one` / `delete_many`, a TTL
  expiry pass — in between made it raise `KeyError(doc_id)` (finding `concurrent-delete-keyerror`,
  repaired in a0040b0).  It now calls `discard`, whose body is `d.pop(key, None)` inside a writer
  section. -/

/-- `d.pop(key, None)` — the body of `discard` and of the expiry pass — never raises and records
    no error, in any state, whoever removed the key before -/
theorem pop_never_raises (cfg : Cfg) (code : Code) (sh : Shared) (th : Thread) (d : Dict) (k : Key) :
    ∃ e, dictOp cfg code sh th (.popItem d k) = some e ∧ e.raised = none ∧ e.th.fault = th.fault :=
  popItem_never_raises cfg code sh th d k

/-- ANY number of threads, any conformant and disciplined programs: an exception raised by an
    action of a reachable state is raised by an instruction that declares it — `d[key]` /
    `del d[key]` on a key that is not there (`KeyError`), or the consumer of `documents` throwing
    into the generator.  No "changed size" / "mutated during iteration" error, no failing release,
    and no `KeyError` from a `pop` -/
theorem raises_only_where_declared (cfg : Cfg) (hc : cfg.conformant Generated.protocol = true)
    (hd : cfg.disciplined = true) (s : State) (hr : Reach cfg s) (t : Nat) (x : Exc)
    (h : stepRaised cfg s t = some x) :
    ∃ th ins, s.ths[t]? = some th ∧ (cfg.code t)[th.pc]? = some ins ∧
      declaredRaise ins.op x = true :=
  raises_declared hc (protocol_is_reference ▸ reference_good _) hd s hr t x h

/-- ANY number of deleters (and scanners, inserters, expiry passes): when no thread reads `d[key]`
    or does `del d[key]` (`Cfg.noKeyedAccess`: scans, membership tests, lengths, inserts,
    `discard`s, expiry passes, index creation) — documents are removed through `discard` only —
    no interleaving makes any action raise `KeyError` or an internal error: the only exception
    there can be is the one a consumer throws into its own scan -/
theorem deleters_never_fail (cfg : Cfg) (hc : cfg.conformant Generated.protocol = true)
    (hd : cfg.disciplined = true) (hq : cfg.noKeyedAccess = true) (s : State) (hr : Reach cfg s)
    (t : Nat) : stepRaised cfg s t = none ∨ stepRaised cfg s t = some .thrown :=
  no_keyed_access_quiet hc (protocol_is_reference ▸ reference_good _) hd hq s hr t

/-- the store-level programs of three concurrent `delete_one({'_id': 2})` … as repaired: each
    scans the collection and then discards document 2; a TTL expiry pass that removes the same
    document runs next to them -/
def deleteRaceScenario : Scenario :=
  { docs0 := [1, 2], idx0 := [0], ttl0 := [0], expired := [2],
    progs := [[{ m := .documents }, { m := .discard, key := 2 }],
              [{ m := .documents }, { m := .discard, key := 2 }],
              [{ m := .expireDocuments }]] }

def deleteRaceCfg : Cfg := mkCfg Generated.protocol Generated.discipline deleteRaceScenario

theorem delete_race_ok : deleteRaceCfg.conformant Generated.protocol = true ∧
    deleteRaceCfg.disciplined = true ∧ deleteRaceCfg.noKeyedAccess = true ∧
    deleteRaceCfg.codes.length = 3 := by decide +kernel

/-- so NO schedule of the three makes anybody fail, and nothing is bad or deadlocked -/
theorem repaired_delete_race_gone (s : State) (hr : Reach deleteRaceCfg s) (t : Nat) :
    (stepRaised deleteRaceCfg s t = none ∨ stepRaised deleteRaceCfg s t = some .thrown) ∧
      bad [] deleteRaceCfg s = false ∧ deadlocked deleteRaceCfg s = false :=
  ⟨deleters_never_fail _ delete_race_ok.1 delete_race_ok.2.1 delete_race_ok.2.2.1 s hr t,
   thread_safe_any_n _ delete_race_ok.1 delete_race_ok.2.1 s hr⟩

/-- what `_delete` did before: scan, then `del store[2]` -/
def unrepairedDeleteScenario : Scenario :=
  { docs0 := [1, 2], idx0 := [], ttl0 := [], expired := [],
    progs := [[{ m := .documents }, { m := .delItem, key := 2 }],
              [{ m := .documents }, { m := .delItem, key := 2 }]] }

def unrepairedDeleteCfg : Cfg :=
  mkCfg Generated.protocol Generated.discipline unrepairedDeleteScenario

/-- both threads scan (23 actions each), thread 0 deletes (12 actions), thread 1 reaches its
    `del` (5 actions) -/
def deleteRaceSchedule : List Nat :=
  List.replicate 23 0 ++ List.replicate 23 1 ++ List.replicate 12 0 ++ List.replicate 5 1

/-- … and thread 1's `del` raises `KeyError`: the key vanished between its scan and its delete.
    (The code is conformant and disciplined: `thread_safe` never promised that `del d[key]` finds
    its key — that is why the repair had to be made in `Collection._delete`.) -/
theorem unrepaired_delete_race :
    unrepairedDeleteCfg.conformant Generated.protocol = true ∧
    unrepairedDeleteCfg.disciplined = true ∧ unrepairedDeleteCfg.noKeyedAccess = false ∧
    (match runSched unrepairedDeleteCfg (initState unrepairedDeleteCfg) deleteRaceSchedule with
     | some s => stepRaised unrepairedDeleteCfg s 1 == some .keyError
     | none => false) = true := by decide +kernel

/-! ## (c) a reader sees one state -/

/-- while a thread is inside a reader section (e.g. iterating `documents`), no step of any thread
    changes `_documents` — corollary of exclusion and the discipline -/
theorem snapshot_iteration (cfg : Cfg) (hc : cfg.conformant Generated.protocol = true)
    (hd : cfg.disciplined = true) (hn : cfg.codes.length = 2 ∨ cfg.codes.length = 3)
    (s s' : State) (t u : Nat) (hr : Reach cfg s) (hu : insideR cfg s u = true)
    (h : step cfg s t = some s') : s'.sh.docs = s.sh.docs := by
  rcases hn with hl | hl
  · exact snapshot hc (hl ▸ protocol_safe_2) hd hr hu h
  · exact snapshot hc (hl ▸ protocol_safe_3) hd hr hu h

end MongoModel.Props.C19
