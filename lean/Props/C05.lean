/-
  Props.C05 — `_id` is a primary key: unique, generated when absent, immutable.
  Statements only; proofs in Proofs/C05*.lean.  The model is `MongoModel.step` (Ops.lean),
  tied to mongomock by the history correspondence of harness/props/c05.py.

  DOMAIN.  The model's value universe `Val` contains association lists with duplicate keys
  (`.doc [("a", 1), ("a", 2)]`), which no Python `dict` can be; on those, Python `==` as modelled
  (`pyEq`) is neither reflexive nor symmetric, and the invariant genuinely fails
  (`step_inv_full_fails`, `reachable_inv_full_fails`, `id_immutable_full_fails`).  The invariant
  theorems are therefore `_partial`: they assume `GoodColl` (Spec/StoreInv.lean) of the states
  involved.  `GoodColl` holds for scalar, empty and single-field embedded `_id`s with dict-shaped
  stored documents (`scalar_symm`, `symm_doc_empty`, `symm_doc_single`).  Multi-field embedded
  `_id`s (`{a: 1, b: 2}`) are NOT covered by these theorems: they are covered by the
  correspondence run and the direct oracle only (named scope limit `embedded-id-multifield`).
-/
import Proofs.C05
import Proofs.C05Ext

namespace MongoModel.Props.C05
open MongoModel MongoModel.Spec

/-! ### Python `==` on the value universe -/

/-- Python `==` as modelled is transitive on the WHOLE value universe, duplicate-key association
    lists included (it is reflexivity and symmetry that fail there). -/
theorem pyEq_trans (a b c : Val) (h1 : pyEq a b = true) (h2 : pyEq b c = true) : pyEq a c = true :=
  Proofs.C05Lemmas.pyEq_trans a b c h1 h2

/-- `==` is symmetric on every scalar `_id` (null, bool, numbers, strings, dates, ObjectIds) —
    against every value of the universe, duplicate-key association lists included. -/
theorem scalar_symm (v : Val) (h : isScalar v = true) : SymmVal v := Proofs.C05.scalar_symm v h

/-- `==` is reflexive on every scalar. -/
theorem scalar_refl (v : Val) (h : isScalar v = true) : pyEq v v = true := Proofs.C05.scalar_refl v h

/-- The empty embedded `_id` `{}` is `SymmVal`. -/
theorem symm_doc_empty : SymmVal (.doc []) := Proofs.C05Lemmas.symm_doc_empty

/-- A single-field embedded `_id` `{k: v}` is `SymmVal` when `v` is.  This does NOT extend to two
    fields: `pyEq {a:1, a:1} {a:1, b:2} = true` but `pyEq {a:1, b:2} {a:1, a:1} = false`, because the
    universe contains duplicate-key association lists (no Python dict); hence the scope limit
    `embedded-id-multifield`. -/
theorem symm_doc_single (k : String) (v : Val) (hv : SymmVal v) : SymmVal (.doc [(k, v)]) :=
  Proofs.C05Lemmas.symm_doc_single k v hv

/-- `SymmVal` is closed under `==`: whatever `_id` an update computes from a `SymmVal` one and
    accepts as "unchanged" is `SymmVal` again — the update operators need no hypothesis. -/
theorem symm_closed (a b : Val) (ha : SymmVal a) (h : pyEq a b = true) : SymmVal b :=
  Proofs.C05Lemmas.symm_closed ha h

/-! ### groundwork for the scope limit `embedded-id-multifield`

On hereditarily well-formed values (`wfVal`, Spec/StoreInv.lean: every document at every depth
has pairwise distinct keys — exactly the values Python dicts and lists can be) `==` IS reflexive
and symmetric.  These two lemmas are not used by the theorems above (which would additionally
need `wfVal` to be preserved by every update operator); they are what a later extension of the
domain to multi-field embedded `_id`s needs. -/

/-- `==` is reflexive on well-formed values (duplicate-key association lists excluded). -/
theorem pyEq_refl_wf (v : Val) (h : wfVal v = true) : pyEq v v = true :=
  Proofs.C05Lemmas.pyEq_refl_wf v h

/-- `==` is symmetric between well-formed values (duplicate-key association lists excluded). -/
theorem pyEq_symm_wf (a b : Val) (ha : wfVal a = true) (hb : wfVal b = true) :
    pyEq a b = pyEq b a :=
  Proofs.C05Lemmas.pyEq_symm_wf a b ha hb

/-- `wfVal` accepts a multi-field embedded `_id` and rejects a duplicate-key association list -/
example : wfVal (.doc [("a", .int 1), ("b", .doc [("c", .int 2), ("d", .arr [.doc []])])]) = true ∧
    wfVal (.doc [("a", .int 1), ("b", .doc [("c", .int 2), ("c", .int 3)])]) = false := by
  decide +kernel

/-! ### the invariant -/

/-- The empty collection satisfies the invariant. -/
theorem init_inv : IdInv ({} : Coll) := Proofs.C05.init_inv

/-- The unrestricted statement: every operation preserves the invariant, whatever the values. -/
def step_inv_full : Prop :=
  ∀ (cfg : Cfg) (s : St) (op : Val), IdInv s.c → IdInv (step cfg s op).1.c

/-- The unrestricted statement is FALSE in the model: the value universe contains association
    lists with duplicate keys (no Python dict can be one), and `insert_one {_id: {a:1, a:2}}`
    stores a document under a key that is not `==` to itself. -/
theorem step_inv_full_fails : ¬ step_inv_full := Proofs.C05Cex.step_inv_false

/-- Every operation — successful or rejected, of any kind, at any clock — preserves the
    invariant, PROVIDED the entries before and after are well-behaved (`GoodColl`: `==` symmetric
    and reflexive on the store keys, dict-shaped documents).  Excluded: duplicate-key association
    lists as `_id` (not Python values) and multi-field embedded `_id`s, which are covered by the
    correspondence run and the direct oracle only (scope limit `embedded-id-multifield`). -/
theorem step_inv_partial (cfg : Cfg) (s : St) (op : Val) (h : IdInv s.c)
    (hg : GoodColl s.c) (hg' : GoodColl (step cfg s op).1.c) : IdInv (step cfg s op).1.c :=
  Proofs.C05.step_inv_alt cfg s op h hg hg'

/-- `step_inv_partial` with exactly what is used: `SymmVal` keys and dict-shaped documents
    before the operation, keys `==` to themselves after it.  Same exclusions
    (duplicate-key association lists; scope limit `embedded-id-multifield`). -/
theorem step_inv_fine (cfg : Cfg) (s : St) (op : Val) (h : IdInv s.c)
    (hs : ∀ p ∈ s.c.docs, SymmVal p.1 ∧ ∃ fs, p.2 = .doc fs ∧ (dkeys fs).Nodup)
    (hr : ∀ p ∈ (step cfg s op).1.c.docs, pyEq p.1 p.1 = true) :
    IdInv (step cfg s op).1.c :=
  Proofs.C05.step_inv_fine cfg s op h hs hr

/-- The unrestricted statement: the invariant holds in every reachable state. -/
def reachable_inv_full : Prop := ∀ (cfg : Cfg) (ops : List Val), IdInv (run cfg ops).2.c

/-- The unrestricted statement is FALSE in the model, for the same reason as
    `step_inv_full_fails` (a one-operation history inserting `{_id: {a:1, a:2}}`, a
    duplicate-key association list that no Python dict can be).  Worse histories exist on such
    values: `Proofs.C05Cex.ops3` reaches a state with two documents holding the same `_id`. -/
theorem reachable_inv_full_fails : ¬ reachable_inv_full := Proofs.C05Cex.reachable_inv_false

/-- **In every reachable state** (any history of any length from the empty collection) no two
    store keys are equal and every document sits under its own `_id`, PROVIDED every state along
    the history holds well-behaved entries only (`GoodColl`).  The hypothesis is on the states,
    not the operations, because an upserted document is computed by the update operators.
    Excluded: duplicate-key association lists (not Python values) and multi-field embedded
    `_id`s (correspondence run and direct oracle only; scope limit `embedded-id-multifield`). -/
theorem reachable_inv_partial (cfg : Cfg) (ops : List Val)
    (hg : ∀ n, GoodColl (run cfg (ops.take n)).2.c) : IdInv (run cfg ops).2.c :=
  Proofs.C05.reachable_inv_alt cfg ops hg

/-- For a concrete history the hypothesis of `reachable_inv_partial` can be discharged by
    evaluation: every state along it has scalar store keys and dict-shaped documents (`goodB`;
    this decidable test is narrower than `GoodColl`: it also rejects the empty and single-field
    embedded `_id`s). -/
theorem reachable_inv_check (cfg : Cfg) (ops : List Val)
    (h : (List.range (ops.length + 1)).all
      (fun n => (run cfg (ops.take n)).2.c.docs.all goodB) = true) :
    IdInv (run cfg ops).2.c :=
  Proofs.C05.reachable_inv_check cfg ops h

/-- non-vacuity of `reachable_inv_partial`: inserts (one rejected as a duplicate, `1 == 1.0`; one
    with a generated `_id`), a multi-update, an update that changes the numeric type of an `_id`
    (accepted: `1 == 1.0`), an upsert, a delete -/
example : IdInv (run {} [
    .arr [.str "insert_one", .doc [("_id", .int 1), ("a", .int 1)]],
    .arr [.str "insert_one", .doc [("_id", .dbl 1 0)]],
    .arr [.str "insert_one", .doc [("a", .int 2)]],
    .arr [.str "insert_one", .doc [("_id", .str "k"), ("a", .int 2)]],
    .arr [.str "update_many", .doc [("a", .int 2)], .doc [("$set", .doc [("b", .int 7)])], .bool false],
    .arr [.str "update_one", .doc [("_id", .int 1)], .doc [("$set", .doc [("_id", .dbl 1 0)])], .bool false],
    .arr [.str "update_one", .doc [("_id", .int 5)], .doc [("$set", .doc [("b", .int 1)])], .bool true],
    .arr [.str "delete_one", .doc [("_id", .str "k")]]]).2.c :=
  reachable_inv_check _ _ (by decide +kernel)

/-- Hence no two stored documents have equal `_id`s (for keys on which `==` is symmetric). -/
theorem ids_distinct (c : Coll) (h : IdInv c) (hs : ∀ p ∈ c.docs, SymmVal p.1) :
    c.docs.Pairwise (fun a b => ∀ ia ib, idOf a.2 = some ia → idOf b.2 = some ib →
      pyEq ia ib = false) :=
  Proofs.C05.ids_distinct c h hs

/-- non-vacuity: a reachable state with three documents, one of them with an embedded `_id`,
    after a rejected duplicate insert -/
example : ((run {} [
    .arr [.str "insert_one", .doc [("_id", .int 1), ("a", .int 1)]],
    .arr [.str "insert_one", .doc [("_id", .doc [("k", .int 1)])]],
    .arr [.str "insert_one", .doc [("_id", .dbl 1 0)]],
    .arr [.str "insert_one", .doc [("a", .int 2)]]]).2.c.docs.length) = 3 := by decide +kernel

/-! ### insertion -/

/-- An insert whose `_id` is already a key is rejected with DuplicateKeyError and the collection
    is exactly what the expiry pass alone leaves. -/
theorem dup_rejected (cfg : Cfg) (now : Int) (c c1 : Coll) (fs : Fields) (id : Val)
    (hid : dget "_id" (patchFields fs) = some id) (hk : storeKey id = .ok id)
    (he : expire now c = .ok c1) (hd : c1.hasKey id = true) :
    stepColl cfg now c (.arr [.str "insert_one", .doc fs]) = (c1, .err .dupKey) :=
  Proofs.C05.dup_rejected cfg now c c1 fs id hid hk he hd

/-- A successful insert (no TTL index: expiry is C09's business) appends the document under an
    `_id` that was not a key before; a missing `_id` is the generated one. -/
theorem insert_fresh (now : Int) (c c' : Coll) (d id : Val) (hn : c.ttlIndexes = [])
    (h : insertDoc now c d = .ok (c', id)) :
    c.hasKey id = false ∧ c'.docs = c.docs ++ [(id, patchDT
      (match d with
       | .doc fs => .doc (if dhas "_id" fs then fs else dset "_id" id fs)
       | v => v))] :=
  Proofs.C05.insert_fresh now c c' d id hn h

/-! ### immutability -/

/-- The unrestricted statement: after any update every document is an old one under the same
    key with an `==` `_id`, or the upserted one — for ANY collection and values. -/
def id_immutable_full : Prop :=
  ∀ (cfg : Cfg) (now : Int) (c c' : Coll) (f u : Val) (upsert multi : Bool) (r : R UpdateResult),
    applyUpdateColl cfg now c f u upsert multi = (c', r) →
    ∀ p' ∈ c'.docs,
      (∃ p ∈ c.docs, p.1 = p'.1 ∧ pyEqOpt (idOf p.2) (idOf p'.2) = true) ∨
      (∃ res id, r = .ok res ∧ res.upserted = some id ∧ p'.1 = id)

/-- The unrestricted statement is FALSE in the model: an untouched document whose `_id` is the
    duplicate-key association list `{a:1, a:2}` (no Python dict can be one) has an `_id` that is
    not `==` to itself. -/
theorem id_immutable_full_fails : ¬ id_immutable_full := Proofs.C05Cex.id_immutable_false

/-- **`_id` is immutable**: after any update / replacement / upsert (successful or rejected),
    every document of the collection is either a document that was there before, under the same
    key and with an equal `_id`, or the one document the upsert inserted — PROVIDED the
    collection satisfies the invariant, its store keys are `SymmVal` and its documents are
    dict-shaped.  Excluded: duplicate-key association lists (not Python values) and multi-field
    embedded `_id`s (correspondence run and direct oracle only; scope limit
    `embedded-id-multifield`). -/
theorem id_immutable_partial (cfg : Cfg) (now : Int) (c c' : Coll) (f u : Val) (upsert multi : Bool)
    (r : R UpdateResult) (h : applyUpdateColl cfg now c f u upsert multi = (c', r))
    (hi : IdInv c)
    (hs : ∀ p ∈ c.docs, SymmVal p.1 ∧ ∃ fs, p.2 = .doc fs ∧ (dkeys fs).Nodup) :
    ∀ p' ∈ c'.docs,
      (∃ p ∈ c.docs, p.1 = p'.1 ∧ pyEqOpt (idOf p.2) (idOf p'.2) = true) ∨
      (∃ res id, r = .ok res ∧ res.upserted = some id ∧ p'.1 = id) :=
  Proofs.C05.id_immutable_alt cfg now c c' f u upsert multi r h hi hs

/-! ### the invariant over ALL modelled operations (extended step)

`stepX` / `stepXS` (MongoModel/FindModify.lean) add `find_one`, `find_one_and_update / _replace /
_delete`, `bulk_write` and the bulk builder to the operations of `stepColl`; `runX`
(Spec/HistoryExt.lean) is `run` over `stepXS` — what the correspondence harness drives.  The
theorems below lift `step_inv_partial` / `reachable_inv_partial` to them.  A bulk executes its
requests one after the other: `GoodColl` is asked of the collections BETWEEN the requests as well
(`midColls`: what the bulk made of the first `n` requests leaves, for every `n`), for the reason
it is asked of the states along a history.  The find-and-modify family needs nothing more than a
basic operation does. -/

/-- The unrestricted statement for the extended step. -/
def stepX_inv_full : Prop :=
  ∀ (cfg : Cfg) (now : Int) (c : Coll) (op : Val), IdInv c → IdInv (stepX cfg now c op).1

/-- It is FALSE in the model, for the reason `step_inv_full` is: `bulk_write([InsertOne({_id:
    {a:1, a:2}})])` stores a document under a duplicate-key association list (no Python dict),
    which is not `==` to itself. -/
theorem stepX_inv_full_fails : ¬ stepX_inv_full := Proofs.C05Ext.stepX_inv_false

/-- **Every modelled operation** — the basic ones, `find_one`, `find_one_and_update / _replace /
    _delete` (with or without upsert, sort, projection, `after`), `bulk_write` (ordered or not,
    with failing requests, aborted or not) and a bulk builder executed any number of times —
    preserves the invariant, PROVIDED the entries before, after and — for a bulk — between the
    requests (`midColls`; empty for every other operation, `midColls_not_bulk`) are well-behaved
    (`GoodColl`).  Same exclusions as `step_inv_partial`: duplicate-key association lists as
    `_id` (not Python values), multi-field embedded `_id`s (scope limit
    `embedded-id-multifield`). -/
theorem stepX_inv_partial (cfg : Cfg) (now : Int) (c : Coll) (op : Val) (h : IdInv c)
    (hg : GoodColl c) (hm : ∀ m ∈ midColls cfg now c op, GoodColl m)
    (hg' : GoodColl (stepX cfg now c op).1) : IdInv (stepX cfg now c op).1 :=
  Proofs.C05Ext.stepX_inv_alt cfg now c op h hg hm hg'

/-- … on states with a clock (`stepXS`: `clock` moves the time, every other operation is
    `stepX` at the current time). -/
theorem stepXS_inv_partial (cfg : Cfg) (s : St) (op : Val) (h : IdInv s.c) (hg : GoodColl s.c)
    (hm : ∀ m ∈ midColls cfg s.now s.c op, GoodColl m) (hg' : GoodColl (stepXS cfg s op).1.c) :
    IdInv (stepXS cfg s op).1.c :=
  Proofs.C05Ext.stepXS_inv_alt cfg s op h hg hm hg'

/-- `midColls` is empty unless the operation is a bulk: for `find_one`, the find-and-modify
    family and the basic operations `stepX_inv_partial` has the hypotheses of `step_inv_partial`. -/
theorem midColls_not_bulk (cfg : Cfg) (now : Int) (c : Coll) (op : Val) (h : bulkReqs op = none) :
    midColls cfg now c op = [] :=
  Proofs.C05Ext.midColls_nil cfg now c op h

/-- For a concrete collection and operation the hypotheses of `stepX_inv_partial` can be
    discharged by evaluation (`idInvB` decides `IdInv`; `goodCollB`: scalar store keys and
    dict-shaped documents, narrower than `GoodColl`). -/
theorem stepX_inv_check (cfg : Cfg) (now : Int) (c : Coll) (op : Val)
    (h : (Proofs.C05Ext.idInvB c && Proofs.C05Ext.goodCollB c &&
      (midColls cfg now c op).all Proofs.C05Ext.goodCollB &&
      Proofs.C05Ext.goodCollB (stepX cfg now c op).1) = true) : IdInv (stepX cfg now c op).1 :=
  Proofs.C05Ext.stepX_inv_check cfg now c op h

/-- three documents (one key a double, one a string) -/
def demoCollX : Coll :=
  { docs := [(.int 1, .doc [("_id", .int 1), ("a", .int 1)]),
             (.dbl 5 1, .doc [("_id", .dbl 5 1), ("a", .int 2)]),
             (.str "k", .doc [("_id", .str "k"), ("a", .int 2)])] }

/-- an unordered bulk mixing all kinds: an insert, a rejected one (`1.0 == 1`), a multi-update, an
    update of an `_id` to an `==` value, a rejected change of `_id`, an upserting replacement, a
    delete -/
def demoBulk : Val :=
  .arr [.str "bulk_write", .arr [
    .arr [.str "InsertOne", .doc [("_id", .int 2)]],
    .arr [.str "InsertOne", .doc [("_id", .dbl 1 0)]],
    .arr [.str "UpdateMany", .doc [("a", .int 2)], .doc [("$set", .doc [("z", .int 0)])], .bool false],
    .arr [.str "UpdateOne", .doc [("_id", .int 1)], .doc [("$set", .doc [("_id", .dbl 1 0)])], .bool false],
    .arr [.str "UpdateOne", .doc [("_id", .str "k")], .doc [("$set", .doc [("_id", .int 3)])], .bool false],
    .arr [.str "ReplaceOne", .doc [("_id", .int 9)], .doc [("q", .int 1)], .bool true],
    .arr [.str "DeleteMany", .doc [("z", .int 0), ("_id", .str "k")]]], .bool false]

/-- non-vacuity of `stepX_inv_partial` (bulk): `demoBulk` on `demoCollX` -/
example : IdInv (stepX {} 0 demoCollX demoBulk).1 := stepX_inv_check _ _ _ _ (by decide +kernel)

/-- … what the bulk did: BulkWriteError with write errors at the indexes 1 (DuplicateKeyError)
    and 4, eight collections between the requests, four documents at the end -/
example :
    (match (stepX {} 0 demoCollX demoBulk).2 with
     | .bulkErr (.doc d) => dget "writeErrors" d
     | _ => none) == some (.arr [.doc [("index", .int 1), ("code", .int 11000)],
                                 .doc [("index", .int 4), ("code", .null)]]) ∧
    (midColls {} 0 demoCollX demoBulk).map (·.docs.length) = [3, 4, 4, 4, 4, 4, 5, 4] ∧
    (stepX {} 0 demoCollX demoBulk).1.docs.map (·.1) == [.int 1, .dbl 5 1, .int 2, .int 9] := by
  decide +kernel

/-- non-vacuity of `stepX_inv_partial` (find-and-modify): `find_one_and_update` with a sort,
    that finds nothing and upserts; `find_one_and_delete` of the document sorted first -/
example :
    IdInv (stepX {} 0 demoCollX (.arr [.str "find_one_and_update", .doc [("_id", .int 7)],
      .doc [("$set", .doc [("b", .int 1)])], .null, .arr [.arr [.str "a", .int (-1)]],
      .bool true, .bool true])).1 ∧
    IdInv (stepX {} 0 demoCollX (.arr [.str "find_one_and_delete", .doc [],
      .null, .arr [.arr [.str "a", .int (-1)]]])).1 :=
  ⟨stepX_inv_check _ _ _ _ (by decide +kernel), stepX_inv_check _ _ _ _ (by decide +kernel)⟩

/-- What `midColls` lists for a `bulk_write` whose requests pass the registration check: the
    collections the executor loop (`bulkLoop`) leaves after the first `n` requests, `n = 0 … `
    the number of requests (a loop that stopped earlier stays where it stopped). -/
theorem midColls_bulk (cfg : Cfg) (now : Int) (c : Coll) (reqs : List Val) (ordered : Val)
    (hp : bulkPrecheck reqs = .ok ()) :
    midColls cfg now c (.arr [.str "bulk_write", .arr reqs, ordered]) =
      (List.range (reqs.length + 1)).map (fun n =>
        (bulkLoop cfg now (boolOf ordered) (reqs.take n) 0 c {}).1) :=
  Proofs.C05Ext.midColls_bulk cfg now c reqs ordered hp

/-- non-vacuity: the requests of `demoBulk` pass the registration check -/
example : (match demoBulk with
    | .arr [_, .arr reqs, _] => bulkPrecheck reqs
    | _ => .error .other) = .ok () := by decide +kernel

/-- `traceX` lists (at least) every state along the history: the hypothesis of
    `reachableX_inv_partial` covers what `reachable_inv_partial` asks, `GoodColl` of the state
    after every prefix. -/
theorem traceX_states (cfg : Cfg) (ops : List Val) (n : Nat) :
    (runX cfg (ops.take n)).2.c ∈ traceX cfg ops :=
  Proofs.C05Ext.traceX_states cfg ops n

/-- **In every state reachable through ANY of the modelled operations** (`runX`: any history of
    any length from the empty collection over the basic operations, `find_one`, the
    find-and-modify family, `bulk_write` and the bulk builder) no two store keys are equal and
    every document sits under its own `_id`, PROVIDED every collection the history passes
    through (`traceX`: the states along it and the collections between the requests of its bulks)
    holds well-behaved entries only (`GoodColl`).  Same exclusions as `reachable_inv_partial`. -/
theorem reachableX_inv_partial (cfg : Cfg) (ops : List Val)
    (hg : ∀ m ∈ traceX cfg ops, GoodColl m) : IdInv (runX cfg ops).2.c :=
  Proofs.C05Ext.reachableX_inv_alt cfg ops hg

/-- For a concrete history the hypothesis of `reachableX_inv_partial` can be discharged by
    evaluation (`goodB`: scalar store keys, dict-shaped documents). -/
theorem reachableX_inv_check (cfg : Cfg) (ops : List Val)
    (h : (traceX cfg ops).all (fun m => m.docs.all goodB) = true) : IdInv (runX cfg ops).2.c :=
  Proofs.C05Ext.reachableX_inv_check cfg ops h

/-- the history used below: an insert, an upserting `find_one_and_update`, a sorted
    `find_one_and_update`, an unordered `bulk_write` mixing kinds with a failing request
    (`1.0 == 1`), an ordered bulk builder that stops at a duplicate and is executed twice, a
    `find_one_and_replace`, a `find_one_and_delete`, a `find_one` -/
def demoHistoryX : List Val := [
  .arr [.str "insert_one", .doc [("_id", .int 1), ("a", .int 1)]],
  .arr [.str "find_one_and_update", .doc [("_id", .int 7)], .doc [("$set", .doc [("b", .int 1)])],
    .null, .null, .bool true, .bool true],
  .arr [.str "find_one_and_update", .doc [("a", .int 1)], .doc [("$inc", .doc [("a", .int 1)])],
    .null, .arr [.arr [.str "a", .int 1]], .bool false, .bool false],
  .arr [.str "bulk_write", .arr [
    .arr [.str "InsertOne", .doc [("_id", .int 2)]],
    .arr [.str "InsertOne", .doc [("_id", .dbl 1 0)]],
    .arr [.str "UpdateMany", .doc [], .doc [("$set", .doc [("z", .int 0)])], .bool false],
    .arr [.str "ReplaceOne", .doc [("_id", .int 9)], .doc [("q", .int 1)], .bool true],
    .arr [.str "DeleteOne", .doc [("_id", .int 2)]]], .bool false],
  .arr [.str "bulk_builder", .arr [
    .arr [.str "InsertOne", .doc [("_id", .int 3)]],
    .arr [.str "InsertOne", .doc [("_id", .int 3)]],
    .arr [.str "InsertOne", .doc [("_id", .int 4)]]], .bool true, .int 2],
  .arr [.str "find_one_and_replace", .doc [("_id", .int 3)], .doc [("r", .int 1)],
    .null, .null, .bool false, .bool true],
  .arr [.str "find_one_and_delete", .doc [("_id", .int 7)], .null, .null],
  .arr [.str "find_one", .doc [("_id", .int 3)], .null, .null]]

/-- non-vacuity of `reachableX_inv_partial` -/
example : IdInv (runX {} demoHistoryX).2.c := reachableX_inv_check _ _ (by decide +kernel)

/-- … and what happened along `demoHistoryX`: the bulk_write raised BulkWriteError, nothing else
    raised; the history passed through 19 collections; the final `_id`s -/
example :
    (runX {} demoHistoryX).1.map (fun r => r.1.isErr) =
      [false, false, false, true, false, false, false, false] ∧
    (traceX {} demoHistoryX).map (·.docs.length) =
      [0, 1, 2, 2, 2, 3, 3, 3, 4, 3, 3, 3, 4, 4, 4, 4, 4, 3, 3] ∧
    (runX {} demoHistoryX).2.c.docs.map (·.1) == [.int 1, .int 9, .int 3] := by
  decide +kernel

/-! ### a duplicate `_id` inside a bulk -/

/-- **An `InsertOne` request whose `_id` is already a key yields a write error at its index**
    (code 11000, DuplicateKeyError) **and leaves the collection as the expiry pass alone leaves
    it**: an ordered bulk stops there with BulkWriteError, an unordered one goes on with the
    remaining requests from that collection (`dup_rejected` for the bulk path). -/
theorem bulk_dup_rejected (cfg : Cfg) (now : Int) (ordered : Bool) (c c1 : Coll) (idx : Nat)
    (fs : Fields) (id : Val) (rest : List Val) (t : BulkTotals)
    (hid : dget "_id" (patchFields fs) = some id) (hk : storeKey id = .ok id)
    (he : expire now c = .ok c1) (hd : c1.hasKey id = true) :
    bulkLoop cfg now ordered (.arr [.str "InsertOne", .doc fs] :: rest) idx c t =
      if ordered then
        (c1, .bulkErr ({ t with errors := t.errors ++
          [Val.doc [("index", .int idx), ("code", .int 11000)]] }).toVal)
      else
        bulkLoop cfg now ordered rest (idx + 1) c1 { t with errors := t.errors ++
          [Val.doc [("index", .int idx), ("code", .int 11000)]] } :=
  Proofs.C05Ext.bulk_dup_rejected cfg now ordered c c1 idx fs id rest t hid hk he hd

/-- non-vacuity: `{_id: 1.0}` against `demoCollX` (`1.0 == 1`), ordered, as the third request -/
example : bulkLoop {} 0 true [.arr [.str "InsertOne", .doc [("_id", .dbl 1 0)]],
      .arr [.str "InsertOne", .doc [("_id", .int 8)]]] 2 demoCollX {} =
    (demoCollX, .bulkErr ({ ({} : BulkTotals) with errors :=
      [Val.doc [("index", .int 2), ("code", .int 11000)]] }).toVal) :=
  bulk_dup_rejected {} 0 true demoCollX demoCollX 2 _ (.dbl 1 0) _ {} rfl rfl rfl
    (by decide +kernel)

end MongoModel.Props.C05
