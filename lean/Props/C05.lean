/-
  Props.C05 — `_id` is a primary key: unique, generated when absent, immutable.
  Statements only; proofs in Proofs/C05*.lean.  The model is `MongoModel.step` (Ops.lean),
  tied to mongomock by the history correspondence of harness/props/c05.py.
-/
import Proofs.C05

namespace MongoModel.Props.C05
open MongoModel MongoModel.Spec

/-- The empty collection satisfies the invariant. -/
theorem init_inv : IdInv ({} : Coll) := Proofs.C05.init_inv

/-- Every operation — successful or rejected, of any kind, at any clock — preserves it. -/
theorem step_inv (cfg : Cfg) (s : St) (op : Val) (h : IdInv s.c) : IdInv (step cfg s op).1.c :=
  Proofs.C05.step_inv cfg s op h

/-- **In every reachable state** (any history of any length from the empty collection) no two
    store keys are equal and every document sits under its own `_id`. -/
theorem reachable_inv (cfg : Cfg) (ops : List Val) : IdInv (run cfg ops).2.c :=
  Proofs.C05.reachable_inv cfg ops

/-- Hence no two stored documents have equal `_id`s (for keys on which `==` is symmetric). -/
theorem ids_distinct (c : Coll) (h : IdInv c) (hs : ∀ p ∈ c.docs, SymmVal p.1) :
    c.docs.Pairwise (fun a b => ∀ ia ib, idOf a.2 = some ia → idOf b.2 = some ib →
      pyEq ia ib = false) :=
  Proofs.C05.ids_distinct c h hs

/-- `==` is symmetric on every scalar `_id` (null, bool, numbers, strings, dates, ObjectIds). -/
theorem scalar_symm (v : Val) (h : isScalar v = true) : SymmVal v := Proofs.C05.scalar_symm v h

/-- non-vacuity: a reachable state with three documents, one of them with an embedded `_id`,
    after a rejected duplicate insert -/
example : ((run {} [
    .arr [.str "insert_one", .doc [("_id", .int 1), ("a", .int 1)]],
    .arr [.str "insert_one", .doc [("_id", .doc [("k", .int 1)])]],
    .arr [.str "insert_one", .doc [("_id", .dbl 1 0)]],
    .arr [.str "insert_one", .doc [("a", .int 2)]]]).2.c.docs.length) = 3 := by decide +kernel

/-- An insert whose `_id` is already a key is rejected with DuplicateKeyError and the collection
    is exactly what the expiry pass alone leaves. -/
theorem dup_rejected (cfg : Cfg) (now : Int) (c c1 : Coll) (fs : Fields) (id : Val)
    (hid : dget "_id" (patchFields fs) = some id) (hk : storeKey id = .ok id)
    (he : expire now c = .ok c1) (hd : c1.hasKey id = true) :
    stepColl cfg now c (.arr [.str "insert_one", .doc fs]) = (c1, .err .dupKey) :=
  Proofs.C05.dup_rejected cfg now c c1 fs id hid hk he hd

/-- A successful insert (no TTL index: expiry is C09's business) appends the document under an
    `_id` that was not a key before; a missing `_id` is the generated one. -/
theorem insert_fresh (now : Int) (c c' : Coll) (d id : Val) (hn : c.ttlIndexes = [])
    (h : insertDoc now c d = .ok (c', id)) :
    c.hasKey id = false ∧ c'.docs = c.docs ++ [(id, patchDT
      (match d with
       | .doc fs => .doc (if dhas "_id" fs then fs else dset "_id" id fs)
       | v => v))] :=
  Proofs.C05.insert_fresh now c c' d id hn h

/-- **`_id` is immutable**: after any update / replacement / upsert (successful or rejected),
    every document of the collection is either a document that was there before, under the same
    key and with an equal `_id`, or the one document the upsert inserted. -/
theorem id_immutable (cfg : Cfg) (now : Int) (c c' : Coll) (f u : Val) (upsert multi : Bool)
    (r : R UpdateResult) (h : applyUpdateColl cfg now c f u upsert multi = (c', r)) :
    ∀ p' ∈ c'.docs,
      (∃ p ∈ c.docs, p.1 = p'.1 ∧ pyEqOpt (idOf p.2) (idOf p'.2) = true) ∨
      (∃ res id, r = .ok res ∧ res.upserted = some id ∧ p'.1 = id) :=
  Proofs.C05.id_immutable cfg now c c' f u upsert multi r h

end MongoModel.Props.C05
