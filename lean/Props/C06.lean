/-
  Props.C06 — unique indexes hold in every reachable state, across every write path.
  Statements only; proofs in Proofs/C06*.lean.  Model: `MongoModel.stepColl` (insert, insert_many,
  update, replacement, upsert, delete, the reads, create_index, drop_index(es), drop), tied to
  mongomock by the history correspondence of harness/props/c06.py.

  DOMAIN.  `UniqInv` (Spec/Unique.lean): no two documents covered by a unique index have equal
  keys.  It is stated where indexed paths run through sub-documents and end in a value that is not
  an array — a scalar or an embedded document, whatever its keys look like — or are missing
  (`ValueInv`; outside lies the known finding `multikey`: `step_uniq_inv_full_fails`).  On that
  domain EVERY operation preserves `UniqInv`, with no further hypothesis (`step_uniq_inv_partial`),
  and so does every history (`reachable_uniq_partial`).

  Repaired in the library, each with its witness kept as a regression example below:
  * `partial-type-sensitive` (d244509): `_apply_update` stored an edited document WITHOUT calling
    `_ensure_uniques` when it was Python-`==` to the one it replaced; the theorems then carried the
    hypotheses `KeysDistinctSym`, `WfDocs`, `PfStable`.
  * `deadend-null` (69ced08, the matcher): an indexed path that runs into a scalar is a missing
    field; such paths are inside `ValueInv` now.
  * `operator-like-value` (9ef8b46): the look-up of `_ensure_uniques` was the query `{key: value}`,
    which read an embedded document with `$`-prefixed keys as a query operator; it is now
    `{key: {$eq: value}}` — the value is data.  The domain used to stop at scalar values
    (`ScalarInv`); it now takes every embedded document (`Spec.isKeyable`).
-/
import Proofs.C06
import Proofs.C06Ext

namespace MongoModel.Props.C06
open MongoModel MongoModel.Spec

/-! ### the invariant -/

/-- The empty collection satisfies the invariant. -/
theorem init_uniq : UniqInv ({} : Coll) := Proofs.C06.init_uniq

/-- The unrestricted statement (no domain hypothesis). -/
def step_uniq_inv_full : Prop :=
  ∀ (cfg : Cfg) (now : Int) (c : Coll) (op : Val), UniqInv c → UniqInv (stepColl cfg now c op).1

/-- The unrestricted statement is FALSE of the code.  Witness (closed, evaluated in the kernel;
    `Proofs.C06Lemmas.cexColl`, `cexOp`): unique index on `a.b`, document `{_id: 1, a: [{b: 1}]}`,
    `insert_one({_id: 2, a: [{b: 1}]})` — the same key however one reads it (the multikey key `1`;
    or null, as `get_value_by_dot` finds no `a.b`), but the look-up `{a.b: {$eq: null}}` of
    `_ensure_uniques` is answered by the matcher, which walks into the array, and the insert is
    accepted (known finding `multikey`: arrays at or along an indexed path lie outside
    `ValueInv`).  (The former witnesses — a dotted index path dead-ending in a scalar, finding
    `deadend-null`; a value `{$size: "x"}` read as a query operator, finding `operator-like-value`
    — were repaired in the library and are inside the domain now.) -/
theorem step_uniq_inv_full_fails : ¬ step_uniq_inv_full := Proofs.C06.step_uniq_inv_full_false

/-- **Every operation preserves uniqueness** — whatever write path is taken (insert, insert_many,
    update, replacement, upsert; the "modified" and the "unchanged by `==`" branch of an update),
    successful or rejected, and for delete, the reads, index creation and removal — PROVIDED the
    resulting collection is in the value-key domain (`ValueInv`: indexed paths end in scalars or
    embedded documents; excluded: known finding `multikey`).
    Nothing is assumed of the documents BEFORE the operation (not even `ValueInv c`), of the
    store keys, of the partial filters, nor of the operation. -/
theorem step_uniq_inv_partial (cfg : Cfg) (now : Int) (c : Coll) (op : Val)
    (hu : UniqInv c) (hs' : ValueInv (stepColl cfg now c op).1) :
    UniqInv (stepColl cfg now c op).1 :=
  Proofs.C06.step_uniq_inv_alt cfg now c op hu hs'

/-- For a concrete state and operation the hypotheses of `step_uniq_inv_partial` can be
    discharged by evaluation (`uniqB`, `valB` decide `UniqInv`, `ValueInv`). -/
theorem step_uniq_inv_check (cfg : Cfg) (now : Int) (c : Coll) (op : Val)
    (h : (Proofs.C06Lemmas.uniqB c && Proofs.C06Lemmas.valB (stepColl cfg now c op).1) = true) :
    UniqInv (stepColl cfg now c op).1 :=
  Proofs.C06.step_uniq_inv_check cfg now c op h

/-- non-vacuity of `step_uniq_inv_partial`: a unique index on `k` and a sparse compound unique
    index on `(a.b, c)`, three documents, and an `update_many` that edits the first document and
    is rejected (DuplicateKeyError) on the second -/
example : UniqInv (stepColl {} 0
    { docs := [(.int 1, .doc [("_id", .int 1), ("k", .int 5), ("a", .doc [("b", .str "x")])]),
               (.int 2, .doc [("_id", .int 2), ("k", .int 6), ("c", .null)]),
               (.int 3, .doc [("_id", .int 3), ("k", .int 7), ("a", .doc [("b", .str "x")]), ("c", .int 1)])],
      indexes := [Index.mk "k_1" [("k", .int 1)] true false none none,
                  Index.mk "a.b_1_c_-1" [("a.b", .int 1), ("c", .int (-1))] true true none none] }
    (.arr [.str "update_many", .doc [], .doc [("$set", .doc [("k", .int 9)])], .bool false])).1 :=
  step_uniq_inv_check _ _ _ _ (by decide +kernel)

/-- regression example (the witness of the repaired finding `operator-like-value`,
    `Proofs.C06Lemmas.olvColl`, `olvOp`, `olvOp2`): unique index on `a`, document
    `{_id: 1, a: {$size: "x"}}`.  `insert_one({_id: 2, a: {$size: "x"}})` is rejected with
    DuplicateKeyError and stores nothing; `insert_one({_id: 2, a: {$foo: 1}})` (which used to raise
    OperationFailure, "unknown operator") is accepted; both collections are in the domain and the
    invariant holds (by the theorem). -/
example :
    ValueInv Proofs.C06Lemmas.olvColl ∧
    UniqInv (stepColl {} 0 Proofs.C06Lemmas.olvColl Proofs.C06Lemmas.olvOp).1 ∧
    UniqInv (stepColl {} 0 Proofs.C06Lemmas.olvColl Proofs.C06Lemmas.olvOp2).1 ∧
    (match (stepColl {} 0 Proofs.C06Lemmas.olvColl Proofs.C06Lemmas.olvOp).2 with
     | .err .dupKey => true | _ => false) = true ∧
    (stepColl {} 0 Proofs.C06Lemmas.olvColl Proofs.C06Lemmas.olvOp).1.docs.length = 1 ∧
    (stepColl {} 0 Proofs.C06Lemmas.olvColl Proofs.C06Lemmas.olvOp2).2.isErr = false :=
  ⟨(Proofs.C06Lemmas.valB_iff _).1 Proofs.C06Lemmas.olv_before.2,
   step_uniq_inv_check _ _ _ _ (by decide +kernel), step_uniq_inv_check _ _ _ _ (by decide +kernel),
   Proofs.C06Lemmas.olv_after.1, Proofs.C06Lemmas.olv_after.2.1, Proofs.C06Lemmas.olv_after.2.2.1⟩

/-- regression example (the witness of the repaired finding `partial-type-sensitive`,
    `Proofs.C06Lemmas.ptsColl`, `ptsOp`): unique index on `k` with
    `partialFilterExpression: {t: {$type: "double"}}`, documents `{_id: 1, k: 5, t: 1.0}` (covered)
    and `{_id: 2, k: 5, t: 1}` (not covered), `update_one({_id: 2}, {$set: {t: 1.0}})`.  The edited
    document is `==` to the old one; the update is rejected all the same, `t` stays an int and the
    invariant holds (by the theorem, and by evaluation). -/
example :
    UniqInv (stepColl {} 0 Proofs.C06Lemmas.ptsColl Proofs.C06Lemmas.ptsOp).1 ∧
    (stepColl {} 0 Proofs.C06Lemmas.ptsColl Proofs.C06Lemmas.ptsOp).2.isErr = true ∧
    (stepColl {} 0 Proofs.C06Lemmas.ptsColl Proofs.C06Lemmas.ptsOp).1.docs.map
      (fun p => Proofs.C06Lemmas.tKind p.2) = ["double", "int"] :=
  ⟨step_uniq_inv_check _ _ _ _ (by decide +kernel), Proofs.C06Lemmas.pts_after.1,
    Proofs.C06Lemmas.pts_after.2.2⟩

/-! ### histories -/

/-- **In every reachable state** (any history from the empty collection, `run`: every step is
    followed by the harness's observation) no two documents covered by a unique index have equal
    keys, PROVIDED the final state is in the value-key domain (`ValueInv`).  The intermediate
    states need NOT be in the value-key domain (a document with an array-valued key that is later
    deleted, expired or overwritten does no harm): the proof carries "uniqueness among the
    value-keyed, covered documents", which every operation preserves with no hypothesis at all
    (`Proofs.C06.step_carried`). -/
theorem reachable_uniq_partial (cfg : Cfg) (ops : List Val)
    (hs : ValueInv (run cfg ops).2.c) : UniqInv (run cfg ops).2.c :=
  Proofs.C06.reachable_uniq_alt cfg ops hs

/-- For a concrete history the hypothesis of `reachable_uniq_partial` can be discharged by
    evaluation. -/
theorem reachable_uniq_check (cfg : Cfg) (ops : List Val)
    (h : Proofs.C06Lemmas.valB (run cfg ops).2.c = true) : UniqInv (run cfg ops).2.c :=
  Proofs.C06.reachable_uniq_check cfg ops h

/-- the history used below: unique index, inserts (one rejected: `5 == 5.0`), an unordered
    insert_many with one rejection, an update_many rejected half-way, an update through the
    "unchanged by `==`" branch (`6 → 6.0`: stored and checked), a rejected upserting replacement, a sparse compound unique
    index, an accepted upsert, an insert rejected by the compound index, an accepted one, a delete -/
def demoHistory : List Val := [
  .arr [.str "create_index", .arr [.arr [.str "k", .int 1]], .doc [("unique", .bool true)]],
  .arr [.str "insert_one", .doc [("_id", .int 1), ("k", .int 5)]],
  .arr [.str "insert_one", .doc [("_id", .int 2), ("k", .dbl 5 0)]],
  .arr [.str "insert_many", .arr [.doc [("_id", .int 3), ("k", .int 6)],
    .doc [("_id", .int 4), ("k", .int 6)], .doc [("_id", .int 5)]], .bool false],
  .arr [.str "update_many", .doc [], .doc [("$set", .doc [("k", .int 9)])], .bool false],
  .arr [.str "update_one", .doc [("_id", .int 3)], .doc [("$set", .doc [("k", .dbl 6 0)])], .bool false],
  .arr [.str "replace_one", .doc [("_id", .int 7)], .doc [("k", .int 9)], .bool true],
  .arr [.str "create_index", .arr [.arr [.str "a.b", .int 1], .arr [.str "c", .int (-1)]],
    .doc [("unique", .bool true), ("sparse", .bool true)]],
  .arr [.str "update_one", .doc [("_id", .int 8)],
    .doc [("$set", .doc [("a.b", .str "x"), ("k", .int 10)])], .bool true],
  .arr [.str "insert_one", .doc [("_id", .int 9), ("k", .int 11), ("a", .doc [("b", .str "x")])]],
  .arr [.str "insert_one", .doc [("_id", .int 10), ("k", .int 12), ("a", .doc [("b", .str "x")]), ("c", .int 1)]],
  .arr [.str "delete_one", .doc [("_id", .int 1)]]]

/-- non-vacuity of `reachable_uniq_partial` -/
example : UniqInv (run {} demoHistory).2.c := reachable_uniq_check _ _ (by decide +kernel)

/-- … and what happened along `demoHistory`: which steps were rejected, the final `_id`s -/
example : (run {} demoHistory).1.map (fun r => r.1.isErr) =
      [false, false, true, true, true, false, true, false, false, true, false, false] ∧
    (run {} demoHistory).2.c.docs.map (fun p => p.1 == Val.int 3 || p.1 == Val.int 5 || p.1 == Val.int 8
      || p.1 == Val.int 10) = [true, true, true, true] ∧
    (run {} demoHistory).2.c.indexes.map (·.name) = ["k_1", "a.b_1_c_-1"] := by
  decide +kernel

/-! ### a duplicate write is rejected -/

/-- the first formulation of the rejection theorem: "… is rejected with a WriteError" -/
def dup_write_rejected_full : Prop :=
  ∀ (now : Int) (c : Coll) (d : Val) (ix : Index) (p : Val × Val),
    ValueInv c → ix ∈ c.indexes → ix.unique = true → c.ttlIndexes = [] → p ∈ c.docs →
    covers ix p.2 = true → covers ix (patchDT d) = true → valueKeys ix (patchDT d) = true →
    keyEq (keyVals ix p.2) (keyVals ix (patchDT d)) = true →
    (∃ fs, d = .doc fs ∧ dhas "_id" fs = true) →
    ∃ e, insertDoc now c d = .error e ∧ e.isWriteError = true

/-- It is FALSE: the insert is rejected, but an earlier check can raise something else first.
    Witness: `{_id: [], k: 5}` against `{_id: 1, k: 5}` under a unique index on `k` — the list `_id` is
    unhashable and `insert_one` raises TypeError.  (Likewise: another unique index, earlier in the
    index dict, whose own query raises — `{b: {$foo: 1}}` gives OperationFailure.) -/
theorem dup_write_rejected_full_fails : ¬ dup_write_rejected_full :=
  Proofs.C06Lemmas.dup_write_writeError_false

/-- **A write that would create a duplicate key under a unique index is rejected** (insert path;
    no TTL index: expiry is C09's business): if a stored document covered by the index has the
    key of the new document, which is covered too, `insert_one` raises — whatever the other
    indexes and documents are.  (The collection is left as the expiry pass alone leaves it:
    C08.) -/
theorem dup_write_rejected_partial (now : Int) (c : Coll) (d : Val) (ix : Index) (p : Val × Val)
    (hs : ValueInv c) (hix : ix ∈ c.indexes) (hu : ix.unique = true) (hnt : c.ttlIndexes = [])
    (hp : p ∈ c.docs) (hcp : covers ix p.2 = true) (hcd : covers ix (patchDT d) = true)
    (hsd : valueKeys ix (patchDT d) = true)
    (heq : keyEq (keyVals ix p.2) (keyVals ix (patchDT d)) = true)
    (hid : ∃ fs, d = .doc fs ∧ dhas "_id" fs = true) :
    ∃ e, insertDoc now c d = .error e :=
  Proofs.C06.dup_write_rejected_alt now c d ix p hs hix hu hnt hp hcp hcd hsd heq hid

/-- … **with DuplicateKeyError**, PROVIDED the `_id` is storable (`hk`; excluded: list `_id`s,
    TypeError), `ix` is the only unique index (`hone`; excluded: another unique index whose own
    query raises first) and the partial filter of `ix` raises on no stored document (`hpf`). -/
theorem dup_write_rejected_dupkey (now : Int) (c : Coll) (d : Val) (ix : Index) (p : Val × Val)
    (hs : ValueInv c) (hix : ix ∈ c.indexes) (hu : ix.unique = true) (hnt : c.ttlIndexes = [])
    (hp : p ∈ c.docs) (hcp : covers ix p.2 = true) (hcd : covers ix (patchDT d) = true)
    (hsd : valueKeys ix (patchDT d) = true)
    (heq : keyEq (keyVals ix p.2) (keyVals ix (patchDT d)) = true)
    (hid : ∃ fs, d = .doc fs ∧ dhas "_id" fs = true)
    (hk : ∃ k, storeKey (idOfDoc (patchDT d)) = .ok k)
    (hone : ∀ i ∈ c.indexes, i.unique = true → i = ix)
    (hpf : ∀ f, ix.partialFilter = some f → ∀ q ∈ c.docs, ∃ b, filterApplies f q.2 = .ok b) :
    insertDoc now c d = .error .dupKey :=
  Proofs.C06.dup_write_rejected_dupkey_alt now c d ix p hs hix hu hnt hp hcp hcd hsd heq hid hk hone hpf

/-- the unique index of the examples below: on `k`, restricted to the documents with `live: true` -/
def demoIx : Index :=
  Index.mk "k_1" [("k", .int 1)] true false none (some (.doc [("live", .bool true)]))

/-- a covered document with key `[5]`, and one the partial filter leaves out -/
def demoColl : Coll :=
  { docs := [(.int 1, .doc [("_id", .int 1), ("k", .int 5), ("live", .bool true)]),
             (.int 2, .doc [("_id", .int 2), ("k", .int 5)])],
    indexes := [Index.mk "n_1" [("n", .int 1)] false false none none, demoIx],
    forceCreated := true }

/-- non-vacuity of `dup_write_rejected_partial` and `dup_write_rejected_dupkey`: inserting
    `{_id: 3, k: 5.0, live: true}` (`5.0 == 5`) raises DuplicateKeyError -/
example : insertDoc 0 demoColl (.doc [("_id", .int 3), ("k", .dbl 5 0), ("live", .bool true)]) =
    .error .dupKey :=
  dup_write_rejected_dupkey 0 demoColl _ demoIx
    (.int 1, .doc [("_id", .int 1), ("k", .int 5), ("live", .bool true)])
    ((Proofs.C06Lemmas.valB_iff _).1 (by decide +kernel)) (by simp [demoColl]) rfl rfl
    (by simp [demoColl]) (by decide +kernel) (by decide +kernel) (by decide +kernel)
    (by decide +kernel) ⟨_, rfl, by decide +kernel⟩ ⟨.int 3, rfl⟩
    (by
      intro i hi hu
      simp only [demoColl, List.mem_cons, List.not_mem_nil, or_false] at hi
      rcases hi with rfl | rfl
      · cases hu
      · rfl)
    (by
      intro f hf q hq
      cases hf
      simp only [demoColl, List.mem_cons, List.not_mem_nil, or_false] at hq
      rcases hq with rfl | rfl
      · exact ⟨true, by decide +kernel⟩
      · exact ⟨false, by decide +kernel⟩)

/-! ### the look-up compares values as data (after library commit 9ef8b46) -/

/-- **The look-up `_ensure_uniques` issues for a new document, `{key: {$eq: value}, …}`, answers
    on a stored document `e` exactly "the index key of `e` equals the index key of the new
    document"** — provided the indexed paths of the STORED document are value paths (`valueKeys`).
    NOTHING is asked of the new document: whatever its indexed values are — scalars, embedded
    documents with `$`-prefixed keys (`{$size: "x"}`, `{$foo: 1}`, `{$in: 3}`), arrays — they are
    operands of `$eq`, i.e. data, and the look-up never raises.  (Before the repair the look-up was
    `{key: value}`: a `$`-keyed value was run as a query operator — known finding
    `operator-like-value`, now fixed — and this statement was false.) -/
theorem lookup_is_key_equality (ix : Index) (new e : Val) (he : valueKeys ix e = true) :
    applyFields (ix.keys.map (fun k => (k.1, eqCond (match getByDot new k.1 with
      | .ok v => v
      | .error _ => .null)))) e = .ok (keyEq (keyVals ix e) (keyVals ix new)) :=
  Proofs.C06Lemmas.applyFields_kw ix.keys new e (Proofs.C06Lemmas.okKeys_of_valueKeys he)

/-- … and these are the `find_kwargs` the code builds (distinct field names, new document in the
    domain). -/
theorem lookup_kwargs (ix : Index) (new : Val) (hd : distinctFields ix = true)
    (hn : valueKeys ix new = true) :
    valuesFor ix.keys new = .ok (ix.keys.map (fun k => (k.1, eqCond (match getByDot new k.1 with
      | .ok v => v
      | .error _ => .null)))) :=
  Proofs.C06Lemmas.valuesFor_ok ix.keys new (Proofs.C06Lemmas.okKeys_of_valueKeys hn)
    (Proofs.C06Lemmas.distinctFields_nodup hd)

/-- non-vacuity of both: compound index on `(a, c.d)`; the stored document holds `{$size: "x"}`
    under `a`, the new one `{$size: "x"}` and an ARRAY under `c.d` — the look-up answers `false`
    (keys differ in the second component) without raising; against a new document with the same
    key it answers `true` -/
example :
    let ix : Index := Index.mk "i" [("a", .int 1), ("c.d", .int 1)] true false none none
    let e : Val := .doc [("_id", .int 1), ("a", .doc [("$size", .str "x")]), ("c", .doc [("d", .int 2)])]
    let new1 : Val := .doc [("_id", .int 2), ("a", .doc [("$size", .str "x")]), ("c", .doc [("d", .arr [.int 2])])]
    let new2 : Val := .doc [("_id", .int 3), ("c", .doc [("d", .dbl 2 0)]), ("a", .doc [("$size", .str "x")])]
    (valueKeys ix e && distinctFields ix && valueKeys ix new2 && !valueKeys ix new1 &&
      !keyEq (keyVals ix e) (keyVals ix new1) && keyEq (keyVals ix e) (keyVals ix new2)) = true := by
  decide +kernel

/-- **An embedded document is an index key like any other value**: under the hypotheses of
    `dup_write_rejected_dupkey` — which ask nothing of the SHAPE of the indexed values beyond "not
    an array" — two documents whose indexed value is the same embedded document, `$`-prefixed keys
    or not, cannot both be inserted.  Instance on the former witness of `operator-like-value`. -/
theorem dollar_keyed_value_rejected :
    insertDoc 0 Proofs.C06Lemmas.olvColl
      (.doc [("_id", .int 2), ("a", .doc [("$size", .str "x")])]) = .error .dupKey :=
  dup_write_rejected_dupkey 0 Proofs.C06Lemmas.olvColl _ Proofs.C06Lemmas.olvIx
    (.int 1, .doc [("_id", .int 1), ("a", .doc [("$size", .str "x")])])
    ((Proofs.C06Lemmas.valB_iff _).1 Proofs.C06Lemmas.olv_before.2)
    (by simp [Proofs.C06Lemmas.olvColl]) rfl rfl (by simp [Proofs.C06Lemmas.olvColl])
    (by decide +kernel) (by decide +kernel) (by decide +kernel) (by decide +kernel)
    ⟨_, rfl, by decide +kernel⟩ ⟨.int 2, rfl⟩
    (by
      intro i hi _
      simp only [Proofs.C06Lemmas.olvColl, List.mem_cons, List.not_mem_nil, or_false] at hi
      exact hi)
    (by intro f hf; cases hf)

/-! ### `create_index` -/

/-- Creating a unique index over data that already contains duplicates fails with
    DuplicateKeyError and leaves no index behind (non-sparse, non-partial index under a new name,
    value keys: scalars or embedded documents; no TTL index). -/
theorem create_over_dups_fails_clean (now : Int) (c : Coll) (ix : Index) (a b : Val × Val)
    (hu : ix.unique = true) (hnt : c.ttlIndexes = []) (hnew : ∀ i ∈ c.indexes, i.name ≠ ix.name)
    (hsc : ∀ p ∈ c.docs, valueKeys ix p.2 = true) (hpf : ix.partialFilter = none)
    (hns : ix.sparse = false)
    (hab : [a, b].Sublist c.docs)
    (heq : keyEq (keyVals ix a.2) (keyVals ix b.2) = true) :
    (createIndexColl now c ix).2 = .error .dupKey ∧
    (createIndexColl now c ix).1.indexes = c.indexes :=
  Proofs.C06.create_over_dups_fails_clean now c ix a b hu hnt hnew hsc hpf hns hab heq

/-- non-vacuity: `{k: 5}`, `{k: 6}`, `{k: 5.0}`; the first and the third clash -/
example :
    let c : Coll := { docs := [(.int 1, .doc [("_id", .int 1), ("k", .int 5)]),
                               (.int 2, .doc [("_id", .int 2), ("k", .int 6)]),
                               (.int 3, .doc [("_id", .int 3), ("k", .dbl 5 0)])] }
    let ix : Index := Index.mk "k_1" [("k", .int 1)] true false none none
    (createIndexColl 0 c ix).2 = .error .dupKey ∧ (createIndexColl 0 c ix).1.indexes = c.indexes := by
  intro c ix
  refine create_over_dups_fails_clean 0 c ix (.int 1, .doc [("_id", .int 1), ("k", .int 5)])
    (.int 3, .doc [("_id", .int 3), ("k", .dbl 5 0)]) rfl rfl (fun i hi => by cases hi) ?_ rfl rfl
    (.cons_cons _ (.cons _ (.cons_cons _ .slnil))) (by decide +kernel)
  intro p hp
  simp only [c, List.mem_cons, List.not_mem_nil, or_false] at hp
  rcases hp with rfl | rfl | rfl <;> decide +kernel

/-- A successful creation of a (non-sparse, non-partial) unique index establishes uniqueness for
    that index, whatever the documents are. -/
theorem create_establishes_uniq (now : Int) (c c' : Coll) (ix : Index) (name : String)
    (hu : ix.unique = true) (hpf : ix.partialFilter = none) (hns : ix.sparse = false)
    (h : createIndexColl now c ix = (c', .ok name)) :
    c'.docs.Pairwise (fun a b => keyEq (keyVals ix a.2) (keyVals ix b.2) = false) :=
  Proofs.C06.create_establishes_uniq now c c' ix name hu hpf hns h

/-- For ANY unique index (sparse, partial, compound): after a successful creation no two documents
    the index covers have equal keys.  (The pre-check skips a sparse document only when ALL its
    indexed fields are missing, and a partial one when the filter says no: it skips no covered
    document.) -/
theorem create_establishes_uniq_covered (now : Int) (c c' : Coll) (ix : Index) (name : String)
    (hu : ix.unique = true) (h : createIndexColl now c ix = (c', .ok name)) :
    (c'.docs.filter (fun p => covers ix p.2)).Pairwise
      (fun a b => keyEq (keyVals ix a.2) (keyVals ix b.2) = false) :=
  Proofs.C06.create_establishes_uniq_covered now c c' ix name hu h

/-- non-vacuity of both: the partial index `demoIx` can be created over `demoColl`'s documents
    (equal keys, but only one of them covered), and so can a plain unique index on `_id` -/
example :
    (createIndexColl 0 { demoColl with indexes := [] } demoIx).2 = .ok "k_1" ∧
    (createIndexColl 0 demoColl (Index.mk "i" [("_id", .int 1)] true false none none)).2 = .ok "i" := by
  decide +kernel

/-! ### uniqueness over ALL modelled operations (extended step)

`stepX` / `stepXS` (MongoModel/FindModify.lean) add `find_one`, `find_one_and_update / _replace /
_delete`, `bulk_write` and the bulk builder to the operations of `stepColl`; `runX`
(Spec/HistoryExt.lean) is `run` over `stepXS` — what the correspondence harness drives.  The
theorems below lift `step_uniq_inv_partial` / `reachable_uniq_partial` to them, with the same
single hypothesis: the RESULTING collection is in the value-key domain.  Nothing is asked of the
collections between the requests of a bulk. -/

/-- The unrestricted statement for the extended step. -/
def stepX_uniq_inv_full : Prop :=
  ∀ (cfg : Cfg) (now : Int) (c : Coll) (op : Val), UniqInv c → UniqInv (stepX cfg now c op).1

/-- It is FALSE of the code, for the reason `step_uniq_inv_full` is (known finding `multikey`):
    the witness of `step_uniq_inv_full_fails`, issued as
    `bulk_write([InsertOne({_id: 2, a: [{b: 1}]})])`. -/
theorem stepX_uniq_inv_full_fails : ¬ stepX_uniq_inv_full := Proofs.C06Ext.stepX_uniq_false

/-- **Every modelled operation preserves uniqueness** — the basic ones, `find_one`,
    `find_one_and_update / _replace / _delete` (with or without upsert, sort, projection,
    `after`), `bulk_write` (ordered or not, whatever requests fail, aborted or not) and a bulk
    builder executed any number of times — PROVIDED the resulting collection is in the
    value-key domain (`ValueInv`; excluded: known finding `multikey`).
    Nothing is assumed of the collection before, of the collections between the requests of a
    bulk, nor of the operation. -/
theorem stepX_uniq_inv_partial (cfg : Cfg) (now : Int) (c : Coll) (op : Val)
    (hu : UniqInv c) (hs' : ValueInv (stepX cfg now c op).1) : UniqInv (stepX cfg now c op).1 :=
  Proofs.C06Ext.stepX_uniq_inv_alt cfg now c op hu hs'

/-- … on states with a clock (`stepXS`). -/
theorem stepXS_uniq_inv_partial (cfg : Cfg) (s : St) (op : Val)
    (hu : UniqInv s.c) (hs' : ValueInv (stepXS cfg s op).1.c) : UniqInv (stepXS cfg s op).1.c :=
  Proofs.C06Ext.stepXS_uniq_inv_alt cfg s op hu hs'

/-- For a concrete state and operation the hypotheses of `stepX_uniq_inv_partial` can be
    discharged by evaluation. -/
theorem stepX_uniq_inv_check (cfg : Cfg) (now : Int) (c : Coll) (op : Val)
    (h : (Proofs.C06Lemmas.uniqB c && Proofs.C06Lemmas.valB (stepX cfg now c op).1) = true) :
    UniqInv (stepX cfg now c op).1 :=
  Proofs.C06Ext.stepX_uniq_inv_check cfg now c op h

/-- a unique index on `k`, three documents -/
def demoCollX : Coll :=
  { docs := [(.int 1, .doc [("_id", .int 1), ("k", .int 5)]),
             (.int 2, .doc [("_id", .int 2), ("k", .int 6)]),
             (.int 3, .doc [("_id", .int 3), ("k", .int 7)])],
    indexes := [Index.mk "k_1" [("k", .int 1)] true false none none] }

/-- an unordered bulk mixing all kinds: an accepted insert, one rejected (`8.0 == 8`), an
    `UpdateMany` that edits the first document and is rejected on the second, a rejected upserting
    replacement, an accepted upsert, a delete -/
def demoBulk : Val :=
  .arr [.str "bulk_write", .arr [
    .arr [.str "InsertOne", .doc [("_id", .int 4), ("k", .int 8)]],
    .arr [.str "InsertOne", .doc [("_id", .int 5), ("k", .dbl 8 0)]],
    .arr [.str "UpdateMany", .doc [], .doc [("$set", .doc [("k", .int 9)])], .bool false],
    .arr [.str "ReplaceOne", .doc [("_id", .int 6)], .doc [("k", .int 6)], .bool true],
    .arr [.str "UpdateOne", .doc [("_id", .int 7)], .doc [("$set", .doc [("k", .int 10)])], .bool true],
    .arr [.str "DeleteOne", .doc [("k", .int 7)]]], .bool false]

/-- non-vacuity of `stepX_uniq_inv_partial`: `demoBulk` on `demoCollX`; a rejected
    `find_one_and_update` (sorted, `k: 7 → 6`); an upserting `find_one_and_replace` -/
example :
    UniqInv (stepX {} 0 demoCollX demoBulk).1 ∧
    UniqInv (stepX {} 0 demoCollX (.arr [.str "find_one_and_update", .doc [],
      .doc [("$set", .doc [("k", .int 6)])], .null, .arr [.arr [.str "k", .int (-1)]],
      .bool false, .bool true])).1 ∧
    UniqInv (stepX {} 0 demoCollX (.arr [.str "find_one_and_replace", .doc [("_id", .int 9)],
      .doc [("k", .int 1)], .null, .null, .bool true, .bool true])).1 :=
  ⟨stepX_uniq_inv_check _ _ _ _ (by decide +kernel), stepX_uniq_inv_check _ _ _ _ (by decide +kernel),
   stepX_uniq_inv_check _ _ _ _ (by decide +kernel)⟩

/-- … what they did: the bulk raised BulkWriteError with DuplicateKeyError at the indexes 1, 2, 3
    and left four documents with the keys 9, 6, 8, 10; the `find_one_and_update` was rejected;
    the `find_one_and_replace` upserted -/
example :
    (match (stepX {} 0 demoCollX demoBulk).2 with
     | .bulkErr (.doc d) => dget "writeErrors" d
     | _ => none) == some (.arr [.doc [("index", .int 1), ("code", .int 11000)],
                                 .doc [("index", .int 2), ("code", .int 11000)],
                                 .doc [("index", .int 3), ("code", .int 11000)]]) ∧
    (stepX {} 0 demoCollX demoBulk).1.docs.map (fun p => keyVals Proofs.C06Lemmas.cexIxK p.2) ==
      [[.int 9], [.int 6], [.int 8], [.int 10]] ∧
    (stepX {} 0 demoCollX (.arr [.str "find_one_and_update", .doc [],
      .doc [("$set", .doc [("k", .int 6)])], .null, .arr [.arr [.str "k", .int (-1)]],
      .bool false, .bool true])).2.isErr = true ∧
    (stepX {} 0 demoCollX (.arr [.str "find_one_and_replace", .doc [("_id", .int 9)],
      .doc [("k", .int 1)], .null, .null, .bool true, .bool true])).1.docs.length = 4 := by
  decide +kernel

/-- **In every state reachable through ANY of the modelled operations** (`runX`: any history
    from the empty collection over the basic operations, `find_one`, the find-and-modify family,
    `bulk_write` and the bulk builder) no two documents covered by a unique index have equal keys,
    PROVIDED the final state is in the value-key domain (`ValueInv`).  Neither the states along
    the history nor the collections between the requests of its bulks need be in that domain:
    the proof carries "uniqueness among the value-keyed, covered documents", which every
    operation preserves with no hypothesis (`Proofs.C06Ext.stepX_carried`). -/
theorem reachableX_uniq_partial (cfg : Cfg) (ops : List Val)
    (hs : ValueInv (runX cfg ops).2.c) : UniqInv (runX cfg ops).2.c :=
  Proofs.C06Ext.reachableX_uniq_alt cfg ops hs

/-- For a concrete history the hypothesis of `reachableX_uniq_partial` can be discharged by
    evaluation. -/
theorem reachableX_uniq_check (cfg : Cfg) (ops : List Val)
    (h : Proofs.C06Lemmas.valB (runX cfg ops).2.c = true) : UniqInv (runX cfg ops).2.c :=
  Proofs.C06Ext.reachableX_uniq_check cfg ops h

/-- the history used below: a unique index, an insert, an upserting `find_one_and_update`, one
    rejected (`5.0 == 5`), a rejected sorted `find_one_and_replace`, an unordered `bulk_write`
    mixing kinds with three failing requests, an ordered bulk builder that stops at a duplicate
    and is executed twice, a `find_one_and_delete` -/
def demoHistoryX : List Val := [
  .arr [.str "create_index", .arr [.arr [.str "k", .int 1]], .doc [("unique", .bool true)]],
  .arr [.str "insert_one", .doc [("_id", .int 1), ("k", .int 5)]],
  .arr [.str "find_one_and_update", .doc [("_id", .int 2)], .doc [("$set", .doc [("k", .int 6)])],
    .null, .null, .bool true, .bool true],
  .arr [.str "find_one_and_update", .doc [("_id", .int 3)], .doc [("$set", .doc [("k", .dbl 5 0)])],
    .null, .null, .bool true, .bool true],
  .arr [.str "find_one_and_replace", .doc [("k", .int 6)], .doc [("k", .int 5)],
    .null, .arr [.arr [.str "k", .int (-1)]], .bool false, .bool true],
  .arr [.str "bulk_write", .arr [
    .arr [.str "InsertOne", .doc [("_id", .int 4), ("k", .int 7)]],
    .arr [.str "InsertOne", .doc [("_id", .int 5), ("k", .dbl 7 0)]],
    .arr [.str "UpdateMany", .doc [], .doc [("$set", .doc [("k", .int 9)])], .bool false],
    .arr [.str "ReplaceOne", .doc [("_id", .int 6)], .doc [("k", .int 6)], .bool true],
    .arr [.str "UpdateOne", .doc [("_id", .int 7)], .doc [("$set", .doc [("k", .int 8)])], .bool true],
    .arr [.str "DeleteOne", .doc [("k", .int 7)]]], .bool false],
  .arr [.str "bulk_builder", .arr [
    .arr [.str "InsertOne", .doc [("_id", .int 8), ("k", .int 1)]],
    .arr [.str "InsertOne", .doc [("_id", .int 9), ("k", .int 1)]],
    .arr [.str "InsertOne", .doc [("_id", .int 10), ("k", .int 2)]]], .bool true, .int 2],
  .arr [.str "find_one_and_delete", .doc [("k", .int 5)], .null, .null]]

/-- non-vacuity of `reachableX_uniq_partial` -/
example : UniqInv (runX {} demoHistoryX).2.c := reachableX_uniq_check _ _ (by decide +kernel)

/-- … and what happened along `demoHistoryX`: which steps raised, the final keys -/
example :
    (runX {} demoHistoryX).1.map (fun r => r.1.isErr) =
      [false, false, false, true, true, true, false, false] ∧
    (runX {} demoHistoryX).2.c.docs.map (fun p => keyVals Proofs.C06Lemmas.cexIxK p.2) ==
      [[.int 9], [.int 6], [.int 8], [.int 1]] := by
  decide +kernel

/-! ### a duplicate key inside a bulk -/

/-- **An `InsertOne` request that would create a duplicate key under a unique index yields a
    write error** (DuplicateKeyError, reported by `bulkLoop` at the request's index) **and
    leaves the collection unchanged at that step** — under the hypotheses of
    `dup_write_rejected_dupkey` (no TTL index: expiry is C09's business), on a collection in which
    existence is recorded (`Coll.Recorded`, every reachable one: a collection with an index has
    its created flag set; the rejected insert, which had already stored the document when the
    uniqueness check refused it, sets that flag once more). -/
theorem bulk_dup_write_rejected (cfg : Cfg) (now : Int) (c : Coll) (idx : Nat) (d : Val)
    (ix : Index) (p : Val × Val) (hr : c.Recorded)
    (hs : ValueInv c) (hix : ix ∈ c.indexes) (hu : ix.unique = true) (hnt : c.ttlIndexes = [])
    (hp : p ∈ c.docs) (hcp : covers ix p.2 = true) (hcd : covers ix (patchDT d) = true)
    (hsd : valueKeys ix (patchDT d) = true)
    (heq : keyEq (keyVals ix p.2) (keyVals ix (patchDT d)) = true)
    (hid : ∃ fs, d = .doc fs ∧ dhas "_id" fs = true)
    (hk : ∃ k, storeKey (idOfDoc (patchDT d)) = .ok k)
    (hone : ∀ i ∈ c.indexes, i.unique = true → i = ix)
    (hpf : ∀ f, ix.partialFilter = some f → ∀ q ∈ c.docs, ∃ b, filterApplies f q.2 = .ok b) :
    bulkOne cfg now c idx (.arr [.str "InsertOne", d]) = (c, .writeErr .dupKey) :=
  Proofs.C06Ext.bulk_dup_write_rejected cfg now c idx d ix p hr hs hix hu hnt hp hcp hcd hsd heq hid hk hone hpf

/-- … hence, at the level of the loop: the error is recorded at the request's index with code
    11000; an ordered bulk stops there, an unordered one goes on from the same collection. -/
theorem bulk_dup_write_error_at_index (cfg : Cfg) (now : Int) (ordered : Bool) (c : Coll)
    (idx : Nat) (d : Val) (rest : List Val) (t : BulkTotals)
    (h : bulkOne cfg now c idx (.arr [.str "InsertOne", d]) = (c, .writeErr .dupKey)) :
    bulkLoop cfg now ordered (.arr [.str "InsertOne", d] :: rest) idx c t =
      if ordered then
        (c, .bulkErr ({ t with errors := t.errors ++
          [Val.doc [("index", .int idx), ("code", .int 11000)]] }).toVal)
      else
        bulkLoop cfg now ordered rest (idx + 1) c { t with errors := t.errors ++
          [Val.doc [("index", .int idx), ("code", .int 11000)]] } :=
  Proofs.C06Ext.bulk_dup_at_index cfg now ordered c idx d rest t h

/-- non-vacuity of both: `InsertOne({_id: 3, k: 5.0, live: true})` against `demoColl`
    (`5.0 == 5` under the partial unique index `demoIx`), as the request of index 4 of an ordered bulk -/
example : bulkLoop {} 0 true
      [.arr [.str "InsertOne", .doc [("_id", .int 3), ("k", .dbl 5 0), ("live", .bool true)]],
       .arr [.str "DeleteMany", .doc []]] 4 demoColl {} =
    (demoColl, .bulkErr ({ ({} : BulkTotals) with errors :=
      [Val.doc [("index", .int 4), ("code", .int 11000)]] }).toVal) :=
  bulk_dup_write_error_at_index {} 0 true demoColl 4 _ _ {}
    (bulk_dup_write_rejected {} 0 demoColl 4 _ demoIx
      (.int 1, .doc [("_id", .int 1), ("k", .int 5), ("live", .bool true)]) (fun _ => rfl)
      ((Proofs.C06Lemmas.valB_iff _).1 (by decide +kernel)) (by simp [demoColl]) rfl rfl
      (by simp [demoColl]) (by decide +kernel) (by decide +kernel) (by decide +kernel)
      (by decide +kernel) ⟨_, rfl, by decide +kernel⟩ ⟨.int 3, rfl⟩
      (by
        intro i hi hu
        simp only [demoColl, List.mem_cons, List.not_mem_nil, or_false] at hi
        rcases hi with rfl | rfl
        · cases hu
        · rfl)
      (by
        intro f hf q hq
        cases hf
        simp only [demoColl, List.mem_cons, List.not_mem_nil, or_false] at hq
        rcases hq with rfl | rfl
        · exact ⟨true, by decide +kernel⟩
        · exact ⟨false, by decide +kernel⟩))

end MongoModel.Props.C06
