/-
  Props.C06 — unique indexes hold in every reachable state, across every write path.
  Statements only; proofs in Proofs/C06*.lean.  Model: `MongoModel.stepColl` (insert, update,
  replace, upsert, insert_many, create_index).  Domain: `ScalarInv` (indexed paths run through
  sub-documents to scalars); outside it lie the known findings `multikey`, `deadend-null`.
-/
import Proofs.C06

namespace MongoModel.Props.C06
open MongoModel MongoModel.Spec

/-- The empty collection satisfies the invariant. -/
theorem init_uniq : UniqInv ({} : Coll) := Proofs.C06.init_uniq

/-- **Every operation preserves uniqueness** as long as the resulting collection stays in the
    scalar-key domain: whatever write path is taken (insert, insert_many, update, replacement,
    upsert), successful or rejected, and for index creation and removal. -/
theorem step_uniq_inv_partial (cfg : Cfg) (now : Int) (c : Coll) (op : Val)
    (hu : UniqInv c) (hs : ScalarInv c) (hs' : ScalarInv (stepColl cfg now c op).1) :
    UniqInv (stepColl cfg now c op).1 :=
  Proofs.C06.step_uniq_inv cfg now c op hu hs hs'

/-- The full statement (no domain hypothesis) is false of the code: array-valued keys are not
    multikey.  Witness: unique index on `a`, `{a: 2}` then `{a: [1, 2]}` (replayed on the real
    code as known finding `multikey`). -/
def step_uniq_inv_full : Prop :=
  ∀ (cfg : Cfg) (now : Int) (c : Coll) (op : Val), UniqInv c → UniqInv (stepColl cfg now c op).1

/-- A write that would create a duplicate key under a unique index is rejected with
    DuplicateKeyError (insert path; the collection is left as the expiry pass alone leaves it by
    C08). -/
theorem dup_write_rejected (now : Int) (c : Coll) (d : Val) (ix : Index) (p : Val × Val)
    (hs : ScalarInv c) (hix : ix ∈ c.indexes) (hu : ix.unique = true) (hnt : c.ttlIndexes = [])
    (hp : p ∈ c.docs) (hcp : covers ix p.2 = true) (hcd : covers ix (patchDT d) = true)
    (hsd : scalarKeys ix (patchDT d) = true)
    (heq : keyEq (keyVals ix p.2) (keyVals ix (patchDT d)) = true)
    (hid : ∃ fs, d = .doc fs ∧ dhas "_id" fs = true) :
    ∃ e, insertDoc now c d = .error e ∧ e.isWriteError = true :=
  Proofs.C06.dup_write_rejected now c d ix p hs hix hu hnt hp hcp hcd hsd heq hid

/-- Creating a unique index over data that already contains duplicates fails and leaves no
    index behind. -/
theorem create_over_dups_fails_clean (now : Int) (c : Coll) (ix : Index) (a b : Val × Val)
    (hu : ix.unique = true) (hnt : c.ttlIndexes = []) (hnew : ∀ i ∈ c.indexes, i.name ≠ ix.name)
    (hsc : ∀ p ∈ c.docs, scalarKeys ix p.2 = true) (hpf : ix.partialFilter = none)
    (hns : ix.sparse = false)
    (hab : [a, b].Sublist c.docs)
    (heq : keyEq (keyVals ix a.2) (keyVals ix b.2) = true) :
    (createIndexColl now c ix).2 = .error .dupKey ∧
    (createIndexColl now c ix).1.indexes = c.indexes :=
  Proofs.C06.create_over_dups_fails_clean now c ix a b hu hnt hnew hsc hpf hns hab heq

/-- A successful creation of a (non-sparse, non-partial) unique index establishes uniqueness for
    that index. -/
theorem create_establishes_uniq (now : Int) (c c' : Coll) (ix : Index) (name : String)
    (hu : ix.unique = true) (hsc : ∀ p ∈ c.docs, scalarKeys ix p.2 = true)
    (hpf : ix.partialFilter = none) (hns : ix.sparse = false)
    (h : createIndexColl now c ix = (c', .ok name)) :
    c'.docs.Pairwise (fun a b => keyEq (keyVals ix a.2) (keyVals ix b.2) = false) :=
  Proofs.C06.create_establishes_uniq now c c' ix name hu hsc hpf hns h

end MongoModel.Props.C06
