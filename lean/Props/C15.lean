/-
  Props.C15 — bulk_write is equivalent to issuing its operations one at a time.
  Statements only; proofs in Proofs/C15*.lean.  Model: `MongoModel.bulkWrite` (FindModify.lean)
  against `Spec.seqOps` = the fold of the single-operation step `stepColl` (Ops.lean).
-/
import Proofs.C15
import Proofs.C15Once

namespace MongoModel.Props.C15
open MongoModel MongoModel.Spec

/-- A bulk can never be executed empty. -/
theorem never_empty (cfg : Cfg) (now : Int) (c : Coll) (ordered : Bool) :
    bulkWrite cfg now c [] ordered = (c, .err .invalidOp) :=
  Proofs.C15.never_empty cfg now c ordered

/-- **Unordered**: when no request aborts the batch (every failure is a write error), the final
    state is the state after issuing all the requests one at a time, failed ones leaving no
    trace. -/
theorem unordered_eq_seq (cfg : Cfg) (now : Int) (c : Coll) (reqs : List Val)
    (hp : reqs.all plainRequest = true) (hv : bulkPrecheck reqs = .ok ())
    (hne : reqs ≠ [])
    (hw : ∀ e, (bulkWrite cfg now c reqs false).2 ≠ .err e) :
    (bulkWrite cfg now c reqs false).1 = seqOps cfg now (reqs.map asSingle) c :=
  Proofs.C15.unordered_eq_seq cfg now c reqs hp hv hne hw

/-- **Ordered**: the final state is the one-at-a-time state of a prefix of the requests — all
    of them when the bulk succeeds. -/
theorem ordered_eq_seq_prefix (cfg : Cfg) (now : Int) (c : Coll) (reqs : List Val)
    (hp : reqs.all plainRequest = true) (hv : bulkPrecheck reqs = .ok ()) (hne : reqs ≠ []) :
    ∃ k, k ≤ reqs.length ∧
      (bulkWrite cfg now c reqs true).1 = seqOps cfg now ((reqs.take k).map asSingle) c ∧
      ((bulkWrite cfg now c reqs true).2.isErr = false → k = reqs.length) :=
  Proofs.C15.ordered_eq_seq_prefix cfg now c reqs hp hv hne

/-- An ordered bulk that fails reports exactly one write error, at the position where it
    stopped. -/
theorem ordered_error_details (cfg : Cfg) (now : Int) (c : Coll) (reqs : List Val) (details : Val)
    (h : (bulkWrite cfg now c reqs true).2 = .bulkErr details) :
    ∃ k code rest, k < reqs.length ∧
      dget "writeErrors" (match details with | .doc fs => fs | _ => []) =
        some (.arr [.doc [("index", .int k), ("code", code)]]) ∧ details = .doc rest :=
  Proofs.C15.ordered_error_details cfg now c reqs details h

/-- The counters of a successful bulk are the sums of the individual results: each successful
    request adds its own contribution and nothing else (stated on the running totals). -/
theorem counts_are_sums (cfg : Cfg) (now : Int) (ordered : Bool) (reqs : List Val) (idx : Nat)
    (c : Coll) (t : BulkTotals) (r : Val) (c' : Coll) (f : BulkTotals → BulkTotals)
    (h1 : bulkOne cfg now c idx r = (c', .ok f)) :
    bulkLoop cfg now ordered (r :: reqs) idx c t = bulkLoop cfg now ordered reqs (idx + 1) c' (f t) ∧
    (f t).nInserted + (f t).nMatched + (f t).nRemoved + (f t).nUpserted
      ≥ t.nInserted + t.nMatched + t.nRemoved + t.nUpserted ∧
    (f t).errors = t.errors :=
  Proofs.C15.counts_are_sums cfg now ordered reqs idx c t r c' f h1

/-- Every upserted `_id` is reported under the index of the operation that upserted it. -/
theorem upserted_ids_by_op_index (cfg : Cfg) (now : Int) (c c' : Coll) (idx : Nat) (r : Val)
    (f : BulkTotals → BulkTotals) (t : BulkTotals)
    (h : bulkOne cfg now c idx r = (c', .ok f)) :
    (f t).upserted = t.upserted ∨
    ∃ id, (f t).upserted = t.upserted ++ [.doc [("index", .int idx), ("_id", id)]] :=
  Proofs.C15.upserted_ids_by_op_index cfg now c c' idx r f t h

/-- non-vacuity: an unordered bulk of four kinds of request, one of them failing in the middle -/
example : (bulkWrite {} 0 {} [
      .arr [.str "InsertOne", .doc [("_id", .int 1), ("a", .int 1)]],
      .arr [.str "InsertOne", .doc [("_id", .int 1)]],
      .arr [.str "UpdateOne", .doc [("_id", .int 2)], .doc [("$set", .doc [("a", .int 5)])], .bool true],
      .arr [.str "DeleteMany", .doc [("a", .int 1)]]] false).2.isErr = true := by decide +kernel

/-! ### the builder object: executed only once, never empty -/

/-- `bulk_write(requests, ordered)` is "register the requests in a fresh builder and execute it
    once": everything above about `bulkWrite` is about the builders' first `execute`. -/
theorem bulk_write_is_first_execute (cfg : Cfg) (now : Int) (c : Coll) (reqs : List Val)
    (ordered : Bool) (hp : bulkPrecheck reqs = .ok ()) :
    bulkWrite cfg now c reqs ordered =
      (((Builder.mk reqs ordered false).execute cfg now c).1,
       ((Builder.mk reqs ordered false).execute cfg now c).2.2) :=
  Proofs.C15Once.bulkWrite_eq_execute cfg now c reqs ordered hp

/-- An empty builder is refused and nothing changes. -/
theorem builder_never_empty (cfg : Cfg) (now : Int) (c : Coll) (b : Builder) (h : b.reqs = []) :
    b.execute cfg now c = (c, b, .err .invalidOp) :=
  Proofs.C15Once.execute_empty cfg now c b h

/-- **Executed only once**: whatever the first `execute` did — succeeded, raised BulkWriteError
    half-way, or was aborted by another exception — every later `execute` (at any later time) is
    refused with InvalidOperation and leaves the collection exactly as the first one left it. -/
theorem executed_only_once (cfg : Cfg) (now now' : Int) (c : Coll) (b : Builder) :
    (b.execute cfg now c).2.1.execute cfg now' (b.execute cfg now c).1 =
      ((b.execute cfg now c).1, (b.execute cfg now c).2.1, .err .invalidOp) :=
  Proofs.C15Once.second_execute cfg now now' c b

/-- … for any number of further calls -/
theorem execute_n_times (cfg : Cfg) (now : Int) (n : Nat) (c : Coll) (b : Builder) :
    executeTimes cfg now (n + 1) c b =
      ((b.execute cfg now c).1,
       (b.execute cfg now c).2.2 :: List.replicate n (.err .invalidOp)) :=
  Proofs.C15Once.executeTimes_spec cfg now n c b

/-- non-vacuity: a builder whose first execute raises BulkWriteError (duplicate _id) is refused
    the second time, and the document inserted by the first run is there exactly once -/
example : (match executeTimes {} 0 2 {} { reqs := [
        .arr [.str "InsertOne", .doc [("_id", .int 1)]],
        .arr [.str "InsertOne", .doc [("_id", .int 1)]]], ordered := true } with
    | (c, [.bulkErr _, .err .invalidOp]) => c.docs.length == 1
    | _ => false) = true := by decide +kernel

end MongoModel.Props.C15
