/-
  Props.C04 — property theorems for C04 (aggregation expressions evaluate to the value MongoDB
  defines).  Only statements of the property live here; lemmas and proofs are in Proofs/C04*.lean.

  Impl  = MongoModel.Expr.eval / evalExpr / projectField / addFieldsField / exprFilter
          (faithful model of mongomock/aggregate.py `_Parser` and of the `$expr` branch of the
          matcher, tied to the code by the per-run correspondence check)
  Spec  = MongoModel.Spec.specEval / specFilter / toBool / ord   (the rules of the property text)
  D     = MongoModel.Spec.exprInD    (decidable; its negation is the list of named exclusion
          classes of Spec/ExprDomain.lean)
  `$sum $avg $min $max` as expression operators: Impl = MongoModel.Expr.groupingInExpr, Spec =
          MongoModel.Spec.accS / accBareS / extremumS (last section)

  `none : Option Val` is "missing" (Python KeyError); `Ctx` is a parser instance
  (ignore_missing_keys, document, variable bindings).
-/
import Proofs.C04

namespace MongoModel.Props.C04
open MongoModel MongoModel.Expr MongoModel.Spec

/-! ### `$literal`, truthiness, boolean operators -/

/-- `$literal` returns its argument unevaluated, whatever it looks like. -/
theorem literal_id (c : Ctx) (v : Val) : eval c (.doc [("$literal", v)]) = .ok (some v) :=
  Proofs.C04.literal_id c v

/-- The code's truthiness (`helpers.mongodb_to_bool`, KeyError = false) is the rule's `toBool`. -/
theorem toBool_is_mongodb_to_bool (r : Option Val) : toBoolOpt r = Spec.toBool r :=
  Proofs.C04.toBoolOpt_eq r

/-- `toBool v` is false exactly for `false`, `null` and the zeros. -/
theorem toBool_false_iff (v : Val) :
    Spec.toBool (some v) = false ↔ (v = .bool false ∨ v = .null ∨ v = .int 0 ∨ ∃ e, v = .dbl 0 e) :=
  Proofs.C04.toBool_false_iff v

/-- **bool_ops_spec** — `$not e` (with `e` not written as a list) is the negation of `toBool` of
    the value of `e` (a missing value counts as false); it raises exactly when `e` does. -/
theorem not_spec (c : Ctx) (e : Val) (he : e.isArr = false) :
    eval c (.doc [("$not", e)]) = (eval c e).bind (fun r => .ok (some (.bool (!Spec.toBool r)))) :=
  Proofs.C04.not_spec c e he

example : (Val.str "$a").isArr = false ∧ (Val.doc [("$gt", .arr [.str "$a", .int 1])]).isArr = false :=
  ⟨rfl, rfl⟩

/-- `{$not: [x]}` is `$not` of `x`, whatever `x` is (it used to be the constant false, the array
    `[x]` being returned unevaluated: finding `arrayliteral`, repaired by 9ff1475). -/
theorem not_list_spec (c : Ctx) (x : Val) :
    eval c (.doc [("$not", .arr [x])]) =
      (eval c x).bind (fun r => .ok (some (.bool (!Spec.toBool r)))) :=
  Proofs.C04.not_list_spec c x

/-- `$and` is the conjunction of `toBool` over the operand values (operands that do not raise). -/
theorem and_spec (c : Ctx) (xs : List Val) (rs : List (Option Val))
    (h : xs.map (eval c) = rs.map .ok) :
    eval c (.doc [("$and", .arr xs)]) = .ok (some (.bool (rs.all Spec.toBool))) :=
  Proofs.C04.and_spec c xs rs h

/-- `$or` is the disjunction of `toBool` over the operand values. -/
theorem or_spec (c : Ctx) (xs : List Val) (rs : List (Option Val))
    (h : xs.map (eval c) = rs.map .ok) :
    eval c (.doc [("$or", .arr xs)]) = .ok (some (.bool (rs.any Spec.toBool))) :=
  Proofs.C04.or_spec c xs rs h

/-- the hypotheses are inhabited by operand lists that mix present, null and missing values -/
example : ∃ (c : Ctx) (xs : List Val) (rs : List (Option Val)),
    xs.map (eval c) = rs.map .ok ∧ rs = [some (.int 3), some .null, none] :=
  ⟨Ctx.init true (.doc [("a", .int 3), ("b", .null)]), [.str "$a", .str "$b", .str "$zz"],
   [some (.int 3), some .null, none], by
     simp [eval, evalBasic, strKind, Ctx.init, splitDotsChars, getDotGen, dget], rfl⟩

/-! ### `$cond`, `$ifNull`, `$switch` -/

/-- **cond_spec** (array form): the condition is evaluated, then exactly one branch. -/
theorem cond_spec (c : Ctx) (a b d : Val) :
    eval c (.doc [("$cond", .arr [a, b, d])]) =
      (eval c a).bind (fun r => if Spec.toBool r then eval c b else eval c d) :=
  Proofs.C04.cond_list c a b d

/-- **cond_spec** (document form with exactly the fields `if`, `then`, `else`, in any order). -/
theorem cond_doc_spec (c : Ctx) (gs : Fields)
    (h : (dhas "if" gs && dhas "then" gs && dhas "else" gs) = true)
    (hx : gs.any (fun kv => !(["if", "then", "else"].contains kv.1)) = false) :
    eval c (.doc [("$cond", .doc gs)]) =
      (evalAt c "if" gs).bind (fun r =>
        if Spec.toBool r then evalAt c "then" gs else evalAt c "else" gs) :=
  Proofs.C04.cond_doc c gs h hx

example : (dhas "if" [("then", Val.int 1), ("if", .str "$a"), ("else", .null)] &&
    dhas "then" [("then", Val.int 1), ("if", .str "$a"), ("else", .null)] &&
    dhas "else" [("then", Val.int 1), ("if", .str "$a"), ("else", .null)]) = true ∧
    [("then", Val.int 1), ("if", .str "$a"), ("else", .null)].any
      (fun kv => !(["if", "then", "else"].contains kv.1)) = false := by decide

/-- a `$cond` document that lacks one of the three fields is rejected (it used to read as
    "missing": finding `condkeys`, repaired in the library) -/
theorem cond_doc_lacking (c : Ctx) (gs : Fields)
    (h : (dhas "if" gs && dhas "then" gs && dhas "else" gs) = false) :
    eval c (.doc [("$cond", .doc gs)]) = .error .opFail :=
  Proofs.C04.cond_doc_lacking c gs h

/-- `evalAt` is "the sub-expression under that key" (an absent key reads as missing). -/
theorem evalAt_eq (c : Ctx) (key : String) (gs : Fields) :
    evalAt c key gs = (match dget key gs with | some v => eval c v | none => .ok none) :=
  Proofs.C04.evalAt_eq c key gs

/-- **ifNull_spec** — a null or missing first operand is replaced by the second, anything else
    is returned as it is. -/
theorem ifNull_spec (c : Ctx) (x f : Val) (rx : Option Val) (hx : eval c x = .ok rx) :
    eval c (.doc [("$ifNull", .arr [x, f])]) = if nullish rx then eval c f else .ok rx :=
  Proofs.C04.ifNull_two c x f rx hx

example : ∃ (c : Ctx) (x : Val) (rx : Option Val), eval c x = .ok rx ∧ nullish rx = true :=
  ⟨Ctx.init true (.doc []), .str "$zz", none, by
     simp [eval, evalBasic, strKind, Ctx.init, splitDotsChars, getDotGen, dget], rfl⟩

/-- the general form: `$ifNull` over a list of two or more operands is the loop `evalIfNull`,
    which skips null and missing operands … -/
theorem ifNull_list (c : Ctx) (xs : List Val) (hlen : 2 ≤ xs.length) :
    eval c (.doc [("$ifNull", .arr xs)]) = evalIfNull c xs := Proofs.C04.ifNull_list c xs hlen

/-- fewer than two operands are rejected (part of finding `laxargs`, repaired in the library) -/
theorem ifNull_short (c : Ctx) (xs : List Val) (hlen : xs.length < 2) :
    eval c (.doc [("$ifNull", .arr xs)]) = .error .opFail := Proofs.C04.ifNull_short c xs hlen

theorem ifNull_skip (c : Ctx) (x y : Val) (r : List Val) (rx : Option Val)
    (hx : eval c x = .ok rx) (hn : nullish rx = true) :
    evalIfNull c (x :: y :: r) = evalIfNull c (y :: r) := Proofs.C04.ifNull_skip c x y r rx hx hn

/-- … and stops at the first operand that is neither. -/
theorem ifNull_first (c : Ctx) (x y : Val) (r : List Val) (v : Val)
    (hx : eval c x = .ok (some v)) (hv : v ≠ .null) :
    evalIfNull c (x :: y :: r) = .ok (some v) := Proofs.C04.ifNull_first c x y r v hx hv

/-- **switch_first_true** — with falsy `case`s in front, the first truthy `case` selects its
    `then`; later branches are not evaluated. -/
theorem switch_first_true (c : Ctx) (pre : List Fields) (b : Fields) (post : List Val)
    (hpre : ∀ p ∈ pre, ∃ rc, evalAt c "case" p = .ok rc ∧ Spec.toBool rc = false)
    (rc : Option Val) (hc : evalAt c "case" b = .ok rc) (ht : Spec.toBool rc = true) :
    evalBranches c (pre.map .doc ++ .doc b :: post) = (evalAt c "then" b).map some :=
  Proofs.C04.switch_first_true c pre b post hpre rc hc ht

/-- `$switch` runs that loop over its `branches` and falls back to `default`. -/
theorem switch_spec (c : Ctx) (gs : Fields) (bs : List Val)
    (hb : dget "branches" gs = some (.arr bs)) (hne : bs ≠ []) (hok : branchesOk bs = true) :
    eval c (.doc [("$switch", .doc gs)]) =
      (evalBranches c bs).bind (fun r =>
        match r with
        | some v => .ok v
        | none => if dhas "default" gs then evalAt c "default" gs else .error .opFail) := by
  rw [Proofs.C04.switch_eq c gs bs hb hne hok, Proofs.C04.evalBranchesAt_eq c gs bs hb]
  rfl

example : ∃ (gs : Fields) (bs : List Val), dget "branches" gs = some (.arr bs) ∧ bs ≠ [] ∧
    branchesOk bs = true :=
  ⟨[("branches", .arr [.doc [("case", .str "$a"), ("then", .int 1)]]), ("default", .int 0)],
   [.doc [("case", .str "$a"), ("then", .int 1)]], rfl, by simp, by decide⟩

/-! ### null propagates through arithmetic -/

/-- **null_propagates** (unary `$abs $ceil $exp $floor $ln $log10 $sqrt $trunc`): a null or
    missing operand gives null. -/
theorem null_propagates_unary (c : Ctx) (op : String) (hop : op ∈ unaryArithOps) (e : Val)
    (r : Option Val) (he : eval c e = .ok r) (hn : nullish r = true) :
    eval c (.doc [(op, e)]) = .ok (some .null) :=
  Proofs.C04.null_unary c op hop e r he hn

/-- **null_propagates** (binary `$divide $log $mod $pow $subtract`, in the computed-field and
    `$expr` contexts): if either operand is null or missing the result is null. -/
theorem null_propagates_binary (c : Ctx) (hign : c.ign = true) (op : String)
    (hop : op ∈ binaryArithOps) (a b : Val) (ra rb : Option Val)
    (ha : eval c a = .ok ra) (hb : eval c b = .ok rb)
    (hn : (nullish ra || nullish rb) = true) :
    eval c (.doc [(op, .arr [a, b])]) = .ok (some .null) :=
  Proofs.C04.null_binary c hign op hop a b ra rb ha hb hn

/-- **null_propagates** (`$add`, `$multiply`, any number of operands): when the first operand
    value that is not a number is null, the result is null … -/
theorem null_propagates_nary (c : Ctx) (op : String) (hop : op = "$add" ∨ op = "$multiply")
    (xs : List Val) (pre post : List Val)
    (hl : evalList c c.ign xs = .ok (some (pre ++ .null :: post)))
    (hpre : ∀ v ∈ pre, (toPyNumNB v).isSome = true) :
    eval c (.doc [(op, .arr xs)]) = .ok (some .null) :=
  Proofs.C04.null_nary c op hop xs pre post hl hpre

/-- … where a missing operand has been read as null by `parse_many`. -/
theorem missing_operand_is_null (c : Ctx) (x : Val) (r : List Val) (vs : List Val)
    (hx : eval c x = .ok none) (hr : evalList c true r = .ok (some vs)) :
    evalList c true (x :: r) = .ok (some (.null :: vs)) :=
  Proofs.C04.evalList_missing_is_null c x r vs hx hr

example : ∃ (c : Ctx) (xs pre post : List Val),
    evalList c c.ign xs = .ok (some (pre ++ .null :: post)) ∧ pre = [.int 2] ∧ post = [.int 1] :=
  ⟨Ctx.init true (.doc [("a", .int 2)]), [.str "$a", .str "$zz", .int 1], [.int 2], [.int 1], by
     simp [evalList, eval, evalBasic, strKind, Ctx.init, splitDotsChars, getDotGen, dget, manyItem, bind,
       Except.bind, pure, Except.pure], rfl, rfl⟩

/-! ### comparisons follow one total order -/

/-- `$gt $gte $lt $lte` are the four readings of the three-way comparison `bsonCmp`
    (the cross-type BSON order), wherever it does not raise. -/
theorem ordering_ops_spec (a b : Val) (o : Ordering) (h : bsonCmp a b = .ok o) :
    compareOp "$lt" a b = .ok (.bool (o == .lt)) ∧ compareOp "$gt" a b = .ok (.bool (o == .gt)) ∧
    compareOp "$lte" a b = .ok (.bool (o != .gt)) ∧ compareOp "$gte" a b = .ok (.bool (o != .lt)) :=
  Proofs.C04.ordering_ops a b o h

/-- The full-strength statement: `$eq` is the third outcome of that comparison, so that exactly
    one of `$lt`, `$eq`, `$gt` holds. -/
def cmp_ops_total_full : Prop :=
  ∀ a b o, bsonCmp a b = .ok o → compareOp "$eq" a b = .ok (.bool (o == .eq))

/-- It is false of the code as it stands (known finding `boolnum`): `true` is *greater* than `1`
    in the BSON order, yet `{$eq: [true, 1]}` is true because `$eq` is Python `==`. -/
theorem cmp_ops_total_full_fails : ¬ cmp_ops_total_full := by
  intro h
  have := h (.bool true) (.int 1) .gt (by simp [bsonCmp, Val.tc, natCmp]; rfl)
  simp [compareOp, pyEq] at this

/-- **cmp_ops_total** (partial: on flat values — scalars and arrays of scalars — without a
    boolean/number clash): the comparison does not raise and exactly one of `$lt`, `$eq`, `$gt`
    holds; `$ne`, `$lte`, `$gte` are their complements. -/
theorem cmp_ops_total_partial (a b : Val) (ha : cmpFlat a = true) (hb : cmpFlat b = true)
    (hc : boolNumClash a b = false) :
    ∃ o : Ordering,
      compareOp "$lt" a b = .ok (.bool (o == .lt)) ∧
      compareOp "$eq" a b = .ok (.bool (o == .eq)) ∧
      compareOp "$gt" a b = .ok (.bool (o == .gt)) ∧
      compareOp "$ne" a b = .ok (.bool (o != .eq)) ∧
      compareOp "$lte" a b = .ok (.bool (o != .gt)) ∧
      compareOp "$gte" a b = .ok (.bool (o != .lt)) :=
  Proofs.C04.cmp_ops_total a b ha hb hc

example : cmpFlat (.arr [.int 1, .str "a", .null]) = true ∧ cmpFlat (.dbl 3 1) = true ∧
    boolNumClash (.arr [.int 1, .str "a", .null]) (.dbl 3 1) = false := by decide

/-- a comparison with a missing operand follows the same order: missing is equal to missing only
    and sorts below every value, null included (finding `missingcmp`, repaired in the library:
    such a comparison used to be missing itself). -/
theorem cmp_missing (k : String)
    (hk : k = "$eq" ∨ k = "$ne" ∨ k = "$gt" ∨ k = "$gte" ∨ k = "$lt" ∨ k = "$lte")
    (a b : Option Val) (hm : a = none ∨ b = none) :
    compareOpt k a b = cmpHoldsOrd k (ordOpt a b) := Proofs.C04.compare_missing k hk a b hm

example : compareOpt "$lt" none (some .null) = .ok (.bool true) ∧
    compareOpt "$eq" none (some .null) = .ok (.bool false) ∧
    compareOpt "$eq" none none = .ok (.bool true) := by
  refine ⟨?_, ?_, ?_⟩ <;> simp [compareOpt]

/-! ### `$expr` in the query matcher -/

/-- **expr_filter_spec** — `find({$expr: e})` selects `d` iff the value of `e` on `d` is truthy
    (`toBool`: everything except false, null, 0), a missing value being false; an error of the
    expression is the error of the filter.  (Full strength: before the repairs 5f9b543 / b30f356 of
    the library this statement was false — findings `exprtruth`, `exprmissing` — and only a partial
    form over values other than `""`, `[]`, `{}` was proved.) -/
theorem expr_filter_spec (e d : Val) : exprFilter e d = (evalExpr d e).map Spec.toBool :=
  Proofs.C04.expr_filter_full e d

/-- the former counterexample: `{$expr: "$s"}` selects `{s: ""}` -/
example : exprFilter (.str "$s") (.doc [("s", .str "")]) = .ok true := by
  rw [expr_filter_spec]
  simp [evalExpr, eval, evalBasic, strKind, Ctx.init, splitDotsChars, getDotGen, dget, Except.map,
    Spec.toBool]

/-- a value: the verdict is its `toBool` -/
theorem expr_filter_value (e d : Val) (r : Option Val) (h : evalExpr d e = .ok r) :
    exprFilter e d = .ok (Spec.toBool r) := Proofs.C04.expr_filter_value e d r h

/-- a missing value does not match (it used to be a KeyError that left `find`) -/
theorem expr_filter_missing (e d : Val) (h : evalExpr d e = .ok none) :
    exprFilter e d = .ok false := Proofs.C04.expr_filter_missing e d h

theorem expr_filter_error (e d : Val) (err : Err) (h : evalExpr d e = .error err) :
    exprFilter e d = .error err := Proofs.C04.expr_filter_error e d err h

/-- e.g. `{$expr: "$a.b"}` on a document without `a.b` -/
example : ∃ e d, evalExpr d e = .ok none ∧ exprFilter e d = .ok false :=
  ⟨.str "$a.b", .doc [("a", .doc [("c", .int 0)])], by
    simp [evalExpr, eval, evalBasic, strKind, Ctx.init, splitDotsChars, getDotGen, dget], by
    rw [expr_filter_spec]
    simp [evalExpr, eval, evalBasic, strKind, Ctx.init, splitDotsChars, getDotGen, dget, Except.map,
      Spec.toBool]⟩

/-! ### a missing field behaves as absent -/

/-- **missing_omitted** — a computed field whose expression is a path that the document does not
    have is omitted by `$project` and by `$addFields` (`none` = the field is not written). -/
theorem missing_omitted (d : Val) (s : String) (cs : List Char) (hs : strKind s = .field cs)
    (h : getDotGen (splitDotsChars cs []) d = .ok none) :
    projectField (.str s) d = .ok none ∧ addFieldsField (.str s) d = .ok none :=
  Proofs.C04.missing_omitted d s cs hs h

/-- e.g. `"$a.b"` on a document whose `a` has no `b` -/
example : strKind "$a.b" = .field ['a', '.', 'b'] ∧
    getDotGen (splitDotsChars ['a', '.', 'b'] []) (.doc [("a", .doc [("c", .int 1)])]) = .ok none := by
  constructor
  · simp [strKind]
  · simp [splitDotsChars, getDotGen, dget]

/-- the common case: a top-level field name (no dot, no `$`) that the document does not have -/
theorem missing_field_omitted (fs : Fields) (cs : List Char) (hdot : '.' ∉ cs)
    (hc : cs.head? ≠ some '$') (hm : dget (String.ofList cs) fs = none) :
    projectField (.str (String.ofList ('$' :: cs))) (.doc fs) = .ok none ∧
    addFieldsField (.str (String.ofList ('$' :: cs))) (.doc fs) = .ok none :=
  Proofs.C04.missing_field_omitted fs cs hdot hc hm

example : '.' ∉ ['z', 'z'] ∧ ['z', 'z'].head? ≠ some '$' ∧
    dget (String.ofList ['z', 'z']) [("a", Val.int 1)] = none := by decide

/-- inside a computed document a missing field is left out -/
theorem doc_literal_omits (c : Ctx) (hign : c.ign = true) (k : String) (e : Val)
    (hk : classify k = .plain) (he : eval c e = .ok none) :
    eval c (.doc [(k, e)]) = .ok (some (.doc [])) :=
  Proofs.C04.doc_literal_omits c hign k e hk he

/-! ### variable binding: `$let`, `$map`, `$filter` -/

/-- **let_subst** — the names are checked, the variables are evaluated under the outer bindings,
    then `in` under the outer bindings extended by all of them.  A variable whose value is
    missing is bound to "missing" (it used to make the whole `$let` missing: finding
    `letmissing`, repaired by 9957044). -/
theorem let_subst (c : Ctx) (vs : Fields) (body : Val)
    (hn : vs.all (fun kv => validVarName kv.1) = true) :
    eval c (.doc [("$let", .doc [("vars", .doc vs), ("in", body)])]) =
      (evalVars c vs).bind (fun bs => eval (c.bindAll bs) body) :=
  Proofs.C04.let_subst c vs body hn

example : [("v", Val.str "$zz"), ("w2", .int 1)].all (fun kv => validVarName kv.1) = true := by
  decide

/-- the bindings are exactly the values of the variables, missing ones included -/
theorem let_bindings (c : Ctx) (vs : Fields) (rs : List (Option Val))
    (h : vs.map (fun kv => eval c kv.2) = rs.map .ok) :
    evalVars c vs = .ok ((vs.map (·.1)).zip rs) :=
  Proofs.C04.evalVars_ok c vs rs h

example : ∃ (c : Ctx) (vs : Fields) (rs : List (Option Val)),
    vs.map (fun kv => eval c kv.2) = rs.map .ok ∧ rs = [none, some (.int 3)] :=
  ⟨Ctx.init true (.doc [("a", .int 3)]), [("v", .str "$zz"), ("w", .str "$a")],
   [none, some (.int 3)], by
     simp [eval, evalBasic, strKind, Ctx.init, splitDotsChars, getDotGen, dget], rfl⟩

/-- a variable bound to a missing value is missing where it is used, with or without a path -/
theorem missing_var_is_missing (c : Ctx) (name : String) (rest : List String)
    (h : c.miss.contains name = true) : evalVar c (name :: rest) = .ok none :=
  Proofs.C04.var_bound_missing c name rest h

example (c : Ctx) : (c.bindOpt "v" none).miss.contains "v" = true :=
  Proofs.C04.bindOpt_none_miss c "v"

/-- the former counterexample of `letmissing`: the variable is not used, the `$let` has a value -/
example : evalExpr (.doc [("_id", .int 0)])
    (.doc [("$let", .doc [("vars", .doc [("v", .str "$zz")]), ("in", .int 1)])]) =
    .ok (some (.int 1)) := by
  unfold evalExpr
  rw [let_subst _ _ _ (by decide)]
  simp [evalVars, eval, evalBasic, strKind, Ctx.init, splitDotsChars, getDotGen, dget, bind,
    Except.bind, pure, Except.pure]

/-- **var_name_rule** — the names `$let`, `$map` and `$filter` accept are those of the rules
    (a lower-case letter, then letters, digits and `_`; characters outside ASCII anywhere), and
    `CURRENT` (finding `laxargs`, repaired by b53c397). -/
theorem var_name_rule (s : String) :
    validVarName s = (decide (s = "CURRENT") || userVarName s) :=
  Proofs.C04.validVarName_eq s

/-- any other name is rejected before anything is evaluated -/
theorem let_bad_name (c : Ctx) (vs : Fields) (body : Val)
    (hn : vs.all (fun kv => validVarName kv.1) = false) :
    eval c (.doc [("$let", .doc [("vars", .doc vs), ("in", body)])]) = .error .opFail :=
  Proofs.C04.let_bad_name c vs body hn

example : [("V", Val.int 1)].all (fun kv => validVarName kv.1) = false ∧
    [("a.b", Val.int 1)].all (fun kv => validVarName kv.1) = false ∧
    [("", Val.int 1)].all (fun kv => validVarName kv.1) = false := by decide

theorem map_bad_name (c : Ctx) (inp body : Val) (name : String) (hn : validVarName name = false) :
    eval c (.doc [("$map", .doc [("input", inp), ("as", .str name), ("in", body)])]) =
      .error .opFail :=
  Proofs.C04.map_bad_name c inp body name hn

/-- **map_spec** — `in` is evaluated once per item under the binding of the item; an item whose
    value is missing gives a null element. -/
theorem map_spec (c : Ctx) (inp body : Val) (name : String) (hn : validVarName name = true) :
    eval c (.doc [("$map", .doc [("input", inp), ("as", .str name), ("in", body)])]) =
      (eval c inp).bind (fun r =>
        match r with
        | none | some .null => .ok (some .null)
        | some (.arr items) =>
          (mapItems (fun item => eval (c.bind name item) body) items).map (fun ys => some (.arr ys))
        | some _ => .error .opFail) :=
  Proofs.C04.map_spec_as c inp body name hn

example : validVarName "item_2" = true := by decide

/-- the default variable is `this` -/
theorem map_spec_this (c : Ctx) (inp body : Val) :
    eval c (.doc [("$map", .doc [("input", inp), ("in", body)])]) =
      (eval c inp).bind (fun r =>
        match r with
        | none | some .null => .ok (some .null)
        | some (.arr items) =>
          (mapItems (fun item => eval (c.bind "this" item) body) items).map (fun ys => some (.arr ys))
        | some _ => .error .opFail) :=
  Proofs.C04.map_spec c inp body

/-- when `in` has the value `g item` (possibly missing) on every item, the result is the mapped
    list, null standing for a missing value -/
theorem map_items (f : Val → R (Option Val)) (g : Val → Option Val) (items : List Val)
    (h : ∀ x ∈ items, f x = .ok (g x)) :
    mapItems f items = .ok (items.map (fun x => (g x).getD .null)) :=
  Proofs.C04.mapItems_ok f g items h

/-- the result has one element per item -/
theorem map_length (f : Val → R (Option Val)) (items ys : List Val)
    (h : mapItems f items = .ok ys) : ys.length = items.length :=
  Proofs.C04.mapItems_length f items ys h

/-- **filter_spec** — `cond` is evaluated once per item under the binding of the item; an item
    is kept iff the value is true (`toBool`: anything except false, null, 0 and missing); a
    null or missing input gives null. -/
theorem filter_spec (c : Ctx) (inp cond : Val) :
    eval c (.doc [("$filter", .doc [("input", inp), ("cond", cond)])]) =
      (eval c inp).bind (fun r =>
        match r with
        | none | some .null => .ok (some .null)
        | some (.arr items) =>
          (filterItems (fun item => eval (c.bind "this" item) cond) items).map
            (fun ys => some (.arr ys))
        | some v => iterErr v) :=
  Proofs.C04.filter_spec c inp cond

theorem filter_items (f : Val → R (Option Val)) (g : Val → Option Val) (items : List Val)
    (h : ∀ x ∈ items, f x = .ok (g x)) :
    filterItems f items = .ok (items.filter (fun x => Spec.toBool (g x))) :=
  Proofs.C04.filterItems_ok f g items h

/-- whatever the condition does, `$filter` returns a sublist of its input (order kept) -/
theorem filter_sublist (f : Val → R (Option Val)) (items ys : List Val)
    (h : filterItems f items = .ok ys) : ys.Sublist items :=
  Proofs.C04.filterItems_sublist f items ys h

/-! ### arrays, sets, strings -/

/-- `$concatArrays` of arrays is their concatenation … -/
theorem concatArrays_append (xss : List (List Val)) :
    concatArraysOp (xss.map .arr) = .ok (.arr xss.flatten) := Proofs.C04.concatArrays_append xss

/-- … and null as soon as one operand is null (the others being arrays or null). -/
theorem concatArrays_null (vals : List Val) (hall : ∀ v ∈ vals, isNull v = true ∨ v.isArr = true)
    (hn : .null ∈ vals) : concatArraysOp vals = .ok .null :=
  Proofs.C04.concatArrays_null vals hall hn

/-- `$size` of an array-valued expression is the length of the array. -/
theorem size_length (c : Ctx) (e : Val) (xs : List Val) (hshape : e.isArr = false)
    (he : eval c e = .ok (some (.arr xs))) :
    eval c (.doc [("$size", e)]) = .ok (some (.int xs.length)) :=
  Proofs.C04.size_eval c e xs hshape he

/-- `$in` is Python list membership (`==`: finding `boolnum`). -/
theorem in_spec (x : Val) (xs : List Val) : inOp x (.arr xs) = .ok (.bool (pyIn x xs)) := rfl

/-- `$setUnion`: items already collected stay in front, in order; -/
theorem setUnion_prefix (xs acc : List Val) : ∃ t, unionLoop xs acc = acc ++ t :=
  Proofs.C04.unionLoop_prefix xs acc

/-- every item of the result comes from an operand; -/
theorem setUnion_sound (xs acc : List Val) : ∀ v ∈ unionLoop xs acc, v ∈ acc ∨ v ∈ xs :=
  Proofs.C04.unionLoop_subset xs acc

/-- every item of an operand is in the result, literally or up to Python `==`; -/
theorem setUnion_complete (xs acc : List Val) :
    ∀ v ∈ xs, v ∈ unionLoop xs acc ∨ pyIn v (unionLoop xs acc) = true :=
  Proofs.C04.unionLoop_covers xs acc

/-- and an item equal (Python `==`) to a collected one is not added again. -/
theorem setUnion_dedup (x : Val) (r acc : List Val) (h : pyIn x acc = true) :
    unionLoop (x :: r) acc = unionLoop r acc := Proofs.C04.unionLoop_skip x r acc h

/-- `$concat` of strings is their concatenation. -/
theorem concat_strings (ss : List String) :
    concatOp (ss.map .str) = .ok (.str (String.join ss)) := Proofs.C04.concat_strings ss

/-! ### date parts -/

/-- **civil_roundtrip** — the (year, month, day) computed for a day number converts back to that
    day number, for every integer. -/
theorem civil_roundtrip (z : Int) :
    daysFromCivil (civilFromDays z).1 (civilFromDays z).2.1 (civilFromDays z).2.2 = z :=
  Proofs.C04.civil_roundtrip z

/-- every part lies in its range, for every instant -/
theorem datePart_ranges (us : Int) :
    (∃ h, datePart "$hour" us = .ok (.int h) ∧ 0 ≤ h ∧ h ≤ 23) ∧
    (∃ m, datePart "$minute" us = .ok (.int m) ∧ 0 ≤ m ∧ m ≤ 59) ∧
    (∃ s, datePart "$second" us = .ok (.int s) ∧ 0 ≤ s ∧ s ≤ 59) ∧
    (∃ ms, datePart "$millisecond" us = .ok (.int ms) ∧ 0 ≤ ms ∧ ms ≤ 999) ∧
    (∃ w, datePart "$dayOfWeek" us = .ok (.int w) ∧ 1 ≤ w ∧ w ≤ 7) ∧
    (∃ m, datePart "$month" us = .ok (.int m) ∧ 1 ≤ m ∧ m ≤ 12) ∧
    (∃ d, datePart "$dayOfMonth" us = .ok (.int d) ∧ 1 ≤ d ∧ d ≤ 31) :=
  Proofs.C04.datePart_ranges us

/-- the instant is recovered from the day number, the time-of-day parts and the sub-second rest -/
theorem instant_recomposes (us : Int) :
    us = dayOf us * usPerDay + (usOfDay us / 3600000000) * 3600000000 +
      (usOfDay us / 60000000 % 60) * 60000000 + (usOfDay us / 1000000 % 60) * 1000000 +
      usOfDay us % 1000000 := by
  have h1 := Proofs.C04.day_time_recompose us
  have h2 := Proofs.C04.time_parts_recompose us
  omega

/-! ### the evaluator against the rules -/

/-- The full-strength statement: wherever the rules define a value (or "missing"), the
    evaluator computes it. -/
def eval_eq_spec_full : Prop :=
  ∀ e d v, specEval d e = .ok v → evalExpr d e = .ok v

/-- It is false of the code as it stands (known finding `boolnum`, one of the classes listed in
    Spec/ExprDomain.lean): `{$eq: ["$a", 1]}` on `{a: true}` is false by the rules (a boolean is
    not a number) but the code answers true, through Python `==`. -/
theorem eval_eq_spec_full_fails : ¬ eval_eq_spec_full := by
  intro h
  have := h (.doc [("$eq", .arr [.str "$a", .int 1])]) (.doc [("a", .bool true)])
    (some (.bool false)) (by
    simp [specEval, sEval, hasDollarKey', startsDollar, sOperator, strictOps, datePartOps, sList,
      strKind, Spec.path, splitDotsChars, dget, applyStrict, ordOpt, ord, rank, cmpHoldsOrd, bind,
      Except.bind, pure, Except.pure, Except.map])
  have h2 : evalExpr (.doc [("a", .bool true)]) (.doc [("$eq", .arr [.str "$a", .int 1])]) =
      .ok (some (.bool true)) := by
    have hc : classify "$eq" = .comparison := by decide
    simp [evalExpr, eval, evalDoc, hc, mode, dateOps, datePartOps, wholeOps, unaryArithOps,
      groupingOps, evalOp, arityErr, binaryArithOps, comparisonOps, listOps, arithmeticOps,
      unaryListOps, variadicOps, Val.isArr,
      evalAll, evalBasic, strKind, Ctx.init, splitDotsChars, getDotGen, dget, compareOpt,
      compareOp, pyEq, bind, Except.bind, pure, Except.pure, Except.map]
  rw [h2] at this
  simp at this

/-- **eval_eq_spec** (partial: on D) — on every (expression, document) pair of the domain the
    evaluator computes exactly the value the rules define (or "missing" when they say so),
    without raising.  D is `exprInD`: no reason of Spec/ExprDomain.lean applies. -/
theorem eval_eq_spec_partial (e d : Val) (h : exprInD e d = true) :
    evalExpr d e = specEval d e :=
  Proofs.C04.eval_eq_spec e d h

/-- D is inhabited by non-trivial pairs: `$let`, `$map`, `$cond`, arithmetic with a null
    operand, comparisons, a nested path, `$ifNull` over a missing field. -/
example : exprInD
    (.doc [("$let", .doc [
      ("vars", .doc [("v", .doc [("$add", .arr [.str "$a", .int 2])])]),
      ("in", .doc [("$cond", .arr [
        .doc [("$gt", .arr [.str "$$v", .str "$d.n"])],
        .doc [("$map", .doc [("input", .str "$l"),
                             ("in", .doc [("$multiply", .arr [.str "$$this", .str "$$v"])])])],
        .doc [("$ifNull", .arr [.str "$zz", .str "none"])]])])])])
    (.doc [("a", .int 1), ("d", .doc [("n", .dbl 5 1)]), ("l", .arr [.int 1, .dbl 3 1, .null])])
    = true := by decide +kernel

/-- **expr_filter_spec** on D: `find({$expr: e})` selects the document iff the value the rules
    define is truthy (`toBool`, missing = false).  The domain is D itself: the matcher adds no
    exclusion class of its own any more. -/
theorem expr_filter_eq_spec_partial (e d : Val) (h : exprInD e d = true) :
    exprFilter e d = specFilter e d :=
  Proofs.C04.filter_eq_spec e d h

theorem filterReasons_eq (e d : Val) : filterReasons e d = exprReasons e d := rfl

example : exprInD (.doc [("$and", .arr [.str "$a", .doc [("$lt", .arr [.str "$a", .int 3])]])])
    (.doc [("a", .int 2)]) = true := by decide +kernel

/-- the witnesses of the repaired findings `exprtruth` (a value that is `""`) and `exprmissing`
    (a missing value) are inside D -/
example : exprInD (.str "$s") (.doc [("_id", .int 0), ("s", .str "")]) = true ∧
    exprInD (.str "$a") (.doc [("_id", .int 0)]) = true := by decide +kernel

/-! ### operators repaired in the library: now inside D -/

/-- the witnesses of the repaired findings `strcasecmp`, `numtype`, `adddate`, `nullarg`,
    `filtertruth`, `mapmissing`, `missingcmp` are inside D, where `eval_eq_spec_partial` gives them the value of
    the rules -/
example :
    exprInD (.doc [("$strcasecmp", .arr [.str "$s", .str "ab"])])
      (.doc [("_id", .int 0), ("s", .str "AB")]) = true ∧
    exprInD (.doc [("$mod", .arr [.str "$a", .int 2])]) (.doc [("_id", .int 0), ("a", .int 5)]) = true ∧
    exprInD (.doc [("$ceil", .str "$x")]) (.doc [("_id", .int 0), ("x", .dbl 5 1)]) = true ∧
    exprInD (.doc [("$add", .arr [.str "$t", .int 1000])])
      (.doc [("_id", .int 0), ("t", .date 1577836800000000 none)]) = true ∧
    exprInD (.doc [("$year", .str "$t")]) (.doc [("_id", .int 0), ("t", .null)]) = true ∧
    exprInD (.doc [("$arrayElemAt", .arr [.str "$zz", .int 0])]) (.doc [("_id", .int 0)]) = true ∧
    exprInD (.doc [("$filter", .doc [("input", .str "$l"), ("cond", .str "$$this")])])
      (.doc [("_id", .int 0), ("l", .arr [.str "", .str "x", .int 0])]) = true ∧
    exprInD (.doc [("$map", .doc [("input", .str "$l"), ("in", .str "$zz")])])
      (.doc [("_id", .int 0), ("l", .arr [.int 1])]) = true ∧
    exprInD (.doc [("$lt", .arr [.str "$zz", .null])]) (.doc [("_id", .int 0)]) = true := by
  decide +kernel

/-- `$strcasecmp` compares the upper-cased operands: wherever the rule defines the result, the
    operator body computes it (null and missing operands count as `""`) -/
theorem strcasecmp_spec (a b : Option Val) (r : Val) (h : strcasecmpS a b = .ok r) :
    strcasecmpOp (a.getD .null) (b.getD .null) = .ok r := Proofs.C04.strcasecmp_pure a b r h

example : strcasecmpOp (.str "AB") (.str "ab") = .ok (.int 0) := by
  have h1 : asciiUpper "AB" = .ok "AB" := by decide +kernel
  have h2 : asciiUpper "ab" = .ok "AB" := by decide +kernel
  simp [strcasecmpOp, upperArg, pyStr, h1, h2, bind, Except.bind, pure, Except.pure]

/-- `$mod` of two integers is the integer remainder with the sign of the dividend -/
theorem mod_int (a b : Int) (hb : b ≠ 0) :
    binaryArith "$mod" (.int a) (.int b) = .ok (.int (Int.tmod a b)) := by
  have : (b == 0) = false := by simpa using hb
  simp [binaryArith, isNull, isBoolV, toPyNum, pyMod, this]

/-- `$ceil $floor $trunc` of a double are doubles -/
theorem round_keeps_double (m : Int) (e : Nat) :
    unaryArith "$ceil" (.f m e) = mkF (ceilDy m e) 0 ∧
    unaryArith "$floor" (.f m e) = mkF (floorDy m e) 0 ∧
    unaryArith "$trunc" (.f m e) = mkF (if m ≥ 0 then floorDy m e else ceilDy m e) 0 := by
  refine ⟨?_, ?_, ?_⟩ <;> simp [unaryArith]

/-- `$add` of a date and an integer moves the date by that many milliseconds (the result being a
    date that Python's `datetime` holds: years 1 to 9999) -/
theorem add_date_int (u n : Int) (hlo : dateMinUs ≤ u + n * 1000) (hhi : u + n * 1000 ≤ dateMaxUs) :
    naryArith "$add" [.date u none, .int n] = .ok (.date (u + n * 1000) none) := by
  simp [naryArith, checkAdd, toPyNum, sumNums, PyNum.add, PyNum.check, datePlus, mkDate, hlo, hhi,
    bind, Except.bind, pure, Except.pure]

/-- beyond that range the model has no answer (the code raises OverflowError, the server has a
    date) -/
theorem add_date_int_out_of_range (u n : Int)
    (h : u + n * 1000 < dateMinUs ∨ dateMaxUs < u + n * 1000) :
    naryArith "$add" [.date u none, .int n] = unmodelled := by
  have : (decide (dateMinUs ≤ u + n * 1000) && decide (u + n * 1000 ≤ dateMaxUs)) = false := by
    rcases h with h | h
    · have : ¬ dateMinUs ≤ u + n * 1000 := by omega
      simp [this]
    · have : ¬ u + n * 1000 ≤ dateMaxUs := by omega
      simp [this]
  simp [naryArith, checkAdd, toPyNum, sumNums, PyNum.add, PyNum.check, datePlus, mkDate, this,
    bind, Except.bind, pure, Except.pure]

/-- `$mod` of two integers stays exact beyond 2^53, where a double no longer holds every integer
    (`math.fmod` would answer 0 for the first and 16 for the second) -/
theorem mod_int_beyond_double :
    binaryArith "$mod" (.int 9007199254740993) (.int 2) = .ok (.int 1) ∧
    binaryArith "$mod" (.int 1541815603606036487) (.int 16) = .ok (.int 7) ∧
    binaryArith "$mod" (.int (-9007199254740993)) (.int 2) = .ok (.int (-1)) := by
  refine ⟨?_, ?_, ?_⟩ <;> (rw [mod_int _ _ (by decide)]; rfl)

/-- "the model has no answer" / "the answer is the double m / 2^e", as decidable tests -/
def noAnswer (r : R Val) : Bool := match r with | .error .unmodelled => true | _ => false
def isDouble (r : R Val) (m : Int) (e : Nat) : Bool :=
  match r with | .ok (.dbl m' e') => m' == m && e' == e | _ => false

/-- an int that `float()` would round has no answer next to a float operand: `$add`, `$subtract`,
    `$divide`, `$mod`, `$avg` of 2^53 + 1 (or 2^54 + 2) and a double are outside the model … -/
theorem rounded_int_with_double_unmodelled :
    noAnswer (naryArith "$add" [.int 9007199254740993, .dbl (-3) 0]) = true ∧
    noAnswer (binaryArith "$subtract" (.int 9007199254740993) (.dbl 3 0)) = true ∧
    noAnswer (binaryArith "$divide" (.int 18014398509481986) (.dbl 3 0)) = true ∧
    noAnswer (binaryArith "$mod" (.int 9007199254740993) (.dbl 2 0)) = true ∧
    noAnswer (groupingInExpr "$avg" [.int 6004799503160662, .int 6004799503160662,
      .int 6004799503160662]) = true := by
  decide +kernel

/-- … while ints that are doubles (2^53, 2^60) mix with doubles as before, and two ints are
    divided exactly -/
theorem exact_int_with_double :
    isDouble (naryArith "$add" [.int 9007199254740992, .dbl (-3) 0]) 9007199254740989 0 = true ∧
    isDouble (binaryArith "$mod" (.int 1152921504606846976) (.dbl 3 0)) 1 0 = true ∧
    isDouble (binaryArith "$divide" (.int 18014398509481986) (.int 3)) 6004799503160662 0 = true := by
  decide +kernel

/-- `{$mod: ["$a", 2]}` on a stored 2^53 + 1 is inside D (so `eval_eq_spec_partial` gives it the
    exact remainder of the rules); `{$add: ["$a", -3.0]}` on it is not -/
example :
    exprInD (.doc [("$mod", .arr [.str "$a", .int 2])])
      (.doc [("_id", .int 0), ("a", .int 9007199254740993)]) = true ∧
    exprInD (.doc [("$add", .arr [.str "$a", .dbl (-3) 0])])
      (.doc [("_id", .int 0), ("a", .int 9007199254740993)]) = false := by
  decide +kernel

/-- two dates are rejected -/
theorem add_two_dates (u u' : Int) (r : List Val) :
    naryArith "$add" (.date u none :: .date u' none :: r) = .error .opFail := by
  simp [naryArith, checkAdd, bind, Except.bind]

/-- `$concat` rejects an operand that is neither a string nor null -/
theorem concat_rejects (vals : List Val) (v : Val) (hv : v ∈ vals) (h1 : isNull v = false)
    (h2 : isStr v = false) : concatOp vals = .error .opFail := by
  have : vals.any (fun v => !isNull v && !isStr v) = true :=
    List.any_eq_true.mpr ⟨v, hv, by simp [h1, h2]⟩
  simp [concatOp, this]

/-! ### `$sum $avg $min $max` as expression operators

    Repaired in the library by 94aa9ad (`$min` / `$max` order values of several types by the BSON
    order instead of raising TypeError) and 2f66991 (`$sum` / `$avg` ignore booleans like every
    other value that is not a number); findings `minmaxtypes`, `sumbool` (now `fixed`).  The
    operators are inside the fragment of `eval_eq_spec_partial`; the statements below say what
    they compute.  `groupingInExpr` is `_GROUPING_OPERATOR_MAP[op]` of the code as an expression
    operator (`groupingList`, with no answer for an `$avg` whose integer sum `float()` would
    round: the rule has none there either, `pyTrueDiv`), `accS` the rule. -/

/-- **sum_avg_spec** (full strength: every list of values, no hypothesis) — `$sum` is the sum of
    the numbers among the values and `$avg` their mean; what is not a number is ignored. -/
theorem sum_avg_spec (k : String) (hk : k = "$sum" ∨ k = "$avg") (xs : List Val) :
    groupingInExpr k xs = accS k (xs.map some) := by
  have := Proofs.C04.sumavg_eq k hk (xs.map some)
  rwa [Proofs.C04.nulled_some] at this

/-- a value that is not a number — null, missing, a boolean, a string, a date, an array, a
    document — changes neither `$sum` nor `$avg` -/
theorem sum_avg_ignore (k : String) (hk : k = "$sum" ∨ k = "$avg") (v : Option Val)
    (vs : List (Option Val)) (h : v.bind number = none) : accS k (v :: vs) = accS k vs :=
  Proofs.C04.sumavg_ignores k hk v vs h

/-- in particular a boolean (it used to count as 0 / 1: finding `sumbool`), null and missing -/
example : (some (Val.bool true)).bind number = none ∧ (some Val.null).bind number = none ∧
    (none : Option Val).bind number = none ∧ (some (Val.arr [.int 1])).bind number = none := by
  simp [number]

/-- `$sum` of integers is their sum, an integer -/
theorem sum_of_ints (is : List Int) :
    accS "$sum" (is.map (fun i => some (Val.int i))) = .ok (.int (is.foldl (· + ·) 0)) :=
  Proofs.C04.sum_ints is

/-- no number among the values: `$sum` is 0 and `$avg` is null -/
theorem sum_avg_of_no_number (vs : List (Option Val)) (h : numbersOf vs = []) :
    accS "$sum" vs = .ok (.int 0) ∧ accS "$avg" vs = .ok .null :=
  Proofs.C04.sumavg_none vs h

example : numbersOf [some (.bool true), none, some .null, some (.str "1")] = [] := by
  simp [numbersOf, number]

/-- the former counterexample of `sumbool`: `{$sum: [1, true]}` is 1 -/
example : groupingInExpr "$sum" [.int 1, .bool true] = .ok (.int 1) := by
  rw [sum_avg_spec "$sum" (Or.inl rfl)]
  simp [accS, numbersOf, number, sumAll, PyNum.add, PyNum.check, PyNum.toVal, bind, Except.bind]

/-- The full-strength statement for `$min` / `$max`: on every list of values the code computes the
    first least / greatest, in the BSON order of the rules, of the values that are not null. -/
def minmax_spec_full : Prop :=
  ∀ (k : String), k = "$min" ∨ k = "$max" → ∀ xs : List Val,
    groupingInExpr k xs = accS k (xs.map some)

/-- It is false of the code as it stands (known finding `boolnum`: inside arrays `bson_compare`
    skips the items that are equal by Python `==`, and `1 == True`): the rules put `[1]` below
    `[true]`, the code finds them equal and keeps the first. -/
theorem minmax_spec_full_fails : ¬ minmax_spec_full := by
  intro h
  have := h "$max" (Or.inr rfl) [.arr [.int 1], .arr [.bool true]]
  have h1 : groupingInExpr "$max" [.arr [.int 1], .arr [.bool true]] = .ok (.arr [.int 1]) := by rfl
  have h2 : accS "$max" ([Val.arr [.int 1], .arr [.bool true]].map some) =
      .ok (.arr [.bool true]) := by rfl
  rw [h1, h2] at this
  simp at this

/-- **minmax_spec** (partial: no reason of the domain applies to a comparison between two of the
    values that are not null, i.e. they are flat — scalars and arrays of scalars — and no array
    among them meets a boolean/number clash): `$min` / `$max` is the first least / greatest of
    the values that are neither null nor missing in the BSON order, null when there is none.
    Values of several types are ordered by type (finding `minmaxtypes`, repaired). -/
theorem minmax_spec_partial (k : String) (hk : k = "$min" ∨ k = "$max") (xs : List Val)
    (h : pairwiseReasons (xs.filter (fun v => !isNull v)) = []) :
    groupingInExpr k xs = accS k (xs.map some) := by
  have := Proofs.C04.minmax_eq k hk (xs.map some) (by rwa [Proofs.C04.presentOf_map_some])
  rwa [Proofs.C04.nulled_some] at this

/-- values of five types, a null among them, and an array -/
example : pairwiseReasons ([Val.int 1, .str "x", .null, .bool true, .date 0 none,
    .arr [.int 2, .str "a"], .dbl 3 1].filter (fun v => !isNull v)) = [] := by decide +kernel

/-- the former counterexample of `minmaxtypes`: `{$max: [1, "x", true]}` is `true` -/
example : groupingInExpr "$max" [.int 1, .str "x", .bool true] = .ok (.bool true) := by rfl

/-- nothing but null and missing values: `$min` and `$max` are null -/
theorem minmax_of_nothing (k : String) (hk : k = "$min" ∨ k = "$max") (vs : List (Option Val))
    (h : presentOf vs = []) : accS k vs = .ok .null := Proofs.C04.minmax_none k hk vs h

example : presentOf [none, some .null, none] = [] := by decide +kernel

/-- the rules' `$min` / `$max` is one of the values, -/
theorem minmax_is_member (isMax : Bool) (r : List Val) (y : Val) :
    extremumS isMax r y ∈ y :: r := Proofs.C04.extremumS_mem isMax r y

/-- **max_is_greatest** — no value is above the `$max` (flat values), -/
theorem max_is_greatest (r : List Val) (y : Val) (h : ∀ v ∈ y :: r, cmpFlat v = true) :
    ∀ v ∈ y :: r, ord v (extremumS true r y) ≠ .gt := Proofs.C04.extremumS_max_ge r y h

/-- **min_is_least** — no value is below the `$min`, -/
theorem min_is_least (r : List Val) (y : Val) (h : ∀ v ∈ y :: r, cmpFlat v = true) :
    ∀ v ∈ y :: r, ord (extremumS false r y) v ≠ .gt := Proofs.C04.extremumS_min_le r y h

example : ∀ v ∈ [Val.int 1, .str "x", .arr [.bool true, .null], .dbl 3 1], cmpFlat v = true := by
  decide +kernel

/-- and of equal values the first wins: a value is replaced only by a strictly better one. -/
theorem minmax_first_wins (isMax : Bool) (r : List Val) (y : Val)
    (h : ∀ v ∈ r, (if isMax then ord y v else ord v y) ≠ .lt) : extremumS isMax r y = y :=
  Proofs.C04.extremumS_first isMax r y h

/-- e.g. `{$max: [1, 1.0]}` is the integer, `{$max: [1.0, 1]}` the double -/
example : extremumS true [.dbl 1 0] (.int 1) = .int 1 ∧ extremumS true [.int 1] (.dbl 1 0) = .dbl 1 0 :=
  ⟨rfl, rfl⟩

/-- **bson_order_total_preorder** — "greatest" and "least" make sense: on flat values the BSON
    order of the rules is oriented (exactly one of `<`, `=`, `>` holds, and swapping the operands
    swaps the outcome) and transitive. -/
theorem bson_order_oriented (a b : Val) (ha : cmpFlat a = true) (hb : cmpFlat b = true) :
    ord b a = (ord a b).swap := Proofs.C04.flat_swap a b ha hb

theorem bson_order_transitive (a b c : Val) (ha : cmpFlat a = true) (hb : cmpFlat b = true)
    (hc : cmpFlat c = true) (h1 : ord a b ≠ .gt) (h2 : ord b c ≠ .gt) : ord a c ≠ .gt :=
  Proofs.C04.flat_trans a b c ha hb hc h1 h2

example : cmpFlat (.arr [.int 1, .str "a"]) = true ∧ cmpFlat (.dbl 1 1) = true ∧
    cmpFlat (.bool false) = true ∧ ord (.dbl 1 1) (.arr [.int 1, .str "a"]) ≠ .gt ∧
    ord (.arr [.int 1, .str "a"]) (.bool false) ≠ .gt := by decide +kernel

/-- **acc_list_spec** — `{$op: [e₁, …, eₙ]}` for `$sum $avg $min $max` in the computed-field and
    `$expr` contexts: every operand is evaluated, then the operator ranges over the values — a
    missing operand (`none`) is skipped like a null one, an operand whose value is an array is one
    value (it is not a number; it is compared as an array). -/
theorem acc_list_spec (c : Ctx) (hign : c.ign = true) (k : String)
    (hk : k = "$sum" ∨ k = "$avg" ∨ k = "$min" ∨ k = "$max")
    (xs : List Val) (vs : List (Option Val)) (h1 : xs.map (eval c) = vs.map .ok)
    (hr : strictReasons k vs = []) :
    eval c (.doc [(k, .arr xs)]) = (accS k vs).map some :=
  Proofs.C04.acc_list_eval c hign k hk xs vs h1 hr

/-- operands of three types, one of them missing -/
example : ∃ (c : Ctx) (xs : List Val) (vs : List (Option Val)), c.ign = true ∧
    xs.map (eval c) = vs.map .ok ∧ strictReasons "$max" vs = [] ∧
    vs = [some (.int 3), none, some (.str "x"), some (.bool false)] :=
  ⟨Ctx.init true (.doc [("a", .int 3), ("s", .str "x"), ("f", .bool false)]),
   [.str "$a", .str "$zz", .str "$s", .str "$f"],
   [some (.int 3), none, some (.str "x"), some (.bool false)], rfl, by
     simp [eval, evalBasic, strKind, Ctx.init, splitDotsChars, getDotGen, dget], by decide +kernel,
   rfl⟩

/-- **acc_missing_operand_spec** (full strength) — one operand that is not written as a list and
    whose value is missing leaves nothing to range over: `$sum` is 0, `$avg $min $max` are null
    (the expression used to be missing itself: finding `accbaremissing`, repaired by 50b60be). -/
theorem acc_missing_operand_spec (c : Ctx) (k : String)
    (hk : k = "$sum" ∨ k = "$avg" ∨ k = "$min" ∨ k = "$max") (v : Val) (hv : v.isArr = false)
    (h1 : eval c v = .ok none) :
    eval c (.doc [(k, v)]) = (accBareS k none).map some :=
  Proofs.C04.acc_bare_missing c k hk v hv h1

/-- the former counterexample: `{$sum: "$zz"}` is 0, `{$max: "$zz"}` is null -/
example : evalExpr (.doc []) (.doc [("$sum", .str "$zz")]) = .ok (some (.int 0)) ∧
    evalExpr (.doc []) (.doc [("$max", .str "$zz")]) = .ok (some .null) := by
  have h1 : eval (Ctx.init true (.doc [])) (.str "$zz") = .ok none := by
    simp [eval, evalBasic, strKind, Ctx.init, splitDotsChars, getDotGen, dget]
  constructor
  · unfold evalExpr
    rw [acc_missing_operand_spec _ "$sum" (Or.inl rfl) _ rfl h1]; rfl
  · unfold evalExpr
    rw [acc_missing_operand_spec _ "$max" (Or.inr (Or.inr (Or.inr rfl))) _ rfl h1]; rfl

/-- **acc_path_spec** (partial: the value of the operand is an array to whose elements no reason
    applies — for `$sum` / `$avg` there is none, `acc_path_sum_avg_spec` below; for `$min` / `$max`
    the classes that remain are those of `minmax_spec_full_fails`). -/
theorem acc_path_spec_partial (c : Ctx) (hign : c.ign = true) (k : String)
    (hk : k = "$sum" ∨ k = "$avg" ∨ k = "$min" ∨ k = "$max") (v : Val) (hv : v.isArr = false)
    (ys : List Val) (h1 : eval c v = .ok (some (.arr ys)))
    (hr : strictReasons k (ys.map some) = []) :
    eval c (.doc [(k, v)]) = (accBareS k (some (.arr ys))).map some :=
  Proofs.C04.acc_bare_eval c hign k hk v hv ys h1 hr

example : ∃ (c : Ctx) (s : String) (ys : List Val), c.ign = true ∧
    eval c (.str s) = .ok (some (.arr ys)) ∧ strictReasons "$min" (ys.map some) = [] ∧
    ys = [.int 3, .null, .str "a", .bool true] :=
  ⟨Ctx.init true (.doc [("l", .arr [.int 3, .null, .str "a", .bool true])]), "$l",
   [.int 3, .null, .str "a", .bool true], rfl, by
     simp [eval, evalBasic, strKind, Ctx.init, splitDotsChars, getDotGen, dget], by decide +kernel,
   rfl⟩

/-- **acc_single_value_spec** — an operand whose value is present and not an array is the one
    value the operator ranges over: `{$sum: "$a"}` is `a` for a number and 0 otherwise,
    `{$max: "$a"}` is `a` (it used to be iterated over — a TypeError for numbers, the characters of
    a string: part of finding `scalararg`, repaired by e7bd52b).  No hypothesis on the value. -/
theorem acc_single_value_spec (c : Ctx) (k : String)
    (hk : k = "$sum" ∨ k = "$avg" ∨ k = "$min" ∨ k = "$max") (v : Val) (hv : v.isArr = false)
    (x : Val) (hx : x.isArr = false) (h1 : eval c v = .ok (some x)) :
    eval c (.doc [(k, v)]) = (accBareS k (some x)).map some := by
  rw [Proofs.C04.acc_bare_eval_val c k hk v hv x hx h1]
  cases x <;> simp [Val.isArr] at hx <;> rfl

example : ∃ (c : Ctx) (v x : Val), v.isArr = false ∧ x.isArr = false ∧ eval c v = .ok (some x) ∧
    x = .str "ab" :=
  ⟨Ctx.init true (.doc [("s", .str "ab")]), .str "$s", .str "ab", rfl, rfl, by
     simp [eval, evalBasic, strKind, Ctx.init, splitDotsChars, getDotGen, dget], rfl⟩

/-- the witnesses of the repaired findings `minmaxtypes` and `sumbool` are inside D, where
    `eval_eq_spec_partial` gives them the value of the rules; so are the two forms over operands
    of several types -/
example :
    exprInD (.doc [("$max", .arr [.str "$a", .str "x"])]) (.doc [("_id", .int 0), ("a", .int 1)]) = true ∧
    exprInD (.doc [("$sum", .arr [.str "$a", .str "$f"])])
      (.doc [("_id", .int 0), ("a", .int 1), ("f", .bool true)]) = true ∧
    exprInD (.doc [("$min", .str "$x")])
      (.doc [("_id", .int 0), ("x", .arr [.int 1, .str "x", .bool true, .null, .arr [.int 3]])]) = true ∧
    exprInD (.doc [("$avg", .arr [.str "$a", .str "$zz", .null, .str "$f", .dbl 5 1])])
      (.doc [("_id", .int 0), ("a", .int 1), ("f", .bool true)]) = true := by
  decide +kernel

/-- **acc_path_sum_avg_spec** (full strength) — `{$sum: e}` / `{$avg: e}` with `e` not written
    as a list, whatever the value of `e` is: an array is ranged over, any other value is the one
    value, a missing one leaves nothing. -/
theorem acc_path_sum_avg_spec (c : Ctx) (hign : c.ign = true) (k : String)
    (hk : k = "$sum" ∨ k = "$avg") (v : Val) (hv : v.isArr = false) (a : Option Val)
    (h1 : eval c v = .ok a) :
    eval c (.doc [(k, v)]) = (accBareS k a).map some := by
  have hk' : k = "$sum" ∨ k = "$avg" ∨ k = "$min" ∨ k = "$max" := by
    rcases hk with h | h
    · exact Or.inl h
    · exact Or.inr (Or.inl h)
  cases a with
  | none => exact acc_missing_operand_spec c k hk' v hv h1
  | some x =>
    cases hx : x.isArr with
    | false => exact acc_single_value_spec c k hk' v hv x hx h1
    | true =>
      obtain ⟨ys, rfl⟩ : ∃ ys, x = .arr ys := by
        cases x <;> simp [Val.isArr] at hx; exact ⟨_, rfl⟩
      exact acc_path_spec_partial c hign k hk' v hv ys h1 (by
        rcases hk with rfl | rfl <;> simp [strictReasons, arithOps])

/-! ### the second batch of repairs of the evaluator

    fce7e55 (an array in expression position evaluates its items), 9ff1475 (an operator that
    takes one argument accepts a one-item argument list), f32e005 (a variadic operator takes a
    bare operand as a one-item list), e7bd52b (`acc_single_value_spec` above), 10aa9e1 (booleans
    are rejected in arithmetic and as indexes), 9957044 / b53c397 (`let_subst`,
    `var_name_rule` above), f19df5e (a field path through an array).  Findings `arrayliteral`,
    `boolarith`, `letmissing`, `laxargs` are `fixed`; of `scalararg` and `arraypath` a part
    remains. -/

/-- **array_literal_spec** (full strength) — an array in expression position evaluates each of
    its items; an item whose value is missing gives a null item (it used to be returned as it
    was written: finding `arrayliteral`). -/
theorem array_literal_spec (c : Ctx) (xs : List Val) (vs : List (Option Val))
    (h : xs.map (eval c) = vs.map .ok) :
    eval c (.arr xs) = .ok (some (.arr (vs.map (·.getD .null)))) :=
  Proofs.C04.array_literal c xs vs h

example : ∃ (c : Ctx) (xs : List Val) (vs : List (Option Val)),
    xs.map (eval c) = vs.map .ok ∧ vs = [some (.int 3), none, some (.arr [.int 3])] :=
  ⟨Ctx.init true (.doc [("a", .int 3)]), [.str "$a", .str "$zz", .arr [.str "$a"]],
   [some (.int 3), none, some (.arr [.int 3])], by
     simp [eval, evalItems, evalBasic, strKind, Ctx.init, splitDotsChars, getDotGen, dget, bind,
       Except.bind, pure, Except.pure], rfl⟩

/-- an item that raises makes the array raise -/
theorem array_literal_error (c : Ctx) (pre post : List Val) (x : Val) (vs : List (Option Val))
    (e : Err) (h : pre.map (eval c) = vs.map .ok) (hx : eval c x = .error e) :
    eval c (.arr (pre ++ x :: post)) = .error e :=
  Proofs.C04.array_literal_error c pre post x vs e h hx

/-- **unary_list_spec** — `{$op: [x]}` is `{$op: x}` for every operator that takes exactly one
    argument (`$abs … $trunc`, the date parts, `$not $toLower $toUpper $toString $isArray
    $isNumber $arrayToObject $objectToArray …`) and every `x` not itself written as a list, -/
theorem unary_list_spec (c : Ctx) (k : String) (hk : unaryListOps.contains k = true) (x : Val)
    (hx : x.isArr = false) :
    eval c (.doc [(k, .arr [x])]) = eval c (.doc [(k, x)]) := by
  obtain ⟨h1, h2, h3, hv⟩ := Proofs.C04.unaryListOps_known k hk
  exact Proofs.C04.unary_list_eq c k hk x hx h1 h2 h3 hv

example : unaryListOps.contains "$year" = true ∧ unaryListOps.contains "$toUpper" = true := by
  decide

/-- and any other number of items is rejected. -/
theorem unary_list_arity (c : Ctx) (k : String) (hk : unaryListOps.contains k = true)
    (xs : List Val) (hlen : xs.length ≠ 1) :
    eval c (.doc [(k, .arr xs)]) = .error .opFail := by
  obtain ⟨h1, h2, h3, _⟩ := Proofs.C04.unaryListOps_known k hk
  exact Proofs.C04.eval_op_unary_arity c k xs h1 h2 h3 hk hlen

/-- **bare_operand_spec** — `$add $multiply $concat $and $or $setUnion` take one operand that is
    not written as a list as a one-item argument list (it used to be an AssertionError /
    TypeError: finding `scalararg`). -/
theorem bare_operand_spec (c : Ctx) (k : String) (hk : variadicOps.contains k = true) (v : Val)
    (hv : v.isArr = false) :
    eval c (.doc [(k, v)]) = eval c (.doc [(k, .arr [v])]) :=
  Proofs.C04.bare_eq_list c k hk v hv

/-- the former counterexample of `scalararg`: `{$add: "$a"}` on `{a: 1}` is 1 -/
example : evalExpr (.doc [("a", .int 1)]) (.doc [("$add", .str "$a")]) = .ok (some (.int 1)) := by
  unfold evalExpr
  rw [bare_operand_spec _ "$add" (by decide) _ rfl]
  rfl

/-- **bool_not_a_number** — a boolean operand is rejected by the arithmetic operators and as an
    index of `$arrayElemAt` (it used to count as 0 / 1: finding `boolarith`, repaired by 10aa9e1);
    a null operand that is looked at first still gives null. -/
theorem bool_not_a_number (k : String) (b : Bool) :
    unaryArithOpt k (some (.bool b)) = .error .opFail ∧
    (∀ y, isNull y = false → binaryArith k (.bool b) y = .error .opFail) ∧
    (∀ x, isNull x = false → binaryArith k x (.bool b) = .error .opFail) ∧
    (∀ a, isNull a = false → arrayElemAtOp a (.bool b) = .error .opFail) :=
  ⟨Proofs.C04.unary_bool k b, fun y hy => Proofs.C04.binary_bool_left k b y hy,
   fun x hx => Proofs.C04.binary_bool_right k x b hx, fun a ha => Proofs.C04.elemAt_bool a b ha⟩

/-- `$add` / `$multiply`: the operands are looked at from the left; a boolean after numbers is
    rejected (a null met first gives null: `null_propagates_nary`) -/
theorem nary_bool_rejected (op : String) (hop : op = "$add" ∨ op = "$multiply")
    (pre post : List Val) (b : Bool) (hpre : ∀ v ∈ pre, (toPyNumNB v).isSome = true) :
    naryArith op (pre ++ .bool b :: post) = .error .opFail :=
  Proofs.C04.nary_bool op hop pre post b hpre

example : ∀ v ∈ [Val.int 1, .dbl 3 1], (toPyNumNB v).isSome = true := by decide

/-- The full-strength statement for field paths: wherever the rules' path lookup has an answer,
    `get_value_by_dot` computes it. -/
def field_path_spec_full : Prop :=
  ∀ (ps : List String) (v : Val) (r : Option Val), Spec.path ps v = .ok r → getDotGen ps v = .ok r

/-- It is false of the code as it stands (known finding `arraypath`, the half that remains): a
    numeric component that meets an array indexes it — `$l.0` on `{l: [7]}` is 7 — where the rules
    look for a field `0` in the documents of the array and find `[]`. -/
theorem field_path_spec_full_fails : ¬ field_path_spec_full := by
  intro h
  have := h ["l", "0"] (.doc [("l", .arr [.int 7])]) _ Proofs.C04.path_index_witness.2
  rw [Proofs.C04.path_index_witness.1] at this
  simp at this

/-- **field_path_spec** (partial: no numeric component meets an array) — a path descends through
    sub-documents; through an array it gives the values that the documents of the array have at
    the rest of the path, the others being left out (it used to be missing unless every element
    had the field: the repaired half of `arraypath`, f19df5e). -/
theorem field_path_spec_partial (ps : List String) (v : Val) (h : pathIndexesArray ps v = false)
    (r : Option Val) (hs : Spec.path ps v = .ok r) : getDotGen ps v = .ok r :=
  Proofs.C04.getDotGen_of_path ps v h r hs

/-- the former witness: `$q.n` on `{q: [{n: 1}, {p: 2}]}` is `[1]` -/
example : pathIndexesArray ["q", "n"]
      (.doc [("q", .arr [.doc [("n", .int 1)], .doc [("p", .int 2)]])]) = false ∧
    Spec.path ["q", "n"] (.doc [("q", .arr [.doc [("n", .int 1)], .doc [("p", .int 2)]])]) =
      .ok (some (.arr [.int 1])) := ⟨by decide +kernel, rfl⟩

/-- the witnesses of the repaired findings `arrayliteral`, `scalararg` (the repaired part),
    `boolarith` (the rules reject it, so does the code), `letmissing`, `arraypath` (the repaired
    half) and the bare accumulator operand are inside D, where `eval_eq_spec_partial` gives them
    the value of the rules -/
example :
    exprInD (.doc [("$not", .arr [.str "$a"])]) (.doc [("_id", .int 0), ("a", .int 0)]) = true ∧
    exprInD (.doc [("$add", .str "$a")]) (.doc [("_id", .int 0), ("a", .int 1)]) = true ∧
    exprInD (.doc [("$let", .doc [("vars", .doc [("v", .str "$zz")]), ("in", .int 1)])])
      (.doc [("_id", .int 0)]) = true ∧
    exprInD (.str "$q.n")
      (.doc [("_id", .int 0), ("q", .arr [.doc [("n", .int 1)], .doc [("p", .int 2)]])]) = true ∧
    exprInD (.doc [("$max", .str "$a")]) (.doc [("_id", .int 0), ("a", .int 5)]) = true ∧
    exprInD (.doc [("$concatArrays", .arr [.arr [.str "$a", .str "$zz"], .str "$l"])])
      (.doc [("_id", .int 0), ("a", .int 1), ("l", .arr [.int 2])]) = true ∧
    exprInD (.doc [("$and", .str "$a")]) (.doc [("_id", .int 0), ("a", .int 1)]) = true := by
  decide +kernel

/-- and the rules reject a boolean in arithmetic: `{$add: ["$f", 1]}` on `{f: true}` is outside D
    only because there is no value to compare (`specraises`) -/
example : exprReasons (.doc [("$add", .arr [.str "$f", .int 1])])
    (.doc [("_id", .int 0), ("f", .bool true)]) = ["specraises"] := by decide +kernel

/-! ### the third batch of repairs of the evaluator

    d10f41c (an operator of a fixed arity rejects any other number of arguments before evaluating
    them), 50b60be (`acc_missing_operand_spec` above), b727c9f (`$toString` of a datetime).  What
    remains of finding `scalararg` is `$strcasecmp` given a bare operand. -/

/-- **arity_list_spec** (full strength) — comparisons, `$subtract $divide $mod $pow $log`, `$in`,
    `$split`, `$arrayElemAt` take exactly two arguments, `$cond` three, `$ifNull` and `$setEquals`
    at least two: a list of another length is an OperationFailure, and none of its items is
    evaluated (whatever they are, the answer is the same). -/
theorem arity_list_spec (c : Ctx) (k : String) (hk : arityOps.contains k = true) (xs : List Val)
    (h : arityErr k xs.length = some .opFail) :
    eval c (.doc [(k, .arr xs)]) = .error .opFail :=
  Proofs.C04.arity_list_error c k hk xs h

example : arityOps.contains "$eq" = true ∧ arityErr "$eq" [Val.doc [("$divide", .arr [.int 1, .int 0])]].length = some .opFail ∧
    arityErr "$cond" 2 = some .opFail ∧ arityErr "$ifNull" 1 = some .opFail ∧
    arityErr "$setEquals" 0 = some .opFail ∧ arityErr "$cmp" 3 = some .opFail := by decide

/-- **arity_bare_spec** (full strength) — a bare operand counts as one argument: rejected, whatever
    it is (`{$eq: "$a"}` used to compare the characters `$` and `a`: finding `scalararg`); the
    `{if, then, else}` document of `$cond` is the one exception. -/
theorem arity_bare_spec (c : Ctx) (k : String) (hk : arityOps.contains k = true) (v : Val)
    (hv : v.isArr = false) (hc : k = "$cond" → v.isDoc = false) :
    eval c (.doc [(k, v)]) = .error .opFail :=
  Proofs.C04.arity_bare_error c k hk v hv hc

example : arityOps.contains "$ifNull" = true ∧ (Val.str "$a").isArr = false := by decide

/-- the rules reject it too: by the rules an operator of two arguments given another number of
    them has no value -/
theorem arity_rules_reject (root : Val) (env : Env) (k : String)
    (hk : Proofs.C04.binaryRuleOps.contains k = true) (xs : List Val) (hlen : xs.length ≠ 2)
    (r : Option Val) : sOperator root env [(k, .arr xs)] ≠ .ok r :=
  Proofs.C04.spec_arity_two root env k hk xs hlen r

/-- `$toString` of a (naive, UTC) datetime is `YYYY-MM-DDTHH:MM:SS.mmmZ`, always with three
    fraction digits (a whole minute used to lose its seconds: repaired by b727c9f) -/
theorem toString_date_spec (u : Int) :
    toStringOp (.date u none) = .ok (.str (isoZ u)) ∧ toStringS (some (.date u none)) = .ok (.str (isoZ u)) :=
  ⟨rfl, rfl⟩

example : isoZ 1577836800000000 = "2020-01-01T00:00:00.000Z" := by decide +kernel

/-- the witnesses of the repaired finding `accbaremissing` and of `$toString` of a date are
    inside D; `{$eq: "$a"}` is outside only because the rules reject it -/
example :
    exprInD (.doc [("$sum", .str "$zz")]) (.doc [("_id", .int 0)]) = true ∧
    exprInD (.doc [("$toString", .str "$t")])
      (.doc [("_id", .int 0), ("t", .date 1577836800000000 none)]) = true ∧
    exprReasons (.doc [("$eq", .str "$a")]) (.doc [("_id", .int 0), ("a", .int 1)]) = ["specraises"] := by
  decide +kernel

/-! ### `$dateFromParts`, `$dateFromString` -/

/-- **civil_of_days** — the other direction of `civil_roundtrip`: the day number of a valid
    calendar date (month 1 … 12, day 1 … the days of that month, any year) gives that date back. -/
theorem civil_of_days (y m d : Int) (hm1 : 1 ≤ m) (hm2 : m ≤ 12) (hd1 : 1 ≤ d)
    (hd2 : d ≤ daysInMonth y m) :
    civilFromDays (daysFromCivil y m d) = (y, m, d) :=
  Proofs.C04.civil_of_days y m d hm1 hm2 hd1 hd2

example : civilFromDays (daysFromCivil 2020 2 29) = (2020, 2, 29) ∧ (29 : Int) ≤ daysInMonth 2020 2 := by
  decide +kernel

open _root_.MongoModel.Proofs.C04 (partsDoc partsArgs PartsInRange partsUs)
attribute [local instance] MongoModel.Proofs.valDecEq

/-- **dateFromParts_parts_roundtrip** — for parts that are all inside their calendar ranges
    (year 1 … 9999, month 1 … 12, day 1 … the days of that month, hour 0 … 23, minute and second
    0 … 59, millisecond 0 … 999) `$dateFromParts` answers a date, and `$year $month $dayOfMonth
    $hour $minute $second $millisecond` of that date are the parts. -/
theorem dateFromParts_parts_roundtrip (y mo d h mi s ms : Int) (hr : PartsInRange y mo d h mi s)
    (ms0 : 0 ≤ ms) (ms1 : ms ≤ 999) :
    ∃ u, dateOp "$dateFromParts" (partsDoc y mo d h mi s ms) = .ok (.date u none) ∧
      dateOp "$year" (.date u none) = .ok (.int y) ∧
      dateOp "$month" (.date u none) = .ok (.int mo) ∧
      dateOp "$dayOfMonth" (.date u none) = .ok (.int d) ∧
      dateOp "$hour" (.date u none) = .ok (.int h) ∧
      dateOp "$minute" (.date u none) = .ok (.int mi) ∧
      dateOp "$second" (.date u none) = .ok (.int s) ∧
      dateOp "$millisecond" (.date u none) = .ok (.int ms) := by
  refine ⟨partsUs y mo d h mi s ms, ?_, ?_⟩
  · rw [Proofs.C04.dateOp_fromParts, Proofs.C04.dateFromPartsOp_inrange y mo d h mi s ms hr,
      Proofs.C04.mkDate_inrange y mo d h mi s ms hr ms0 ms1]
  · rw [Proofs.C04.dateOp_part "$year" (by decide), Proofs.C04.dateOp_part "$month" (by decide),
      Proofs.C04.dateOp_part "$dayOfMonth" (by decide), Proofs.C04.dateOp_part "$hour" (by decide),
      Proofs.C04.dateOp_part "$minute" (by decide), Proofs.C04.dateOp_part "$second" (by decide),
      Proofs.C04.dateOp_part "$millisecond" (by decide)]
    exact Proofs.C04.parts_of_partsUs y mo d h mi s ms hr ms0 ms1

example : PartsInRange 2020 2 29 13 14 15 := by decide +kernel

/-- the same through the evaluator, on one expression: the month of a date built from parts -/
example :
    evalExpr (.doc [("_id", .int 0)])
      (.doc [("$month", .doc [("$dateFromParts", .doc [("year", .int 2020), ("month", .int 2),
        ("day", .int 29), ("hour", .int 13), ("millisecond", .int 123)])])]) = .ok (some (.int 2)) := by
  decide +kernel

/-- **dateFromParts_eq_spec_partial** — on integer parts that are all inside their calendar
    ranges (the milliseconds may be any integer) the model of the code and the rule agree: both
    answer the instant of those parts, or have no answer when the milliseconds carry it out of
    the years 1 … 9999. -/
theorem dateFromParts_eq_spec_partial (y mo d h mi s ms : Int) (hr : PartsInRange y mo d h mi s) :
    dateOp "$dateFromParts" (partsDoc y mo d h mi s ms) = dateFromPartsS (partsArgs y mo d h mi s ms) := by
  rw [Proofs.C04.dateOp_fromParts]
  have hd31 := Proofs.C04.daysInMonth_le y mo
  obtain ⟨y0, y1, m0, m1, d0, d1, h0, h1, i0, i1, s0, s1⟩ := id hr
  rw [Proofs.C04.dateFromPartsOp_inrange y mo d h mi s ms hr,
    Proofs.C04.dateFromPartsS_ints y mo d h mi s ms y0 y1
      (by simp [smallPart]; omega),
    Proofs.C04.carryUs_inrange y mo d h mi s ms m0 m1]

example : PartsInRange 9999 12 31 23 59 59 ∧
    dateOp "$dateFromParts" (partsDoc 9999 12 31 23 59 59 999) = .ok (.date 253402300799999000 none) ∧
    dateOp "$dateFromParts" (partsDoc 9999 12 31 23 59 59 1000) = unmodelled ∧
    dateFromPartsS (partsArgs 9999 12 31 23 59 59 1000) = unmodelled := by
  decide +kernel

/-- outside the calendar ranges they differ (classes partscarry, partszero): month 14 is a
    ValueError in the code and February of the next year by the rule; day 0 is the 1st in the
    code and the last day of the month before by the rule -/
theorem dateFromParts_eq_spec_full_fails :
    dateOp "$dateFromParts" (partsDoc 2020 14 1 0 0 0 0) = .error .valueErr ∧
    dateFromPartsS (partsArgs 2020 14 1 0 0 0 0) = .ok (.date 1612137600000000 none) ∧
    dateOp "$dateFromParts" (partsDoc 2020 3 0 0 0 0 0) = .ok (.date 1583020800000000 none) ∧
    dateFromPartsS (partsArgs 2020 3 0 0 0 0 0) = .ok (.date 1582934400000000 none) := by
  decide +kernel

/-- **dateFromParts_millisecond_carry** — the milliseconds are not range-checked: any integer is
    added to the instant of the other parts, by the code (a `timedelta`) as by the rule; so 1000
    more milliseconds are one more second. -/
theorem dateFromParts_millisecond_carry (y mo d h mi s ms : Int) (hr : PartsInRange y mo d h mi s) :
    dateOp "$dateFromParts" (partsDoc y mo d h mi s ms) = mkDate (partsUs y mo d h mi s 0 + ms * 1000) ∧
    dateFromPartsS (partsArgs y mo d h mi s ms) = mkDate (partsUs y mo d h mi s 0 + ms * 1000) ∧
    (s + 1 ≤ 59 → dateOp "$dateFromParts" (partsDoc y mo d h mi s (ms + 1000)) =
      dateOp "$dateFromParts" (partsDoc y mo d h mi (s + 1) ms)) := by
  have e := dateFromParts_eq_spec_partial y mo d h mi s ms hr
  have v : dateOp "$dateFromParts" (partsDoc y mo d h mi s ms) =
      mkDate (partsUs y mo d h mi s 0 + ms * 1000) := by
    rw [Proofs.C04.dateOp_fromParts, Proofs.C04.dateFromPartsOp_inrange y mo d h mi s ms hr]
    congr 1; simp only [partsUs]; omega
  refine ⟨v, e ▸ v, fun hs => ?_⟩
  have hr' : PartsInRange y mo d h mi (s + 1) := by
    obtain ⟨y0, y1, m0, m1, d0, d1, h0, h1, i0, i1, s0, s1⟩ := id hr
    exact ⟨y0, y1, m0, m1, d0, d1, h0, h1, i0, i1, by omega, hs⟩
  rw [Proofs.C04.dateOp_fromParts, Proofs.C04.dateOp_fromParts,
    Proofs.C04.dateFromPartsOp_inrange y mo d h mi s (ms + 1000) hr,
    Proofs.C04.dateFromPartsOp_inrange y mo d h mi (s + 1) ms hr']
  congr 1; simp only [partsUs]; omega

example :
    PartsInRange 2017 1 1 0 0 0 ∧
    dateOp "$dateFromParts" (partsDoc 2017 1 1 0 0 0 (-1)) = .ok (.date 1483228799999000 none) ∧
    dateFromPartsS (partsArgs 2017 1 1 0 0 0 (-1)) = .ok (.date 1483228799999000 none) := by
  decide +kernel

/-- `$dateFromString` is refused (NotImplementedError) once its argument is parsed; `$dateFromParts`
    refuses the ISO-week parts and `timezone`, after requiring exactly one of `year` /
    `isoWeekYear`; a null part is the class partsnull -/
theorem dateFromString_refused (v : Val) : dateOp "$dateFromString" v = .error .notImpl := rfl

example :
    dateOp "$dateFromParts" (.doc [("isoWeekYear", .int 2020)]) = .error .notImpl ∧
    dateOp "$dateFromParts" (.doc [("year", .int 2020), ("timezone", .str "UTC")]) = .error .notImpl ∧
    dateOp "$dateFromParts" (.doc [("month", .int 2)]) = .error .opFail ∧
    dateOp "$dateFromParts" (.doc [("year", .int 2020), ("isoWeekYear", .int 2020)]) = .error .opFail ∧
    dateOp "$dateFromParts" (.int 5) = .error .opFail ∧
    dateOp "$dateFromParts" (.doc [("year", .null)]) = .error .typeErr ∧
    dateOp "$dateFromParts" (.doc [("year", .int 2020), ("month", .null)]) =
      .ok (.date 1577836800000000 none) ∧
    dateFromPartsS [("year", some (.int 2020)), ("month", some .null)] = .ok .null ∧
    exprReasons (.doc [("$dateFromParts", .doc [("year", .int 2020), ("month", .str "$a")])])
      (.doc [("_id", .int 0), ("a", .null)]) = ["unproved:$dateFromParts", "partsnull"] := by
  decide +kernel

end MongoModel.Props.C04
