/-
  Props.C12 — property theorems for C12 (projection returns exactly the requested part of each
  document, nothing else).  Only statements of the property live here; lemmas are in
  Proofs/C12*.lean.

  Impl  = MongoModel.copyOnlyFields / findProject (faithful model of the find-path projection of
          mongomock/collection.py), MongoModel.aggProject (the `$project` stage of aggregate.py),
          tied to the code by the per-run correspondence check
  Spec  = MongoModel.Spec.Proj.project / slice (the rules of the property text) and the relation
          `sub` (o ⊑ d)
  D     = MongoModel.Spec.Proj.inD (decidable; its negation is the list of named exclusion
          classes of Spec/ProjectDomain.lean)
-/
import Proofs.C12

namespace MongoModel.Props.C12
open MongoModel MongoModel.Spec.Proj

def isError {α : Type} : R α → Bool
  | .error _ => true
  | .ok _ => false

/-! ### a projection never selects, reorders, alters or invents -/

/-- **proj_map.** `list(find(filter, projection))` is `list(find(filter))` — the same documents
    in the same order — with every document replaced by its own projection: the projection has no
    influence on which documents are returned. -/
theorem proj_map (f p : Val) (ds rs : List Val) (h : findProject f p ds = .ok rs) :
    ∃ sel, findProject f .null ds = .ok sel ∧ sel.Sublist ds ∧ rs.length = sel.length ∧
      ∀ (i : Nat) (d : Val), sel[i]? = some d →
        ∃ o, rs[i]? = some o ∧ copyOnlyFields d p = .ok o := by
  obtain ⟨sel, h1, h2, h3, h4⟩ := Proofs.C12.proj_map f p ds rs h
  exact ⟨sel, h1, h2, h3, h4⟩

/-- the hypothesis is satisfiable with a filter that selects two of three documents -/
example : (match findProject (.doc [("a", .doc [("$gt", .int 1)])]) (.doc [("b", .int 1)])
    [.doc [("_id", .int 0), ("a", .int 2), ("b", .int 5)],
     .doc [("_id", .int 1), ("a", .int 1), ("b", .int 6)],
     .doc [("_id", .int 2), ("a", .int 3), ("c", .int 7)]] with
    | .ok rs => rs.length == 2
    | .error _ => false) = true := by decide +kernel

/-- **proj_sub.** Whatever the specification (operators, malformed values, every document), when
    the projection answers, its answer is ⊑ the input: every leaf of the output is a leaf of the
    input at the same path with the same value. -/
theorem proj_sub (p d o : Val) (h : copyOnlyFields d p = .ok o) : sub o d = true :=
  Proofs.C12.proj_sub p d o h

example : isError (copyOnlyFields
    (.doc [("_id", .int 1), ("m", .arr [.doc [("x", .int 1)], .doc [("x", .int 2), ("y", .int 3)]]),
           ("s", .int 3)])
    (.doc [("m.x", .int 1), ("m", .doc [("$slice", .int (-1))])])) = false := by decide +kernel

/-! ### inclusion and exclusion are exact -/

/-- Full strength: wherever the rule speaks of an inclusion, the code returns what the rule says
    (`_id` listed last). -/
def incl_exact_full : Prop :=
  ∀ p d s, project p d = some s → modeOf p = some true → copyOnlyFields d p = .ok (idLast s)

/-- False of the code as it stands (known finding `mixedarray`): `{'l.x': 1}` over
    `l: [1, {x: 1, y: 2}]` raises AttributeError instead of returning `l: [{x: 1}]`. -/
theorem incl_exact_full_fails : ¬ incl_exact_full := by
  intro h
  let p : Val := .doc [("l.x", .int 1)]
  let d : Val := .doc [("_id", .int 1), ("l", .arr [.int 1, .doc [("x", .int 1), ("y", .int 2)]])]
  have hs : (project p d).isSome = true := by decide +kernel
  have he : isError (copyOnlyFields d p) = true := by decide +kernel
  cases hp : project p d with
  | none => simp [hp] at hs
  | some s =>
    have := h p d s hp (by decide +kernel)
    rw [this] at he
    simp [isError] at he

/-- **incl_exact (on D).** An inclusion returns `_id` (unless excluded) plus exactly the named
    paths — descending through sub-documents and through each sub-document element of arrays —
    and nothing else. -/
theorem incl_exact_partial (p d : Val) (hD : inD p d = true) (hm : modeOf p = some true) :
    ∃ s, project p d = some s ∧ copyOnlyFields d p = .ok (idLast s) := by
  obtain ⟨s, h1, h2⟩ := Proofs.C12.exact_main p d (List.isEmpty_iff.mp hD)
  exact ⟨s, h1, by simpa [hm] using h2⟩

example : inD
    (.doc [("a.b", .int 1), ("c.d.e", .bool true), ("_id", .int 0)])
    (.doc [("_id", .int 7), ("a", .arr [.doc [("b", .int 1), ("z", .int 2)], .doc [("z", .int 3)]]),
           ("c", .doc [("d", .arr [.doc [("e", .null), ("f", .int 1)]]), ("g", .int 5)]),
           ("s", .str "x")]) = true
    ∧ modeOf (.doc [("a.b", .int 1), ("c.d.e", .bool true), ("_id", .int 0)]) = some true := by
  decide +kernel

/-- Full strength for exclusions (and for the "whole document" forms). -/
def excl_exact_full : Prop :=
  ∀ p d s, project p d = some s → modeOf p ≠ some true → copyOnlyFields d p = .ok s

def hasField (k : String) : Val → Bool
  | .doc fs => dhas k fs
  | _ => false

/-- False of the code as it stands (known finding `exclscalar`): `{'s.q': 0}` removes `s`
    itself when `s` is a scalar. -/
theorem excl_exact_full_fails : ¬ excl_exact_full := by
  intro h
  let p : Val := .doc [("s.q", .int 0)]
  let d : Val := .doc [("_id", .int 1), ("s", .int 3), ("a", .int 5)]
  have hs : (project p d).map (hasField "s") = some true := by decide +kernel
  have hc : (copyOnlyFields d p).map (hasField "s") = .ok false := by decide +kernel
  cases hp : project p d with
  | none => simp [hp] at hs
  | some s =>
    have := h p d s hp (by decide +kernel)
    rw [this] at hc
    rw [hp] at hs
    simp [Except.map] at hc hs
    rw [hs] at hc
    cases hc

/-- **excl_exact (on D).** An exclusion removes exactly the named paths and keeps everything
    else, in place; `None` / `{}` / `[]` return the document unchanged. -/
theorem excl_exact_partial (p d : Val) (hD : inD p d = true) (hm : modeOf p ≠ some true) :
    ∃ s, project p d = some s ∧ copyOnlyFields d p = .ok s := by
  obtain ⟨s, h1, h2⟩ := Proofs.C12.exact_main p d (List.isEmpty_iff.mp hD)
  exact ⟨s, h1, by simpa [hm] using h2⟩

example : inD
    (.doc [("a.b", .int 0), ("c.d.e", .bool false), ("s", .int 0)])
    (.doc [("_id", .int 7), ("a", .arr [.doc [("b", .int 1), ("z", .int 2)], .doc [("z", .int 3)]]),
           ("c", .doc [("d", .arr [.doc [("e", .null), ("f", .int 1)]]), ("g", .int 5)]),
           ("s", .str "x")]) = true
    ∧ modeOf (.doc [("a.b", .int 0), ("c.d.e", .bool false), ("s", .int 0)]) ≠ some true := by
  decide +kernel

/-- `_id` listed last is only a re-ordering: the output has the same fields as the rule's -/
theorem idLast_perm (fs : Fields) : ∃ gs, idLast (.doc fs) = .doc gs ∧ gs.Perm fs :=
  ⟨_, rfl, Proofs.C12.idLastF_perm fs⟩

/-! ### `$slice`, `$elemMatch`, list form -/

/-- Full strength: the code's `$slice` is the rule's wherever the code answers. -/
def slice_spec_full : Prop :=
  ∀ sv xs ys, sliceOp sv xs = .ok ys → slice sv xs = some ys

/-- False of the code as it stands (known finding `slicelimit`): `$slice: [0, -1]` is answered
    (all but the last element) instead of refused. -/
theorem slice_spec_full_fails : ¬ slice_spec_full := by
  intro h
  have h1 : isError (sliceOp (.arr [.int 0, .int (-1)]) [.int 1, .int 2, .int 3]) = false := by
    decide +kernel
  have h2 : (slice (.arr [.int 0, .int (-1)]) [.int 1, .int 2, .int 3]).isSome = false := by
    decide +kernel
  cases hs : sliceOp (.arr [.int 0, .int (-1)]) [.int 1, .int 2, .int 3] with
  | error e => simp [hs, isError] at h1
  | ok ys => have := h _ _ ys hs; simp [this] at h2

/-- **slice_spec (on D).** `$slice: n` keeps the first `n` / last `-n` elements, `$slice:
    [skip, limit]` the `limit` elements after `skip` (from the end when negative). -/
theorem slice_spec_partial (sv : Val) (xs : List Val) (hD : sliceReasons sv xs = []) :
    ∃ ys, slice sv xs = some ys ∧ sliceOp sv xs = .ok ys :=
  Proofs.C12.slice_spec sv xs hD

example : sliceReasons (.arr [.int (-2), .int 1]) [.int 1, .int 2, .int 3] = [] := by decide +kernel

/-- **slice through find.** `find(…, {f: {$slice: sv}})` returns `f` holding that part. -/
theorem slice_find (fs : Fields) (f : String) (sv : Val) (xs : List Val) (hf : f ≠ "_id")
    (hxs : dget f fs = some (.arr xs)) (hD : sliceReasons sv xs = []) :
    ∃ ys o, slice sv xs = some ys ∧
      copyOnlyFields (.doc fs) (.doc [(f, .doc [("$slice", sv)])]) = .ok (.doc o) ∧
      dget f o = some (.arr ys) :=
  Proofs.C12.slice_find hf hxs hD

/-- **elemMatch_first.** `find(…, {f: {$elemMatch: q}})` returns `f` holding exactly the first
    element of the array that the matcher accepts (all earlier ones being rejected), and no `f`
    at all when every element is rejected. -/
theorem elemMatch_first (fs : Fields) (f : String) (q : Val) (xs : List Val) (r : Val)
    (hf : f ≠ "_id") (hxs : dget f fs = some (.arr xs))
    (h : copyOnlyFields (.doc fs) (.doc [(f, .doc [("$elemMatch", q)])]) = .ok r) :
    ∃ o, r = .doc o ∧
      ((∃ x pre post, xs = pre ++ x :: post ∧ filterApplies q x = .ok true ∧
          (∀ y ∈ pre, filterApplies q y = .ok false) ∧ dget f o = some (.arr [x])) ∨
       ((∀ y ∈ xs, filterApplies q y = .ok false) ∧ dget f o = none)) :=
  Proofs.C12.elemMatch_find hf hxs h

example : isError (copyOnlyFields
    (.doc [("_id", .int 1), ("m", .arr [.doc [("x", .int 1)], .doc [("x", .int 2)],
      .doc [("x", .int 2), ("y", .int 1)]])])
    (.doc [("m", .doc [("$elemMatch", .doc [("x", .int 2)])])])) = false := by decide +kernel

/-- **list_form_eq_dict_form.** `[f₁, …, fₙ]` projects like `{f₁: 1, …, fₙ: 1}`. -/
theorem list_form_eq_dict_form (d : Val) (names : List String) (hn : names.Nodup) :
    copyOnlyFields d (.arr (names.map .str)) =
      copyOnlyFields d (.doc (names.map (fun s => (s, .int 1)))) :=
  Proofs.C12.list_form_eq_dict_form d names hn

example : (["a.b", "c", "_id"] : List String).Nodup := by decide

/-! ### the `$project` stage, and its agreement with the find path -/

/-- Full strength: wherever the rule speaks, `$project` returns what the rule says. -/
def agg_exact_full : Prop :=
  ∀ p d s, project p d = some s → isError (aggProject [d] p) = false → aggProject [d] p = .ok [s]

def fieldLen (k : String) : Val → Nat
  | .doc fs => (match dget k fs with | some (.arr xs) => xs.length | _ => 0)
  | _ => 0

/-- False of the code as it stands (known finding `aggdroparr`): the exclusion `{'l.x': 0}` over
    `l: [1, {x: 1, y: 2}]` returns `l: [{y: 2}]` — the scalar element is gone. -/
theorem agg_exact_full_fails : ¬ agg_exact_full := by
  intro h
  let p : Val := .doc [("l.x", .int 0)]
  let d : Val := .doc [("_id", .int 1), ("l", .arr [.int 1, .doc [("x", .int 1), ("y", .int 2)]])]
  have hs : (project p d).map (fieldLen "l") = some 2 := by decide +kernel
  have hc : (aggProject [d] p).map (fun rs => rs.map (fieldLen "l")) = .ok [1] := by
    decide +kernel
  cases hp : project p d with
  | none => simp [hp] at hs
  | some s =>
    have := h p d s hp (by decide +kernel)
    rw [this] at hc
    rw [hp] at hs
    simp [Except.map] at hc hs
    rw [hs] at hc
    cases hc

/-- **agg_exact (on its domain).** The `$project` stage with a plain inclusion / exclusion
    specification returns exactly what the rule says, fields in document order. -/
theorem agg_exact_partial (p d : Val) (hD : aggInD p d = true) :
    ∃ s, project p d = some s ∧ aggProject [d] p = .ok [s] :=
  Proofs.C12.agg_exact p d (List.isEmpty_iff.mp hD)

/-- **find_eq_agg.** On the common domain the two separately coded projection functions — the
    find path of collection.py and the `$project` stage of aggregate.py — return the same
    document (the find path lists `_id` last in an inclusion, see `idLast_perm`). -/
theorem find_eq_agg (p d : Val) (hD : inD p d = true) (hA : aggInD p d = true) :
    ∃ a, aggProject [d] p = .ok [a] ∧
      copyOnlyFields d p = .ok (if modeOf p = some true then idLast a else a) :=
  Proofs.C12.find_eq_agg p d (List.isEmpty_iff.mp hD) (List.isEmpty_iff.mp hA)

example : inD
    (.doc [("a.b", .int 1), ("c.d.e", .bool true), ("_id", .int 0)])
    (.doc [("_id", .int 7), ("a", .arr [.doc [("b", .int 1), ("z", .int 2)], .doc [("z", .int 3)]]),
           ("c", .doc [("d", .arr [.doc [("e", .null), ("f", .int 1)]]), ("g", .int 5)]),
           ("s", .str "x")]) = true
    ∧ aggInD
    (.doc [("a.b", .int 1), ("c.d.e", .bool true), ("_id", .int 0)])
    (.doc [("_id", .int 7), ("a", .arr [.doc [("b", .int 1), ("z", .int 2)], .doc [("z", .int 3)]]),
           ("c", .doc [("d", .arr [.doc [("e", .null), ("f", .int 1)]]), ("g", .int 5)]),
           ("s", .str "x")]) = true := by
  decide +kernel

end MongoModel.Props.C12
