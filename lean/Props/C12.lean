/-
  Props.C12 — property theorems for C12 (projection returns exactly the requested part of each
  document, nothing else).  Only statements of the property live here; lemmas are in
  Proofs/C12*.lean.

  Impl  = MongoModel.copyOnlyFields / findProject (faithful model of the find-path projection of
          mongomock/collection.py), MongoModel.aggProject (the `$project` stage of aggregate.py),
          tied to the code by the per-run correspondence check
  Spec  = MongoModel.Spec.Proj.project / slice (the rules of the property text) and the relation
          `sub` (o ⊑ d)
  D     = MongoModel.Spec.Proj.inD (decidable; its negation is the list of named exclusion
          classes of Spec/ProjectDomain.lean — scope limits only: the known findings mixedarray,
          exclscalar, aggdroparr, slicelimit, sliceskip, slicealone were repaired in the library and their
          classes, `_full_fails` theorems and hypotheses are gone)
-/
import Proofs.C12

namespace MongoModel.Props.C12
open MongoModel MongoModel.Spec.Proj

def isError {α : Type} : R α → Bool
  | .error _ => true
  | .ok _ => false

/-- the answer is the value `v` (decidable form, for the concrete examples) -/
def okIs : R Val → Val → Bool
  | .ok w, v => Val.beq w v
  | .error _, _ => false

def okAre : R (List Val) → List Val → Bool
  | .ok ws, vs => Val.beq (.arr ws) (.arr vs)
  | .error _, _ => false

def errIs {α : Type} : R α → Err → Bool
  | .error e, e' => e == e'
  | .ok _, _ => false

/-! ### a projection never selects, reorders, alters or invents -/

/-- **proj_map.** `list(find(filter, projection))` is `list(find(filter))` — the same documents
    in the same order — with every document replaced by its own projection: the projection has no
    influence on which documents are returned. -/
theorem proj_map (f p : Val) (ds rs : List Val) (h : findProject f p ds = .ok rs) :
    ∃ sel, findProject f .null ds = .ok sel ∧ sel.Sublist ds ∧ rs.length = sel.length ∧
      ∀ (i : Nat) (d : Val), sel[i]? = some d →
        ∃ o, rs[i]? = some o ∧ copyOnlyFields d p = .ok o := by
  obtain ⟨sel, h1, h2, h3, h4⟩ := Proofs.C12.proj_map f p ds rs h
  exact ⟨sel, h1, h2, h3, h4⟩

/-- the hypothesis is satisfiable with a filter that selects two of three documents -/
example : (match findProject (.doc [("a", .doc [("$gt", .int 1)])]) (.doc [("b", .int 1)])
    [.doc [("_id", .int 0), ("a", .int 2), ("b", .int 5)],
     .doc [("_id", .int 1), ("a", .int 1), ("b", .int 6)],
     .doc [("_id", .int 2), ("a", .int 3), ("c", .int 7)]] with
    | .ok rs => rs.length == 2
    | .error _ => false) = true := by decide +kernel

/-- **proj_sub.** Whatever the specification (operators, malformed values, every document), when
    the projection answers, its answer is ⊑ the input: every leaf of the output is a leaf of the
    input at the same path with the same value. -/
theorem proj_sub (p d o : Val) (h : copyOnlyFields d p = .ok o) : sub o d = true :=
  Proofs.C12.proj_sub p d o h

example : isError (copyOnlyFields
    (.doc [("_id", .int 1), ("m", .arr [.doc [("x", .int 1)], .doc [("x", .int 2), ("y", .int 3)]]),
           ("s", .int 3)])
    (.doc [("m.x", .int 1), ("m", .doc [("$slice", .int (-1))])])) = false := by decide +kernel

/-! ### inclusion and exclusion are exact -/

/-- **incl_exact.** An inclusion returns `_id` (unless excluded) plus exactly the named paths —
    descending through sub-documents and through each element of arrays (sub-documents are
    projected, nested arrays element by element, scalars have nothing to show) — and nothing
    else.  D holds scope limits only (Spec/ProjectDomain.lean); no condition on the document
    besides its being a dict.  (Before the repairs of `mixedarray` this was false on arrays
    holding a scalar and D excluded them.) -/
theorem incl_exact (p d : Val) (hD : inD p d = true) (hm : modeOf p = some true) :
    ∃ s, project p d = some s ∧ copyOnlyFields d p = .ok (idLast s) := by
  obtain ⟨s, h1, h2⟩ := Proofs.C12.exact_main p d (List.isEmpty_iff.mp hD)
  exact ⟨s, h1, by simpa [hm] using h2⟩

/-- inside D: an array of sub-documents, an array mixing scalars, sub-documents and a nested
    array, a path running into a scalar -/
example : inD
    (.doc [("a.b", .int 1), ("c.d.e", .bool true), ("l.x", .int 1), ("s.q", .int 1), ("_id", .int 0)])
    (.doc [("_id", .int 7), ("a", .arr [.doc [("b", .int 1), ("z", .int 2)], .doc [("z", .int 3)]]),
           ("c", .doc [("d", .arr [.doc [("e", .null), ("f", .int 1)]]), ("g", .int 5)]),
           ("l", .arr [.int 1, .doc [("x", .int 1), ("y", .int 2)],
                       .arr [.doc [("x", .int 3), ("y", .int 4)], .int 7], .null]),
           ("s", .str "x")]) = true
    ∧ modeOf (.doc [("a.b", .int 1), ("c.d.e", .bool true), ("l.x", .int 1), ("s.q", .int 1),
        ("_id", .int 0)]) = some true := by
  decide +kernel

/-- the former witness of `mixedarray`: `{'l.x': 1}` over `l: [1, {x: 1, y: 2}]` -/
example : okIs (copyOnlyFields
    (.doc [("_id", .int 1), ("l", .arr [.int 1, .doc [("x", .int 1), ("y", .int 2)]])])
    (.doc [("l.x", .int 1)])) (.doc [("l", .arr [.doc [("x", .int 1)]]), ("_id", .int 1)]) = true := by
  decide +kernel

/-- **excl_exact.** An exclusion removes exactly the named paths (descending the same way; a
    scalar or null met on the way stays as it is) and keeps everything else, in place; `None` /
    `{}` / `[]` return the document unchanged.  (Before the repairs of `exclscalar` and
    `mixedarray` this was false where a path ran into a scalar and D excluded those documents.) -/
theorem excl_exact (p d : Val) (hD : inD p d = true) (hm : modeOf p ≠ some true) :
    ∃ s, project p d = some s ∧ copyOnlyFields d p = .ok s := by
  obtain ⟨s, h1, h2⟩ := Proofs.C12.exact_main p d (List.isEmpty_iff.mp hD)
  exact ⟨s, h1, by simpa [hm] using h2⟩

example : inD
    (.doc [("a.b", .int 0), ("c.d.e", .bool false), ("l.x", .int 0), ("s.q", .int 0), ("g", .int 0)])
    (.doc [("_id", .int 7), ("a", .arr [.doc [("b", .int 1), ("z", .int 2)], .doc [("z", .int 3)]]),
           ("c", .doc [("d", .arr [.doc [("e", .null), ("f", .int 1)]]), ("g", .int 5)]),
           ("l", .arr [.int 1, .doc [("x", .int 1), ("y", .int 2)],
                       .arr [.doc [("x", .int 3), ("y", .int 4)], .int 7], .null]),
           ("s", .str "x"), ("g", .int 1)]) = true
    ∧ modeOf (.doc [("a.b", .int 0), ("c.d.e", .bool false), ("l.x", .int 0), ("s.q", .int 0),
        ("g", .int 0)]) ≠ some true := by
  decide +kernel

/-- the former witness of `exclscalar`: `{'s.q': 0}` over `s: 3` -/
example : okIs (copyOnlyFields (.doc [("_id", .int 1), ("s", .int 3), ("a", .int 5)])
    (.doc [("s.q", .int 0)])) (.doc [("_id", .int 1), ("s", .int 3), ("a", .int 5)]) = true := by
  decide +kernel

/-- `_id` listed last is only a re-ordering: the output has the same fields as the rule's -/
theorem idLast_perm (fs : Fields) : ∃ gs, idLast (.doc fs) = .doc gs ∧ gs.Perm fs :=
  ⟨_, rfl, Proofs.C12.idLastF_perm fs⟩

/-! ### `$slice`, `$elemMatch`, list form -/

/-- **slice_spec.** For every well-shaped operand (an int, or a pair of ints: `sliceReasons`
    knows nothing else) and every array: `$slice: n` keeps the first `n` / last `-n` elements,
    `$slice: [skip, limit]` the `limit` elements after `skip` (counted from the end when
    negative, from the first element when that falls before it), and a `limit ≤ 0` — the one
    operand the rule refuses — is refused with an OperationFailure.  (Before the repairs of
    `slicelimit` and `sliceskip` this needed `limit > 0` and `skip ≥ -len` as hypotheses.) -/
theorem slice_spec (sv : Val) (xs : List Val) (hD : sliceReasons sv = []) :
    match slice sv xs with
    | some ys => sliceOp sv xs = .ok ys
    | none => sliceOp sv xs = .error .opFail :=
  Proofs.C12.slice_spec sv xs hD

example : sliceReasons (.arr [.int (-7), .int 2]) = [] ∧ sliceReasons (.int (-2)) = [] ∧
    sliceReasons (.arr [.int 0, .int (-1)]) = [] := by decide +kernel

/-- the former witnesses of `sliceskip` and `slicelimit` -/
example : okAre (sliceOp (.arr [.int (-7), .int 2]) [.int 1, .int 2, .int 3, .int 4, .int 5])
      [.int 1, .int 2] = true
    ∧ errIs (sliceOp (.arr [.int 0, .int (-1)]) [.int 1, .int 2, .int 3, .int 4, .int 5])
      .opFail = true := by decide +kernel

/-- **slice through find.** `find(…, {f: {$slice: sv}})` returns the document with `f` holding
    that part and every other field kept as it is, in place (`$slice` on its own is no
    inclusion) …  (Before the repair of `slicealone` the other fields were dropped and only
    `dget f o = some (.arr ys)` could be stated.) -/
theorem slice_find (fs : Fields) (f : String) (sv : Val) (xs ys : List Val) (hf : f ≠ "_id")
    (hxs : dget f fs = some (.arr xs)) (hD : sliceReasons sv = []) (hs : slice sv xs = some ys) :
    copyOnlyFields (.doc fs) (.doc [(f, .doc [("$slice", sv)])]) =
      .ok (.doc (dset f (.arr ys) fs)) :=
  Proofs.C12.slice_find hf hxs hD hs

/-- the former witness of `slicealone`: `{l: {$slice: 1}}` keeps `s` -/
example : okIs (copyOnlyFields
    (.doc [("_id", .int 1), ("l", .arr [.int 1, .int 2, .int 3]), ("s", .int 3)])
    (.doc [("l", .doc [("$slice", .int 1)])]))
    (.doc [("_id", .int 1), ("l", .arr [.int 1]), ("s", .int 3)]) = true := by decide +kernel

example : (slice (.arr [.int (-7), .int 2]) [.int 1, .int 2, .int 3]).isSome = true := by
  decide +kernel

/-- … and refuses the query when the rule refuses the operand. -/
theorem slice_find_refused (fs : Fields) (f : String) (sv : Val) (xs : List Val) (hf : f ≠ "_id")
    (hxs : dget f fs = some (.arr xs)) (hD : sliceReasons sv = []) (hs : slice sv xs = none) :
    copyOnlyFields (.doc fs) (.doc [(f, .doc [("$slice", sv)])]) = .error .opFail :=
  Proofs.C12.slice_find_refused hf hxs hD hs

example : (slice (.arr [.int 1, .int 0]) [.int 1, .int 2, .int 3]).isNone = true := by
  decide +kernel

/-- **elemMatch_first.** `find(…, {f: {$elemMatch: q}})` returns `f` holding exactly the first
    element of the array that the matcher accepts (all earlier ones being rejected), and no `f`
    at all when every element is rejected. -/
theorem elemMatch_first (fs : Fields) (f : String) (q : Val) (xs : List Val) (r : Val)
    (hf : f ≠ "_id") (hxs : dget f fs = some (.arr xs))
    (h : copyOnlyFields (.doc fs) (.doc [(f, .doc [("$elemMatch", q)])]) = .ok r) :
    ∃ o, r = .doc o ∧
      ((∃ x pre post, xs = pre ++ x :: post ∧ filterApplies q x = .ok true ∧
          (∀ y ∈ pre, filterApplies q y = .ok false) ∧ dget f o = some (.arr [x])) ∨
       ((∀ y ∈ xs, filterApplies q y = .ok false) ∧ dget f o = none)) :=
  Proofs.C12.elemMatch_find hf hxs h

example : isError (copyOnlyFields
    (.doc [("_id", .int 1), ("m", .arr [.doc [("x", .int 1)], .doc [("x", .int 2)],
      .doc [("x", .int 2), ("y", .int 1)]])])
    (.doc [("m", .doc [("$elemMatch", .doc [("x", .int 2)])])])) = false := by decide +kernel

/-- **list_form_eq_dict_form.** `[f₁, …, fₙ]` projects like `{f₁: 1, …, fₙ: 1}`. -/
theorem list_form_eq_dict_form (d : Val) (names : List String) (hn : names.Nodup) :
    copyOnlyFields d (.arr (names.map .str)) =
      copyOnlyFields d (.doc (names.map (fun s => (s, .int 1)))) :=
  Proofs.C12.list_form_eq_dict_form d names hn

example : (["a.b", "c", "_id"] : List String).Nodup := by decide

/-! ### the `$project` stage, and its agreement with the find path -/

/-- **agg_exact.** The `$project` stage with a plain inclusion / exclusion specification returns
    exactly what the rule says, fields in document order; its domain holds scope limits only.
    (Before the repair of `aggdroparr` an exclusion dropped the scalar elements of a descended
    array and the domain excluded those documents; before the repair recorded as C03
    `projectidexcl` the stage refused `_id: 1` next to excluded fields and the domain excluded
    those specifications — class `idinexclusion`, gone.) -/
theorem agg_exact (p d : Val) (hD : aggInD p d = true) :
    ∃ s, project p d = some s ∧ aggProject [d] p = .ok [s] :=
  Proofs.C12.agg_exact p d (List.isEmpty_iff.mp hD)

example : aggInD (.doc [("l.x", .int 0), ("s.q", .int 0)])
    (.doc [("_id", .int 1), ("l", .arr [.int 1, .doc [("x", .int 1), ("y", .int 2)],
      .arr [.doc [("x", .int 3)], .int 7]]), ("s", .int 3)]) = true := by decide +kernel

/-- the former witness of `aggdroparr`: `{'l.x': 0}` over `l: [1, {x: 1, y: 2}]` -/
example : okAre (aggProject
    [.doc [("_id", .int 1), ("l", .arr [.int 1, .doc [("x", .int 1), ("y", .int 2)]])]]
    (.doc [("l.x", .int 0)])) [.doc [("_id", .int 1), ("l", .arr [.int 1, .doc [("y", .int 2)]])]]
    = true := by
  decide +kernel

/-- the former witness of `projectidexcl`: `{a: 0, _id: 1}` is inside the domain, and the stage
    keeps `_id` (in whatever position `_id` stands) -/
example : aggInD (.doc [("a", .int 0), ("_id", .int 1)])
      (.doc [("_id", .int 0), ("k", .int 1), ("a", .int 5)]) = true ∧
    aggInD (.doc [("_id", .bool true), ("a", .int 0)])
      (.doc [("_id", .int 0), ("k", .int 1), ("a", .int 5)]) = true ∧
    okAre (aggProject [.doc [("_id", .int 0), ("k", .int 1), ("a", .int 5)]]
      (.doc [("a", .int 0), ("_id", .int 1)])) [.doc [("_id", .int 0), ("k", .int 1)]] = true ∧
    okAre (aggProject [.doc [("_id", .int 0), ("k", .int 1), ("a", .int 5)]]
      (.doc [("_id", .bool true), ("a", .int 0)])) [.doc [("_id", .int 0), ("k", .int 1)]] = true := by
  decide +kernel

/-- **find_eq_agg.** On the common domain the two separately coded projection functions — the
    find path of collection.py and the `$project` stage of aggregate.py — return the same
    document (the find path lists `_id` last in an inclusion, see `idLast_perm`). -/
theorem find_eq_agg (p d : Val) (hD : inD p d = true) (hA : aggInD p d = true) :
    ∃ a, aggProject [d] p = .ok [a] ∧
      copyOnlyFields d p = .ok (if modeOf p = some true then idLast a else a) :=
  Proofs.C12.find_eq_agg p d (List.isEmpty_iff.mp hD) (List.isEmpty_iff.mp hA)

example : inD
    (.doc [("a.b", .int 1), ("c.d.e", .bool true), ("_id", .int 0)])
    (.doc [("_id", .int 7), ("a", .arr [.doc [("b", .int 1), ("z", .int 2)], .int 4, .doc [("z", .int 3)]]),
           ("c", .doc [("d", .arr [.doc [("e", .null), ("f", .int 1)]]), ("g", .int 5)]),
           ("s", .str "x")]) = true
    ∧ aggInD
    (.doc [("a.b", .int 1), ("c.d.e", .bool true), ("_id", .int 0)])
    (.doc [("_id", .int 7), ("a", .arr [.doc [("b", .int 1), ("z", .int 2)], .int 4, .doc [("z", .int 3)]]),
           ("c", .doc [("d", .arr [.doc [("e", .null), ("f", .int 1)]]), ("g", .int 5)]),
           ("s", .str "x")]) = true := by
  decide +kernel

end MongoModel.Props.C12
