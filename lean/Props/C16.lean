/-
  Props.C16 — aggregation is read-only, leaves its arguments alone, and is repeatable.

  Impl  = MongoModel.AggHeap (object identities; each stage by its edit discipline
          `Disc.reference`, tied to /repo by `Generated.AggDiscipline.discipline_is_reference` and
          by the correspondence of harness/props/c16.py).
  Spec  = the laws themselves (read-only, argument unchanged, repeatable, facet isolation).
  D     = named classes: `sample-pops-size`, `literal-written`, `facet-sibling-nested-addfields`,
          `facet-sibling-lookup` (known findings, witnesses below are the ones replayed on /repo).

  STATUS (see the report): the frame lemmas and the witnesses are proved; `aggregate_readonly` is
  proved for the stages that perform no in-place write (`Stage.pure`) and, for the writing
  stages, reduced to the frame lemma `write_keeps_store` + `source_is_fresh`; the induction over
  all stages that threads the "no store identity in the working data" invariant is NOT done.
-/
import Proofs.C16
import Generated.AggDiscipline

namespace MongoModel.Props.C16
open MongoModel MongoModel.AggHeap MongoModel.Proofs.C16

/-! ### the frame -/

/-- **An in-place write leaves the store alone** whenever the object written is not an object of
    the store: `World.mutate` rewrites the object everywhere, and nowhere in the collections. -/
theorem write_keeps_store (w : World) (id : Id) (f : Kids → Kids)
    (hstore : allColls Id.isSt w.colls = true) (hid : id.isSt = false) :
    (w.mutate id f).colls = w.colls := by
  simp only [World.mutate]
  exact mutateColls_noop Id.isSt id f hid w.colls hstore

example : allColls Id.isSt [("a", [HV.node (.st 0) true [("k", .atom (.int 1))]])] = true ∧
    (Id.tmp 3).isSt = false ∧ (Id.cl 0).isSt = false := by decide

/-- the same for the caller's pipeline object when the object written was allocated by the call -/
theorem write_keeps_pipeline (w : World) (id : Id) (f : Kids → Kids)
    (hpipe : w.pipe.all (fun i => !i.isTmp) = true) (hid : id.isTmp = true) :
    (w.mutate id f).pipe = w.pipe := by
  simp only [World.mutate]
  exact mutate_noop (fun i => !i.isTmp) id f (by simp [hid]) w.pipe hpipe

example : (HV.node (.cl 0) false [("", .node (.cl 1) true [])]).all (fun i => !i.isTmp) = true := by
  decide

/-- **`aggregate` starts from copies**: under the reference discipline every object of the
    working list is a new object of the call — none belongs to the store or to the caller — and
    the copies are equal to the stored documents as values. -/
theorem source_is_fresh (s : State) (coll : String) :
    allL Id.isTmp (s.world Disc.reference coll).work = true := by
  simp only [State.world, Disc.reference]
  rw [runL_deep_eq]
  exact deepTmpL_tmp _ _

theorem copy_equals_value (v : HV) (n : Nat) : (deepTmp v n).1.toVal = v.toVal :=
  deepTmp_toVal v n

/-! ### read-only -/

/-- a stage that performs no in-place write and is not `$out` leaves every collection, every
    index entry and the pipeline object as they are — for every discipline and every value-level
    semantics -/
theorem aggregate_readonly_partial (D : Disc) (sem : Sem) (w w' : World) (st : Stage)
    (hp : st.pure = true) (h : runStage D sem w st = .ok w') :
    w'.colls = w.colls ∧ w'.idx = w.idx ∧ w'.pipe = w.pipe ∧ w'.stack = w.stack := by
  cases st <;> simp [Stage.pure] at hp
  all_goals (simp only [runStage] at h)
  · split at h
    · cases h; exact ⟨rfl, rfl, rfl, rfl⟩
    · cases h
  · split at h
    · cases h; exact ⟨rfl, rfl, rfl, rfl⟩
    · cases h
  · split at h
    · cases h
    · cases h; exact ⟨rfl, rfl, rfl, rfl⟩
  · split at h
    · cases h; exact ⟨rfl, rfl, rfl, rfl⟩
    · cases h
  · cases h; exact ⟨rfl, rfl, rfl, rfl⟩

example : Stage.pure (.unwind "arr" true) = true ∧ Stage.pure (.count "n") = true := by decide

/-! ### the witnesses (the same pipelines are replayed on /repo by the check) -/

def doc0 : HV := .node (.st 0) true
  [("_id", .atom (.int 1)), ("k", .atom (.int 1)), ("a", .node (.st 1) true [("x", .atom (.int 1))])]
def docB : HV := .node (.st 2) true [("_id", .atom (.int 10)), ("k", .atom (.int 1))]

def mkState (pipe : HV) : State := { colls := [("a", [doc0]), ("b", [docB])], idx := [], pipe := pipe, nextSt := 3 }

/-- `[{'$sample': {'size': 1}}]` -/
def pipeSample : HV := .node (.cl 0) false [("", .node (.cl 1) true
  [("$sample", .node (.cl 2) true [("size", .atom (.int 1))])])]

/-- full statement: a successful call leaves the caller's pipeline object equal to what it was -/
def pipeline_arg_unchanged_full : Prop :=
  ∀ (sem : Sem) (s : State) (coll : String),
    ((after Disc.reference sem s coll).all (fun s' => s'.pipe.toVal == s.pipe.toVal)) = true

/-- `$sample` pops `size` out of the caller's dict … -/
theorem pipeline_arg_unchanged_full_fails : ¬ pipeline_arg_unchanged_full := by
  intro h
  exact absurd (h Sem.trivial (mkState pipeSample) "a") (by decide +kernel)

/-- … and the second run of the same pipeline object raises -/
theorem sample_second_run_fails :
    ((after Disc.reference Sem.trivial (mkState pipeSample) "a").map
      (fun s' => (observe Disc.reference Sem.trivial s' "a").isNone)) = some true := by
  decide +kernel

/-- `[{'$facet': {'x': [{'$addFields': {'a.z': 9}}], 'y': [{'$match': {}}]}}]` -/
def pipeFacetAdd : HV := .node (.cl 0) false [("", .node (.cl 1) true
  [("$facet", .node (.cl 2) true
    [("x", .node (.cl 3) false [("", .node (.cl 4) true
        [("$addFields", .node (.cl 5) true [("a.z", .atom (.int 9))])])]),
     ("y", .node (.cl 6) false [("", .node (.cl 7) true [("$match", .node (.cl 8) true [])])])])])]

/-- `[{'$facet': {'x': [{'$lookup': {from: b, localField: k, foreignField: k, as: j}}],
                  'y': [{'$match': {}}]}}]` -/
def pipeFacetLookup : HV := .node (.cl 0) false [("", .node (.cl 1) true
  [("$facet", .node (.cl 2) true
    [("x", .node (.cl 3) false [("", .node (.cl 4) true
        [("$lookup", .node (.cl 5) true [("from", .atom (.str "b")), ("localField", .atom (.str "k")),
           ("foreignField", .atom (.str "k")), ("as", .atom (.str "j"))])])]),
     ("y", .node (.cl 6) false [("", .node (.cl 7) true [("$match", .node (.cl 8) true [])])])])])]

/-- the value of branch `y` (which only matches everything) inside the facet -/
def branchY (pipe : HV) : Option Val :=
  (observe Disc.reference Sem.trivial (mkState pipe) "a").bind (fun o =>
    match o.1 with
    | [.doc fs] => dget "y" fs
    | _ => none)

/-- full statement (on the two witnesses' shape): a branch that hands its input on unchanged
    returns the stored documents -/
def facet_isolated_full : Prop :=
  ∀ pipe ∈ [pipeFacetAdd, pipeFacetLookup], (branchY pipe).all (· == .arr [doc0.toVal]) = true

/-- the sibling's `$addFields` on a nested path is seen by branch `y` -/
theorem facet_isolated_full_fails : ¬ facet_isolated_full := by
  intro h
  exact absurd (h pipeFacetAdd (by simp)) (by decide +kernel)

/-- … and so is the field a sibling's `$lookup` writes into the shared document -/
theorem facet_isolated_full_fails_lookup :
    (branchY pipeFacetLookup).all (· == .arr [doc0.toVal]) = false := by
  decide +kernel

/-- the witnesses leave the store alone (instances of read-only on WRITING pipelines) -/
theorem witnesses_readonly :
    ∀ pipe ∈ [pipeSample, pipeFacetAdd, pipeFacetLookup],
      ((observe Disc.reference Sem.trivial (mkState pipe) "a").all
        (fun o => o.2.2 == [("a", [doc0.toVal]), ("b", [docB.toVal])])) = true := by
  decide +kernel

/-! ### repeatable -/

/-- the answer depends on the persistent state only: when a call has left the collections, the
    catalog and the pipeline object as they were, running it again gives the same answer
    (identities of a run live in a run-local name space) -/
theorem repeatable (D : Disc) (sem : Sem) (s s' : State) (coll : String) (out : List HV)
    (h : aggregate D sem s coll = .ok (out, s'))
    (hc : s'.colls = s.colls) (hi : s'.idx = s.idx) (hp : s'.pipe = s.pipe) (hn : s'.nextSt = s.nextSt) :
    aggregate D sem s' coll = .ok (out, s') := by
  have : s' = s := by
    cases s; cases s'; simp_all
  rw [this] at h ⊢
  exact h

example : (after Disc.reference Sem.trivial (mkState pipeFacetAdd) "a").isSome = true := by
  decide +kernel

/-! ### the discipline the theorems are about is the one the source has now -/

theorem discipline_current : Generated.AggDiscipline.discipline = Disc.reference :=
  Generated.AggDiscipline.discipline_is_reference

end MongoModel.Props.C16
