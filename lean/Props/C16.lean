/-
  Props.C16 — aggregation is read-only, leaves its arguments alone, and is repeatable.

  Impl  = MongoModel.AggHeap (object identities; each stage by its edit discipline
          `Disc.reference`, tied to /repo by `Generated.AggDiscipline.discipline_is_reference` and
          by the correspondence of harness/props/c16.py).
  Spec  = the laws themselves (read-only, argument unchanged, repeatable, facet isolation, $out).
  D     = empty: `pipeline_arg_unchanged` holds for EVERY pipeline (`aggregate` hands the stages a
          rebuilt pipeline, `Disc.pipelineCopy`), read-only / repeatable for every pipeline without
          `$out`, the `$out` laws for `… ++ [$out]`.  The four former exclusion
          classes `sample-pops-size`, `literal-written`, `facet-sibling-nested-addfields`,
          `facet-sibling-lookup` were defects of /repo and are repaired; `Disc.reference` is the
          repaired discipline, and the theorems `unrepaired_*` show that every one of the laws
          FAILS under the discipline /repo had before (`Disc.unrepaired`), on the witnesses the
          check still replays.

  The theorems quantify over every pipeline of the modelled stages (all the writing ones
  included: `$lookup`, `$addFields/$set` on dotted paths, `$unwind` with `includeArrayIndex`,
  `$sample`, `$facet`, nested), every state and every value-level semantics `Sem`.  The one
  hypothesis on states, `State.persistent`, is the name-space convention of the model: what
  persists between calls holds no run-local identity.  The proof carries the invariant `WInv`
  ("what the call works on was allocated by the call, in a window of identities nothing
  persistent lives in") through every stage and every `$facet` branch (Proofs/C16Inv.lean).

  `tz_aware` collections: the state a call leaves is the plain call's (`tz_aware_same_state`), and
  the results are a rebuild made only of objects allocated after the last stage finished
  (`tz_aware_results_separate`, from `Disc.resultCopy`).

  Since the repair of `$addFields` (every level of a dotted name is copied before it is written;
  through an array every item is rebuilt and receives its own deep copy of the value)
  the stages of the class `Stage.pure` — everything but `$lookup`, `$out`, `$facet` — contain no
  in-place write at all: `pure_stage_writes_nothing` / `stage_input_unchanged` hold in EVERY
  world, with no invariant and no hypothesis on the state, and `$facet` isolation of such
  sub-pipelines no longer depends on the per-branch copy (`facet_isolated_by_stage_discipline`,
  stated under `Disc.sharing`); the copy remains necessary because of `$lookup`
  (`sharing_witnesses`).
-/
import Proofs.C16Top
import Generated.AggDiscipline

namespace MongoModel.Props.C16
open MongoModel MongoModel.AggHeap MongoModel.Proofs.C16

/-! ### the frame -/

/-- **An in-place write leaves the store alone** whenever the object written is not an object of
    the store: `World.mutate` rewrites the object everywhere, and nowhere in the collections. -/
theorem write_keeps_store (w : World) (id : Id) (f : Kids → Kids)
    (hstore : allColls Id.isSt w.colls = true) (hid : id.isSt = false) :
    (w.mutate id f).colls = w.colls := by
  simp only [World.mutate]
  exact mutateColls_noop Id.isSt id f hid w.colls hstore

example : allColls Id.isSt [("a", [HV.node (.st 0) true [("k", .atom (.int 1))]])] = true ∧
    (Id.tmp 3).isSt = false ∧ (Id.cl 0).isSt = false := by decide

/-- the same for the caller's pipeline object when the object written was allocated by the call -/
theorem write_keeps_pipeline (w : World) (id : Id) (f : Kids → Kids)
    (hpipe : w.pipe.all (fun i => !i.isTmp) = true) (hid : id.isTmp = true) :
    (w.mutate id f).pipe = w.pipe := by
  simp only [World.mutate]
  exact mutate_noop (fun i => !i.isTmp) id f (by simp [hid]) w.pipe hpipe

example : (HV.node (.cl 0) false [("", .node (.cl 1) true [])]).all (fun i => !i.isTmp) = true := by
  decide

/-- **`aggregate` starts from copies**: under the reference discipline every object of the
    working list is a new object of the call — none belongs to the store or to the caller — and
    the copies are equal to the stored documents as values. -/
theorem source_is_fresh (s : State) (coll : String) :
    allL Id.isTmp (s.world Disc.reference coll).work = true := by
  simp only [State.world, Disc.reference]
  rw [runL_deep_eq]
  exact deepTmpL_tmp _ _

theorem copy_equals_value (v : HV) (n : Nat) : (deepTmp v n).1.toVal = v.toVal :=
  deepTmp_toVal v n

/-! ### the witnesses (the same pipelines are replayed on /repo by the check) -/

def doc0 : HV := .node (.st 0) true
  [("_id", .atom (.int 1)), ("k", .atom (.int 1)), ("a", .node (.st 1) true [("x", .atom (.int 1))])]
def docB : HV := .node (.st 2) true [("_id", .atom (.int 10)), ("k", .atom (.int 1))]

def mkState (pipe : HV) : State := { colls := [("a", [doc0]), ("b", [docB])], idx := [], pipe := pipe, nextSt := 3 }

/-- `[{'$sample': {'size': 1}}]` -/
def pipeSample : HV := .node (.cl 0) false [("", .node (.cl 1) true
  [("$sample", .node (.cl 2) true [("size", .atom (.int 1))])])]

/-- `[{'$facet': {'x': [{'$addFields': {'a.z': 9}}], 'y': [{'$match': {}}]}}]` -/
def pipeFacetAdd : HV := .node (.cl 0) false [("", .node (.cl 1) true
  [("$facet", .node (.cl 2) true
    [("x", .node (.cl 3) false [("", .node (.cl 4) true
        [("$addFields", .node (.cl 5) true [("a.z", .atom (.int 9))])])]),
     ("y", .node (.cl 6) false [("", .node (.cl 7) true [("$match", .node (.cl 8) true [])])])])])]

/-- `[{'$facet': {'x': [{'$lookup': {from: b, localField: k, foreignField: k, as: j}}],
                  'y': [{'$match': {}}]}}]` -/
def pipeFacetLookup : HV := .node (.cl 0) false [("", .node (.cl 1) true
  [("$facet", .node (.cl 2) true
    [("x", .node (.cl 3) false [("", .node (.cl 4) true
        [("$lookup", .node (.cl 5) true [("from", .atom (.str "b")), ("localField", .atom (.str "k")),
           ("foreignField", .atom (.str "k")), ("as", .atom (.str "j"))])])]),
     ("y", .node (.cl 6) false [("", .node (.cl 7) true [("$match", .node (.cl 8) true [])])])])])]

/-- `[{'$addFields': {'n': {'$literal': {'q': 1}}}}, {'$addFields': {'n.z': 9}}]` -/
def pipeLiteral : HV := .node (.cl 0) false
  [("", .node (.cl 1) true [("$addFields", .node (.cl 2) true
      [("n", .node (.cl 3) true [("$literal", .node (.cl 4) true [("q", .atom (.int 1))])])])]),
   ("", .node (.cl 5) true [("$addFields", .node (.cl 6) true [("n.z", .atom (.int 9))])])]

/-- the witnesses are inside the hypotheses of the theorems below, and their runs succeed -/
theorem witnesses_in_domain :
    ∀ pipe ∈ [pipeSample, pipeFacetAdd, pipeFacetLookup, pipeLiteral],
      (mkState pipe).persistent = true ∧ noOutStages (parsePipe pipe) = true ∧
      (after Disc.reference Sem.trivial (mkState pipe) "a").isSome = true := by
  decide +kernel

/-! ### read-only -/

/-- **read-only, every stage**: running ANY stage list without `$out` — `$lookup`, `$addFields` on
    nested paths, `$sample`, `$facet` with editing branches, nested — leaves every collection,
    every index entry and the store's counter identical (objects and values), and everything the
    call returns is made of objects the call allocated -/
theorem aggregate_readonly_stages (sem : Sem) (s : State) (coll : String) (stages : List Stage)
    (w : World) (hp : s.persistent = true) (hno : noOutStages stages = true)
    (h : aggregateStages Disc.reference sem s coll stages = .ok w) :
    w.colls = s.colls ∧ w.idx = s.idx ∧ w.nextSt = s.nextSt ∧ allL Id.isTmp w.work = true := by
  have := aggregateStages_readonly sem s coll stages w hp hno h
  exact ⟨this.1, this.2.1, this.2.2.2.1, this.2.2.2.2⟩

/-- **read-only**: `db[coll].aggregate(pipe)` without `$out` changes no document, no index entry
    and no catalog entry of any collection -/
theorem aggregate_readonly (sem : Sem) (s s' : State) (coll : String) (out : List HV)
    (hp : s.persistent = true) (hno : noOutStages (parsePipe s.pipe) = true)
    (h : aggregate Disc.reference sem s coll = .ok (out, s')) :
    s'.colls = s.colls ∧ s'.idx = s.idx ∧ s'.nextSt = s.nextSt := by
  simp only [aggregate] at h
  split at h
  · next w hw =>
    cases h
    have := aggregateStages_readonly sem s coll _ w hp hno hw
    exact ⟨this.1, this.2.1, this.2.2.2.1⟩
  · cases h

/-! ### `tz_aware` collections -/

/-- **the state a call leaves does not depend on `tz_aware`**: the call on a `tz_aware`
    collection leaves exactly the state the plain call leaves, so `aggregate_readonly`,
    `pipeline_arg_unchanged` and `repeatable` hold for it as they stand -/
theorem tz_aware_same_state (sem : Sem) (tz : Bool) (s s' : State) (coll : String) (out : List HV)
    (h : aggregateTz Disc.reference sem tz s coll = .ok (out, s')) :
    ∃ out0, aggregate Disc.reference sem s coll = .ok (out0, s') ∧
      (tz = false → out = out0) ∧ toVals out = toVals out0 := by
  obtain ⟨w, _, ho, _, ha⟩ := aggregateTz_state Disc.reference sem tz s s' coll out h
  refine ⟨w.work, ha, fun ht => by subst ht; simpa [handOut] using ho, ?_⟩
  cases tz
  · simp [ho, handOut]
  · rw [ho]; exact (handOut_tz w).2

/-- **under `tz_aware` the results share nothing with anything**: every pipeline (`$out`,
    `$lookup`, `$facet` included) hands out documents made ONLY of objects allocated after its
    last stage finished (`Disc.resultCopy`: the rebuild), while everything that existed then —
    the documents the stages built (those `$out` stored copies of, those `$lookup` wrote into),
    every collection, the caller's pipeline object and the call's copy of it — lies outside that
    window.  (Plain collections: the results are the working documents themselves, objects of
    the call: `aggregate_readonly_stages`.) -/
theorem tz_aware_results_separate (sem : Sem) (s s' : State) (coll : String) (out : List HV)
    (hp : s.persistent = true)
    (h : aggregateTz Disc.reference sem true s coll = .ok (out, s')) :
    ∃ (w : World) (n' : Nat), aggregateStages Disc.reference sem s coll (parsePipe s.pipe) = .ok w ∧
      s' = w.state ∧ toVals out = toVals w.work ∧
      allL (inR w.nextTmp n') out = true ∧
      allL (below w.nextTmp) w.work = true ∧ allColls (below w.nextTmp) w.colls = true ∧
      w.pipe.all (below w.nextTmp) = true ∧ w.cpipe.all (below w.nextTmp) = true := by
  obtain ⟨w, hw, ho, hs, _⟩ := aggregateTz_state Disc.reference sem true s s' coll out h
  have hb := aggregateStages_below sem s coll _ w hp hw
  refine ⟨w, (deepTmpL w.work w.nextTmp).2, hw, hs, ?_, ?_, hb.1, hb.2.1, hb.2.2.1, hb.2.2.2⟩
  · rw [ho]; exact (handOut_tz w).2
  · rw [ho]; exact (handOut_tz w).1

/-- an identity of the results' window is in none of the classes the rest lives in -/
theorem window_disjoint (m n : Nat) (i : Id) : inR m n i = true → below m i = false :=
  inR_not_below i

/-- the `$lookup` witness runs on a `tz_aware` collection (the hypotheses are satisfiable) -/
example : (mkState pipeFacetLookup).persistent = true ∧
    (aggregateTz Disc.reference Sem.trivial true (mkState pipeFacetLookup) "a").toOption.isSome = true := by
  decide +kernel

/-! ### the pipeline argument -/

/-- **the caller's pipeline object is left alone** — the very object, not just its value — by
    EVERY pipeline: `$out` anywhere (last, in the middle, inside a `$facet`), `$lookup`,
    `$sample`, `$literal`s written into by later stages.  `aggregate` rebuilds every dict and
    list of the pipeline before the stages see it (`Disc.pipelineCopy = .deep`), so the stages
    hold no object of the caller; what remains to be shown — and is — is that no in-place write
    of any stage reaches an object that is not the call's own. -/
theorem pipeline_arg_unchanged (sem : Sem) (s s' : State) (coll : String) (out : List HV)
    (hp : s.persistent = true)
    (h : aggregate Disc.reference sem s coll = .ok (out, s')) : s'.pipe = s.pipe := by
  simp only [aggregate] at h
  split at h
  · next w hw =>
    cases h
    exact aggregateStages_pipe sem s coll _ w hp hw
  · cases h

/-- the same for explicit stage lists -/
theorem pipeline_arg_unchanged_stages (sem : Sem) (s : State) (coll : String) (stages : List Stage)
    (w : World) (hp : s.persistent = true)
    (h : aggregateStages Disc.reference sem s coll stages = .ok w) : w.pipe = s.pipe :=
  aggregateStages_pipe sem s coll stages w hp h

/-- **the stages never hold an object of the caller**: the pipeline they read is made of objects
    of the call -/
theorem stages_read_a_copy (s : State) (coll : String) :
    (s.world Disc.reference coll).cpipe.all Id.isTmp = true ∧
    (s.world Disc.reference coll).cpipe.toVal = s.pipe.toVal := by
  simp only [State.world, Disc.reference, Copy.run]
  exact ⟨deepTmp_tmp _ _, deepTmp_toVal _ _⟩

/-- `[{'$replaceRoot': {'newRoot': {'$literal': {'q': 1}}}}, {'$out': 'c'}]`: `$out` writes the
    generated `_id` into the literal's copy; `[{'$out': 'c'}, {'$match': {}}]`: `$out` in the
    middle -/
def pipeLiteralOut : HV := .node (.cl 0) false
  [("", .node (.cl 1) true [("$replaceRoot", .node (.cl 2) true
      [("newRoot", .node (.cl 3) true [("$literal", .node (.cl 4) true [("q", .atom (.int 1))])])])]),
   ("", .node (.cl 5) true [("$out", .atom (.str "c"))])]

def pipeOutMiddle : HV := .node (.cl 0) false
  [("", .node (.cl 1) true [("$out", .atom (.str "c"))]),
   ("", .node (.cl 2) true [("$match", .node (.cl 3) true [])])]

example : ∀ pipe ∈ [pipeLiteralOut, pipeOutMiddle], (mkState pipe).persistent = true ∧
    noOutStages (parsePipe pipe) = false ∧
    (after Disc.reference Sem.trivial (mkState pipe) "a").isSome = true := by
  decide +kernel

/-! ### `$out` -/

/-- **`$out` replaces the target with exactly the pipeline's output**: after `pre ++ [$out t]`,
    when the documents `pre` returns carry their `_id`, collection `t` holds exactly those
    documents (as values, in order) and every other collection is what it was before the call.
    (Documents without `_id` get a generated one written into them first; for those the check's
    direct oracle compares target, returned documents and prefix output on /repo.) -/
theorem out_replaces_target (sem : Sem) (s : State) (coll target : String) (pre : List Stage)
    (w' : World) (hp : s.persistent = true) (hno : noOutStages pre = true)
    (h : aggregateStages Disc.reference sem s coll (pre ++ [.out target]) = .ok w') :
    ∃ w, aggregateStages Disc.reference sem s coll pre = .ok w ∧
      (allHaveId w.work = true →
        toVals (getColl target w'.colls) = toVals w.work ∧
        ∀ c, c ≠ target → getColl c w'.colls = getColl c s.colls) := by
  obtain ⟨w, hw, ho⟩ := aggregateStages_out_split sem s coll target pre w' h
  refine ⟨w, hw, fun ha => ?_⟩
  have hr := outStage_replaces sem target w w' ha ho
  have hro := aggregateStages_readonly sem s coll pre w hp hno hw
  exact ⟨hr.2.1, fun c hc => by rw [hr.2.2 c hc, hro.1]⟩

/-- **`$out` passes its input through**: the call returns the very documents `pre` returns -/
theorem out_passes_through (sem : Sem) (s : State) (coll target : String) (pre : List Stage)
    (w' : World)
    (h : aggregateStages Disc.reference sem s coll (pre ++ [.out target]) = .ok w') :
    ∃ w, aggregateStages Disc.reference sem s coll pre = .ok w ∧
      (allHaveId w.work = true → w'.work = w.work) := by
  obtain ⟨w, hw, ho⟩ := aggregateStages_out_split sem s coll target pre w' h
  exact ⟨w, hw, fun ha => (outStage_replaces sem target w w' ha ho).1⟩

/-- `[{'$match': {}}, {'$out': 'c'}]` on the witness state: in the hypotheses, and it runs -/
def outWitness : Option (Bool × List Val × List Val) :=
  match aggregateStages Disc.reference Sem.trivial (mkState (.node (.cl 0) false [])) "a"
      [.select "$match" (.doc [])],
    aggregateStages Disc.reference Sem.trivial (mkState (.node (.cl 0) false [])) "a"
      ([.select "$match" (.doc [])] ++ [.out "c"]) with
  | .ok w, .ok w' => some (allHaveId w.work, toVals (getColl "c" w'.colls), toVals w'.work)
  | _, _ => none

example : outWitness.map (fun o => o.1 && o.2.1 == [doc0.toVal] && o.2.2 == [doc0.toVal]) = some true := by
  decide +kernel

/-! ### repeatable -/

/-- **repeatable**: a successful call without `$out` leaves the persistent state — collections,
    catalog, pipeline object — identical, so running it again IS the same computation and gives the
    same answer (for the same draws of `$sample`; see `sample_submultiset` for what may vary) -/
theorem repeatable (sem : Sem) (s s' : State) (coll : String) (out : List HV)
    (hp : s.persistent = true) (hno : noOutStages (parsePipe s.pipe) = true)
    (h : aggregate Disc.reference sem s coll = .ok (out, s')) :
    s' = s ∧ aggregate Disc.reference sem s' coll = .ok (out, s') := by
  have hr := aggregate_readonly sem s s' coll out hp hno h
  have hpipe := pipeline_arg_unchanged sem s s' coll out hp h
  have : s' = s := by
    cases s; cases s'; simp_all
  rw [this] at h ⊢
  exact ⟨rfl, h⟩

/-- **`$sample`**: whatever rearrangement the shuffle draws, the stage returns a sub-multiset of
    its input of size `min size |input|` and changes nothing else (in particular not its options) -/
theorem sample_submultiset (sem : Sem) (w w' : World) (loc : List Nat)
    (hperm : ∀ n, (sem.shuffle n).Perm (List.range n))
    (hs : runStage Disc.reference sem w (.sample loc) = .ok w') :
    SubMultiset w'.work w.work ∧ w' = { w with work := w'.work } ∧
      ∃ (id : Id) (kids : Kids) (n : Int), subAt loc w.cpipe = some (.node id true kids) ∧
        kget "size" kids = some (.atom (.int n)) ∧ w'.work.length = min n.toNat w.work.length :=
  sample_stage sem w w' loc hperm hs

example : ∀ n, (Sem.trivial.shuffle n).Perm (List.range n) := fun _ => List.Perm.refl _

/-- the `$sample` witness draws one document -/
def sampleWitnessLen : Option Nat :=
  match runStage Disc.reference Sem.trivial ((mkState pipeSample).world Disc.reference "a")
      (.sample [0, 0]) with
  | .ok w' => some w'.work.length
  | .error _ => none

example : sampleWitnessLen = some 1 := by decide +kernel

/-! ### `$facet` -/

/-- **`$facet` isolation**: in any world the invariant of the call holds in, the stage returns one
    document `{title_j: outs_j}` and `outs_j` is what sub-pipeline `j` returns when it is run
    ALONE (`BranchAlone`): on a fresh deep copy of the stage's original input, against the
    collections, catalog and pipeline object as they were before the stage — whatever its
    siblings did to their documents.  (Equality with a stand-alone run is up to the numbering of
    the fresh identities; the check compares the values on /repo.) -/
theorem facet_isolated (sem : Sem) (b : Nat) (w w' : World) (bs : List (String × List Stage))
    (h : WInv b w) (ho : w.out = []) (hno : noOutBranches bs = true)
    (hs : runStage Disc.reference sem w (.facet bs) = .ok w') :
    ∃ (n : Nat) (outs : List (List HV)), w'.work = [facetDoc n (bs.map (·.1)) outs] ∧
      All2 (BranchAlone sem w w.work) bs outs :=
  facet_isolated_stage sem b w w' bs h ho hno hs

/-- the hypothesis of `facet_isolated` holds when the call starts … -/
theorem facet_isolated_hyp_initial (s : State) (coll : String) (hp : s.persistent = true) :
    WInv (base s) (s.world Disc.reference coll) ∧ (s.world Disc.reference coll).out = [] :=
  world_inv s coll hp

/-- … and after every stage, `$out` included -/
theorem facet_isolated_hyp_step (sem : Sem) (ss : List Stage) (b : Nat) (w w' : World)
    (h : WInv b w) (ho : w.out = [])
    (hs : runStages Disc.reference sem w ss = .ok w') : WInv b w' ∧ w'.out = [] :=
  ⟨(runStages_step sem ss b w w' h ho hs).1.inv, (runStages_step sem ss b w w' h ho hs).2.1⟩

/-- the value of branch `y` (which only matches everything) inside the facet -/
def branchY (D : Disc) (pipe : HV) : Option Val :=
  (observe D Sem.trivial (mkState pipe) "a").bind (fun o =>
    match o.1 with
    | [.doc fs] => dget "y" fs
    | _ => none)

/-- on the former witnesses branch `y` now returns the stored documents -/
theorem facet_witnesses_isolated :
    ∀ pipe ∈ [pipeFacetAdd, pipeFacetLookup],
      (branchY Disc.reference pipe).map (· == .arr [doc0.toVal]) = some true := by
  decide +kernel

/-! ### stages that write into nothing that was there before -/

/-- **no in-place write**: a stage other than `$lookup`, `$out`, `$facet` — `$addFields/$set` on
    dotted names and `$unwind` with an index included — leaves everything the world keeps alive
    literally unchanged: collections, catalog, the caller's pipeline object and every list on the
    stack.  In ANY world: no invariant, no hypothesis on who shares objects with the documents. -/
theorem pure_stage_writes_nothing (sem : Sem) (st : Stage) (w w' : World) (hp : st.pure = true)
    (hs : runStage Disc.reference sem w st = .ok w') :
    w'.colls = w.colls ∧ w'.idx = w.idx ∧ w'.pipe = w.pipe ∧ w'.stack = w.stack ∧
      w'.nextSt = w.nextSt := by
  have h := (runStage_pure_same Disc.reference rfl rfl sem st w w' hp hs).1
  exact ⟨h.colls, h.idx, h.pipe, h.stack, h.nextSt⟩

/-- **the documents a stage is handed are left alone**: keep the input list of a run of
    non-writing stages alive (on the stack, as `$facet` does for its sub-pipelines) — afterwards
    it is the same list of the same objects with the same contents -/
theorem stage_input_unchanged (sem : Sem) (ss : List Stage) (w w' : World) (stk : List (List HV))
    (hp : pureStages ss = true)
    (hs : runStages Disc.reference sem { w with stack := w.work :: stk } ss = .ok w') :
    w'.stack = w.work :: stk :=
  (runStages_pure_same Disc.reference rfl rfl sem ss _ w' hp hs).1.stack

/-- `{'$addFields': {'a.z': 9}}`;
    `{'$unwind': {path: '$arr', preserveNullAndEmptyArrays: true, includeArrayIndex: 'a.ix'}}`
    (the witness document has no `arr`: it is kept, and a copy of it gets `a.ix: null`) -/
def addZ : Stage := .addFields [("a.z", .const (.int 9))]
def unwindIx : Stage := .unwind "arr" true (some ["a", "ix"])

/-- the stage's input (kept on the stack) after the stage, as values -/
def inputAfter (D : Disc) (st : Stage) : Option (List Val) :=
  let w := (mkState (.node (.cl 0) false [])).world D "a"
  match runStage D Sem.trivial { w with stack := [w.work] } st with
  | .ok w' => w'.stack.head?.map toVals
  | .error _ => none

/-- both witnesses are in the class, run, and leave their input as it was … -/
example : addZ.pure = true ∧ unwindIx.pure = true ∧ pureStages [addZ, unwindIx] = true ∧
    (inputAfter Disc.reference addZ).map (· == [doc0.toVal]) = some true ∧
    (inputAfter Disc.reference unwindIx).map (· == [doc0.toVal]) = some true := by decide +kernel

/-- … whereas the discipline `$addFields` had before (descend into the sub-document that is
    there) wrote `a.z` into the stage's input -/
theorem unrepaired_addfields_writes_input :
    (inputAfter { Disc.reference with addFieldsNested := .none } addZ).map (· == [doc0.toVal])
      = some false := by
  decide +kernel

/-- **`$facet` isolation by the stages' own discipline**: when every sub-pipeline consists of
    non-writing stages, each output is what the sub-pipeline returns when run alone on the
    stage's input ITSELF (`BranchShared`: the very objects, no copy) — under the discipline
    `Disc.sharing` that hands ONE list to all sub-pipelines — and the stage has written into
    nothing.  The per-branch copy of `Disc.reference` is what `$lookup` needs (below). -/
theorem facet_isolated_by_stage_discipline (sem : Sem) (w w' : World)
    (bs : List (String × List Stage)) (ho : w.out = []) (hp : pureBranches bs = true)
    (hs : runStage Disc.sharing sem w (.facet bs) = .ok w') :
    (w'.colls = w.colls ∧ w'.pipe = w.pipe ∧ w'.stack = w.stack) ∧
    ∃ (n : Nat) (outs : List (List HV)), w'.work = [facetDoc n (bs.map (·.1)) outs] ∧
      All2 (BranchShared Disc.sharing sem w w.work) bs outs := by
  have h := facet_shared_isolated_stage Disc.sharing rfl rfl rfl sem w w' bs ho hp hs
  exact ⟨⟨h.1.colls, h.1.pipe, h.1.stack⟩, h.2⟩

/-- the `$addFields` witness is such a `$facet`, and it runs under `Disc.sharing` -/
example : (∃ bs, parsePipe pipeFacetAdd = [.facet bs] ∧ pureBranches bs = true) ∧
    (observe Disc.sharing Sem.trivial (mkState pipeFacetAdd) "a").isSome = true :=
  ⟨⟨_, rfl, by decide⟩, by decide +kernel⟩

/-- without the per-branch copy: `$addFields` on a dotted name in branch `x` is not seen by
    branch `y` any more, `$lookup` still is — and the former `$addFields` was -/
theorem sharing_witnesses :
    (branchY Disc.sharing pipeFacetAdd).map (· == .arr [doc0.toVal]) = some true ∧
    (branchY Disc.sharing pipeFacetLookup).map (· == .arr [doc0.toVal]) = some false ∧
    (branchY { Disc.sharing with addFieldsNested := .none } pipeFacetAdd).map
      (· == .arr [doc0.toVal]) = some false := by
  decide +kernel

/-! ### the laws fail under the discipline /repo had before the repairs -/

/-- `$sample` popped `size` out of the caller's dict … -/
theorem unrepaired_pipeline_arg_changed :
    ((after Disc.unrepaired Sem.trivial (mkState pipeSample) "a").all
      (fun s' => s'.pipe.toVal == pipeSample.toVal)) = false := by
  decide +kernel

/-- … and the second run of the same pipeline object raised -/
theorem unrepaired_sample_second_run_fails :
    ((after Disc.unrepaired Sem.trivial (mkState pipeSample) "a").map
      (fun s' => (observe Disc.unrepaired Sem.trivial s' "a").isNone)) = some true := by
  decide +kernel

/-- a `$literal` was written into by a later `$addFields` on a dotted path -/
theorem unrepaired_literal_written :
    ((after Disc.unrepaired Sem.trivial (mkState pipeLiteral) "a").all
      (fun s' => s'.pipe.toVal == pipeLiteral.toVal)) = false := by
  decide +kernel

/-- a sibling's `$addFields` on a nested path / `$lookup` was seen by branch `y` -/
theorem unrepaired_facet_not_isolated :
    ∀ pipe ∈ [pipeFacetAdd, pipeFacetLookup],
      (branchY Disc.unrepaired pipe).map (· == .arr [doc0.toVal]) = some false := by
  decide +kernel

/-- under `Disc.reference` the same runs leave the pipeline object alone (instances of
    `pipeline_arg_unchanged`, computed) -/
theorem repaired_witnesses :
    ∀ pipe ∈ [pipeSample, pipeLiteral, pipeFacetAdd, pipeFacetLookup],
      ((observe Disc.reference Sem.trivial (mkState pipe) "a").all
        (fun o => o.2.1 == pipe.toVal && o.2.2 == [("a", [doc0.toVal]), ("b", [docB.toVal])])) = true := by
  decide +kernel

/-- the rebuilt pipeline alone protects the caller's object: with EVERY stage discipline as it
    was before the repairs (`$sample` pops, `$literal` hands out the pipeline's object, `$facet`
    shares, `$addFields` descends) but the stages reading the call's own copy, the caller's
    pipeline is what it was on all the witnesses, and a second run gives the same answer -/
theorem rebuilt_pipeline_protects_caller :
    ∀ pipe ∈ [pipeSample, pipeLiteral, pipeFacetAdd, pipeFacetLookup, pipeLiteralOut],
      ((after { Disc.unrepaired with pipelineCopy := .deep } Sem.trivial (mkState pipe) "a").all
        (fun s' => s'.pipe.toVal == pipe.toVal)) = true ∧
      (after { Disc.unrepaired with pipelineCopy := .deep } Sem.trivial (mkState pipe) "a").isSome
        = true := by
  decide +kernel

/-! ### the discipline the theorems are about is the one the source has now -/

theorem discipline_current : Generated.AggDiscipline.discipline = Disc.reference :=
  Generated.AggDiscipline.discipline_is_reference

end MongoModel.Props.C16
