/-
  Props.C18 — datetimes are stored as UTC milliseconds on every path and queried consistently.
  Only statements of the property live here; lemmas and proofs are in Proofs/C18*.lean.

  Impl  = MongoModel.patch      (helpers.patch_datetime_awareness_in_document)
          MongoModel.makeAware  (helpers.make_datetime_timezone_aware_in_document)
          MongoModel.filterApplies (the matcher, C01)
          — tied to /repo by the per-run correspondence of harness/props/c18.py.
  The property is a law about the implementation (idempotent normal form, invariant, agreement of
  equivalent operands), so the theorems are stated on Impl directly; the vocabulary of the
  statements (`Normal`, `AllDates`, `sameMillisecond`, `SameMs`, `shape`, `datesOf`, `DateInv`) is
  in MongoModel/DateTime.lean and is the trusted reading of "naive UTC, whole milliseconds, at
  every depth".

  All theorems are unbounded (mutual induction over the nested `Val`).  The store-level part
  (`DateInv` along every history of the collection state machine) is delivered as a library:
  provenance lemmas for every container-building primitive plus `reachable_date_inv`, into which
  the collection model plugs its `step`.

  Exclusion classes of the direct check on the real API (known findings, witnesses in
  known_findings.json, replayed on every run):
    currentdate_raw         `$currentDate` on an existing document stores `mongomock.utcnow()` as
                            it comes (`raw_clock_normal_full_fails` is the model-side witness)
    tzaware_delete_date_id  tz_aware=True: deleting a document whose `_id` holds a datetime raises
                            KeyError (store key taken from the tz-aware copy)
    tzaware_deepcopy        tz_aware=True: the `utc` tzinfo handed out cannot be deep-copied, so
                            `$unwind` / `$graphLookup` raise TypeError
    aggregate_literal_raw   datetime literals in a pipeline outside `$match` are returned as written
  Scope limits: PEP 495 fold, tzinfo that is not a fixed whole-minute offset, bson.Timestamp.
-/
import Proofs.C18
import Proofs.C18Filter
import Proofs.C18Provenance

namespace MongoModel.Props.C18
open MongoModel

/-! ## 1. `patch` is an idempotent projection onto the normal form -/

/-- Normalising twice is normalising once — so it does not matter how many of the call sites a
    value passes (filter and update are patched in `_update`, the upsert seed again in
    `_insert`, `$match` patches stored documents again). -/
theorem patch_idem (v : Val) : patch (patch v) = patch v :=
  Proofs.C18.patch_idem v

/-- Every datetime of the result, at any depth, is naive with whole milliseconds. -/
theorem patch_normal (v : Val) : AllDates Normal (patch v) :=
  Proofs.C18.patch_normal v

/-- A value that is already normal is left exactly as it is. -/
theorem patch_fixes_normal (v : Val) (h : AllDates Normal v) : patch v = v :=
  Proofs.C18.patch_fixes_normal v h

/-- non-vacuity: normal datetimes (one before 1970) two and three levels down -/
example : AllDates Normal
    (.doc [("a", .doc [("b", .arr [.date 1577836800123000 none, .int 1])]),
           ("c", .arr [.doc [("d", .date (-1000) none)]])]) :=
  (Proofs.C18.allNormalB_iff _).1 (by decide)

/-- The normal form is exactly the set of fixed points. -/
theorem patch_fixed_iff (v : Val) : patch v = v ↔ AllDates Normal v :=
  Proofs.C18.patch_fixed_iff v

/-! ## 2. `patch` identifies exactly the datetimes of one millisecond -/

/-- Two datetimes — naive or aware, any offsets, any microseconds, before or after 1970 — have
    the same stored form iff they denote the same millisecond (UTC). -/
theorem patch_instant (u : Int) (o : Option Int) (u' : Int) (o' : Option Int) :
    patch (.date u o) = patch (.date u' o') ↔ sameMillisecond (.date u o) (.date u' o') :=
  Proofs.C18.patch_instant u o u' o'

/-- non-vacuity: 05:30:00.123456+05:30 and 23:00:00.123999-01:00 (the day before) are the same
    millisecond; so are two instants before the epoch (floor, not truncation) -/
example : sameMillisecond (.date (1577856600123456) (some 330))
                          (.date (1577833200123999) (some (-60))) := by
  simp [sameMillisecond, msOf, dateUtc]
example : sameMillisecond (.date (-1) none) (.date (-999) none) ∧
          ¬ sameMillisecond (.date (-1) none) (.date 0 none) := by
  simp [sameMillisecond, msOf, dateUtc]

/-- The stored value denotes the millisecond of the input. -/
theorem patch_keeps_ms (u : Int) (o : Option Int) :
    sameMillisecond (patch (.date u o)) (.date u o) :=
  Proofs.C18.patch_keeps_ms u o

/-- The stored value is naive, a whole number of milliseconds, and is the UTC instant of the
    input rounded *down* by less than one millisecond. -/
theorem patch_date_bounds (u : Int) (o : Option Int) :
    ∃ m, patch (.date u o) = .date m none ∧ m % 1000 = 0 ∧
      m ≤ dateUtc u o ∧ dateUtc u o < m + 1000 :=
  Proofs.C18.patch_date_bounds u o

/-- Whole values: equal stored forms iff same shape and, position by position, same
    milliseconds. -/
theorem patch_eq_iff_sameMs (a b : Val) : patch a = patch b ↔ SameMs a b :=
  Proofs.C18.patch_eq_iff_sameMs a b

/-! ## 3. `patch` changes nothing but datetimes -/

/-- Same keys in the same order, same lengths, same non-date leaves at every depth. -/
theorem patch_shape (v : Val) : shape (patch v) = shape v :=
  Proofs.C18.shape_patch v

/-- The datetimes of the result are the normalised datetimes of the input, in position. -/
theorem patch_dates (v : Val) :
    datesOf (patch v) = (datesOf v).map (fun d => (floorMs (dateUtc d.1 d.2), none)) :=
  Proofs.C18.datesOf_patch v

/-- `shape` and `datesOf` together determine a value, so the two theorems above describe `patch`
    completely. -/
theorem shape_dates_determine (a b : Val) (hs : shape a = shape b) (hd : datesOf a = datesOf b) :
    a = b :=
  Proofs.C18.eq_of_shape_dates a b hs hd

example : shape (.doc [("a", .date 5 none), ("b", .int 1)])
            = shape (.doc [("a", .date 5 none), ("b", .int 1)]) ∧
          datesOf (.doc [("a", .date 5 none), ("b", .int 1)])
            = datesOf (.doc [("a", .date 5 none), ("b", .int 1)]) := ⟨rfl, rfl⟩

theorem patch_keys (fs : Fields) : dkeys (patchFields fs) = dkeys fs :=
  Proofs.C18.dkeys_patchFields fs

theorem patch_length (xs : List Val) : (patchList xs).length = xs.length :=
  Proofs.C18.length_patchList xs

theorem patch_field (k : String) (fs : Fields) :
    dget k (patchFields fs) = (dget k fs).map patch :=
  Proofs.C18.dget_patchFields k fs

theorem patch_item (xs : List Val) (i : Nat) : (patchList xs)[i]? = (xs[i]?).map patch :=
  Proofs.C18.getElem?_patchList xs i

theorem patch_leaf (v : Val) (hd : v.isDate = false) (hdoc : v.isDoc = false)
    (harr : v.isArr = false) : patch v = v :=
  Proofs.C18.patch_leaf v hd hdoc harr

example : (Val.str "2020-01-01").isDate = false ∧ (Val.str "2020-01-01").isDoc = false ∧
    (Val.str "2020-01-01").isArr = false := ⟨rfl, rfl, rfl⟩

/-- At the end of every path (`get_value_by_dot`: keys and array indexes, any depth) sits the
    normalised form of what sat there before; paths that do not exist still do not. -/
theorem patch_depth_commutes (ps : List String) (v : Val) :
    getByDotParts ps (patch v) = (getByDotParts ps v).map patch :=
  Proofs.C18.getByDotParts_patch ps v

theorem patch_depth (ps : List String) (v : Val) (u : Int) (o : Option Int)
    (h : getByDotParts ps v = .ok (.date u o)) :
    getByDotParts ps (patch v) = .ok (.date (floorMs (dateUtc u o)) none) :=
  Proofs.C18.patch_depth ps v u o h

example : getByDotParts ["a", "1", "b"]
    (.doc [("a", .arr [.null, .doc [("b", .date 1577856600123456 (some 330))]])])
    = .ok (.date 1577856600123456 (some 330)) := by
  simp [getByDotParts, dget, pyInt?]

/-! ## 4. reads: `tz_aware=True` -/

/-- Every datetime of the result, at any depth, is aware with offset 0. -/
theorem makeAware_utc (v : Val) : AllDates AwareUtc (makeAware v) :=
  Proofs.C18.makeAware_utc v

/-- Nothing but datetimes changes. -/
theorem makeAware_shape (v : Val) : shape (makeAware v) = shape v :=
  Proofs.C18.shape_makeAware v

/-- Wall clocks are kept, position by position … -/
theorem makeAware_dates (v : Val) : datesOf (makeAware v) = (datesOf v).map (fun d => (d.1, some 0)) :=
  Proofs.C18.datesOf_makeAware v

/-- … so for stored (naive) values every datetime keeps its UTC instant. -/
theorem makeAware_same_instant (v : Val) (h : AllDates Naive v) :
    (datesOf (makeAware v)).map (fun d => dateUtc d.1 d.2)
      = (datesOf v).map (fun d => dateUtc d.1 d.2) :=
  Proofs.C18.makeAware_same_instant v h

example : AllDates Naive (.doc [("a", .arr [.doc [("b", .date 1577836800123000 none)]])]) := by
  simp [AllDates, AllDatesF, AllDatesL, Naive]

/-- At every depth: the same statement through path access. -/
theorem makeAware_depth (ps : List String) (v : Val) (u : Int) (o : Option Int)
    (h : getByDotParts ps v = .ok (.date u o)) :
    getByDotParts ps (makeAware v) = .ok (.date u (some 0)) :=
  Proofs.C18.makeAware_depth ps v u o h

example : getByDotParts ["a", "0", "b"]
    (.doc [("a", .arr [.doc [("b", .date 1577836800123000 none)]])])
    = .ok (.date 1577836800123000 none) := by
  simp [getByDotParts, dget, pyInt?]

theorem makeAware_depth_commutes (ps : List String) (v : Val) :
    getByDotParts ps (makeAware v) = (getByDotParts ps v).map makeAware :=
  Proofs.C18.getByDotParts_makeAware ps v

/-- Writing back what a `tz_aware` client read stores the same document again. -/
theorem patch_makeAware_roundtrip (v : Val) (h : AllDates Normal v) : patch (makeAware v) = v :=
  Proofs.C18.patch_makeAware v h

example : AllDates Normal (.doc [("a", .arr [.doc [("b", .date 1577836800123000 none)]])]) :=
  (Proofs.C18.allNormalB_iff _).1 (by decide)

/-! ## 5. equivalent operands give the same query -/

/-- A query `{k: a}` and a query `{k: b}` with `b` denoting the same millisecond are the same
    query after normalisation, so they select the same documents (and raise on the same). -/
theorem equivalent_operand_finds (k : String) (a b d : Val) (h : sameMillisecond a b) :
    filterApplies (patch (.doc [(k, a)])) d = filterApplies (patch (.doc [(k, b)])) d :=
  Proofs.C18.equivalent_operand_finds k a b d h

/-- The datetime may sit anywhere in the filter: under `$gt`, in an `$in` list, in an
    `$elemMatch`, in `$and` / `$or` branches, in an embedded-document operand. -/
theorem equivalent_filter_finds (f g d : Val) (h : SameMs f g) :
    filterApplies (patch f) d = filterApplies (patch g) d :=
  Proofs.C18.equivalent_filter_finds f g d h

/-- non-vacuity: the same millisecond written two ways, three levels inside a filter -/
example : SameMs
    (.doc [("$or", .arr [.doc [("a.b", .doc [("$in", .arr [.date 1577856600123456 (some 330), .null])])]])])
    (.doc [("$or", .arr [.doc [("a.b", .doc [("$in", .arr [.date 1577836800123000 none, .null])])]])]) :=
  (patch_eq_iff_sameMs _ _).1 (by simp [patch, patchFields, patchList, floorMs, dateUtc])

/-- The `$match` stage (both sides patched). -/
theorem equivalent_match_stage (f g d : Val) (h : SameMs f g) :
    filterApplies (patch f) (patch d) = filterApplies (patch g) (patch d) :=
  Proofs.C18.equivalent_match_stage f g d h

/-- Found or not: a document whose field `k` (a plain field path reaching exactly one value)
    holds the stored form of `a` is selected by `{k: b}` exactly when `b` denotes the same
    millisecond as `a`. -/
theorem found_iff_same_millisecond (k : String) (u : Int) (o : Option Int) (u' : Int)
    (o' : Option Int) (d : Val) (hk : Proofs.C18.plainKey k = true)
    (hc : candsKey k d = .ok [some (patch (.date u o))]) :
    filterApplies (patch (.doc [(k, .date u' o')])) d = .ok (msOf u o == msOf u' o') :=
  Proofs.C18.found_iff_same_millisecond k u o u' o' d hk hc

example : Proofs.C18.plainKey "a.b" = true := by decide +kernel
example : candsKey "a.b" (.doc [("a", .doc [("b", patch (.date 1577856600123456 (some 330)))])])
    = .ok [some (patch (.date 1577856600123456 (some 330)))] := by
  simp [candsKey, splitDots, splitDotsChars, cands, dget, patch]

/-! ## 6. provenance: where a stored datetime can come from

`P` is any predicate on datetimes (`Normal` for the store invariant, `AwareUtc` for what a
`tz_aware` reader hands out).  Building blocks either preserve `AllDates P` or inherit it. -/

section provenance
variable {P : DatePred}

theorem provenance_dset {k : String} {v : Val} {fs : Fields} (h : AllDates P (.doc fs))
    (hv : AllDates P v) : AllDates P (.doc (dset k v fs)) :=
  Proofs.C18.allDates_dset h hv

theorem provenance_derase {k : String} {fs : Fields} (h : AllDates P (.doc fs)) :
    AllDates P (.doc (derase k fs)) :=
  Proofs.C18.allDates_derase h

theorem provenance_dget {k : String} {fs : Fields} {v : Val} (h : AllDates P (.doc fs))
    (hg : dget k fs = some v) : AllDates P v :=
  Proofs.C18.allDates_dget h hg

theorem provenance_rename {src dst : String} {fs : Fields} {v : Val} (h : AllDates P (.doc fs))
    (hg : dget src fs = some v) : AllDates P (.doc (dset dst v (derase src fs))) :=
  Proofs.C18.allDates_rename h hg

theorem provenance_append {xs ys : List Val} (h : AllDates P (.arr xs)) (hy : AllDates P (.arr ys)) :
    AllDates P (.arr (xs ++ ys)) :=
  Proofs.C18.allDates_arr_of
    (Proofs.C18.allDatesL_append (Proofs.C18.allDatesL_of_arr h) (Proofs.C18.allDatesL_of_arr hy))

theorem provenance_push {xs : List Val} {v : Val} (h : AllDates P (.arr xs)) (hv : AllDates P v) :
    AllDates P (.arr (xs ++ [v])) :=
  Proofs.C18.allDates_arr_of (Proofs.C18.allDatesL_concat (Proofs.C18.allDatesL_of_arr h) hv)

theorem provenance_insert_at {xs each : List Val} (p : Nat) (h : AllDates P (.arr xs))
    (he : AllDates P (.arr each)) : AllDates P (.arr (xs.take p ++ each ++ xs.drop p)) :=
  Proofs.C18.allDates_arr_of
    (Proofs.C18.allDatesL_insert_at p (Proofs.C18.allDatesL_of_arr h) (Proofs.C18.allDatesL_of_arr he))

theorem provenance_take {xs : List Val} (n : Nat) (h : AllDates P (.arr xs)) :
    AllDates P (.arr (xs.take n)) :=
  Proofs.C18.allDates_arr_of (Proofs.C18.allDatesL_take n (Proofs.C18.allDatesL_of_arr h))

theorem provenance_drop {xs : List Val} (n : Nat) (h : AllDates P (.arr xs)) :
    AllDates P (.arr (xs.drop n)) :=
  Proofs.C18.allDates_arr_of (Proofs.C18.allDatesL_drop n (Proofs.C18.allDatesL_of_arr h))

theorem provenance_filter {xs : List Val} (p : Val → Bool) (h : AllDates P (.arr xs)) :
    AllDates P (.arr (xs.filter p)) :=
  Proofs.C18.allDates_arr_of (Proofs.C18.allDatesL_filter p (Proofs.C18.allDatesL_of_arr h))

theorem provenance_rearranged {xs ys : List Val} (hp : xs.Perm ys) (h : AllDates P (.arr xs)) :
    AllDates P (.arr ys) :=
  Proofs.C18.allDates_arr_of (Proofs.C18.allDatesL_perm hp (Proofs.C18.allDatesL_of_arr h))

theorem provenance_set_at {xs : List Val} {v : Val} (i : Nat) (h : AllDates P (.arr xs))
    (hv : AllDates P v) : AllDates P (.arr (xs.set i v)) :=
  Proofs.C18.allDates_arr_of (Proofs.C18.allDatesL_set i (Proofs.C18.allDatesL_of_arr h) hv)

theorem provenance_pad_set {xs : List Val} {v : Val} (n : Nat) (h : AllDates P (.arr xs))
    (hv : AllDates P v) : AllDates P (.arr (xs ++ List.replicate n .null ++ [v])) :=
  Proofs.C18.allDates_arr_of (Proofs.C18.allDatesL_pad_set n (Proofs.C18.allDatesL_of_arr h) hv)

theorem provenance_item {xs : List Val} {i : Nat} {x : Val} (h : AllDates P (.arr xs))
    (hx : xs[i]? = some x) : AllDates P x :=
  Proofs.C18.allDatesL_getElem? (Proofs.C18.allDatesL_of_arr h) hx

/-- the general form: a list all of whose items come from a good list or are good -/
theorem provenance_from_members {xs ys : List Val} (h : AllDates P (.arr xs))
    (hy : ∀ y ∈ ys, y ∈ xs ∨ AllDates P y) : AllDates P (.arr ys) :=
  Proofs.C18.allDates_arr_of (Proofs.C18.allDatesL_of_subset (Proofs.C18.allDatesL_of_arr h) hy)

/-- whatever a dotted path reaches inside a good value is good -/
theorem provenance_path (ps : List String) (d x : Val) (h : AllDates P d)
    (hx : getByDotParts ps d = .ok x) : AllDates P x :=
  Proofs.C18.allDates_getByDotParts ps d x h hx

/-- a worked composition: a generic dotted-path writer (documents created, arrays padded with
    nulls) keeps `AllDates P` — the shape of every per-operator proof -/
theorem provenance_write_at (ps : List String) (v d : Val) (hv : AllDates P v) (hd : AllDates P d) :
    AllDates P (Proofs.C18.writeAt ps v d) :=
  Proofs.C18.allDates_writeAt ps v d hv hd

end provenance

/-- non-vacuity for the provenance hypotheses (`P := Normal`): a stored document, a patched
    operand, and the path writer descending through a document, into an array past its end -/
example : AllDates Normal (.doc [("a", .arr [.date 1577836800123000 none])]) ∧
    AllDates Normal (patch (.date 1577856600123456 (some 330))) ∧
    Proofs.C18.writeAt ["a", "2", "b"] (patch (.date 1577856600123456 (some 330)))
        (.doc [("a", .arr [.date 1577836800123000 none])])
      = .doc [("a", .arr [.date 1577836800123000 none, .null,
                          .doc [("b", .date 1577836800123000 none)]])] := by
  exact ⟨(Proofs.C18.allNormalB_iff _).1 (by decide), patch_normal _, rfl⟩

/-! ## 7. the store invariant, pluggable -/

/-- insert / upsert: the stored document is the patched argument. -/
theorem date_inv_insert {s : List Val} (d : Val) (h : DateInv s) : DateInv (s ++ [patch d]) :=
  Proofs.C18.dateInv_insert d h

/-- update / replace: a position receives a document proved good by the provenance lemmas. -/
theorem date_inv_set {s : List Val} (i : Nat) {d : Val} (h : DateInv s) (hd : AllDates Normal d) :
    DateInv (s.set i d) :=
  Proofs.C18.dateInv_set i h hd

/-- delete. -/
theorem date_inv_filter {s : List Val} (p : Val → Bool) (h : DateInv s) : DateInv (s.filter p) :=
  Proofs.C18.dateInv_filter p h

/-- A store that satisfies the invariant is a fixed point of normalisation (what `$match` relies
    on when it patches stored documents again). -/
theorem date_inv_patch_id {s : List Val} (h : DateInv s) : s.map patch = s :=
  Proofs.C18.dateInv_patch_id h

example : DateInv [.doc [("_id", .int 1), ("a", .arr [.date 1577836800123000 none])]] := by
  intro d hd
  simp only [List.mem_singleton] at hd
  subst hd
  exact (Proofs.C18.allNormalB_iff _).1 (by decide)

/-- Reads with `tz_aware=False` hand out stored documents as they are: every datetime naive. -/
theorem reads_naive {s : List Val} (h : DateInv s) {d : Val} (hd : d ∈ s) : AllDates Naive d :=
  Proofs.C18.allDates_mono (fun _ _ hn => hn.1) d (h d hd)

/-- Reads with `tz_aware=True` (`makeAware` of a stored document): aware UTC at every depth, and
    nothing is lost — normalising the result gives the stored document back. -/
theorem reads_aware_everywhere {s : List Val} (h : DateInv s) {d : Val} (hd : d ∈ s) :
    AllDates AwareUtc (makeAware d) ∧ patch (makeAware d) = d :=
  ⟨Proofs.C18.makeAware_utc d, Proofs.C18.patch_makeAware d (h d hd)⟩

/-- **The plug.** For any state machine (`docs` projects the stored documents out of its
    state): if every step preserves the invariant, every reachable state satisfies it. -/
theorem reachable_date_inv {σ Op : Type} (docs : σ → List Val) (step : σ → Op → σ)
    (hstep : ∀ s op, DateInv (docs s) → DateInv (docs (step s op)))
    (ops : List Op) (s : σ) (h : DateInv (docs s)) : DateInv (docs (ops.foldl step s)) :=
  Proofs.C18.dateInv_foldl docs step hstep ops s h

/-- non-vacuity of `hstep`: the machine whose operations are "insert this document" and
    "write this operand at this path of document i" -/
example : ∀ (s : List Val) (op : Val ⊕ (Nat × List String × Val)), DateInv s →
    DateInv (match op with
      | .inl d => s ++ [patch d]
      | .inr (i, ps, v) => s.set i (Proofs.C18.writeAt ps (patch v) (s[i]?.getD .null))) := by
  intro s op h
  cases op with
  | inl d => exact date_inv_insert d h
  | inr t =>
    obtain ⟨i, ps, v⟩ := t
    refine date_inv_set i h (Proofs.C18.writeAt_patched_normal ps v _ ?_)
    cases hx : s[i]? with
    | none => simp [AllDates]
    | some x => exact h x (List.mem_of_getElem? hx)

/-! ## 8. the `$currentDate` finding, on the model side -/

/-- "A clock value may be stored as it comes": the statement that would be needed for
    `$currentDate` (collection.py:2124-2131 stores `mongomock.utcnow()` unpatched). -/
def raw_clock_normal_full : Prop := ∀ (us : Int) (off : Option Int), AllDates Normal (.date us off)

/-- It is false (known finding `currentdate_raw`): 2020-01-01T00:00:00.123456 keeps its
    microseconds. The same witness is replayed on the real code by the check. -/
theorem raw_clock_normal_full_fails : ¬ raw_clock_normal_full := by
  intro h
  have := h 1577836800123456 none
  simp [AllDates, Normal] at this

/-- What does hold: a raw clock value is normal exactly when it is naive with whole
    milliseconds; patched, it always is. -/
theorem raw_clock_normal_partial (us : Int) (off : Option Int) :
    AllDates Normal (.date us off) ↔ off = none ∧ us % 1000 = 0 :=
  Proofs.C18.raw_now_normal_iff us off

theorem patched_clock_normal (us : Int) (off : Option Int) :
    AllDates Normal (patch (.date us off)) :=
  Proofs.C18.now_normal us off

end MongoModel.Props.C18
