/-
  Props.C18 — datetimes are stored as UTC milliseconds on every path and queried consistently.
  Only statements of the property live here; lemmas and proofs are in Proofs/C18*.lean.

  Impl  = MongoModel.patch      (helpers.patch_datetime_awareness_in_document)
          MongoModel.makeAware  (helpers.make_datetime_timezone_aware_in_document)
          MongoModel.filterApplies (the matcher, C01)
          MongoModel.readDoc (what a reader is handed), MongoModel.aggPipeline / aggInput /
                                aggResult (what `Collection.aggregate` hands `process_pipeline`,
                                and what it hands the caller for each result)
          MongoModel.Expr.compareOp (the comparison operators of expressions, C04),
          MongoModel.Pipe.matchStage / aggregate (the pipeline, C03)
          — tied to /repo by the per-run correspondence of harness/props/c18.py.
  The property is a law about the implementation (idempotent normal form, invariant, agreement of
  equivalent operands), so the theorems are stated on Impl directly; the vocabulary of the
  statements (`Normal`, `AllDates`, `sameMillisecond`, `SameMs`, `shape`, `datesOf`, `DateInv`) is
  in MongoModel/DateTime.lean and is the trusted reading of "naive UTC, whole milliseconds, at
  every depth".

  All theorems are unbounded (mutual induction over the nested `Val`).  The store-level part
  (`DateInv` along every history of the collection state machine) is delivered as a library:
  provenance lemmas for every container-building primitive plus `reachable_date_inv`, into which
  the collection model plugs its `step`.

  The direct check on the real API has no exclusion class left.  Repaired findings (fixed records
  in known_findings.json; their witnesses are run on every check as regression cases):
    currentdate_raw         `$currentDate` on an existing document stored `mongomock.utcnow()` as
                            it came (78a8043; `unrepaired_raw_clock_not_normal` is the model-side
                            witness)
    tzaware_delete_date_id  tz_aware=True: deleting a document whose `_id` holds a datetime raised
                            KeyError (6c3956b)
    tzaware_deepcopy        tz_aware=True: the `utc` tzinfo handed out could not be deep-copied, so
                            `$unwind` / `$graphLookup` raised TypeError (6f8861a)
    aggregate_literal_raw   datetime literals in a pipeline outside `$match` were handed on as
                            written (d1da933; section 9, `unrepaired_literal_*`)
    aggregate_computed_raw  a datetime computed in a pipeline (`$dateFromParts`) was naive also for
                            a tz_aware=True client, whose stored datetimes the pipeline read aware:
                            comparing the two raised TypeError, and the result came out naive
                            (e05c961, with 8825a6b for the millisecond argument; section 9,
                            `unrepaired_computed_*`)
  Scope limits: PEP 495 fold, tzinfo that is not a fixed whole-minute offset, bson.Timestamp.
-/
import Proofs.C18
import Proofs.C18Filter
import Proofs.C18Provenance
import Proofs.C18Agg

namespace MongoModel.Props.C18
open MongoModel

/-! ## 1. `patch` is an idempotent projection onto the normal form -/

/-- Normalising twice is normalising once — so it does not matter how many of the call sites a
    value passes (filter and update are patched in `_update`, the upsert seed again in
    `_insert`, `$match` patches stored documents again). -/
theorem patch_idem (v : Val) : patch (patch v) = patch v :=
  Proofs.C18.patch_idem v

/-- Every datetime of the result, at any depth, is naive with whole milliseconds. -/
theorem patch_normal (v : Val) : AllDates Normal (patch v) :=
  Proofs.C18.patch_normal v

/-- A value that is already normal is left exactly as it is. -/
theorem patch_fixes_normal (v : Val) (h : AllDates Normal v) : patch v = v :=
  Proofs.C18.patch_fixes_normal v h

/-- non-vacuity: normal datetimes (one before 1970) two and three levels down -/
example : AllDates Normal
    (.doc [("a", .doc [("b", .arr [.date 1577836800123000 none, .int 1])]),
           ("c", .arr [.doc [("d", .date (-1000) none)]])]) :=
  (Proofs.C18.allNormalB_iff _).1 (by decide)

/-- The normal form is exactly the set of fixed points. -/
theorem patch_fixed_iff (v : Val) : patch v = v ↔ AllDates Normal v :=
  Proofs.C18.patch_fixed_iff v

/-! ## 2. `patch` identifies exactly the datetimes of one millisecond -/

/-- Two datetimes — naive or aware, any offsets, any microseconds, before or after 1970 — have
    the same stored form iff they denote the same millisecond (UTC). -/
theorem patch_instant (u : Int) (o : Option Int) (u' : Int) (o' : Option Int) :
    patch (.date u o) = patch (.date u' o') ↔ sameMillisecond (.date u o) (.date u' o') :=
  Proofs.C18.patch_instant u o u' o'

/-- non-vacuity: 05:30:00.123456+05:30 and 23:00:00.123999-01:00 (the day before) are the same
    millisecond; so are two instants before the epoch (floor, not truncation) -/
example : sameMillisecond (.date (1577856600123456) (some 330))
                          (.date (1577833200123999) (some (-60))) := by
  simp [sameMillisecond, msOf, dateUtc]
example : sameMillisecond (.date (-1) none) (.date (-999) none) ∧
          ¬ sameMillisecond (.date (-1) none) (.date 0 none) := by
  simp [sameMillisecond, msOf, dateUtc]

/-- The stored value denotes the millisecond of the input. -/
theorem patch_keeps_ms (u : Int) (o : Option Int) :
    sameMillisecond (patch (.date u o)) (.date u o) :=
  Proofs.C18.patch_keeps_ms u o

/-- The stored value is naive, a whole number of milliseconds, and is the UTC instant of the
    input rounded *down* by less than one millisecond. -/
theorem patch_date_bounds (u : Int) (o : Option Int) :
    ∃ m, patch (.date u o) = .date m none ∧ m % 1000 = 0 ∧
      m ≤ dateUtc u o ∧ dateUtc u o < m + 1000 :=
  Proofs.C18.patch_date_bounds u o

/-- Whole values: equal stored forms iff same shape and, position by position, same
    milliseconds. -/
theorem patch_eq_iff_sameMs (a b : Val) : patch a = patch b ↔ SameMs a b :=
  Proofs.C18.patch_eq_iff_sameMs a b

/-! ## 3. `patch` changes nothing but datetimes -/

/-- Same keys in the same order, same lengths, same non-date leaves at every depth. -/
theorem patch_shape (v : Val) : shape (patch v) = shape v :=
  Proofs.C18.shape_patch v

/-- The datetimes of the result are the normalised datetimes of the input, in position. -/
theorem patch_dates (v : Val) :
    datesOf (patch v) = (datesOf v).map (fun d => (floorMs (dateUtc d.1 d.2), none)) :=
  Proofs.C18.datesOf_patch v

/-- `shape` and `datesOf` together determine a value, so the two theorems above describe `patch`
    completely. -/
theorem shape_dates_determine (a b : Val) (hs : shape a = shape b) (hd : datesOf a = datesOf b) :
    a = b :=
  Proofs.C18.eq_of_shape_dates a b hs hd

example : shape (.doc [("a", .date 5 none), ("b", .int 1)])
            = shape (.doc [("a", .date 5 none), ("b", .int 1)]) ∧
          datesOf (.doc [("a", .date 5 none), ("b", .int 1)])
            = datesOf (.doc [("a", .date 5 none), ("b", .int 1)]) := ⟨rfl, rfl⟩

theorem patch_keys (fs : Fields) : dkeys (patchFields fs) = dkeys fs :=
  Proofs.C18.dkeys_patchFields fs

theorem patch_length (xs : List Val) : (patchList xs).length = xs.length :=
  Proofs.C18.length_patchList xs

theorem patch_field (k : String) (fs : Fields) :
    dget k (patchFields fs) = (dget k fs).map patch :=
  Proofs.C18.dget_patchFields k fs

theorem patch_item (xs : List Val) (i : Nat) : (patchList xs)[i]? = (xs[i]?).map patch :=
  Proofs.C18.getElem?_patchList xs i

theorem patch_leaf (v : Val) (hd : v.isDate = false) (hdoc : v.isDoc = false)
    (harr : v.isArr = false) : patch v = v :=
  Proofs.C18.patch_leaf v hd hdoc harr

example : (Val.str "2020-01-01").isDate = false ∧ (Val.str "2020-01-01").isDoc = false ∧
    (Val.str "2020-01-01").isArr = false := ⟨rfl, rfl, rfl⟩

/-- At the end of every path (`get_value_by_dot`: keys and array indexes, any depth) sits the
    normalised form of what sat there before; paths that do not exist still do not. -/
theorem patch_depth_commutes (ps : List String) (v : Val) :
    getByDotParts ps (patch v) = (getByDotParts ps v).map patch :=
  Proofs.C18.getByDotParts_patch ps v

theorem patch_depth (ps : List String) (v : Val) (u : Int) (o : Option Int)
    (h : getByDotParts ps v = .ok (.date u o)) :
    getByDotParts ps (patch v) = .ok (.date (floorMs (dateUtc u o)) none) :=
  Proofs.C18.patch_depth ps v u o h

example : getByDotParts ["a", "1", "b"]
    (.doc [("a", .arr [.null, .doc [("b", .date 1577856600123456 (some 330))]])])
    = .ok (.date 1577856600123456 (some 330)) := by
  simp [getByDotParts, dget, pyInt?]

/-! ## 4. reads: `tz_aware=True` -/

/-- Every datetime of the result, at any depth, is aware with offset 0. -/
theorem makeAware_utc (v : Val) : AllDates AwareUtc (makeAware v) :=
  Proofs.C18.makeAware_utc v

/-- Nothing but datetimes changes. -/
theorem makeAware_shape (v : Val) : shape (makeAware v) = shape v :=
  Proofs.C18.shape_makeAware v

/-- Wall clocks are kept, position by position … -/
theorem makeAware_dates (v : Val) : datesOf (makeAware v) = (datesOf v).map (fun d => (d.1, some 0)) :=
  Proofs.C18.datesOf_makeAware v

/-- … so for stored (naive) values every datetime keeps its UTC instant. -/
theorem makeAware_same_instant (v : Val) (h : AllDates Naive v) :
    (datesOf (makeAware v)).map (fun d => dateUtc d.1 d.2)
      = (datesOf v).map (fun d => dateUtc d.1 d.2) :=
  Proofs.C18.makeAware_same_instant v h

example : AllDates Naive (.doc [("a", .arr [.doc [("b", .date 1577836800123000 none)]])]) := by
  simp [AllDates, AllDatesF, AllDatesL, Naive]

/-- At every depth: the same statement through path access. -/
theorem makeAware_depth (ps : List String) (v : Val) (u : Int) (o : Option Int)
    (h : getByDotParts ps v = .ok (.date u o)) :
    getByDotParts ps (makeAware v) = .ok (.date u (some 0)) :=
  Proofs.C18.makeAware_depth ps v u o h

example : getByDotParts ["a", "0", "b"]
    (.doc [("a", .arr [.doc [("b", .date 1577836800123000 none)]])])
    = .ok (.date 1577836800123000 none) := by
  simp [getByDotParts, dget, pyInt?]

theorem makeAware_depth_commutes (ps : List String) (v : Val) :
    getByDotParts ps (makeAware v) = (getByDotParts ps v).map makeAware :=
  Proofs.C18.getByDotParts_makeAware ps v

/-- Writing back what a `tz_aware` client read stores the same document again. -/
theorem patch_makeAware_roundtrip (v : Val) (h : AllDates Normal v) : patch (makeAware v) = v :=
  Proofs.C18.patch_makeAware v h

example : AllDates Normal (.doc [("a", .arr [.doc [("b", .date 1577836800123000 none)]])]) :=
  (Proofs.C18.allNormalB_iff _).1 (by decide)

/-! ## 5. equivalent operands give the same query -/

/-- A query `{k: a}` and a query `{k: b}` with `b` denoting the same millisecond are the same
    query after normalisation, so they select the same documents (and raise on the same). -/
theorem equivalent_operand_finds (k : String) (a b d : Val) (h : sameMillisecond a b) :
    filterApplies (patch (.doc [(k, a)])) d = filterApplies (patch (.doc [(k, b)])) d :=
  Proofs.C18.equivalent_operand_finds k a b d h

/-- The datetime may sit anywhere in the filter: under `$gt`, in an `$in` list, in an
    `$elemMatch`, in `$and` / `$or` branches, in an embedded-document operand. -/
theorem equivalent_filter_finds (f g d : Val) (h : SameMs f g) :
    filterApplies (patch f) d = filterApplies (patch g) d :=
  Proofs.C18.equivalent_filter_finds f g d h

/-- non-vacuity: the same millisecond written two ways, three levels inside a filter -/
example : SameMs
    (.doc [("$or", .arr [.doc [("a.b", .doc [("$in", .arr [.date 1577856600123456 (some 330), .null])])]])])
    (.doc [("$or", .arr [.doc [("a.b", .doc [("$in", .arr [.date 1577836800123000 none, .null])])]])]) :=
  (patch_eq_iff_sameMs _ _).1 (by simp [patch, patchFields, patchList, floorMs, dateUtc])

/-- The `$match` stage (both sides patched). -/
theorem equivalent_match_stage (f g d : Val) (h : SameMs f g) :
    filterApplies (patch f) (patch d) = filterApplies (patch g) (patch d) :=
  Proofs.C18.equivalent_match_stage f g d h

/-- Found or not: a document whose field `k` (a plain field path reaching exactly one value)
    holds the stored form of `a` is selected by `{k: b}` exactly when `b` denotes the same
    millisecond as `a`. -/
theorem found_iff_same_millisecond (k : String) (u : Int) (o : Option Int) (u' : Int)
    (o' : Option Int) (d : Val) (hk : Proofs.C18.plainKey k = true)
    (hc : candsKey k d = .ok [some (patch (.date u o))]) :
    filterApplies (patch (.doc [(k, .date u' o')])) d = .ok (msOf u o == msOf u' o') :=
  Proofs.C18.found_iff_same_millisecond k u o u' o' d hk hc

example : Proofs.C18.plainKey "a.b" = true := by decide +kernel
example : candsKey "a.b" (.doc [("a", .doc [("b", patch (.date 1577856600123456 (some 330)))])])
    = .ok [some (patch (.date 1577856600123456 (some 330)))] := by
  simp [candsKey, splitDots, splitDotsChars, cands, dget, patch]

/-! ## 6. provenance: where a stored datetime can come from

`P` is any predicate on datetimes (`Normal` for the store invariant, `AwareUtc` for what a
`tz_aware` reader hands out).  Building blocks either preserve `AllDates P` or inherit it. -/

section provenance
variable {P : DatePred}

theorem provenance_dset {k : String} {v : Val} {fs : Fields} (h : AllDates P (.doc fs))
    (hv : AllDates P v) : AllDates P (.doc (dset k v fs)) :=
  Proofs.C18.allDates_dset h hv

theorem provenance_derase {k : String} {fs : Fields} (h : AllDates P (.doc fs)) :
    AllDates P (.doc (derase k fs)) :=
  Proofs.C18.allDates_derase h

theorem provenance_dget {k : String} {fs : Fields} {v : Val} (h : AllDates P (.doc fs))
    (hg : dget k fs = some v) : AllDates P v :=
  Proofs.C18.allDates_dget h hg

theorem provenance_rename {src dst : String} {fs : Fields} {v : Val} (h : AllDates P (.doc fs))
    (hg : dget src fs = some v) : AllDates P (.doc (dset dst v (derase src fs))) :=
  Proofs.C18.allDates_rename h hg

theorem provenance_append {xs ys : List Val} (h : AllDates P (.arr xs)) (hy : AllDates P (.arr ys)) :
    AllDates P (.arr (xs ++ ys)) :=
  Proofs.C18.allDates_arr_of
    (Proofs.C18.allDatesL_append (Proofs.C18.allDatesL_of_arr h) (Proofs.C18.allDatesL_of_arr hy))

theorem provenance_push {xs : List Val} {v : Val} (h : AllDates P (.arr xs)) (hv : AllDates P v) :
    AllDates P (.arr (xs ++ [v])) :=
  Proofs.C18.allDates_arr_of (Proofs.C18.allDatesL_concat (Proofs.C18.allDatesL_of_arr h) hv)

theorem provenance_insert_at {xs each : List Val} (p : Nat) (h : AllDates P (.arr xs))
    (he : AllDates P (.arr each)) : AllDates P (.arr (xs.take p ++ each ++ xs.drop p)) :=
  Proofs.C18.allDates_arr_of
    (Proofs.C18.allDatesL_insert_at p (Proofs.C18.allDatesL_of_arr h) (Proofs.C18.allDatesL_of_arr he))

theorem provenance_take {xs : List Val} (n : Nat) (h : AllDates P (.arr xs)) :
    AllDates P (.arr (xs.take n)) :=
  Proofs.C18.allDates_arr_of (Proofs.C18.allDatesL_take n (Proofs.C18.allDatesL_of_arr h))

theorem provenance_drop {xs : List Val} (n : Nat) (h : AllDates P (.arr xs)) :
    AllDates P (.arr (xs.drop n)) :=
  Proofs.C18.allDates_arr_of (Proofs.C18.allDatesL_drop n (Proofs.C18.allDatesL_of_arr h))

theorem provenance_filter {xs : List Val} (p : Val → Bool) (h : AllDates P (.arr xs)) :
    AllDates P (.arr (xs.filter p)) :=
  Proofs.C18.allDates_arr_of (Proofs.C18.allDatesL_filter p (Proofs.C18.allDatesL_of_arr h))

theorem provenance_rearranged {xs ys : List Val} (hp : xs.Perm ys) (h : AllDates P (.arr xs)) :
    AllDates P (.arr ys) :=
  Proofs.C18.allDates_arr_of (Proofs.C18.allDatesL_perm hp (Proofs.C18.allDatesL_of_arr h))

theorem provenance_set_at {xs : List Val} {v : Val} (i : Nat) (h : AllDates P (.arr xs))
    (hv : AllDates P v) : AllDates P (.arr (xs.set i v)) :=
  Proofs.C18.allDates_arr_of (Proofs.C18.allDatesL_set i (Proofs.C18.allDatesL_of_arr h) hv)

theorem provenance_pad_set {xs : List Val} {v : Val} (n : Nat) (h : AllDates P (.arr xs))
    (hv : AllDates P v) : AllDates P (.arr (xs ++ List.replicate n .null ++ [v])) :=
  Proofs.C18.allDates_arr_of (Proofs.C18.allDatesL_pad_set n (Proofs.C18.allDatesL_of_arr h) hv)

theorem provenance_item {xs : List Val} {i : Nat} {x : Val} (h : AllDates P (.arr xs))
    (hx : xs[i]? = some x) : AllDates P x :=
  Proofs.C18.allDatesL_getElem? (Proofs.C18.allDatesL_of_arr h) hx

/-- the general form: a list all of whose items come from a good list or are good -/
theorem provenance_from_members {xs ys : List Val} (h : AllDates P (.arr xs))
    (hy : ∀ y ∈ ys, y ∈ xs ∨ AllDates P y) : AllDates P (.arr ys) :=
  Proofs.C18.allDates_arr_of (Proofs.C18.allDatesL_of_subset (Proofs.C18.allDatesL_of_arr h) hy)

/-- whatever a dotted path reaches inside a good value is good -/
theorem provenance_path (ps : List String) (d x : Val) (h : AllDates P d)
    (hx : getByDotParts ps d = .ok x) : AllDates P x :=
  Proofs.C18.allDates_getByDotParts ps d x h hx

/-- a worked composition: a generic dotted-path writer (documents created, arrays padded with
    nulls) keeps `AllDates P` — the shape of every per-operator proof -/
theorem provenance_write_at (ps : List String) (v d : Val) (hv : AllDates P v) (hd : AllDates P d) :
    AllDates P (Proofs.C18.writeAt ps v d) :=
  Proofs.C18.allDates_writeAt ps v d hv hd

end provenance

/-- non-vacuity for the provenance hypotheses (`P := Normal`): a stored document, a patched
    operand, and the path writer descending through a document, into an array past its end -/
example : AllDates Normal (.doc [("a", .arr [.date 1577836800123000 none])]) ∧
    AllDates Normal (patch (.date 1577856600123456 (some 330))) ∧
    Proofs.C18.writeAt ["a", "2", "b"] (patch (.date 1577856600123456 (some 330)))
        (.doc [("a", .arr [.date 1577836800123000 none])])
      = .doc [("a", .arr [.date 1577836800123000 none, .null,
                          .doc [("b", .date 1577836800123000 none)]])] := by
  exact ⟨(Proofs.C18.allNormalB_iff _).1 (by decide), patch_normal _, rfl⟩

/-! ## 7. the store invariant, pluggable -/

/-- insert / upsert: the stored document is the patched argument. -/
theorem date_inv_insert {s : List Val} (d : Val) (h : DateInv s) : DateInv (s ++ [patch d]) :=
  Proofs.C18.dateInv_insert d h

/-- update / replace: a position receives a document proved good by the provenance lemmas. -/
theorem date_inv_set {s : List Val} (i : Nat) {d : Val} (h : DateInv s) (hd : AllDates Normal d) :
    DateInv (s.set i d) :=
  Proofs.C18.dateInv_set i h hd

/-- delete. -/
theorem date_inv_filter {s : List Val} (p : Val → Bool) (h : DateInv s) : DateInv (s.filter p) :=
  Proofs.C18.dateInv_filter p h

/-- A store that satisfies the invariant is a fixed point of normalisation (what `$match` relies
    on when it patches stored documents again). -/
theorem date_inv_patch_id {s : List Val} (h : DateInv s) : s.map patch = s :=
  Proofs.C18.dateInv_patch_id h

example : DateInv [.doc [("_id", .int 1), ("a", .arr [.date 1577836800123000 none])]] := by
  intro d hd
  simp only [List.mem_singleton] at hd
  subst hd
  exact (Proofs.C18.allNormalB_iff _).1 (by decide)

/-- Reads with `tz_aware=False` hand out stored documents as they are: every datetime naive. -/
theorem reads_naive {s : List Val} (h : DateInv s) {d : Val} (hd : d ∈ s) : AllDates Naive d :=
  Proofs.C18.allDates_mono (fun _ _ hn => hn.1) d (h d hd)

/-- Reads with `tz_aware=True` (`makeAware` of a stored document): aware UTC at every depth, and
    nothing is lost — normalising the result gives the stored document back. -/
theorem reads_aware_everywhere {s : List Val} (h : DateInv s) {d : Val} (hd : d ∈ s) :
    AllDates AwareUtc (makeAware d) ∧ patch (makeAware d) = d :=
  ⟨Proofs.C18.makeAware_utc d, Proofs.C18.patch_makeAware d (h d hd)⟩

/-- **The plug.** For any state machine (`docs` projects the stored documents out of its
    state): if every step preserves the invariant, every reachable state satisfies it. -/
theorem reachable_date_inv {σ Op : Type} (docs : σ → List Val) (step : σ → Op → σ)
    (hstep : ∀ s op, DateInv (docs s) → DateInv (docs (step s op)))
    (ops : List Op) (s : σ) (h : DateInv (docs s)) : DateInv (docs (ops.foldl step s)) :=
  Proofs.C18.dateInv_foldl docs step hstep ops s h

/-- non-vacuity of `hstep`: the machine whose operations are "insert this document" and
    "write this operand at this path of document i" -/
example : ∀ (s : List Val) (op : Val ⊕ (Nat × List String × Val)), DateInv s →
    DateInv (match op with
      | .inl d => s ++ [patch d]
      | .inr (i, ps, v) => s.set i (Proofs.C18.writeAt ps (patch v) (s[i]?.getD .null))) := by
  intro s op h
  cases op with
  | inl d => exact date_inv_insert d h
  | inr t =>
    obtain ⟨i, ps, v⟩ := t
    refine date_inv_set i h (Proofs.C18.writeAt_patched_normal ps v _ ?_)
    cases hx : s[i]? with
    | none => simp [AllDates]
    | some x => exact h x (List.mem_of_getElem? hx)

/-! ## 8. the clock of `$currentDate`

`_current_date_updater` stores `patch (mongomock.utcnow())` (repair 78a8043; MongoModel/Store.lean
`nowV`), so whatever the clock returns the stored value is normal. -/

theorem patched_clock_normal (us : Int) (off : Option Int) :
    AllDates Normal (patch (.date us off)) :=
  Proofs.C18.now_normal us off

/-- A clock value stored as it comes would be normal exactly when it happens to be naive with
    whole milliseconds … -/
theorem raw_clock_normal_iff (us : Int) (off : Option Int) :
    AllDates Normal (.date us off) ↔ off = none ∧ us % 1000 = 0 :=
  Proofs.C18.raw_now_normal_iff us off

/-- … which is what the code before the repair relied on: 2020-01-01T00:00:00.123456 kept its
    microseconds (the witness of the fixed finding `currentdate_raw`, replayed on the real code by
    every check). -/
theorem unrepaired_raw_clock_not_normal : ¬ AllDates Normal (.date 1577836800123456 none) := by
  simp [AllDates, Normal]

/-! ## 9. the aggregation pipeline: datetimes written in it, read by it, computed by it

`Collection.aggregate` (repairs d1da933, e05c961): `pipeline = patch pipeline` (`aggPipeline`); the
input is the documents as stored (`aggInput`), the documents `$lookup` / `$graphLookup` fetch are
patched: so every datetime inside `process_pipeline` is naive — stored, fetched, written, or
computed (`$dateFromParts`, `$add` of a date); the client's `tz_aware` acts on the results only
(`aggResult tz` = `makeAware` of every result document under `tz_aware=True`).  The statements on
`aggPipeline` hold for the whole pipeline value, so for a datetime at every position in it:
`$addFields` / `$project` / `$literal` values, `$group` keys and accumulator arguments, `$bucket`
boundaries, `$facet` sub-pipelines, `$replaceRoot`, operands of expression operators, `$match`,
before `$out`. -/

/-- A written datetime meets the stored ones in their own form. -/
theorem pipeline_literal_as_stored (p : Val) : aggPipeline p = aggInput (patch p) :=
  Proofs.C18.aggPipeline_eq_stored p

/-- Every datetime of the prepared pipeline, at any depth, is naive with whole milliseconds —
    for every client. -/
theorem pipeline_literals_normal (p : Val) : AllDates Normal (aggPipeline p) :=
  Proofs.C18.aggPipeline_normal p

/-- Nothing but datetimes changes in the pipeline … -/
theorem literal_shape (p : Val) : shape (aggPipeline p) = shape p :=
  Proofs.C18.shape_aggPipeline p

/-- … and each becomes the millisecond floor of the instant written, position by position. -/
theorem literal_dates (p : Val) :
    datesOf (aggPipeline p) = (datesOf p).map (fun d => (floorMs (dateUtc d.1 d.2), none)) :=
  Proofs.C18.datesOf_aggPipeline p

/-- At every depth: through any path into the pipeline value. -/
theorem literal_depth (ps : List String) (p : Val) (u : Int) (o : Option Int)
    (h : getByDotParts ps p = .ok (.date u o)) :
    getByDotParts ps (aggPipeline p) = .ok (.date (floorMs (dateUtc u o)) none) :=
  Proofs.C18.aggPipeline_depth ps p u o h

/-- non-vacuity: a literal below `$addFields` / `$literal` inside a `$facet` sub-pipeline -/
example : getByDotParts ["0", "$facet", "x", "0", "$addFields", "l", "$literal", "a", "1"]
    (.arr [.doc [("$facet", .doc [("x", .arr [.doc [("$addFields", .doc [("l", .doc [("$literal",
      .doc [("a", .arr [.null, .date 1577856600123456 (some 330)])])])])]])])]])
    = .ok (.date 1577856600123456 (some 330)) := by
  simp [getByDotParts, dget, pyInt?]

theorem literal_depth_commutes (ps : List String) (p : Val) :
    getByDotParts ps (aggPipeline p) = (getByDotParts ps p).map aggPipeline :=
  Proofs.C18.getByDotParts_aggPipeline ps p

/-- What `$out` stores (it inserts, so it normalises) and what `$match` queries with (it patches
    its filter) is the prepared pipeline itself. -/
theorem literal_stored_like_inserted (p : Val) : patch (aggPipeline p) = patch p :=
  Proofs.C18.patch_aggPipeline p

/-- Preparing twice is preparing once (a result fed into the next pipeline). -/
theorem pipeline_prepare_idem (p : Val) : aggPipeline (aggPipeline p) = aggPipeline p :=
  Proofs.C18.aggPipeline_idem p

/-- `patch_eq_iff_sameMs` for pipelines: prepared alike iff same shape and same milliseconds. -/
theorem pipeline_eq_iff_sameMs (p q : Val) : aggPipeline p = aggPipeline q ↔ SameMs p q :=
  Proofs.C18.aggPipeline_eq_iff_sameMs p q

/-! ### the results: what the caller reads -/

/-- `reads_aware_everywhere` for aggregation results, with no hypothesis at all: under
    `tz_aware=True` every datetime of a result, at any depth, is aware UTC — whether the pipeline
    read it, fetched it, was given it or computed it. -/
theorem reads_aware_results (r : Val) : AllDates AwareUtc (aggResult true r) :=
  Proofs.C18.aggResult_aware r

/-- `reads_naive` for aggregation results: a `tz_aware=False` client gets the values as the
    pipeline has them — naive, since everything inside it is. -/
theorem reads_naive_results (r : Val) (h : AllDates Naive r) : AllDates Naive (aggResult false r) :=
  h

example : AllDates Naive (.doc [("_id", .date 1577836800123000 none)]) := by
  simp [AllDates, AllDatesF, Naive]

/-- Both settings at once, with the whole-millisecond part: stored documents as `find` hands them
    out … -/
theorem reads_form (tz : Bool) {s : List Val} (h : DateInv s) {d : Val} (hd : d ∈ s) :
    AllDates (ReadForm tz) (readDoc tz d) :=
  Proofs.C18.readDoc_form tz d (h d hd)

example : DateInv [.doc [("a", .arr [.doc [("b", .date 1577836800123000 none)]])]] ∧
    readDoc true (.doc [("a", .arr [.doc [("b", .date 1577836800123000 none)]])])
      = .doc [("a", .arr [.doc [("b", .date 1577836800123000 (some 0))]])] := by
  refine ⟨?_, rfl⟩
  intro d hd
  simp only [List.mem_singleton] at hd
  subst hd
  exact (Proofs.C18.allNormalB_iff _).1 (by decide)

/-- … and any value of an aggregation result whose datetimes are normal — stored ones passed on,
    written ones, fetched ones, and computed ones with whole milliseconds — have one and the same
    form … -/
theorem result_form (tz : Bool) (r : Val) (h : AllDates Normal r) :
    AllDates (ReadForm tz) (aggResult tz r) :=
  Proofs.C18.aggResult_form tz r h

/-- non-vacuity: a `$group` document whose `_id` was computed and which collected a stored value -/
example : AllDates Normal (.doc [("_id", .date 1577836800123000 none),
    ("p", .arr [.doc [("f", .date (-1000) none)]])]) :=
  (Proofs.C18.allNormalB_iff _).1 (by decide)

/-- … with nothing lost: normalising what the caller got gives the value the pipeline computed. -/
theorem result_roundtrip (tz : Bool) (r : Val) (h : AllDates Normal r) :
    patch (aggResult tz r) = r :=
  Proofs.C18.patch_aggResult tz r h

example : AllDates Normal (.arr [.date 0 none]) := (Proofs.C18.allNormalB_iff _).1 (by decide)

/-- In particular a written datetime that the pipeline passes on comes out as a stored copy of it
    is read by this client. -/
theorem literal_form (tz : Bool) (p : Val) :
    aggResult tz (aggPipeline p) = readDoc tz (patch p) ∧
    AllDates (ReadForm tz) (aggResult tz (aggPipeline p)) :=
  ⟨rfl, Proofs.C18.aggResult_aggPipeline_form tz p⟩

/-- Nothing but datetimes changes in a result, … -/
theorem result_shape (tz : Bool) (r : Val) : shape (aggResult tz r) = shape r :=
  Proofs.C18.shape_aggResult tz r

/-- … every naive datetime keeps its wall clock (aware UTC under `tz_aware=True`), … -/
theorem result_dates (tz : Bool) (r : Val) (h : AllDates Naive r) :
    datesOf (aggResult tz r) = (datesOf r).map (fun d => (d.1, if tz then some 0 else none)) :=
  Proofs.C18.datesOf_aggResult tz r h

/-- … so its instant, … -/
theorem result_same_instant (tz : Bool) (r : Val) (h : AllDates Naive r) :
    (datesOf (aggResult tz r)).map (fun d => dateUtc d.1 d.2)
      = (datesOf r).map (fun d => dateUtc d.1 d.2) :=
  Proofs.C18.aggResult_same_instant tz r h

example : AllDates Naive (.doc [("x", .arr [.date 1577836800000123 none])]) := by
  simp [AllDates, AllDatesF, AllDatesL, Naive]

/-- … at every depth (`$group` ids, `$facet` branches, pushed arrays). -/
theorem result_depth (tz : Bool) (ps : List String) (r : Val) (u : Int)
    (h : getByDotParts ps r = .ok (.date u none)) :
    getByDotParts ps (aggResult tz r) = .ok (.date u (if tz then some 0 else none)) :=
  Proofs.C18.aggResult_depth tz ps r u h

example : getByDotParts ["x", "0", "_id", "d"]
    (.doc [("x", .arr [.doc [("_id", .doc [("d", .date 1577836800123000 none)])]])])
    = .ok (.date 1577836800123000 none) := by
  simp [getByDotParts, dget, pyInt?]

/-! ### `Collection.aggregate` as a whole (`aggregateTz`: prepare the pipeline, run
`process_pipeline` of MongoModel/Pipeline.lean over the stored collections, convert the results) -/

/-- **`tz_aware` acts on the form of the results and on nothing else.** The aggregation of a
    `tz_aware=True` client fails exactly when the other client's does, and otherwise is
    `makeAware` of it, document by document: the same documents selected, grouped and joined, the
    same values compared and computed. -/
theorem aggregate_tz_only_rebuilds_results (db : Pipe.Db) (coll : String) (p : Val) :
    Proofs.C18.aggregateTz true db coll p
      = (Proofs.C18.aggregateTz false db coll p).map (List.map makeAware) :=
  Proofs.C18.aggregateTz_true db coll p

theorem aggregate_naive_client (db : Pipe.Db) (coll : String) (p : Val) :
    Proofs.C18.aggregateTz false db coll p = Pipe.aggregate db coll (patch p) :=
  Proofs.C18.aggregateTz_false db coll p

/-- Every datetime a `tz_aware=True` client finds in the results of any aggregation is aware
    UTC. -/
theorem aggregate_results_aware (db : Pipe.Db) (coll : String) (p : Val) (rs : List Val)
    (h : Proofs.C18.aggregateTz true db coll p = .ok rs) : ∀ r ∈ rs, AllDates AwareUtc r :=
  Proofs.C18.aggregateTz_true_aware db coll p rs h

/-- non-vacuity: the stored document read through the empty pipeline -/
example : Proofs.C18.aggregateTz true
    ⟨[("c", [.doc [("_id", .int 1), ("f", .date 1577836800123000 none)]])]⟩ "c" (.arr [])
    = .ok [.doc [("_id", .int 1), ("f", .date 1577836800123000 (some 0))]] := by
  rfl

/-- Results whose datetimes the pipeline left or made normal reach either client in its read
    form. -/
theorem aggregate_results_form (tz : Bool) (db : Pipe.Db) (coll : String) (p : Val)
    (xs : List Val) (h : Pipe.aggregate db coll (aggPipeline p) = .ok xs)
    (hn : ∀ x ∈ xs, AllDates Normal x) :
    ∃ rs, Proofs.C18.aggregateTz tz db coll p = .ok rs ∧ ∀ r ∈ rs, AllDates (ReadForm tz) r :=
  Proofs.C18.aggregateTz_form tz db coll p xs h hn

/-- `equivalent_operand_finds` for the aggregate-literal positions: whatever stage the datetime
    is written in and however deep, writing it in another way that denotes the same millisecond
    gives the same aggregation. -/
theorem equivalent_pipeline_aggregates (tz : Bool) (db : Pipe.Db) (coll : String) (p q : Val)
    (h : SameMs p q) :
    Proofs.C18.aggregateTz tz db coll p = Proofs.C18.aggregateTz tz db coll q :=
  Proofs.C18.equivalent_pipeline_aggregates tz db coll p q h

/-- non-vacuity: the same millisecond written two ways as a `$group` key -/
example : SameMs
    (.arr [.doc [("$group", .doc [("_id", .doc [("d", .date 1577856600123456 (some 330))])])]])
    (.arr [.doc [("$group", .doc [("_id", .doc [("d", .date 1577836800123000 none)])])]]) :=
  (patch_eq_iff_sameMs _ _).1 (by simp [patch, patchFields, patchList, floorMs, dateUtc])

/-- The same for anything at all that is computed from the prepared pipeline. -/
theorem equivalent_pipeline_any {α : Type} (run : Val → α) (p q : Val)
    (h : SameMs p q) : run (aggPipeline p) = run (aggPipeline q) :=
  Proofs.C18.equivalent_pipeline_any run p q h

example : SameMs (.arr [.doc [("$out", .str "c")], .date (-1) none])
                 (.arr [.doc [("$out", .str "c")], .date (-1000) (some 0)]) :=
  (patch_eq_iff_sameMs _ _).1 (by simp [patch, patchFields, patchList, floorMs, dateUtc])

/-! ### comparisons inside the pipeline -/

/-- **Any two datetimes the pipeline can meet.**  They are naive, and an expression operator
    compares two naive datetimes without error, by their instants — whichever of them was
    stored, fetched, written or computed. -/
theorem compare_naive_dates (op : String) (hop : op ∈ Proofs.C18.dateCmpOps) (x y : Int) :
    Expr.compareOp op (.date x none) (.date y none) = .ok (.bool (Proofs.C18.cmpMs op x y)) :=
  Proofs.C18.compare_naive_dates op hop x y

example : "$lt" ∈ Proofs.C18.dateCmpOps := by decide

/-- **A stored field against a written datetime.**  `{op: ['$f', b]}` where `f` holds the stored
    form of `a`: the comparison of the two milliseconds — no error, and (the statement has no
    `tz`) one answer for every client. -/
theorem compare_field_with_literal (op : String) (hop : op ∈ Proofs.C18.dateCmpOps)
    (u : Int) (o : Option Int) (u' : Int) (o' : Option Int) :
    Expr.compareOp op (aggInput (patch (.date u o))) (aggPipeline (.date u' o'))
      = .ok (.bool (Proofs.C18.cmpMs op (msOf u o) (msOf u' o'))) :=
  Proofs.C18.compare_field_with_literal op hop u o u' o'

example : "$gte" ∈ Proofs.C18.dateCmpOps := by decide

/-- The written datetime on the left: `{op: [b, '$f']}`. -/
theorem compare_literal_with_field (op : String) (hop : op ∈ Proofs.C18.dateCmpOps)
    (u : Int) (o : Option Int) (u' : Int) (o' : Option Int) :
    Expr.compareOp op (aggPipeline (.date u' o')) (aggInput (patch (.date u o)))
      = .ok (.bool (Proofs.C18.cmpMs op (msOf u' o') (msOf u o))) :=
  Proofs.C18.compare_literal_with_field op hop u o u' o'

example : "$ne" ∈ Proofs.C18.dateCmpOps := by decide

/-- **A stored field against a computed datetime** (`$dateFromParts`, `$add` of a date and a
    number: naive, `m` µs after the epoch): no error, the stored instant against `m` … -/
theorem compare_field_with_computed (op : String) (hop : op ∈ Proofs.C18.dateCmpOps)
    (u : Int) (o : Option Int) (m : Int) :
    Expr.compareOp op (aggInput (patch (.date u o))) (.date m none)
      = .ok (.bool (Proofs.C18.cmpMs op (floorMs (dateUtc u o)) m)) :=
  Proofs.C18.compare_field_with_computed op hop u o m

example : "$lte" ∈ Proofs.C18.dateCmpOps := by decide

/-- … which for a computed datetime of whole milliseconds is the comparison of milliseconds. -/
theorem compare_field_with_computed_ms (op : String) (hop : op ∈ Proofs.C18.dateCmpOps)
    (u : Int) (o : Option Int) (ms : Int) :
    Expr.compareOp op (aggInput (patch (.date u o))) (.date (ms * 1000) none)
      = .ok (.bool (Proofs.C18.cmpMs op (msOf u o) ms)) :=
  Proofs.C18.compare_field_with_computed_ms op hop u o ms

example : "$gt" ∈ Proofs.C18.dateCmpOps := by decide

/-- A written datetime against a computed one. -/
theorem compare_literal_with_computed (op : String) (hop : op ∈ Proofs.C18.dateCmpOps)
    (u : Int) (o : Option Int) (m : Int) :
    Expr.compareOp op (aggPipeline (.date u o)) (.date m none)
      = .ok (.bool (Proofs.C18.cmpMs op (floorMs (dateUtc u o)) m)) :=
  Proofs.C18.compare_literal_with_computed op hop u o m

example : "$eq" ∈ Proofs.C18.dateCmpOps := by decide

/-- In particular `$eq` says "same millisecond". -/
theorem eq_field_with_literal_iff (u : Int) (o : Option Int) (u' : Int) (o' : Option Int) :
    Expr.compareOp "$eq" (aggInput (patch (.date u o))) (aggPipeline (.date u' o'))
      = .ok (.bool true) ↔ sameMillisecond (.date u o) (.date u' o') := by
  rw [compare_field_with_literal "$eq" (by decide)]
  simp [Proofs.C18.cmpMs, sameMillisecond]

/-- Equivalent written datetimes compare alike against any value. -/
theorem equivalent_literal_compares (op : String) (x a b : Val) (h : sameMillisecond a b) :
    Expr.compareOp op x (aggPipeline a) = Expr.compareOp op x (aggPipeline b) :=
  Proofs.C18.compare_equivalent_literals op x a b h

example : sameMillisecond (.date (1577856600123456) (some 330)) (.date 1577836800123999 none) := by
  simp [sameMillisecond, msOf, dateUtc]

/-- **`$match` inside `aggregate`.**  On the stored documents — the input of the pipeline for
    every client — the stage selects what `find` selects with the filter as written (and raises on
    the same). -/
theorem match_stage_eq_find (f : Val) (docs : List Val) (h : DateInv docs) :
    Pipe.matchStage (aggPipeline f) docs = Pipe.findDocs f docs :=
  Proofs.C18.matchStage_eq_find f docs h

example : DateInv [.doc [("_id", .int 1), ("f", .date 1577836800123000 none)]] := by
  intro d hd
  simp only [List.mem_singleton] at hd
  subst hd
  exact (Proofs.C18.allNormalB_iff _).1 (by decide)

/-! ### before the repair d1da933 (witness of the fixed finding `aggregate_literal_raw`)

`aggPipelineUnrepaired tz p = p`: the pipeline went on as written; the input was read through
`find()` (`aggInputUnrepaired tz = readDoc tz`). -/

/-- The literal of the recorded witness has neither read form … -/
theorem unrepaired_literal_form (tz : Bool) :
    ¬ AllDates (ReadForm tz) (aggPipelineUnrepaired tz (.date 1577856600123456 (some 330))) :=
  Proofs.C18.unrepaired_literal_form tz

/-- … under `tz_aware=True` a naive literal could not be compared with a field at all … -/
theorem unrepaired_literal_compare_raises :
    Expr.compareOp "$gt" (aggInputUnrepaired true (patch (.date 1577836800123000 none)))
        (aggPipelineUnrepaired true (.date 1577836800123999 none)) = .error .typeErr :=
  Proofs.C18.unrepaired_compare_raises

/-- … and under `tz_aware=False` `$eq` answered "different" for the very datetime stored. -/
theorem unrepaired_literal_eq_wrong :
    Expr.compareOp "$eq" (aggInputUnrepaired false (patch (.date 1577856600123456 (some 330))))
        (aggPipelineUnrepaired false (.date 1577856600123456 (some 330))) = .ok (.bool false) :=
  Proofs.C18.unrepaired_eq_wrong

/-! ### before the repair e05c961 (witness of the fixed finding `aggregate_computed_raw`)

The input was still read through `find()`, the results were handed out as computed
(`aggResultUnrepaired tz r = r`). -/

/-- Under `tz_aware=True` the datetime `$dateFromParts` computes for {year: 2020, millisecond: 123}
    could not be compared with the stored 2021-01-01 … -/
theorem unrepaired_computed_compare_raises :
    Expr.compareOp "$lt" (.date 1577836800123000 none)
        (aggInputUnrepaired true (patch (.date 1609459200000000 none))) = .error .typeErr :=
  Proofs.C18.unrepaired_computed_compare_raises

/-- … and reached that client naive. -/
theorem unrepaired_computed_form :
    ¬ AllDates (ReadForm true) (aggResultUnrepaired true (.date 1577836800123000 none)) :=
  Proofs.C18.unrepaired_computed_form

end MongoModel.Props.C18
