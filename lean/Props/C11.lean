/-
  Props.C11 — property theorems for C11 (natural order, sort, skip and limit return the right
  documents in the right order).  Only statements live here; lemmas are in Proofs/C11*.lean.

  Impl  = MongoModel/Sort.lean   (faithful model of resolve_sort_key / BsonComparable, sorted(),
                                  _get_dataset, Cursor, count_documents, $sort/$skip/$limit, the
                                  insertion-ordered store; tied to /repo by the per-run
                                  correspondence check)
  Spec  = Spec/Order.lean        (the rules of the property text)
  D     = Spec/OrderDomain.lean  (decidable; named exclusion classes)

  Vocabulary of the statements (Proofs/C11Sort.lean):
    StrictWeak lt      lt is asymmetric and "not smaller" is transitive (a total preorder)
    Sorted lt l        no later element of l is smaller than an earlier one
    tie lt a b         neither a < b nor b < a
    StableWrt lt ys xs every tie class appears in ys in the same order as in xs
    isort lt           the model of Python's `sorted`: stable insertion sort
-/
import Proofs.C11Model

namespace MongoModel.Props.C11
open MongoModel MongoModel.Spec.Order MongoModel.Proofs.C11

/-! ## sample data for the non-vacuity examples -/

def d0 : Val := .doc [("_id", .int 0), ("a", .int 1), ("b", .str "x")]
def d1 : Val := .doc [("_id", .int 1), ("a", .dbl 2 1), ("b", .null)]          -- a = 1.0: ties with d0
def d2 : Val := .doc [("_id", .int 2), ("b", .bool true)]                       -- a missing
def d3 : Val := .doc [("_id", .int 3), ("a", .str "s"), ("b", .date 5 none)]
def d4 : Val := .doc [("_id", .int 4), ("a", .null)]                            -- ties with d2
def sample : List Val := [d0, d1, d2, d3, d4]

/-! ## the sort -/

/-- **Core.** Inside the domain the sort of `_get_dataset` (successive `sorted` calls from the
    last key to the first, `reverse=` for descending keys) does not raise and returns a
    permutation of the selected documents that is sorted w.r.t. the oracle's key-by-key BSON
    order and in which documents that tie on every key keep their natural order. -/
theorem sort_sorted_perm_stable (spec : SortSpec) (docs : List Val)
    (h : specReasons spec docs = []) :
    ∃ out, getDataset (some spec) docs = .ok out ∧ out.Perm docs ∧
      Sorted (docLt spec) out ∧ StableWrt (docLt spec) out docs := by
  refine ⟨isort (docLt spec) docs,
    sortRounds_eq applySortKey applySortKey_plain spec docs (specOk_of_reasons _ _ h),
    isort_perm _ _, isort_sorted (strictWeak_docLt spec) _, isort_stable (strictWeak_docLt spec) _⟩

/-- the hypothesis is inhabited: two keys, one descending, mixed types, a tie, missing values -/
example : specReasons [("a", 1), ("b", -1)] sample = [] := by decide +kernel

/-- The order the results are sorted by is a total preorder on *all* documents (no domain
    hypothesis): this is what makes "the sorted sequence" well defined. -/
theorem key_order_total_preorder (spec : SortSpec) : StrictWeak (docLt spec) :=
  strictWeak_docLt spec

/-- **Extended.** Any stable sorted permutation w.r.t. a total preorder is the list the model's
    insertion sort computes — so modelling timsort by insertion sort loses nothing. -/
theorem stable_sort_unique {α : Type} (lt : α → α → Bool) (sw : StrictWeak lt) (xs ys : List α)
    (hp : ys.Perm xs) (hs : Sorted lt ys) (hst : StableWrt lt ys xs) : ys = isort lt xs :=
  Proofs.C11.stable_sort_unique sw xs ys hp hs hst

example : StrictWeak (fun a b : Nat => decide (a / 2 < b / 2)) :=
  ⟨fun a b h => by simp at h ⊢; omega, fun a b c h1 h2 => by simp at h1 h2 ⊢; omega⟩

/-- in particular: whatever sequence satisfies the property's wording for a domain case is the
    sequence the model returns -/
theorem sort_result_unique (spec : SortSpec) (docs ys : List Val)
    (h : specReasons spec docs = []) (hp : ys.Perm docs) (hs : Sorted (docLt spec) ys)
    (hst : StableWrt (docLt spec) ys docs) : getDataset (some spec) docs = .ok ys := by
  rw [Proofs.C11.stable_sort_unique (strictWeak_docLt spec) docs ys hp hs hst]
  exact sortRounds_eq applySortKey applySortKey_plain spec docs (specOk_of_reasons _ _ h)

/-- **Extended (`multi_key_lex`).** Successive stable sorts from the last key to the first are
    one stable sort by the lexicographic order: compare by the first key, on a tie by the rest. -/
theorem multi_key_lex (kd : String × Int) (rest : SortSpec) (docs : List Val)
    (h : specReasons (kd :: rest) docs = []) :
    getDataset (some (kd :: rest)) docs = .ok (isort (lexLt (docLt1 kd) (docLt rest)) docs) := by
  rw [← docLt_cons]
  exact sortRounds_eq applySortKey applySortKey_plain _ docs (specOk_of_reasons _ _ h)

/-- the generic fact behind it, for any two total preorders -/
theorem isort_isort_lex {α : Type} (lt1 lt2 : α → α → Bool) (s1 : StrictWeak lt1)
    (s2 : StrictWeak lt2) (xs : List α) :
    isort lt1 (isort lt2 xs) = isort (lexLt lt1 lt2) xs :=
  Proofs.C11.isort_isort_lex s1 s2 xs

/-- **Impl = Spec on D** for every sort argument (`None`, `[]`, a lone `$natural`, key lists);
    D contains array-valued keys and keys reached through arrays of sub-documents. -/
theorem sorted_eq_spec (sort : Option SortSpec) (docs : List Val)
    (h : sortD sort docs = true) : getDataset sort docs = .ok (sortDocs sort docs) :=
  getDataset_eq_spec sort docs h

example : sortD (some [("a", -1), ("b", 1)]) sample = true := by decide +kernel

/-- what the oracle's sequence *is*, for every key list and all documents (no domain): a
    permutation of the documents, sorted by the key-by-key order, ties in natural order — and by
    `stable_sort_unique` the only such sequence. -/
theorem spec_sorted_perm_stable (spec : SortSpec) (docs : List Val)
    (h : loneNatural spec = none) :
    (sortDocs (some spec) docs).Perm docs ∧ Sorted (docLt spec) (sortDocs (some spec) docs) ∧
      StableWrt (docLt spec) (sortDocs (some spec) docs) docs := by
  simp only [sortDocs, h]
  exact ⟨isort_perm _ _, isort_sorted (strictWeak_docLt spec) _,
    isort_stable (strictWeak_docLt spec) _⟩

example : loneNatural [("a", 1), ("$natural", -1)] = none := by decide
example : sortD (some [("$natural", -1)]) sample = true := by decide +kernel

def wA : Val := .doc [("_id", .int 0), ("a", .arr [.int 1, .int 5])]
def wB : Val := .doc [("_id", .int 1), ("a", .arr [.int 3])]
def wC : Val := .doc [("_id", .int 2), ("a", .arr [])]
def wD : Val := .doc [("_id", .int 3), ("a", .arr [.doc [("x", .int 9)], .doc [("x", .int 0)]])]

def idInt : Val → Int
  | .doc (("_id", .int i) :: _) => i
  | _ => -1

/-- Array-valued keys are inside the domain (formerly the known finding `arraykey`: the code
    sorted by the first element and `{a: [3]}` came before `{a: [1, 5]}` in a descending sort)… -/
example : sortD (some [("a", -1)]) [wA, wB, wC] = true ∧ sortD (some [("a.x", 1)]) [wA, wD] = true :=
  ⟨by decide +kernel, by decide +kernel⟩

/-- …descending by the largest element, ascending by the smallest, an empty array first -/
example : (getDataset (some [("a", -1)]) [wA, wB, wC]).map (List.map idInt) = .ok [0, 1, 2] ∧
    (getDataset (some [("a", 1)]) [wB, wA, wC]).map (List.map idInt) = .ok [2, 0, 1] := by
  decide +kernel

/-- A sort by ordinary keys over in-domain documents never raises.  (Formerly refuted outside the
    domain by two ObjectIds, which had no ordering; ObjectIds the case supplies are now inside
    the domain and ordered by their value.) -/
theorem sort_never_raises (spec : SortSpec) (docs : List Val) (h : specReasons spec docs = []) :
    ∃ out, getDataset (some spec) docs = .ok out :=
  ⟨_, sortRounds_eq applySortKey applySortKey_plain spec docs (specOk_of_reasons _ _ h)⟩

def oA : Val := .doc [("_id", .int 0), ("a", .oid 1)]
def oB : Val := .doc [("_id", .int 1), ("a", .oid 0)]
def oC : Val := .doc [("_id", .int 2), ("a", .bool false)]
def oD : Val := .doc [("_id", .int 3), ("a", .str "s")]

/-- the former witness is inside the domain… -/
example : specReasons [("a", 1)] [oA, oB, oC, oD] = [] := by decide +kernel

/-- …and sorts by value, ObjectIds between strings and booleans -/
example : (getDataset (some [("a", 1)]) [oA, oB, oC, oD]).map (List.map idInt) = .ok [3, 1, 0, 2] := by
  decide +kernel

/-- **Extended (`desc_reverses_keeps_ties`).** One descending key: the output is the stable sort
    by the reversed order of the documents' largest reached values (`dirLt key true`) — sorted
    descending, and every tie class in natural order, not reversed. -/
theorem desc_reverses_keeps_ties (key : String) (docs : List Val)
    (h : ∀ d ∈ docs, keyReasons key d = []) :
    ∃ out, sortedByKey key true docs = .ok out ∧ out.Perm docs ∧
      Sorted (fun a b => dirLt key true b a) out ∧ StableWrt (dirLt key true) out docs := by
  refine ⟨_, sortedByKey_desc key docs h, isort_perm _ _,
    isort_sorted (strictWeak_dirLt key true).flip _, ?_⟩
  have := isort_stable (strictWeak_dirLt key true).flip docs
  unfold StableWrt at this ⊢
  rw [tie_flip] at this
  exact this

example : ∀ d ∈ sample, keyReasons "a" d = [] := by decide +kernel

/-- …and one ascending key: the stable sort by the smallest reached values -/
theorem asc_sorts_by_smallest (key : String) (docs : List Val)
    (h : ∀ d ∈ docs, keyReasons key d = []) :
    ∃ out, sortedByKey key false docs = .ok out ∧ out.Perm docs ∧
      Sorted (dirLt key false) out ∧ StableWrt (dirLt key false) out docs :=
  ⟨_, sortedByKey_asc key docs h, isort_perm _ _, isort_sorted (strictWeak_dirLt key false) _,
    isort_stable (strictWeak_dirLt key false) _⟩

example : ∀ d ∈ [wA, wB, wC, wD], keyReasons "a.x" d = [] ∧ keyReasons "a" wA = [] := by
  decide +kernel

/-- the generic fact: CPython's reverse-sort-reverse is the stable sort by the flipped order -/
theorem reverse_sort_reverse {α : Type} (lt : α → α → Bool) (sw : StrictWeak lt) (xs : List α) :
    (isort lt xs.reverse).reverse = isort (fun a b => lt b a) xs :=
  reverse_isort_reverse sw xs

/-- **Extended (`missing_sorts_as_null`).** A document in which the sort key reaches nothing and
    one in which it is an explicit null get the same key `(1, None)`, in either direction; they
    tie. -/
theorem missing_sorts_as_null (key : String) (rev : Bool) (a b : Val) (ha : Missing key a)
    (hb : candsKey key b = .ok [some .null]) :
    resolveSortKey key rev a = resolveSortKey key rev b ∧
    docKeyLt key rev a b = .ok false ∧ docKeyLt key rev b a = .ok false :=
  ⟨by rw [resolveSortKey_missing key rev a ha, resolveSortKey_null key rev b hb],
   missing_ties_null key rev a b ha hb⟩

example : Missing "a" d2 ∧ candsKey "a" d4 = .ok [some .null] :=
  ⟨Or.inr rfl, rfl⟩

/-! ## skip and limit -/

/-- **Extended (`cursor_final_settings`).** For every constructor call and every sequence of
    cursor-method calls and slices, the model's cursor and the oracle's "last value wins"
    settings both reject the sequence or both accept it and describe the same request (`Rel`:
    same sort, same skip, same effective limit — an empty slice is the limit `some 0`). -/
theorem cursor_final_settings (sort : Option SortSpec) (skip limit : Int) (ops : List CurOp) :
    (∃ e, (Cursor.new sort skip limit).run ops = .error e ∧
          (Settings.new sort skip limit).run ops = none) ∨
    (∃ c s, (Cursor.new sort skip limit).run ops = .ok c ∧
            (Settings.new sort skip limit).run ops = some s ∧ Rel c s) :=
  run_rel ops _ _ (rel_new sort skip limit)

/-- …and the result depends only on the last value given to each setting: after `op`, calls
    that do not set the skip (limit, sort) leave it as `op` left it. -/
theorem last_call_wins (c0 c' : Cursor) (ops1 ops2 : List CurOp) (op : CurOp)
    (h : c0.run (ops1 ++ op :: ops2) = .ok c') :
    ∃ c1 c2, c0.run ops1 = .ok c1 ∧ c1.step op = .ok c2 ∧
      ((∀ o ∈ ops2, setsSkip o = false) → c'.skip = c2.skip) ∧
      ((∀ o ∈ ops2, setsLimit o = false) → effLim c' = effLim c2) ∧
      ((∀ o ∈ ops2, setsSort o = false) → c'.sort = c2.sort) :=
  Proofs.C11.last_call_wins c0 c' ops1 ops2 op h

example : (Cursor.new none 0 0).run ([.limit 3, .slice (some 1) none] ++ .skip 2 ::
    [.sortKey "a" none, .limit (-4), .clone]) = .ok ⟨some [("a", 1)], 2, some (-4), false⟩ := by
  decide +kernel

/-- **Core (`slice_spec`).** However skip and limit were set — `find` arguments, `.skip()`,
    `.limit()` with a negative or zero argument, slices (empty ones included), `clone` — if the
    request ends with a non-negative skip, the cursor returns exactly
    `(sorted.drop skip).take limit` of the oracle's sorted sequence. -/
theorem slice_spec (sort : Option SortSpec) (skip limit : Int) (ops : List CurOp)
    (c : Cursor) (docs : List Val) (hc : (Cursor.new sort skip limit).run ops = .ok c) :
    ∃ s, (Settings.new sort skip limit).run ops = some s ∧
      (0 ≤ s.skip → sortD s.sort docs = true →
        c.results docs = .ok (window s.skip.toNat s.limit (sortDocs s.sort docs))) := by
  rcases run_rel ops _ _ (rel_new sort skip limit) with ⟨e, h1, _⟩ | ⟨c', s, h1, h2, h3⟩
  · rw [h1] at hc; cases hc
  · rw [h1] at hc
    cases hc
    refine ⟨s, h2, fun hs hd => ?_⟩
    have hsort : c.sort = s.sort := h3.1
    simp only [Cursor.results, hsort, getDataset_eq_spec s.sort docs hd]
    rw [window_eq_spec c s _ h3 hs]

/-- the hypotheses are inhabited by a request set in several ways at once -/
example : ∃ s, (Settings.new (some [("a", 1)]) 7 0).run
      [.limit (-2), .slice (some 1) (some 4), .clone, .sortList [("b", -1), ("a", 1)]] = some s ∧
    0 ≤ s.skip ∧ sortD s.sort sample = true :=
  ⟨⟨some [("b", -1), ("a", 1)], 1, some 3⟩, by decide +kernel, by decide, by decide +kernel⟩

/-- …and by an empty slice, kept by `clone` and by a later `skip` -/
example : ∃ s, (Settings.new none 0 5).run [.slice (some 2) (some 2), .clone, .skip 1] = some s ∧
    0 ≤ s.skip ∧ s.limit = some 0 ∧ sortD s.sort sample = true :=
  ⟨⟨none, 1, some 0⟩, by decide +kernel, by decide, rfl, by decide +kernel⟩

/-- The slicing alone, on any list (formerly refuted by `cursor[2:2]`, which returned the tail):
    whatever the calls, the window the cursor cuts is the oracle's window. -/
theorem slice_window_spec {α : Type} (ops : List CurOp) (c : Cursor) (s : Settings)
    (xs : List α) (hc : (Cursor.new none 0 0).run ops = .ok c)
    (hs : (Settings.new none 0 0).run ops = some s) (h0 : 0 ≤ s.skip) :
    c.window xs = window s.skip.toNat s.limit xs := by
  rcases run_rel ops _ _ (rel_new none 0 0) with ⟨e, h1, _⟩ | ⟨c', s', h1, h2, h3⟩
  · rw [h1] at hc; cases hc
  · rw [h1] at hc; rw [h2] at hs
    cases hc; cases hs
    exact window_eq_spec c s xs h3 h0

/-- the former counterexample: `cursor[2:2]` selects nothing -/
example : ∃ c, (Cursor.new none 0 0).run [.slice (some 2) (some 2)] = .ok c ∧
    c.window [10, 11, 12, 13] = [] :=
  ⟨⟨none, 2, some 0, true⟩, by decide +kernel, by decide +kernel⟩

/-- the slicing of `_compute_results` alone: for a non-negative skip it is `drop` then
    `take |l|` (a limit of `None`/0 takes everything, an empty slice nothing) -/
theorem window_is_drop_take {α : Type} (c : Cursor) (xs : List α) (h : 0 ≤ c.skip) :
    c.window xs = window c.skip.toNat (effLim c) xs :=
  window_eq_effLim c xs h

/-- **Core (`count_eq_slice_length`).** `count_documents(filter, skip=s, limit=l)` is the length
    of the slice that `find(filter).skip(s).limit(l)` returns — and of the oracle's window. -/
theorem count_eq_slice_length (docs : List Val) (sort : Option SortSpec) (skip l : Int)
    (hs : 0 ≤ skip) (hl : 0 < l) :
    countDocuments docs.length skip (.num l)
      = .ok (((Cursor.new sort skip l).window docs).length : Nat) ∧
    countDocuments docs.length skip (.num l)
      = .ok ((window skip.toNat (some l.toNat) docs).length : Nat) := by
  have h2 := countDocuments_num docs skip l hs hl
  refine ⟨?_, h2⟩
  rw [h2, window_eq_effLim _ _ (by simpa [Cursor.new] using hs)]
  have hl0 : l ≠ 0 := by omega
  have e : l.natAbs = l.toNat := by omega
  simp [Cursor.new, hl0, implLim, effLim, e]

theorem count_eq_slice_length_nolimit (docs : List Val) (sort : Option SortSpec) (skip : Int)
    (hs : 0 ≤ skip) :
    countDocuments docs.length skip .absent
      = .ok (((Cursor.new sort skip 0).window docs).length : Nat) := by
  rw [countDocuments_absent docs skip hs, window_eq_effLim _ _ (by simpa [Cursor.new] using hs)]
  simp [Cursor.new, implLim, effLim]

example : (0 : Int) ≤ 2 ∧ (0 : Int) < 7 := by decide

/-! ## natural order -/

/-- **Core (`update_keeps_position`).** Rewriting a stored document (what `update_*`,
    `replace_one`, `find_one_and_*` do) changes neither the sequence of `_id`s nor its length:
    the document stays where it is.  No hypothesis. -/
theorem update_keeps_position (k d : Val) (s : Store) :
    (s.step (.rewrite k d)).1.ids = s.ids ∧ (s.step (.rewrite k d)).1.length = s.length :=
  ⟨rewrite_ids k d s, rewrite_length k d s⟩

/-- Over every history of writes, natural order is the insertion order of the surviving `_id`s:
    an insert of a new `_id` appends, a delete removes, rewrites do nothing. -/
theorem natural_order_history (s : Store) (ops : List StoreOp) :
    (s.runOps ops).ids = naturalIds s.ids ops :=
  runOps_ids ops s

/-- without a sort (`None` or `[]`) the cursor returns the selected documents in natural order -/
theorem no_sort_is_natural (docs : List Val) :
    getDataset none docs = .ok docs ∧ getDataset (some []) docs = .ok docs :=
  ⟨rfl, rfl⟩

/-! ## `$sort` / `$skip` / `$limit` -/

/-- A pipeline of `$sort`, `$skip`, `$limit` stages with in-domain keys computes the same stable
    sorts and contiguous slices — and is rejected (OperationFailure) exactly when the rules reject
    it: a negative `$skip`, a `$limit` that is not positive (`runStages` answers `none`). -/
theorem pipeline_eq_spec (stages : List Stage) (docs : List Val)
    (h : pipelineReasons stages docs = []) :
    runPipeline stages docs = stagesVerdict (runStages stages docs) :=
  runPipeline_eq_spec stages docs docs
    (fun st hst => List.flatMap_eq_nil_iff.mp h st hst) (fun _ hd => hd)

example : pipelineReasons [.sort [("b", -1), ("a", 1)], .skip 1, .limit 3] sample = [] ∧
    (runStages [.sort [("b", -1), ("a", 1)], .skip 1, .limit 3] sample).isSome = true ∧
    pipelineReasons [.sort [("b", -1)], .limit 0] sample = [] ∧
    (runStages [.sort [("b", -1)], .limit 0] sample).isNone = true ∧
    (runStages [.skip (-1)] sample).isNone = true := by
  decide +kernel

/-- … the `$skip` / `$limit` stages by themselves, at full strength (no domain): the slice the
    rules define, or OperationFailure exactly where the rules reject the argument — a negative
    `$skip`, a `$limit` that is zero or negative. -/
theorem skip_limit_stage (docs : List Val) (n : Int) :
    Stage.apply docs (.skip n) = stagesVerdict (stageApply docs (.skip n)) ∧
    Stage.apply docs (.limit n) = stagesVerdict (stageApply docs (.limit n)) ∧
    (n < 0 → Stage.apply docs (.skip n) = .error .opFail) ∧
    (n ≤ 0 → Stage.apply docs (.limit n) = .error .opFail) := by
  refine ⟨?_, ?_, ?_, ?_⟩
  · by_cases h : n < 0 <;> simp [Stage.apply, stageApply, stagesVerdict, h]
  · by_cases h : n ≤ 0 <;> simp [Stage.apply, stageApply, stagesVerdict, h]
  · intro h; simp [Stage.apply, h]
  · intro h; simp [Stage.apply, h]

/-- `$sort` and `find(sort=…)` are the same function of the documents inside the domain -/
theorem agg_sort_eq_find_sort (spec : SortSpec) (docs : List Val)
    (h : specReasons spec docs = []) : aggSort spec docs = getDataset (some spec) docs := by
  rw [aggSort_eq_spec spec docs (specOk_of_reasons _ _ h)]
  exact (sortRounds_eq applySortKey applySortKey_plain spec docs (specOk_of_reasons _ _ h)).symm

end MongoModel.Props.C11
