/-
  Props.C09 — TTL indexes hide and remove exactly the documents whose date has expired.
  Statements only; proofs in Proofs/C09*.lean.  Model: `MongoModel.expire` and `stepColl`.
-/
import Proofs.C09

namespace MongoModel.Props.C09
open MongoModel MongoModel.Spec

/-- The code's expiry test is the rule of the property, for every document, period and clock. -/
theorem expired_eq_spec (field : String) (secs now : Int) (d : Val) :
    meetsExpiry field secs now d = isExpired field secs now d :=
  Proofs.C09.expired_eq_spec field secs now d

/-- With one single-field TTL index of `secs` seconds the expiry pass keeps exactly the documents
    that are not expired, in their order. -/
theorem expire_single (now secs : Int) (c : Coll) (ix : Index) (field : String) (dir raw : Val)
    (ht : c.ttlIndexes = [ix]) (hk : ix.keys = [(field, dir)]) (hr : ix.ttl = some raw)
    (hs : ttlSeconds raw = .ok (some secs)) :
    ∃ c', expire now c = .ok c' ∧
      c'.docs = c.docs.filter (fun p => !isExpired field secs now p.2) ∧
      c'.indexes = c.indexes ∧ c'.ttlIndexes = c.ttlIndexes :=
  Proofs.C09.expire_single now secs c ix field dir raw ht hk hr hs

/-- non-vacuity: at the boundary clock `date + N` one document expires and one survives -/
example : (match expire 1600000005000000
      { docs := [(.int 1, .doc [("_id", .int 1), ("t", .date 1600000000000000 none)]),
                 (.int 2, .doc [("_id", .int 2), ("t", .arr [.str "x", .date 1600000000000001 none])])],
        ttlIndexes := [{ name := "t_1", keys := [("t", .int 1)], ttl := some (.int 5) }] } with
    | .ok c' => c'.docs.map (·.1) == [.int 2]
    | .error _ => false) = true := by decide +kernel

/-- The pass is idempotent: what it leaves has nothing more to lose at the same clock. -/
theorem expire_idem (now : Int) (c c' : Coll) (h : expire now c = .ok c') :
    expire now c' = .ok c' :=
  Proofs.C09.expire_idem now c c' h

/-- **Visibility**: every data operation (reads and writes alike) behaves exactly as if it had
    been issued on the collection without its expired documents: same outcome, and the same
    collection as far as any later operation at that clock can tell. -/
theorem ops_see_unexpired_only (cfg : Cfg) (now : Int) (c c' : Coll) (op : Val)
    (h : expire now c = .ok c') (hop : dataOp op = true) :
    (stepColl cfg now c op).2 = (stepColl cfg now c' op).2 ∧
    expire now (stepColl cfg now c op).1 = expire now (stepColl cfg now c' op).1 :=
  Proofs.C09.ops_see_unexpired_only cfg now c c' op h hop

/-- Documents that cannot expire are never removed by the pass: no date in the field (missing
    field, non-date values), or a date still in the future of `now - N`. -/
theorem never_removed (now : Int) (c c' : Coll) (ix : Index) (p : Val × Val)
    (h : expireIndex now c ix = .ok c') (hp : p ∈ c.docs)
    (hne : ∀ field dir secs raw, ix.keys = [(field, dir)] → ix.ttl = some raw →
            ttlSeconds raw = .ok (some secs) → isExpired field secs now p.2 = false) :
    p ∈ c'.docs :=
  Proofs.C09.never_removed now c c' ix p h hp hne

/-- Compound TTL keys and non-numeric periods never expire anything. -/
theorem compound_or_non_numeric_inert (now : Int) (c : Coll) (ix : Index) :
    (ix.keys.length > 1 → ∀ c', expireIndex now c ix = .ok c' → c' = c) ∧
    (∀ raw, ix.ttl = some raw → ttlSeconds raw = .ok none → expireIndex now c ix = .ok c) :=
  Proofs.C09.compound_or_non_numeric_inert now c ix

/-- **Gone for good**: the pass only removes; whatever clock comes later (or earlier), a removed
    document does not come back by expiry. -/
theorem gone_for_good (now now' : Int) (c c' c'' : Coll) (h : expire now c = .ok c')
    (h' : expire now' c' = .ok c'') :
    c'.docs.Sublist c.docs ∧ c''.docs.Sublist c'.docs :=
  Proofs.C09.gone_for_good now now' c c' c'' h h'

/-- Dropping the index, all indexes or the collection stops expiry. -/
theorem drop_stops_expiry (now : Int) (c : Coll) :
    (c.ttlIndexes = [] → expire now c = .ok c) ∧
    (dropIndexesColl c).ttlIndexes = [] ∧ (dropColl c).ttlIndexes = [] ∧
    (∀ name c', dropIndexColl now c name = (c', .ok ()) →
        ∀ ix ∈ c'.ttlIndexes, ix.name ≠ name) :=
  Proofs.C09.drop_stops_expiry now c

end MongoModel.Props.C09
