/-
  Props.C09 — TTL indexes hide and remove exactly the documents whose date has expired.
  Statements only; proofs in Proofs/C09*.lean.  Model: `MongoModel.expire` and `stepColl`.
-/
import Proofs.C09
import Proofs.C09ExtStep

namespace MongoModel.Props.C09
open MongoModel MongoModel.Spec

/-- The code's expiry test is the rule of the property, for every document, period and clock. -/
theorem expired_eq_spec (field : String) (secs now : Int) (d : Val) :
    meetsExpiry field secs now d = isExpired field secs now d :=
  Proofs.C09.expired_eq_spec field secs now d

/-- With one single-field TTL index of `secs` seconds the expiry pass keeps exactly the documents
    that are not expired, in their order. -/
theorem expire_single (now secs : Int) (c : Coll) (ix : Index) (field : String) (dir raw : Val)
    (ht : c.ttlIndexes = [ix]) (hk : ix.keys = [(field, dir)]) (hr : ix.ttl = some raw)
    (hs : ttlSeconds raw = .ok (some secs)) :
    ∃ c', expire now c = .ok c' ∧
      c'.docs = c.docs.filter (fun p => !isExpired field secs now p.2) ∧
      c'.indexes = c.indexes ∧ c'.ttlIndexes = c.ttlIndexes :=
  Proofs.C09.expire_single now secs c ix field dir raw ht hk hr hs

/-- non-vacuity: at the boundary clock `date + N` one document expires and one survives -/
example : (match expire 1600000005000000
      { docs := [(.int 1, .doc [("_id", .int 1), ("t", .date 1600000000000000 none)]),
                 (.int 2, .doc [("_id", .int 2), ("t", .arr [.str "x", .date 1600000000000001 none])])],
        ttlIndexes := [{ name := "t_1", keys := [("t", .int 1)], ttl := some (.int 5) }] } with
    | .ok c' => c'.docs.map (·.1) == [.int 2]
    | .error _ => false) = true := by decide +kernel

/-- The pass is idempotent: what it leaves has nothing more to lose at the same clock. -/
theorem expire_idem (now : Int) (c c' : Coll) (h : expire now c = .ok c') :
    expire now c' = .ok c' :=
  Proofs.C09.expire_idem now c c' h

/-- **Visibility**: every data operation (reads and writes alike) behaves exactly as if it had
    been issued on the collection without its expired documents: same outcome, and the same
    collection as far as any later operation at that clock can tell. -/
theorem ops_see_unexpired_only (cfg : Cfg) (now : Int) (c c' : Coll) (op : Val)
    (h : expire now c = .ok c') (hop : dataOp op = true) :
    (stepColl cfg now c op).2 = (stepColl cfg now c' op).2 ∧
    expire now (stepColl cfg now c op).1 = expire now (stepColl cfg now c' op).1 :=
  Proofs.C09.ops_see_unexpired_only cfg now c c' op h hop

/-- Documents that cannot expire are never removed by the pass: no date in the field (missing
    field, non-date values), or a date still in the future of `now - N`. -/
theorem never_removed (now : Int) (c c' : Coll) (ix : Index) (p : Val × Val)
    (h : expireIndex now c ix = .ok c') (hp : p ∈ c.docs)
    (hne : ∀ field dir secs raw, ix.keys = [(field, dir)] → ix.ttl = some raw →
            ttlSeconds raw = .ok (some secs) → isExpired field secs now p.2 = false) :
    p ∈ c'.docs :=
  Proofs.C09.never_removed now c c' ix p h hp hne

/-- Compound TTL keys and non-numeric periods never expire anything. -/
theorem compound_or_non_numeric_inert (now : Int) (c : Coll) (ix : Index) :
    (ix.keys.length > 1 → ∀ c', expireIndex now c ix = .ok c' → c' = c) ∧
    (∀ raw, ix.ttl = some raw → ttlSeconds raw = .ok none → expireIndex now c ix = .ok c) :=
  Proofs.C09.compound_or_non_numeric_inert now c ix

/-- **Gone for good**: the pass only removes; whatever clock comes later (or earlier), a removed
    document does not come back by expiry. -/
theorem gone_for_good (now now' : Int) (c c' c'' : Coll) (h : expire now c = .ok c')
    (h' : expire now' c' = .ok c'') :
    c'.docs.Sublist c.docs ∧ c''.docs.Sublist c'.docs :=
  Proofs.C09.gone_for_good now now' c c' c'' h h'

/-- Dropping the index, all indexes or the collection stops expiry. -/
theorem drop_stops_expiry (now : Int) (c : Coll) :
    (c.ttlIndexes = [] → expire now c = .ok c) ∧
    (dropIndexesColl c).ttlIndexes = [] ∧ (dropColl c).ttlIndexes = [] ∧
    (∀ name c', dropIndexColl now c name = (c', .ok ()) →
        ∀ ix ∈ c'.ttlIndexes, ix.name ≠ name) :=
  Proofs.C09.drop_stops_expiry now c

/-- **Only existing indexes expire documents**: a `create_index` that is refused (duplicates
    under a unique key, a name taken with other options, …) does not come into being in any
    respect, whatever options it carried - `expireAfterSeconds` included: the listed indexes and
    the TTL indexes are what they were, and the collection is left as it was or as the expiry
    pass of the indexes that DO exist leaves it (the scan of a unique index reads the store). -/
theorem refused_creation_inert (now : Int) (c : Coll) (ix : Index) (e : Err)
    (h : (createIndexColl now c ix).2 = .error e) :
    (createIndexColl now c ix).1.indexes = c.indexes ∧
    (createIndexColl now c ix).1.ttlIndexes = c.ttlIndexes ∧
    ((createIndexColl now c ix).1 = c ∨ expire now c = .ok (createIndexColl now c ix).1) :=
  Proofs.C09.refused_creation_inert now c ix e h

/-- non-vacuity: a unique TTL index of 5 s over two documents with the same date is refused; an
    hour later both documents are still there -/
example :
    let c : Coll := {
      docs := [(.int 1, .doc [("_id", .int 1), ("t", .date 1600000000000000 none)]),
               (.int 2, .doc [("_id", .int 2), ("t", .date 1600000000000000 none)])] }
    let ix : Index := { name := "t_1", keys := [("t", .int 1)], unique := true, ttl := some (.int 5) }
    (match createIndexColl 1600000000000000 c ix with
     | (c', .error .dupKey) =>
       c'.ttlIndexes.isEmpty && c'.indexes.isEmpty &&
       (match expire 1600003600000000 c' with
        | .ok c'' => c''.docs.map (·.1) == [.int 1, .int 2]
        | .error _ => false)
     | _ => false) = true := by decide +kernel

/-! ## Extension: the operations of the extended step `stepX` (FindModify.lean)

find_one with sort / projection, find_one_and_update / _replace / _delete, bulk_write and the
bulk builders: every component begins with the expiry pass, so the whole operation is blind to
expired documents. -/

/-- **Visibility, extended step**: every data operation of `stepX` has the same outcome, and
    leaves the same collection as far as any later operation at that clock can tell, whether it is
    issued on the collection as stored or on the collection without its expired documents. -/
theorem stepX_expired_invisible (cfg : Cfg) (now : Int) (c c' : Coll) (op : Val)
    (h : expire now c = .ok c') (hop : dataOpX op = true) :
    (stepX cfg now c op).2 = (stepX cfg now c' op).2 ∧
    expire now (stepX cfg now c op).1 = expire now (stepX cfg now c' op).1 :=
  Proofs.C09Ext.stepX_expired_invisible cfg now c c' op h hop

/-- … stated on `find_one` itself (any filter, projection and sort): C14 is stated on it -/
theorem find_one_expired_invisible (now : Int) (c c' : Coll) (f proj : Val)
    (sort : Option SortSpec) (h : expire now c = .ok c') :
    (findOneColl now c f proj sort).2 = (findOneColl now c' f proj sort).2 ∧
    expire now (findOneColl now c f proj sort).1 = expire now (findOneColl now c' f proj sort).1 :=
  Proofs.C09Ext.find_one_expired_invisible now c c' f proj sort h

/-- … on `_find_and_modify` itself: an expired document is never the target of a
    find_one_and_*, never returned, never updated, replaced or deleted by it, and never stands in
    the way of its upsert -/
theorem fam_expired_invisible (cfg : Cfg) (now : Int) (c c' : Coll) (q proj : Val)
    (upd : Option Val) (upsert : Bool) (sort : Option SortSpec) (after : Bool)
    (h : expire now c = .ok c') :
    (findAndModify cfg now c q proj upd upsert sort after).2 =
      (findAndModify cfg now c' q proj upd upsert sort after).2 ∧
    expire now (findAndModify cfg now c q proj upd upsert sort after).1 =
      expire now (findAndModify cfg now c' q proj upd upsert sort after).1 :=
  Proofs.C09Ext.fam_expired_invisible cfg now c c' q proj upd upsert sort after h

/-- … and on `bulk_write` itself (ordered or not, any requests): same result or same
    BulkWriteError details, same collection up to the pass -/
theorem bulk_expired_invisible (cfg : Cfg) (now : Int) (c c' : Coll) (reqs : List Val)
    (ordered : Bool) (h : expire now c = .ok c') :
    (bulkWrite cfg now c reqs ordered).2 = (bulkWrite cfg now c' reqs ordered).2 ∧
    expire now (bulkWrite cfg now c reqs ordered).1 =
      expire now (bulkWrite cfg now c' reqs ordered).1 :=
  Proofs.C09Ext.bulk_expired_invisible cfg now c c' reqs ordered h

/-- non-vacuity: document 1 expired 95 s ago and is still stored; it sorts first and shares its
    `_id` with the bulk's insert.  The sorted find_one_and_update acts on document 2, the bulk
    inserts a new document 1 — exactly as on the collection without the expired document. -/
example :
    let now : Int := 1600000100000000
    let ix : Index := { name := "t_1", keys := [("t", .int 1)], ttl := some (.int 5) }
    let c : Coll := {
      docs := [(.int 1, .doc [("_id", .int 1), ("t", .date 1600000000000000 none), ("s", .int 1)]),
               (.int 2, .doc [("_id", .int 2), ("t", .date 1600000099000000 none), ("s", .int 2)])],
      indexes := [ix], ttlIndexes := [ix] }
    let fam : Val := .arr [.str "find_one_and_update", .doc [], .doc [("$set", .doc [("hit", .int 1)])],
                           .doc [("_id", .int 1)], .arr [.arr [.str "s", .int 1]], .bool false, .bool true]
    let bulk : Val := .arr [.str "bulk_write", .arr [
      .arr [.str "InsertOne", .doc [("_id", .int 1), ("s", .int 0)]],
      .arr [.str "UpdateMany", .doc [], .doc [("$set", .doc [("seen", .int 1)])], .bool false],
      .arr [.str "DeleteOne", .doc [("s", .int 2)]]], .bool true]
    (match expire now c with
     | .ok c' =>
       c'.docs.length == 1 && dataOpX fam && dataOpX bulk &&
       (match stepX {} now c fam, stepX {} now c' fam with
        | (a, .val v), (b, .val w) =>
          v == .doc [("_id", .int 2)] && w == v && a.docs.length == 1 && b.docs.length == 1
        | _, _ => false) &&
       (match stepX {} now c bulk, stepX {} now c' bulk with
        | (a, .val v), (b, .val w) =>
          v == w && a.docs.map (·.1) == [.int 1] && b.docs.map (·.1) == [.int 1]
        | _, _ => false)
     | .error _ => false) = true := by decide +kernel

end MongoModel.Props.C09
