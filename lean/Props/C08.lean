/-
  Props.C08 — a failed write leaves no trace; batches stop or continue exactly as documented.
  Statements only; proofs in Proofs/C08*.lean.  Model: `MongoModel.step` / `stepColl`.
  "No trace" is stated on what a client can observe at the same clock (`Spec.visible`: the
  documents after the lazy TTL pass, and the index names) and on the index tables themselves.
-/
import Proofs.C08
import Proofs.C08Ext
import Proofs.C08ExtCex
import Proofs.StoreRecorded

namespace MongoModel.Props.C08
open MongoModel MongoModel.Spec

/-- **A single-document write that raises changes nothing observable** — whatever the kind of
    failure (malformed or type-incompatible operator anywhere in the update specification,
    attempted `_id` change, duplicate key, invalid document) and whatever the prior state. -/
theorem failed_single_write_noop (cfg : Cfg) (s : St) (op : Val) (hs : singleWrite op = true)
    (he : (step cfg s op).2.isErr = true) :
    visible (step cfg s op).1 = visible s :=
  Proofs.C08.failed_single_write_noop cfg s op hs he

/-- … and the index tables are untouched. -/
theorem failed_single_write_indexes (cfg : Cfg) (s : St) (op : Val) (hs : singleWrite op = true)
    (he : (step cfg s op).2.isErr = true) :
    (step cfg s op).1.c.indexes.map (·.name) = s.c.indexes.map (·.name) ∧
    (step cfg s op).1.c.ttlIndexes.map (·.name) = s.c.ttlIndexes.map (·.name) :=
  Proofs.C08.failed_single_write_indexes cfg s op hs he

/-- non-vacuity: a multi-operator update whose LAST operator fails, after a valid `$set`, on a
    collection with two documents and a unique index -/
example : (step {} (run {} [
      .arr [.str "insert_one", .doc [("_id", .int 1), ("a", .int 1), ("l", .arr [.int 1])]],
      .arr [.str "insert_one", .doc [("_id", .int 2), ("a", .int 2)]],
      .arr [.str "create_index", .arr [.arr [.str "a", .int 1]], .doc [("unique", .bool true)]]]).2
    (.arr [.str "update_one", .doc [("_id", .int 1)],
           .doc [("$set", .doc [("a", .int 5)]), ("$pop", .doc [("l", .int 7)])], .bool false])).2.isErr
    = true := by decide +kernel

/-- Validation happens before any mutation. -/
theorem validation_before_mutation (cfg : Cfg) (now : Int) (c : Coll) (f u up : Val) (e : Err)
    (h : validateUpdate u = .error e) :
    stepColl cfg now c (.arr [.str "update_one", f, u, up]) = (c, .err e) ∧
    stepColl cfg now c (.arr [.str "update_many", f, u, up]) = (c, .err e) :=
  Proofs.C08.validation_before_mutation cfg now c f u up e h

/-- **An update with an unknown `$operator` is refused before any document is looked for**
    (library commit 1244abc): when the operator names of the update document are refused
    (`validateUpdateOperators`: an unknown key after the first, or an unknown first key next to a
    `$`-key) — or, on a server before 5.0, an operator is empty — `update_one`, `update_many`,
    `replace_one` and every bulk request that goes through `_apply_update` raise that error and
    the collection is THE SAME: not even the expiry pass has run, the filter was not evaluated
    (a filter that would raise does not get to), no document was matched — also when none would
    match. -/
theorem unknown_operator_refused_before_lookup (cfg : Cfg) (now : Int) (c : Coll) (fs dfs : Fields)
    (f u : Val) (upsert multi : Bool) (e : Err) (hf : patchDT f = .doc fs)
    (hu : patchDT u = .doc dfs) (h : updatePrecheck cfg dfs = .error e) :
    applyUpdateColl cfg now c f u upsert multi = (c, .error e) :=
  Proofs.C08.precheck_before_lookup cfg now c fs dfs f u upsert multi e hf hu h

/-- … and `find_one_and_update` / `find_one_and_replace` check them before the target is looked
    for: with no match, no upsert and whatever projection, the call raises instead of returning
    None. -/
theorem fam_unknown_operator_refused_before_lookup (cfg : Cfg) (now : Int) (c : Coll)
    (query proj : Val) (ufs : Fields) (upsert : Bool) (sort : Option SortSpec) (after : Bool)
    (e : Err) (hne : ufs ≠ []) (h : validateUpdateOperators ufs = .error e) :
    findAndModify cfg now c query proj (some (.doc ufs)) upsert sort after = (c, .error e) :=
  Proofs.C08Lemmas.fam_precheck_before_lookup cfg now c query proj ufs upsert sort after e hne h

/-- non-vacuity: `{$set: {a: 1}, $typo: 1}` is refused; on a collection whose only document the
    filter would raise on (`{a: {$in: 3}}` on `a: 1`) — and on the empty one — `update_one` raises
    the ValueError of the operator check, the collection untouched; `find_one_and_update` with
    a filter matching nothing likewise -/
example :
    let u : Val := .doc [("$set", .doc [("a", .int 1)]), ("$typo", .int 1)]
    let c : Coll := { docs := [(.int 1, .doc [("_id", .int 1), ("a", .int 1)])], forceCreated := true }
    (match validateUpdateOperators [("$set", .doc [("a", .int 1)]), ("$typo", .int 1)] with
     | .error .valueErr => true | _ => false) = true ∧
    (match (findColl 0 c (.doc [("a", .doc [("$in", .int 3)])])).2 with
     | .error _ => true | _ => false) = true ∧
    (match stepColl {} 0 c (.arr [.str "update_one", .doc [("a", .doc [("$in", .int 3)])], u, .bool false]) with
     | (c', .err .valueErr) => c'.docs == c.docs | _ => false) = true ∧
    (match stepColl {} 0 {} (.arr [.str "update_many", .doc [], u, .bool true]) with
     | (c', .err .valueErr) => c'.docs.isEmpty | _ => false) = true ∧
    (match stepX {} 0 c (.arr [.str "find_one_and_update", .doc [("_id", .int 9)], u, .null, .null,
        .bool false, .bool false]) with
     | (c', .err .valueErr) => c'.docs == c.docs | _ => false) = true := by
  decide +kernel

/-- **Unordered insert_many applies every insert that succeeds on its own**: its final state is
    the state after issuing all inserts one at a time (a failed one changing nothing), provided
    every failure is a write error (anything else aborts the batch). -/
theorem unordered_all_successes (cfg : Cfg) (now : Int) (c : Coll) (ds : List Val)
    (hne : ds ≠ []) (hd : ds.all Val.isDoc = true)
    (hw : ∀ e, (stepColl cfg now c (.arr [.str "insert_many", .arr ds, .bool false])).2 ≠ .err e) :
    (stepColl cfg now c (.arr [.str "insert_many", .arr ds, .bool false])).1
      = seqInsert cfg now ds c :=
  Proofs.C08.unordered_all_successes cfg now c ds hne hd hw

/-- **Ordered insert_many applies exactly the operations before the first failure** (plus the
    traceless failed one): its final state is the one-at-a-time state of a prefix `ds.take k`, all
    inserts before position `k - 1` succeeded, and when `k ≤ ds.length` is not the whole list the
    insert at position `k - 1` failed. -/
theorem ordered_prefix (cfg : Cfg) (now : Int) (c : Coll) (ds : List Val)
    (hne : ds ≠ []) (hd : ds.all Val.isDoc = true) :
    ∃ k, k ≤ ds.length ∧
      (stepColl cfg now c (.arr [.str "insert_many", .arr ds, .bool true])).1
        = seqInsert cfg now (ds.take k) c ∧
      ((stepColl cfg now c (.arr [.str "insert_many", .arr ds, .bool true])).2.isErr = false →
        k = ds.length) :=
  Proofs.C08.ordered_prefix cfg now c ds hne hd

/-- The error of an ordered insert_many reports the failing position and the number of inserts
    that succeeded, which are the same number. -/
theorem ordered_error_details (cfg : Cfg) (now : Int) (c : Coll) (ds : List Val) (details : Val)
    (h : (stepColl cfg now c (.arr [.str "insert_many", .arr ds, .bool true])).2 = .bulkErr details) :
    ∃ k code, details = .doc [("writeErrors", .arr [.doc [("index", .int k), ("code", code)]]),
                              ("nInserted", .int k)] :=
  Proofs.C08.ordered_error_details cfg now c ds details h

/-! ## Extension: find_one_and_*, update_many, bulk_write (model: `stepX`, FindModify.lean)

"As it was" is `Spec.Untouched now c c'`: `c'` is `c` itself or `c` after the lazy expiry pass at
the same clock, up to the counter of generated ObjectIds.

The exact-state theorems below are stated for collections in which existence is recorded
(`Coll.Recorded`: one that holds a document or an index has its created flag set) - every
collection a history reaches (`reachable_recorded`).  The reason: an insert that the uniqueness
check rejects has already gone through `self._store[object_id] = data`, which sets
`_is_force_created`, and the rollback discards the document but leaves the flag; a unique index is
needed for that, so on a recorded collection the flag was set already and nothing at all changes.
On a hand-made state with an index but no flag the write does leave that trace
(`failed_write_sets_flag_on_unrecorded`).  What a client can observe at that clock, and the index
tables, are unchanged whatever the state (`failed_single_write_noop`, `fam_failed_history_noop`). -/

/-- **Existence is recorded in every reachable state**: after every history of `runX` (all modelled
    operations, from the empty collection) a collection that holds a document or an index has its
    created flag set. -/
theorem reachable_recorded (cfg : Cfg) (ops : List Val) : (runX cfg ops).2.c.Recorded :=
  Proofs.Recorded.recorded_runX cfg ops

/-- ... and every single operation keeps it so -/
theorem recorded_preserved (cfg : Cfg) (now : Int) (c : Coll) (op : Val) (hr : c.Recorded) :
    (stepX cfg now c op).1.Recorded :=
  Proofs.Recorded.recorded_stepX cfg now c op hr

example : (runX {} [.arr [.str "insert_one", .doc [("_id", .int 1)]],
    .arr [.str "delete_many", .doc []]]).2.c.forceCreated = true := by decide +kernel

/-- a hand-made collection with a unique index and a document but no created flag (no history
    reaches it) -/
def unrecordedColl : Coll :=
  { docs := [(.int 1, .doc [("_id", .int 1), ("a", .int 1)])],
    indexes := [{ name := "a_1", keys := [("a", .int 1)], unique := true }] }

/-- on it, an insert rejected by the unique index leaves a trace: the created flag is set -/
theorem failed_write_sets_flag_on_unrecorded :
    ¬ unrecordedColl.Recorded ∧
    (stepColl {} 0 unrecordedColl
      (.arr [.str "insert_one", .doc [("_id", .int 2), ("a", .int 1)]])).2.isErr = true ∧
    (stepColl {} 0 unrecordedColl
      (.arr [.str "insert_one", .doc [("_id", .int 2), ("a", .int 1)]])).1.forceCreated = true ∧
    unrecordedColl.forceCreated = false := by
  refine ⟨fun h => ?_, by decide +kernel, by decide +kernel, rfl⟩
  have := h (Or.inl (by decide))
  cases this

/-- What `Untouched` guarantees: nothing a client can observe at that clock has changed, the index
    tables are the same, and the stored documents are those of `c` or of `c` after the expiry
    pass, in the same order. -/
theorem untouched_observable (now : Int) (c c' : Coll) (h : Untouched now c c') :
    visible ⟨now, c'⟩ = visible ⟨now, c⟩ ∧ c'.indexes = c.indexes ∧
    c'.ttlIndexes = c.ttlIndexes ∧ c'.forceCreated = c.forceCreated ∧
    (c'.docs = c.docs ∨ ∃ c1, expire now c = .ok c1 ∧ c'.docs = c1.docs) :=
  Proofs.C08Ext.untouched_observable now c c' h

/-- **Every all-or-nothing write that raises leaves the collection exactly as it was**
    (insert_one, update_one, replace_one, delete_one, delete_many): the exact-state form of
    `failed_single_write_noop`, `delete_many` included. -/
theorem failed_atomic_write_untouched (cfg : Cfg) (now : Int) (c : Coll) (op : Val)
    (hr : c.Recorded) (ha : atomicWrite op = true)
    (he : (stepColl cfg now c op).2.isErr = true) :
    Untouched now c (stepColl cfg now c op).1 :=
  Proofs.C08Ext.failed_atomic_write_untouched cfg now c op hr ha he

/-- non-vacuity: a `delete_many` whose filter raises on a collection of two documents -/
example : Proofs.C08Ext.manyWitnessColl.Recorded ∧
    atomicWrite (.arr [.str "delete_many", .doc [("a", .doc [("$in", .int 1)])]]) = true ∧
    (stepColl {} 0 Proofs.C08Ext.manyWitnessColl
      (.arr [.str "delete_many", .doc [("a", .doc [("$in", .int 1)])]])).2.isErr = true :=
  ⟨Proofs.C08Ext.witness_colls_recorded.2.1, by decide +kernel, by decide +kernel⟩

/-- non-vacuity with the created flag at stake: in a reachable state (a document, then a unique
    index) an insert that the unique index rejects - after it was stored - raises -/
example : (runX {} [.arr [.str "insert_one", .doc [("_id", .int 1), ("a", .int 1)]],
      .arr [.str "create_index", .arr [.arr [.str "a", .int 1]], .doc [("unique", .bool true)]]]).2.c.Recorded ∧
    (match (runX {} [.arr [.str "insert_one", .doc [("_id", .int 1), ("a", .int 1)]],
      .arr [.str "create_index", .arr [.arr [.str "a", .int 1]], .doc [("unique", .bool true)]]]).2 with
     | s => insertStored s.now s.c (.doc [("_id", .int 2), ("a", .int 1)]) &&
         (stepColl {} s.now s.c (.arr [.str "insert_one", .doc [("_id", .int 2), ("a", .int 1)]])).2.isErr)
      = true :=
  ⟨reachable_recorded {} _, by decide +kernel⟩

/-! ### find_one_and_update / find_one_and_replace / find_one_and_delete -/

/-- A find_one_and_* that raises leaves the collection exactly as it was.  Full statement (for
    every such call, on every recorded collection): FALSE of the model and of the code — with
    `return_document=AFTER` the final read-back `find_one(query, projection)` runs after the
    write, so a projection whose refusal DEPENDS ON THE DOCUMENT raises there with the update or
    the upsert done (known finding `fam-after-projection-on-result`). -/
def fam_failed_noop_full : Prop :=
  ∀ (cfg : Cfg) (now : Int) (c : Coll) (op : Val), c.Recorded → famOp op = true →
    (stepX cfg now c op).2.isErr = true → Untouched now c (stepX cfg now c op).1

theorem fam_failed_noop_full_fails : ¬ fam_failed_noop_full :=
  Proofs.C08Ext.fam_failed_noop_full_fails

/-- the witness: on `{_id: 1, a: [1, 2]}`, `find_one_and_update({_id: 1}, {$set: {a: 5}},
    projection={a: {$slice: 1}}, return_document=AFTER)` — the projection is acceptable in itself
    and on the document as it was; the update turns `a` into a number and the read-back raises
    OperationFailure (`$slice` of a non-array), leaving `a: 5` -/
example : Proofs.C08Ext.famWitnessColl.Recorded ∧ famOp Proofs.C08Ext.famWitnessOp = true ∧
    (stepX {} 0 Proofs.C08Ext.famWitnessColl Proofs.C08Ext.famWitnessOp).2.isErr = true ∧
    Proofs.C08Ext.firstAIs (stepX {} 0 Proofs.C08Ext.famWitnessColl Proofs.C08Ext.famWitnessOp).1.docs 5
      = true ∧
    Proofs.C08Ext.firstAIs Proofs.C08Ext.famWitnessColl.docs 5 = false ∧
    projAcceptable (famProj Proofs.C08Ext.famWitnessOp) = true :=
  ⟨Proofs.C08Ext.witness_colls_recorded.1, Proofs.C08Ext.fam_witness⟩

/-- **What holds for every find_one_and_* that raises**: the collection is exactly as it was —
    unless `return_document=AFTER` was requested, the projection is acceptable in itself
    (`Spec.projAcceptable`: applied to the empty document it does not raise), the same call with
    BEFORE succeeds, and the collection is exactly as that successful call leaves it (the write
    was done in full; only the read-back raised, on the document the write produced).  Never a
    partial write.
    (Until library commit 7781c66 the middle clause was missing: ANY refused projection could
    be met after the write, on the upsert path — the repaired finding
    `fam-after-projection-error`.) -/
theorem fam_failed_partial (cfg : Cfg) (now : Int) (c : Coll) (op : Val) (hr : c.Recorded)
    (hop : famOp op = true) (he : (stepX cfg now c op).2.isErr = true) :
    Untouched now c (stepX cfg now c op).1 ∨
    (famAfter op = true ∧ projAcceptable (famProj op) = true ∧
      (stepX cfg now c (famBefore op)).2.isErr = false ∧
      Untouched now (stepX cfg now c (famBefore op)).1 (stepX cfg now c op).1) :=
  Proofs.C08Ext.fam_failed_partial cfg now c op hr hop he

/-- **A projection that is refused whatever the document is refused before the write**: a
    find_one_and_update / _replace / _delete whose projection is not acceptable in itself (a bad
    field list, an unsupported projection operator, inclusion mixed with exclusion, colliding
    paths) and which raises — for that or any other reason — leaves the collection exactly as it
    was, with `return_document=AFTER` and on the upsert path as well. -/
theorem fam_refused_projection_noop (cfg : Cfg) (now : Int) (c : Coll) (op : Val) (hr : c.Recorded)
    (hop : famOp op = true) (hp : projAcceptable (famProj op) = false)
    (he : (stepX cfg now c op).2.isErr = true) :
    Untouched now c (stepX cfg now c op).1 := by
  rcases Proofs.C08Ext.fam_failed_partial cfg now c op hr hop he with h | ⟨_, h, _⟩
  · exact h
  · rw [hp] at h; cases h

/-- non-vacuity, and the regression example of the repaired finding `fam-after-projection-error`
    (its former witness): `find_one_and_update({_id: 7}, {$set: {a: 5}}, projection={a: 1, b: 0},
    upsert=True, return_document=AFTER)` raises and nothing is upserted -/
example : Proofs.C08Ext.famRepairedColl.Recorded ∧ famOp Proofs.C08Ext.famRepairedOp = true ∧
    projAcceptable (famProj Proofs.C08Ext.famRepairedOp) = false ∧
    (stepX {} 0 Proofs.C08Ext.famRepairedColl Proofs.C08Ext.famRepairedOp).2.isErr = true ∧
    (stepX {} 0 Proofs.C08Ext.famRepairedColl Proofs.C08Ext.famRepairedOp).1.docs ==
      Proofs.C08Ext.famRepairedColl.docs :=
  ⟨Proofs.C08Ext.famRepairedColl_recorded, Proofs.C08Ext.fam_repaired⟩

/-- **find_one_and_delete, and find_one_and_update / _replace with return_document=BEFORE, that
    raise leave the collection exactly as it was** — whatever raised: the filter, the sort, the
    projection, the update operators, an `_id` change, a duplicate key, an upsert that fails. -/
theorem fam_failed_noop (cfg : Cfg) (now : Int) (c : Coll) (op : Val) (hr : c.Recorded)
    (hop : famOp op = true) (ha : famAfter op = false)
    (he : (stepX cfg now c op).2.isErr = true) :
    Untouched now c (stepX cfg now c op).1 :=
  Proofs.C08Ext.fam_failed_noop cfg now c op hr hop ha he

/-- … in a history (`stepXS`, the form of `failed_single_write_noop`): nothing observable changes
    and the index tables are untouched - whatever the state. -/
theorem fam_failed_history_noop (cfg : Cfg) (s : St) (op : Val) (hop : famOp op = true)
    (ha : famAfter op = false) (he : (stepXS cfg s op).2.isErr = true) :
    visible (stepXS cfg s op).1 = visible s ∧
    (stepXS cfg s op).1.c.indexes = s.c.indexes ∧
    (stepXS cfg s op).1.c.ttlIndexes = s.c.ttlIndexes :=
  Proofs.C08Ext.fam_failed_history_noop cfg s op hop ha he

/-- non-vacuity: on two documents and a unique index (a reachable, hence recorded, state), a sorted
    find_one_and_update whose `$set` collides with the other document (DuplicateKeyError after the
    target was rewritten in place) -/
example : (runX {} [
      .arr [.str "insert_one", .doc [("_id", .int 1), ("a", .int 1)]],
      .arr [.str "insert_one", .doc [("_id", .int 2), ("a", .int 2)]],
      .arr [.str "create_index", .arr [.arr [.str "a", .int 1]], .doc [("unique", .bool true)]]]).2.c.Recorded :=
  reachable_recorded {} _

example : (match (run {} [
      .arr [.str "insert_one", .doc [("_id", .int 1), ("a", .int 1)]],
      .arr [.str "insert_one", .doc [("_id", .int 2), ("a", .int 2)]],
      .arr [.str "create_index", .arr [.arr [.str "a", .int 1]], .doc [("unique", .bool true)]]]).2 with
    | s =>
      let op : Val := .arr [.str "find_one_and_update", .doc [], .doc [("$set", .doc [("a", .int 1)])],
                            .null, .arr [.arr [.str "a", .int (-1)]], .bool false, .bool false]
      famOp op && !famAfter op && (stepX {} s.now s.c op).2.isErr &&
        (stepXS {} s op).2.isErr) = true := by decide +kernel

/-! ### update_many: document granularity -/

/-- **update_many is the single-document update iterated over the snapshot, stopped by the first
    document whose update raises — and that failing update changes nothing.**  No hypothesis. -/
theorem update_many_iterates_single (now : Int) (spec document nowV : Val) (c : Coll) (m u : Nat) :
    updateLoop now spec document nowV true [] c m u = (c, .ok (m, u)) ∧
    ∀ (p : Val × Val) (rest : List (Val × Val)),
      updateLoop now spec document nowV true (p :: rest) c m u =
        match updateLoop now spec document nowV false [p] c m u with
        | (_, .error e) => (c, .error e)
        | (c1, .ok (m1, u1)) => updateLoop now spec document nowV true rest c1 m1 u1 :=
  Proofs.C08Ext.update_many_iterates_single now spec document nowV c m u

/-- **When the loop of update_many raises**, the collection is: the documents before the failing
    one, each carrying the update if the filter selects it (`Spec.Updated`), then the failing
    document and all later ones exactly as they were; the failing document is the one whose
    single-document update raises that error.  (No TTL index: an updated document cannot expire
    in the middle of the loop; store keys as in C05/C10/C14.) -/
theorem update_many_stops_at_failing_document (now : Int) (spec document nowV : Val) (c c' : Coll)
    (m u : Nat) (e : Err) (hn : c.ttlIndexes = []) (hk : KeysDistinct c) (hg : GoodKeys c)
    (h : updateLoop now spec document nowV true c.docs c m u = (c', .error e)) :
    ∃ pre pre' q post, c.docs = pre ++ q :: post ∧ c'.docs = pre' ++ q :: post ∧
      List.Forall₂ (Updated spec document nowV) pre pre' ∧
      (∀ m2 u2, updateLoop now spec document nowV false [q] c' m2 u2 = (c', .error e)) ∧
      c'.indexes = c.indexes ∧ c'.ttlIndexes = c.ttlIndexes :=
  Proofs.C08Ext.update_many_stops_at_failing_document now spec document nowV c c' m u e hn hk hg h

/-- … and when it does not raise every document carries the update if the filter selects it. -/
theorem update_many_updates_all_selected (now : Int) (spec document nowV : Val) (c c' : Coll)
    (m u m' u' : Nat) (hn : c.ttlIndexes = []) (hk : KeysDistinct c) (hg : GoodKeys c)
    (h : updateLoop now spec document nowV true c.docs c m u = (c', .ok (m', u'))) :
    List.Forall₂ (Updated spec document nowV) c.docs c'.docs :=
  Proofs.C08Ext.update_many_updates_all_selected now spec document nowV c c' m u m' u' hn hk hg h

/-- **An `update_many` that raises keeps the documents it had already updated and nothing else
    changes**: a prefix of the collection carries the update, the rest (the failing document
    first) is exactly as before, the index tables are untouched — whatever raised (validation,
    the filter, an operator on one document, an `_id` change, a duplicate key, the upsert). -/
theorem update_many_document_granularity (cfg : Cfg) (now : Int) (c : Coll) (f u up : Val)
    (hn : c.ttlIndexes = []) (hk : KeysDistinct c) (hg : GoodKeys c)
    (he : (stepColl cfg now c (.arr [.str "update_many", f, u, up])).2.isErr = true) :
    ∃ pre pre' post, c.docs = pre ++ post ∧
      (stepColl cfg now c (.arr [.str "update_many", f, u, up])).1.docs = pre' ++ post ∧
      List.Forall₂ (Updated (patchDT f) (patchDT u) (patchDT (.date now none))) pre pre' ∧
      (stepColl cfg now c (.arr [.str "update_many", f, u, up])).1.indexes = c.indexes ∧
      (stepColl cfg now c (.arr [.str "update_many", f, u, up])).1.ttlIndexes = c.ttlIndexes :=
  Proofs.C08Ext.update_many_document_granularity cfg now c f u up hn hk hg he

/-- non-vacuity: `{$inc: {a: 1}}` over `a = 1, 2, "x", 4` raises on the third document; the first
    two are incremented, the last two untouched; the hypotheses hold on that collection -/
example : Proofs.C08Ext.granColl.ttlIndexes = [] ∧ KeysDistinct Proofs.C08Ext.granColl ∧
    GoodKeys Proofs.C08Ext.granColl := Proofs.C08Ext.granColl_hyps

example : (match stepColl {} 0 Proofs.C08Ext.granColl
      (.arr [.str "update_many", .doc [], .doc [("$inc", .doc [("a", .int 1)])], .bool false]) with
    | (c', .err _) => c'.docs.map (·.2) == [
        .doc [("_id", .int 1), ("a", .int 2)], .doc [("_id", .int 2), ("a", .int 3)],
        .doc [("_id", .int 3), ("a", .str "x")], .doc [("_id", .int 4), ("a", .int 4)]]
    | _ => false) = true := by decide +kernel

/-! ### bulk_write, all six kinds of request -/

/-- `bulk_write` of `stepX` is `bulkWrite` -/
theorem stepX_bulk_write (cfg : Cfg) (now : Int) (c : Coll) (reqs : List Val) (ordered : Val) :
    stepX cfg now c (.arr [.str "bulk_write", .arr reqs, ordered]) =
      bulkWrite cfg now c reqs (boolOf ordered) := rfl

/-- **A request that fails inside a bulk leaves the collection, at that position, exactly as the
    previous request left it** — for the five all-or-nothing kinds (InsertOne, UpdateOne,
    ReplaceOne, DeleteOne, DeleteMany, and any malformed request), whether the failure is a write
    error the bulk collects or an exception that aborts it. -/
theorem bulk_failed_request_noop (cfg : Cfg) (now : Int) (c c' : Coll) (idx : Nat) (req : Val)
    (o : BulkOut) (hr : c.Recorded) (ha : atomicRequest req = true)
    (h : bulkOne cfg now c idx req = (c', o)) (ho : requestFailed o = true) :
    Untouched now c c' :=
  Proofs.C08Ext.bulk_failed_request_noop cfg now c c' idx req o hr ha h ho

/-- For every kind of request: FALSE — an `UpdateMany` request fails at document granularity,
    like `update_many`. -/
def bulk_failed_request_noop_full : Prop :=
  ∀ (cfg : Cfg) (now : Int) (c c' : Coll) (idx : Nat) (req : Val) (o : BulkOut),
    c.Recorded → bulkOne cfg now c idx req = (c', o) → requestFailed o = true → Untouched now c c'

theorem bulk_failed_request_noop_full_fails : ¬ bulk_failed_request_noop_full :=
  Proofs.C08Ext.bulk_failed_request_noop_full_fails

/-- … a failing `UpdateMany` request keeps the documents it had already updated, and only those
    (same statement as `update_many_document_granularity`). -/
theorem bulk_failed_update_many (cfg : Cfg) (now : Int) (c c' : Coll) (idx : Nat) (f u up : Val)
    (o : BulkOut) (hn : c.ttlIndexes = []) (hk : KeysDistinct c) (hg : GoodKeys c)
    (h : bulkOne cfg now c idx (.arr [.str "UpdateMany", f, u, up]) = (c', o))
    (ho : requestFailed o = true) :
    ∃ pre pre' post, c.docs = pre ++ post ∧ c'.docs = pre' ++ post ∧
      List.Forall₂ (Updated (patchDT f) (patchDT u) (patchDT (.date now none))) pre pre' ∧
      c'.indexes = c.indexes ∧ c'.ttlIndexes = c.ttlIndexes :=
  Proofs.C08Ext.bulk_failed_update_many cfg now c c' idx f u up o hn hk hg h ho

/-- non-vacuity (both theorems and the witness of `_full_fails`): a failing `UpdateMany` that
    has incremented the first document, a failing `InsertOne` -/
example : Proofs.C08Ext.manyWitnessColl.Recorded ∧
    requestFailed (bulkOne {} 0 Proofs.C08Ext.manyWitnessColl 0 Proofs.C08Ext.manyWitnessReq).2
      = true ∧
    atomicRequest (.arr [.str "InsertOne", .doc [("_id", .int 1)]]) = true ∧
    requestFailed (bulkOne {} 0 Proofs.C08Ext.manyWitnessColl 0
      (.arr [.str "InsertOne", .doc [("_id", .int 1)]])).2 = true :=
  ⟨Proofs.C08Ext.witness_colls_recorded.2.1, by decide +kernel, by decide +kernel, by decide +kernel⟩

/-- `seqAllOk` and `seqFailures` agree: all operations succeed one at a time iff none fails. -/
theorem seqAllOk_iff_no_failures (cfg : Cfg) (now : Int) (ops : List Val) (c : Coll) (i : Nat) :
    seqAllOk cfg now ops c = true ↔ seqFailures cfg now ops c i = [] :=
  Proofs.C08Ext.seqAllOk_iff_no_failures cfg now ops c i

/-- **Ordered bulk_write applies exactly the operations before the first failure**: it succeeds
    iff every request succeeds when issued one at a time, and then it is that run; otherwise the
    requests split as `pre ++ r :: post` where all of `pre` succeed one at a time, `r` raises on
    the collection they leave, the final collection is what that failing `r` leaves (exactly the
    collection after `pre` when `r` is all-or-nothing), nothing of `post` is applied, and the
    BulkWriteError reports the single position `pre.length`. -/
theorem bulk_ordered_stops_at_first_failure (cfg : Cfg) (now : Int) (c : Coll) (reqs : List Val)
    (hr : c.Recorded)
    (hp : reqs.all plainRequest = true) (hv : bulkPrecheck reqs = .ok ()) (hne : reqs ≠ []) :
    ((bulkWrite cfg now c reqs true).2.isErr = false →
      seqAllOk cfg now (reqs.map asSingle) c = true ∧
      (bulkWrite cfg now c reqs true).1 = seqOps cfg now (reqs.map asSingle) c) ∧
    ((bulkWrite cfg now c reqs true).2.isErr = true →
      ∃ pre r post, reqs = pre ++ r :: post ∧
        seqAllOk cfg now (pre.map asSingle) c = true ∧
        (stepColl cfg now (seqOps cfg now (pre.map asSingle) c) (asSingle r)).2.isErr = true ∧
        (bulkWrite cfg now c reqs true).1 =
          (stepColl cfg now (seqOps cfg now (pre.map asSingle) c) (asSingle r)).1 ∧
        (atomicRequest r = true →
          Untouched now (seqOps cfg now (pre.map asSingle) c) (bulkWrite cfg now c reqs true).1) ∧
        (∀ details, (bulkWrite cfg now c reqs true).2 = .bulkErr details →
          errorPositions details = [.int pre.length])) :=
  Proofs.C08Ext.bulk_ordered_stops_at_first_failure cfg now c reqs hr hp hv hne

/-- **Unordered bulk_write applies every operation that succeeds on its own** (when no request
    aborts the batch): the final collection is the one-at-a-time run of all the requests, each
    failing all-or-nothing request leaving no trace (`failed_atomic_write_untouched`), the bulk
    succeeds iff all of them do, and the BulkWriteError lists exactly the positions of the
    requests that raise in that run. -/
theorem bulk_unordered_applies_every_success (cfg : Cfg) (now : Int) (c : Coll) (reqs : List Val)
    (hp : reqs.all plainRequest = true) (hv : bulkPrecheck reqs = .ok ()) (hne : reqs ≠ [])
    (hw : ∀ e, (bulkWrite cfg now c reqs false).2 ≠ .err e) :
    (bulkWrite cfg now c reqs false).1 = seqOps cfg now (reqs.map asSingle) c ∧
    ((bulkWrite cfg now c reqs false).2.isErr = false ↔
      seqAllOk cfg now (reqs.map asSingle) c = true) ∧
    (∀ details, (bulkWrite cfg now c reqs false).2 = .bulkErr details →
      errorPositions details =
        (seqFailures cfg now (reqs.map asSingle) c 0).map (fun i : Nat => Val.int i)) :=
  Proofs.C08Ext.bulk_unordered_applies_every_success cfg now c reqs hp hv hne hw

/-- non-vacuity: six requests of five kinds on four documents (`granColl`, recorded); requests 1
    (duplicate `_id`) and 3 (`$set` of `_id`) raise write errors; ordered stops at 1, unordered
    reports `[1, 3]` -/
example : Proofs.C08Ext.granColl.Recorded := Proofs.C08Ext.witness_colls_recorded.2.2

example :
    let reqs : List Val := [
      .arr [.str "InsertOne", .doc [("_id", .int 9)]],
      .arr [.str "InsertOne", .doc [("_id", .int 1)]],
      .arr [.str "UpdateMany", .doc [("a", .doc [("$gt", .int 1)])], .doc [("$set", .doc [("b", .int 1)])], .bool false],
      .arr [.str "UpdateOne", .doc [("_id", .int 3)], .doc [("$set", .doc [("_id", .int 5)])], .bool false],
      .arr [.str "ReplaceOne", .doc [("_id", .int 4)], .doc [("a", .int 0)], .bool false],
      .arr [.str "DeleteMany", .doc [("a", .int 1)]]]
    (reqs.all plainRequest && (match bulkPrecheck reqs with | .ok _ => true | _ => false) &&
     (match (bulkWrite {} 0 Proofs.C08Ext.granColl reqs true).2 with
      | .bulkErr d => errorPositions d == [.int 1]
      | _ => false) &&
     (match (bulkWrite {} 0 Proofs.C08Ext.granColl reqs false).2 with
      | .bulkErr d => errorPositions d == [.int 1, .int 3]
      | _ => false) &&
     seqFailures {} 0 (reqs.map asSingle) Proofs.C08Ext.granColl 0 == [1, 3]) = true := by
  decide +kernel

end MongoModel.Props.C08
