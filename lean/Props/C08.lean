/-
  Props.C08 — a failed write leaves no trace; batches stop or continue exactly as documented.
  Statements only; proofs in Proofs/C08*.lean.  Model: `MongoModel.step` / `stepColl`.
  "No trace" is stated on what a client can observe at the same clock (`Spec.visible`: the
  documents after the lazy TTL pass, and the index names) and on the index tables themselves.
-/
import Proofs.C08

namespace MongoModel.Props.C08
open MongoModel MongoModel.Spec

/-- **A single-document write that raises changes nothing observable** — whatever the kind of
    failure (malformed or type-incompatible operator anywhere in the update specification,
    attempted `_id` change, duplicate key, invalid document) and whatever the prior state. -/
theorem failed_single_write_noop (cfg : Cfg) (s : St) (op : Val) (hs : singleWrite op = true)
    (he : (step cfg s op).2.isErr = true) :
    visible (step cfg s op).1 = visible s :=
  Proofs.C08.failed_single_write_noop cfg s op hs he

/-- … and the index tables are untouched. -/
theorem failed_single_write_indexes (cfg : Cfg) (s : St) (op : Val) (hs : singleWrite op = true)
    (he : (step cfg s op).2.isErr = true) :
    (step cfg s op).1.c.indexes.map (·.name) = s.c.indexes.map (·.name) ∧
    (step cfg s op).1.c.ttlIndexes.map (·.name) = s.c.ttlIndexes.map (·.name) :=
  Proofs.C08.failed_single_write_indexes cfg s op hs he

/-- non-vacuity: a multi-operator update whose LAST operator fails, after a valid `$set`, on a
    collection with two documents and a unique index -/
example : (step {} (run {} [
      .arr [.str "insert_one", .doc [("_id", .int 1), ("a", .int 1), ("l", .arr [.int 1])]],
      .arr [.str "insert_one", .doc [("_id", .int 2), ("a", .int 2)]],
      .arr [.str "create_index", .arr [.arr [.str "a", .int 1]], .doc [("unique", .bool true)]]]).2
    (.arr [.str "update_one", .doc [("_id", .int 1)],
           .doc [("$set", .doc [("a", .int 5)]), ("$pop", .doc [("l", .int 7)])], .bool false])).2.isErr
    = true := by decide +kernel

/-- Validation happens before any mutation. -/
theorem validation_before_mutation (cfg : Cfg) (now : Int) (c : Coll) (f u up : Val) (e : Err)
    (h : validateUpdate u = .error e) :
    stepColl cfg now c (.arr [.str "update_one", f, u, up]) = (c, .err e) ∧
    stepColl cfg now c (.arr [.str "update_many", f, u, up]) = (c, .err e) :=
  Proofs.C08.validation_before_mutation cfg now c f u up e h

/-- **Unordered insert_many applies every insert that succeeds on its own**: its final state is
    the state after issuing all inserts one at a time (a failed one changing nothing), provided
    every failure is a write error (anything else aborts the batch). -/
theorem unordered_all_successes (cfg : Cfg) (now : Int) (c : Coll) (ds : List Val)
    (hne : ds ≠ []) (hd : ds.all Val.isDoc = true)
    (hw : ∀ e, (stepColl cfg now c (.arr [.str "insert_many", .arr ds, .bool false])).2 ≠ .err e) :
    (stepColl cfg now c (.arr [.str "insert_many", .arr ds, .bool false])).1
      = seqInsert cfg now ds c :=
  Proofs.C08.unordered_all_successes cfg now c ds hne hd hw

/-- **Ordered insert_many applies exactly the operations before the first failure** (plus the
    traceless failed one): its final state is the one-at-a-time state of a prefix `ds.take k`, all
    inserts before position `k - 1` succeeded, and when `k ≤ ds.length` is not the whole list the
    insert at position `k - 1` failed. -/
theorem ordered_prefix (cfg : Cfg) (now : Int) (c : Coll) (ds : List Val)
    (hne : ds ≠ []) (hd : ds.all Val.isDoc = true) :
    ∃ k, k ≤ ds.length ∧
      (stepColl cfg now c (.arr [.str "insert_many", .arr ds, .bool true])).1
        = seqInsert cfg now (ds.take k) c ∧
      ((stepColl cfg now c (.arr [.str "insert_many", .arr ds, .bool true])).2.isErr = false →
        k = ds.length) :=
  Proofs.C08.ordered_prefix cfg now c ds hne hd

/-- The error of an ordered insert_many reports the failing position and the number of inserts
    that succeeded, which are the same number. -/
theorem ordered_error_details (cfg : Cfg) (now : Int) (c : Coll) (ds : List Val) (details : Val)
    (h : (stepColl cfg now c (.arr [.str "insert_many", .arr ds, .bool true])).2 = .bulkErr details) :
    ∃ k code, details = .doc [("writeErrors", .arr [.doc [("index", .int k), ("code", code)]]),
                              ("nInserted", .int k)] :=
  Proofs.C08.ordered_error_details cfg now c ds details h

end MongoModel.Props.C08
