/-
  Props.C07 — property theorems for C07 (the database stores values, not references: no
  aliasing in, out, or inside).  Only statements live here; lemmas are in Proofs/C07*.lean.

  Impl  = MongoModel.Heap: values with object identity, the copy primitives, the table
          `disciplineFor tz` (which primitives the code applies at which value-carrying position,
          for a client that reads naive datetimes — `copyDiscipline` — and for a `tz_aware` one,
          which rebuilds everything it reads once more; tied to /repo by the sharing-graph
          correspondence of harness/props/c07.py), and `step` (what a call does to the world —
          the store, what the caller holds, what the caller's cursors keep: their cached results
          and their copies of the query — given a table).
  Spec  = the invariant `Sep` itself (the property is a law about the implementation): no object
          twice in the store, nothing stored is held by the caller, nothing a cursor has cached is
          held by the caller or stored.
  D     = every well-formed step (`Step.wellFormed`: a step names final positions of the table and
          takes each value from where its position says — no condition on what is copied, none
          on which position is used where).  Since the fixes "projections and write results hand
          out copies, and leave the projection argument alone" (5ac4c3c), "$literal and array
          constants of a pipeline are handed out as copies" (aab0261), "a cursor hands out a
          copy of its cached result each time" (b973460), "a cursor copies the projection it is
          given" (b829c96) and "a cursor copies the sort it is given" (0c1b9e0) EVERY final position carries a deep copy (`final_positions_copy`): the
          theorems are stated for ALL operations and both kinds of client, cursor re-reads
          (rewind, indexing, re-iteration, clone, `cursor.distinct`) and the query a cursor keeps
          included, and no exclusion class is left.  The positions where the code does not copy (`aliasing_positions`) are
          three inner positions that a later position rebuilds.
-/
import Proofs.C07

namespace MongoModel.Props.C07
open MongoModel MongoModel.Heap

/-! ### fresh copies -/

/-- `rebuild` / `copyField` / `deepcopy` allocate only identities `≥ next`, each once, and return a
    value equal to their input when identities are forgotten. -/
theorem fresh_disjoint (p : Prim) (hp : p.deep = true) (v : HVal) (n : Nat) :
    n ≤ (p.run v n).2 ∧ (∀ a, a ∈ (p.run v n).1.ids → n ≤ a ∧ a < (p.run v n).2) ∧
    (p.run v n).1.ids.Nodup ∧ (p.run v n).1.erase = v.erase :=
  Proofs.C07.fresh_disjoint p hp v n

example : Prim.deep .rebuild = true ∧ Prim.deep .copyField = true ∧ Prim.deep .deepcopy = true := by
  decide

/-- the same for every chain of primitives that has a deep one in it (`[copyField, shallow]` of
    `distinct`, `[deepcopy, deepcopy]` of a `$set` list, …) -/
theorem fresh_chain (c : List Prim) (hc : chainDeep c = true) (v : HVal) (n : Nat) :
    n ≤ (runChain c v n).2 ∧ (∀ a, a ∈ (runChain c v n).1.ids → n ≤ a ∧ a < (runChain c v n).2) ∧
    (runChain c v n).1.ids.Nodup ∧ (runChain c v n).1.erase = v.erase :=
  Proofs.C07.fresh_chain c hc v n

example : chainDeep (copyDiscipline.disc .distinctVal) = true := by decide

/-! ### one step -/

/-- a world with two stored documents (one with an embedded-document `_id`), an update
    document the caller holds: `{'$set': {'s': {'p': [ … ]}}}`, and a cursor that has cached one
    document (an earlier state of the second one) -/
def sampleWorld : World :=
  { store := [.node 0 true [("_id", .node 1 true [("k", .atom (.int 1))]),
                            ("a", .node 2 false [("", .node 3 true [("x", .atom (.int 1))])])],
              .node 4 true [("_id", .atom (.int 2)), ("a", .node 5 false [])]],
    held := [.node 6 true [("$set", .node 7 true [("s", .node 8 true [("p", .node 9 false [])])])]],
    cache := [.node 10 true [("_id", .atom (.int 2)), ("a", .node 11 false [("", .node 12 true [])])]],
    next := 13 }

/-- `update_many({}, {'$set': {'s': {...}}})`: the update document is patched once, and each of
    the two stored documents receives its own deep copy of the operand -/
def sampleUpdateMany : Step :=
  .write [(.updTemp, 0, [])]
    [(0, ⟨[], false, [], [("s", .piece .setValDoc (.temp 0 [0, 0]))]⟩),
     (1, ⟨[], false, [], [("s", .piece .setValDoc (.temp 0 [0, 0]))]⟩)]
    [] []

/-- Separation is preserved, under ANY table, by every step in which every value that enters or
    leaves the store or a cursor's cache is deep-copied on the way or is a scalar (`Step.safe`),
    arguments being objects of the caller. -/
theorem step_sep_of_safe (T : Table) (w : World) (s : Step) (hsep : Sep w) (hb : Bounded w)
    (hs : s.safe T w = true) : Sep (step T w s) ∧ Bounded (step T w s) :=
  (Proofs.C07.invC_iff _).mpr
    (Proofs.C07.step_inv T w s ((Proofs.C07.invC_iff w).mp ⟨hsep, hb⟩) hs)

example : Sep sampleWorld ∧ Bounded sampleWorld ∧
    sampleUpdateMany.safe copyDiscipline sampleWorld = true := by decide +kernel

/-- **Separation is preserved by EVERY step of the code's table**: whatever well-formed step
    (any positions of any operation, any values — embedded-document `_id`s, projected arrays of
    sub-documents, a cursor computing its results, a cursor handing them out again, …) runs in a
    separated world, the world stays separated. -/
theorem step_sep (tz : Bool) (w : World) (s : Step) (hsep : Sep w) (hb : Bounded w)
    (hw : s.wellFormed = true) (hc : s.callerOwns w = true) :
    Sep (step (disciplineFor tz) w s) ∧ Bounded (step (disciplineFor tz) w s) :=
  step_sep_of_safe (disciplineFor tz) w s hsep hb (Proofs.C07.wellFormed_safe tz w s hw hc)

/-- `find({}, {'a': {'$slice': 1}})` on a document whose `_id` is an embedded document: the
    projection re-attaches `_id` and takes the array out of the stored document; the cursor keeps
    the projected document (it becomes entry 1 of the cache of `sampleWorld`) -/
def sampleProjectedFill : Step :=
  .fill [.node true [("_id", .piece .projId (.store 0 [0])),
                     ("a", .node false [("", .piece .projOpStored (.store 0 [1, 0]))])]]

/-- `next(cursor)`, and `cursor.rewind(); next(cursor)` / `cursor[0]`: the document the cursor
    of `sampleWorld` has cached is handed out -/
def sampleHandOut : Step := .read [.piece .cursorOut (.cache 0 [])]

/-- the same projected read when projections did not copy (`uncopiedProjectionTable` below): the
    stored objects themselves go to the caller -/
def sampleProjectedRead : Step :=
  .read [.node true [("_id", .piece .projId (.store 0 [0])),
                     ("a", .node false [("", .piece .projOpStored (.store 0 [1, 0]))])]]

example : Sep sampleWorld ∧ Bounded sampleWorld ∧ sampleProjectedFill.wellFormed = true ∧
    sampleProjectedFill.callerOwns sampleWorld = true ∧ sampleHandOut.wellFormed = true ∧
    sampleProjectedRead.wellFormed = true ∧ sampleUpdateMany.wellFormed = true := by decide +kernel

/-! ### operations whose row copies at every position -/

/-- **`step_sep` for every operation whose discipline row uses a copying primitive at every
    position** (any table): a step that stays within the final positions of such an operation
    preserves separation. -/
theorem op_step_sep (T : Table) (op : Op) (hop : op.copying T = true) (w : World) (s : Step)
    (hsep : Sep w) (hb : Bounded w) (hw : s.within (op.rows.filter Pos.final) = true)
    (hc : s.callerOwns w = true) : Sep (step T w s) ∧ Bounded (step T w s) :=
  step_sep_of_safe T w s hsep hb
    (Proofs.C07.within_safe T _ (Proofs.C07.copying_rows T op hop) w s hw hc)

example : Op.updateMany.copying copyDiscipline = true ∧ Sep sampleWorld ∧ Bounded sampleWorld ∧
    sampleUpdateMany.within (Op.updateMany.rows.filter Pos.final) = true ∧
    sampleUpdateMany.callerOwns sampleWorld = true := by decide +kernel

/-- Under the real table EVERY operation — the cursor hand-outs `next` / `cursor[i]` /
    `cursor.distinct` included — copies at every final position, whatever its flow (the
    caller → caller and cache → caller positions are no exception any more). -/
theorem copying_ops (tz : Bool) : Op.all.filter (Op.copying (disciplineFor tz)) = Op.all := by
  cases tz <;> decide

/-- The positions where the code does not copy: three inner positions (the document handed to
    `_insert`, the seed and `_id` of an upsert — all rebuilt by `_insert` before they are stored).
    (`agg-literal-alias` and `cursor-cache-alias` were two more, both caller → caller, and the
    projection a cursor keeps a third, argument → cursor; repaired in /repo: pipeline constants
    and cached cursor results are copied on the way out, the projection on the way in.)
    The same for a `tz_aware` client. -/
theorem aliasing_positions (tz : Bool) :
    (disciplineFor tz).aliasing = [.insertArg, .upsertSeed, .upsertId] := by
  cases tz <;> decide

/-- none of them is a final position: whatever lands in the store, in a cursor's cache or with the
    caller has been deep-copied on the way -/
theorem final_positions_copy (tz : Bool) :
    (∀ p, p ∈ (disciplineFor tz).aliasing → p.final = false) ∧
    (∀ p, p.final = true → chainDeep ((disciplineFor tz).disc p) = true) := by
  constructor
  · cases tz <;> decide
  · intro p; cases tz <;> cases p <;> decide

/-! ### histories -/

/-- a history: insert two documents (the second call writes `_id` into the caller's dict), an
    `update_many` carrying a container, a single-document `$push` into that container, a read
    without projection, and the caller scribbling on what it got back -/
def sampleHistory : List Step :=
  [ .pass [.node 0 true [("_id", .atom (.int 1)), ("a", .node 1 false [])]],
    .write [] [] [(.piece .insertArg (.held 0 []), .insertDoc)] [],
    .pass [.node 4 true [("a", .node 5 false [])]],
    .calleeWrite 4 [] [("_id", .oid 0)],
    .write [] [] [(.piece .insertArg (.held 1 []), .insertDoc)] [],
    .pass [.node 9 true [("$set", .node 10 true [("s", .node 11 true [("p", .node 12 false [])])])]],
    .write [(.updTemp, 2, [])]
      [(0, ⟨[], false, [], [("s", .piece .setValDoc (.temp 0 [0, 0]))]⟩),
       (1, ⟨[], false, [], [("s", .piece .setValDoc (.temp 0 [0, 0]))]⟩)] [] [],
    .pass [.node 30 true [("$push", .node 31 true [("s.p", .node 32 true [("x", .atom (.int 1))])])]],
    .write [(.updTemp, 3, [])]
      [(0, ⟨[2, 0], false, [], [("", .piece .pushVal (.temp 0 [0, 0]))]⟩)] [] [],
    .fill [.piece .findDoc (.store 0 []), .piece .findDoc (.store 1 [])],
    .read [.piece .cursorOut (.cache 0 []), .piece .cursorOut (.cache 1 [])],
    .scribble 1 [] [("", .str "scribbled")] ]

/-- the caller keeps the cursor of that read: it edits the first document it got, rewinds and
    reads again, indexes the cursor, asks it for the distinct values of `s`, and an update runs in
    between -/
def sampleCursorHistory : List Step :=
  sampleHistory ++
  [ .scribble 48 [] [("marker", .null)],
    .read [.piece .cursorOut (.cache 0 []), .piece .cursorOut (.cache 1 [])],
    .write [(.updTemp, 3, [])]
      [(1, ⟨[2, 0], false, [], [("", .piece .pushVal (.temp 0 [0, 0]))]⟩)] [] [],
    .read [.piece .cursorOut (.cache 1 [])],
    .read [.piece .distinctVal (.cache 0 [2]), .piece .distinctVal (.cache 1 [2])] ]

/-- **Every world reachable through the API is separated** (induction over histories): any
    history of well-formed steps, of any operations, under the code's table. -/
theorem reachable_sep (tz : Bool) (steps : List Step) (h : wfRun (disciplineFor tz) World.empty steps = true) :
    Sep (run (disciplineFor tz) World.empty steps) ∧ Bounded (run (disciplineFor tz) World.empty steps) :=
  (Proofs.C07.invC_iff _).mpr (Proofs.C07.run_inv (disciplineFor tz) steps _ Proofs.C07.invC_empty
    (Proofs.C07.wfRun_safeRun tz steps _ h))

example : wfRun copyDiscipline World.empty
    (sampleCursorHistory ++ [sampleProjectedFill, .read [.piece .cursorOut (.cache 2 [])]]) = true ∧
    48 ∈ idsL (run copyDiscipline World.empty sampleHistory).held := by
  decide +kernel

/-- the same from any separated world -/
theorem reachable_sep_from (tz : Bool) (w : World) (steps : List Step) (hsep : Sep w) (hb : Bounded w)
    (h : wfRun (disciplineFor tz) w steps = true) :
    Sep (run (disciplineFor tz) w steps) ∧ Bounded (run (disciplineFor tz) w steps) :=
  (Proofs.C07.invC_iff _).mpr
    (Proofs.C07.run_inv (disciplineFor tz) steps w ((Proofs.C07.invC_iff w).mp ⟨hsep, hb⟩)
      (Proofs.C07.wfRun_safeRun tz steps w h))

example : Sep sampleWorld ∧ Bounded sampleWorld ∧
    wfRun copyDiscipline sampleWorld [sampleUpdateMany, sampleProjectedFill, sampleHandOut,
      .read [.piece .cursorOut (.cache 1 [])]] = true := by
  decide +kernel

/-- under any table, for histories of steps that copy (used below to show which copies are
    needed) -/
theorem reachable_sep_of_safe (T : Table) (w : World) (steps : List Step) (hsep : Sep w)
    (hb : Bounded w) (h : safeRun T w steps = true) : Sep (run T w steps) ∧ Bounded (run T w steps) :=
  (Proofs.C07.invC_iff _).mpr
    (Proofs.C07.run_inv T steps w ((Proofs.C07.invC_iff w).mp ⟨hsep, hb⟩) h)

example : Sep sampleWorld ∧ Bounded sampleWorld ∧
    safeRun copyDiscipline sampleWorld [sampleUpdateMany, .fill [.piece .findDoc (.store 1 [])],
      .read [.piece .cursorOut (.cache 1 [])]] = true := by
  decide +kernel

/-! ### what separation buys -/

/-- **Mutating anything the caller holds never changes what is stored** — whatever the
    mutation `f` does to the object. -/
theorem mutate_held_noop (w : World) (id : Nat) (f : HVal → HVal) (hsep : Sep w)
    (hid : id ∈ idsL w.held) : (w.mutate id f).store = w.store :=
  Proofs.C07.mutate_held_noop w id f hsep hid

example : Sep sampleWorld ∧ 8 ∈ idsL sampleWorld.held := by decide +kernel

/-- … **nor what a cursor has cached**: whatever the caller does to the documents a cursor gave
    it, the cursor's own copies stay as they were … -/
theorem mutate_held_keeps_cache (w : World) (id : Nat) (f : HVal → HVal) (hsep : Sep w)
    (hid : id ∈ idsL w.held) : (w.mutate id f).cache = w.cache :=
  Proofs.C07.mutate_held_keeps_cache w id f hsep hid

/-- … so that **reading the cursor again** (`rewind()` and iterate, `cursor[i]`) **gives the value
    it gave the first time**, whatever happened to the objects handed out before: the result is the
    cached value, identities forgotten. -/
theorem reread_unaffected (tz : Bool) (w : World) (id : Nat) (f : HVal → HVal) (hsep : Sep w)
    (hid : id ∈ idsL w.held) (i : Nat) (p : List Nat) :
    ∃ r, (step (disciplineFor tz) (w.mutate id f) (.read [.piece .cursorOut (.cache i p)])).held
        = (w.mutate id f).held ++ [r] ∧ r.erase = (getAt w.cache i p).erase :=
  Proofs.C07.reread_unaffected tz w id f hsep hid i p

example : Sep (step copyDiscipline sampleWorld sampleHandOut) ∧
    13 ∈ idsL (step copyDiscipline sampleWorld sampleHandOut).held := by decide +kernel

/-- Together, over histories: **in every world reachable through the API, nothing the caller does
    to an object it holds — an argument it passed, a result it was given, by `find`, by a cursor
    read once or again, by `distinct`, by `aggregate` — changes what is stored or what a cursor
    will hand out next.** -/
theorem reachable_caller_cannot_reach (tz : Bool) (steps : List Step)
    (h : wfRun (disciplineFor tz) World.empty steps = true) (id : Nat) (f : HVal → HVal)
    (hid : id ∈ idsL (run (disciplineFor tz) World.empty steps).held) :
    ((run (disciplineFor tz) World.empty steps).mutate id f).store
      = (run (disciplineFor tz) World.empty steps).store ∧
    ((run (disciplineFor tz) World.empty steps).mutate id f).cache
      = (run (disciplineFor tz) World.empty steps).cache :=
  ⟨mutate_held_noop _ id f (reachable_sep tz steps h).1 hid,
   mutate_held_keeps_cache _ id f (reachable_sep tz steps h).1 hid⟩

example : wfRun copyDiscipline World.empty sampleCursorHistory = true ∧
    48 ∈ idsL (run copyDiscipline World.empty sampleCursorHistory).held ∧
    (run copyDiscipline World.empty sampleCursorHistory).cache.length = 2 := by decide +kernel

/-- **An in-place edit of a stored document** (an update through the API) **shows neither in what
    the caller holds nor in what a cursor has cached**. -/
theorem mutate_stored_keeps_rest (w : World) (id : Nat) (f : HVal → HVal) (hsep : Sep w)
    (hid : id ∈ idsL w.store) :
    (w.mutate id f).held = w.held ∧ (w.mutate id f).cache = w.cache :=
  Proofs.C07.mutate_stored_keeps_rest w id f hsep hid

example : Sep sampleWorld ∧ 3 ∈ idsL sampleWorld.store := by decide +kernel

/-- **Every result is the caller's own**: the objects a read hands out (query results, what a
    cursor gives again, aggregation output with the constants of its pipeline, distinct values)
    are new — none of them is an object that existed before the call, none occurs twice.
    (The model sends every travelling value through its own copy.  A pipeline that puts ONE value
    of a document at two places of a result — `$addFields: {q: '$b', r: '$b'}` — returns that
    object twice inside the one result; how a stage assembles a document is not modelled here,
    the positions `aggDoc` / `aggAddFields` / `aggUnwind` stand for whole output documents.) -/
theorem results_fresh (tz : Bool) (w : World) (results : List Tpl)
    (hw : (Step.read results).wellFormed = true) :
    ∃ new, (step (disciplineFor tz) w (.read results)).held = w.held ++ new ∧ (idsL new).Nodup ∧
      ∀ a, a ∈ idsL new → w.next ≤ a ∧ a < (step (disciplineFor tz) w (.read results)).next :=
  Proofs.C07.read_fresh tz w results hw

example : (Step.read [.piece .cursorOut (.cache 0 []), .piece .cursorOut (.cache 0 []),
    .piece .aggLiteral (.held 0 [0]), .piece .distinctVal (.cache 0 [1])]).wellFormed = true := by
  decide +kernel

/-- … hence editing one of them changes nothing else: not the store, not a cursor's cache, not
    any object the caller held before the call (another result of an earlier read of the same
    cursor, the pipeline whose constant appears in it, …). -/
theorem result_private (tz : Bool) (w : World) (hb : Bounded w) (results : List Tpl)
    (hw : (Step.read results).wellFormed = true) (id : Nat) (f : HVal → HVal)
    (hid : id ∈ idsL ((step (disciplineFor tz) w (.read results)).held.drop w.held.length)) :
    ((step (disciplineFor tz) w (.read results)).mutate id f).store = w.store ∧
    ((step (disciplineFor tz) w (.read results)).mutate id f).cache = w.cache ∧
    ((step (disciplineFor tz) w (.read results)).mutate id f).held.take w.held.length = w.held :=
  Proofs.C07.result_private tz w hb results hw id f hid

example : Bounded sampleWorld ∧ sampleHandOut.wellFormed = true ∧
    14 ∈ idsL ((step copyDiscipline sampleWorld sampleHandOut).held.drop sampleWorld.held.length) := by
  decide +kernel

/-- **An in-place edit of one stored document never shows in another**: the object edited lies
    in document `i`, every other stored document stays as it is. -/
theorem mutate_one_doc_only (w : World) (id : Nat) (f : HVal → HVal) (hsep : Sep w)
    (i : Nat) (d : HVal) (hd : w.store[i]? = some d) (hid : id ∈ d.ids) :
    ∀ j, j ≠ i → (w.mutate id f).store[j]? = w.store[j]? :=
  Proofs.C07.mutate_one_doc_only w id f hsep i d hd hid

example : ∃ d, sampleWorld.store[0]? = some d ∧ 3 ∈ d.ids := ⟨_, rfl, by decide +kernel⟩

/-- Without the per-document copy separation is lost: the table in which a `$set` operand goes
    into every matched document as it is (the behaviour before the fix "values carried by update
    operators are copied for each updated document") puts one object into two documents. -/
def sharedOperandTable : Table where
  disc
    | .setValDoc => []
    | p => copyDiscipline.disc p

theorem per_document_copy_needed :
    ¬ Sep (step sharedOperandTable sampleWorld sampleUpdateMany) ∧
    Sep (step copyDiscipline sampleWorld sampleUpdateMany) := by decide +kernel

/-- Likewise for the way out: the table in which a projection re-attaches the stored `_id` as it
    is and takes a `$slice`d field out of the stored document (the behaviour before the fix
    5ac4c3c) hands stored objects to the caller — and the caller editing what `find_one` returned
    then edits the stored document. -/
def uncopiedProjectionTable : Table where
  disc
    | .projId => [.noCopy]
    | .projOpStored => [.noCopy]
    | p => copyDiscipline.disc p

theorem projection_copy_needed :
    ¬ Sep (step uncopiedProjectionTable sampleWorld sampleProjectedRead) ∧
    ((step uncopiedProjectionTable sampleWorld sampleProjectedRead).mutate 1
        (scribbleFn [] [("marker", .null)])).store
      ≠ (step uncopiedProjectionTable sampleWorld sampleProjectedRead).store ∧
    Sep (step copyDiscipline sampleWorld sampleProjectedRead) ∧
    ((step copyDiscipline sampleWorld sampleProjectedRead).mutate 14
        (scribbleFn [] [("marker", .null)])).store
      = (step copyDiscipline sampleWorld sampleProjectedRead).store := by
  refine ⟨by decide +kernel, ?_, by decide +kernel, ?_⟩
  · intro h
    have := congrArg (fun st => st.map HVal.size) h
    revert this
    decide +kernel
  · exact mutate_held_noop _ 14 _ (by decide +kernel) (by decide +kernel)

/-- And for what a cursor keeps: the table in which a cursor hands out its cached documents
    themselves (the behaviour before the fix "a cursor hands out a copy of its cached result each
    time", b973460; known finding `cursor-cache-alias` until then) puts the cursor's objects into
    the caller's hands — the caller editing what `next(cursor)` returned edits the cache, and
    `cursor.rewind()` / `cursor[0]` then show the edit.  With the code's table the caller gets
    objects of its own and the cache stays as it was. -/
def uncopiedCursorTable : Table where
  disc
    | .cursorOut => [.noCopy]
    | p => copyDiscipline.disc p

theorem cursor_copy_needed :
    ¬ Sep (step uncopiedCursorTable sampleWorld sampleHandOut) ∧
    ((step uncopiedCursorTable sampleWorld sampleHandOut).mutate 11
        (scribbleFn [] [("", .str "changed by the caller")])).cache
      ≠ (step uncopiedCursorTable sampleWorld sampleHandOut).cache ∧
    Sep (step copyDiscipline sampleWorld sampleHandOut) ∧
    ((step copyDiscipline sampleWorld sampleHandOut).mutate 14
        (scribbleFn [] [("", .str "changed by the caller")])).cache
      = (step copyDiscipline sampleWorld sampleHandOut).cache := by
  refine ⟨by decide +kernel, ?_, by decide +kernel, ?_⟩
  · intro h
    have := congrArg (fun st => st.map HVal.size) h
    revert this
    decide +kernel
  · exact mutate_held_keeps_cache _ 14 _ (by decide +kernel) (by decide +kernel)

/-- And for the query a cursor keeps: `find({}, {'a': {'$slice': 1}})` — the caller passes the
    projection, the cursor keeps a deep copy of it (`Cursor._projection`). -/
def sampleFind : List Step :=
  [ .pass [.node 20 true [("a", .node 21 true [("$slice", .atom (.int 1))])]],
    .fill [.piece .cursorProj (.held 1 [])] ]

/-- The table in which the cursor keeps the caller's projection object itself (the behaviour
    before the fix "a cursor copies the projection it is given", b829c96) puts an object of the
    caller into the cursor: the caller editing its dictionary after `find` returned edits what
    the cursor will read when it computes its results (first iteration, `clone()`, `sort()`).
    With the code's table the cursor's copy stays as it was. -/
def keptProjectionTable : Table where
  disc
    | .cursorProj => [.noCopy]
    | p => copyDiscipline.disc p

theorem query_copy_needed :
    ¬ Sep (run keptProjectionTable sampleWorld sampleFind) ∧
    ((run keptProjectionTable sampleWorld sampleFind).mutate 21
        (scribbleFn [] [("$elemMatch", .null)])).cache
      ≠ (run keptProjectionTable sampleWorld sampleFind).cache ∧
    Sep (run copyDiscipline sampleWorld sampleFind) ∧
    ((run copyDiscipline sampleWorld sampleFind).mutate 21
        (scribbleFn [] [("$elemMatch", .null)])).cache
      = (run copyDiscipline sampleWorld sampleFind).cache := by
  refine ⟨by decide +kernel, ?_, by decide +kernel, ?_⟩
  · intro h
    have := congrArg (fun st => st.map HVal.size) h
    revert this
    decide +kernel
  · exact mutate_held_keeps_cache _ 21 _ (by decide +kernel) (by decide +kernel)

example : wfRun copyDiscipline sampleWorld
    (sampleFind ++ [.fill [.piece .cloneProj (.cache 1 []), .piece .cursorSpec (.held 1 [])]]) = true := by
  decide +kernel

/-- Likewise for the sort list: `find({}, sort=[('a', 1)])` — the cursor keeps a deep copy of the
    list (`Cursor._sort`; the pairs are immutable, the list is the object that can be edited). -/
def sampleFindSorted : List Step :=
  [ .pass [.node 20 false [("", .atom (.str "a, 1"))]],
    .fill [.piece .cursorSort (.held 1 [])] ]

/-- The table in which the cursor keeps the caller's sort list itself (the behaviour before the
    fix "a cursor copies the sort it is given", 0c1b9e0; `cursor-sort-by-reference`): the caller
    editing its list after `find` returned edits the order the cursor will give. -/
def keptSortTable : Table where
  disc
    | .cursorSort => [.noCopy]
    | p => copyDiscipline.disc p

theorem sort_copy_needed :
    ¬ Sep (run keptSortTable sampleWorld sampleFindSorted) ∧
    ((run keptSortTable sampleWorld sampleFindSorted).mutate 20
        (scribbleFn [] [("", .str "b, -1")])).cache
      ≠ (run keptSortTable sampleWorld sampleFindSorted).cache ∧
    Sep (run copyDiscipline sampleWorld sampleFindSorted) ∧
    ((run copyDiscipline sampleWorld sampleFindSorted).mutate 20
        (scribbleFn [] [("", .str "b, -1")])).cache
      = (run copyDiscipline sampleWorld sampleFindSorted).cache := by
  refine ⟨by decide +kernel, ?_, by decide +kernel, ?_⟩
  · intro h
    have := congrArg (fun st => st.map HVal.size) h
    revert this
    decide +kernel
  · exact mutate_held_keeps_cache _ 20 _ (by decide +kernel) (by decide +kernel)

example : wfRun copyDiscipline sampleWorld
    (sampleFindSorted ++ [.fill [.piece .cloneSort (.cache 1 [])]]) = true := by decide +kernel

/-! ### arguments -/

/-- **Calls do not modify their arguments**: writes, reads and the making of a cursor (which keeps
    copies of the filter, the sort list and the projection it is given) leave every object the caller holds
    exactly as it was (passing further arguments only adds to what is held). -/
theorem args_unchanged (T : Table) (w : World) (s : Step)
    (hs : match s with | .calleeWrite .. => False | .scribble .. => False | _ => True) :
    ∀ (i : Nat) (v : HVal), w.held[i]? = some v → (step T w s).held[i]? = some v :=
  Proofs.C07.held_prefix T w s hs

example : (match sampleUpdateMany with | .calleeWrite .. => False | .scribble .. => False | _ => True) :=
  trivial

example : (match Step.fill [.piece .cursorSpec (.held 0 []), .piece .cursorProj (.held 0 [0]),
      .piece .cursorSort (.held 0 [0, 0])] with
    | .calleeWrite .. => False | .scribble .. => False | _ => True) := trivial

/-- The one kind of step by which a call edits an argument touches only the objects that contain
    the edited container … -/
theorem callee_write_only (T : Table) (w : World) (id : Nat) (keep : List (Option String))
    (add : List (String × Val)) :
    ∀ (i : Nat) (v : HVal), w.held[i]? = some v → id ∉ v.ids →
      (step T w (.calleeWrite id keep add)).held[i]? = some v :=
  Proofs.C07.calleeWrite_only T w id keep add

example : ∃ v, sampleWorld.held[0]? = some v ∧ 3 ∉ v.ids := ⟨_, rfl, by decide +kernel⟩

/-- … and only one argument position of the API has such a step: the document of an insert (the
    documented `_id` write).  Every other argument of every operation is left alone. -/
theorem arg_effects (op : Op) (role : ArgRole) :
    argEffect op role = .untouched ∨
    ((op = .insertOne ∨ op = .insertMany) ∧ role = .document ∧ argEffect op role = .addsId) := by
  cases op <;> cases role <;> simp [argEffect]

end MongoModel.Props.C07
