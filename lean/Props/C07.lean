/-
  Props.C07 — property theorems for C07 (the database stores values, not references: no
  aliasing in, out, or inside).  Only statements live here; lemmas are in Proofs/C07*.lean.

  Impl  = MongoModel.Heap: values with object identity, the copy primitives, the table
          `copyDiscipline` (which primitive the code applies at which value-carrying position;
          tied to /repo by the sharing-graph correspondence of harness/props/c07.py), and
          `step` (what a call does to the world, given a table).
  Spec  = the invariant `Sep` itself (the property is a law about the implementation).
  D     = every well-formed step (`Step.wellFormed`: a step names final positions of the table and
          takes each value from where its position says — no condition on what is copied).  Since
          the fix "projections and write results hand out copies, and leave the projection
          argument alone" (5ac4c3c) no position between the store and the caller is left without
          a copy, so the theorems are stated for ALL operations.  The positions where the code
          still does not copy (`aliasing_positions`) are inner positions that a later position
          rebuilds, and the caller → caller class `cursor-cache-alias` (known finding; the store
          is not involved, `Sep` is not affected; `agg-literal-alias` was repaired in /repo).
-/
import Proofs.C07

namespace MongoModel.Props.C07
open MongoModel MongoModel.Heap

/-! ### fresh copies -/

/-- `rebuild` / `copyField` / `deepcopy` allocate only identities `≥ next`, each once, and return a
    value equal to their input when identities are forgotten. -/
theorem fresh_disjoint (p : Prim) (hp : p.deep = true) (v : HVal) (n : Nat) :
    n ≤ (p.run v n).2 ∧ (∀ a, a ∈ (p.run v n).1.ids → n ≤ a ∧ a < (p.run v n).2) ∧
    (p.run v n).1.ids.Nodup ∧ (p.run v n).1.erase = v.erase :=
  Proofs.C07.fresh_disjoint p hp v n

example : Prim.deep .rebuild = true ∧ Prim.deep .copyField = true ∧ Prim.deep .deepcopy = true := by
  decide

/-- the same for every chain of primitives that has a deep one in it (`[copyField, shallow]` of
    `distinct`, `[deepcopy, deepcopy]` of a `$set` list, …) -/
theorem fresh_chain (c : List Prim) (hc : chainDeep c = true) (v : HVal) (n : Nat) :
    n ≤ (runChain c v n).2 ∧ (∀ a, a ∈ (runChain c v n).1.ids → n ≤ a ∧ a < (runChain c v n).2) ∧
    (runChain c v n).1.ids.Nodup ∧ (runChain c v n).1.erase = v.erase :=
  Proofs.C07.fresh_chain c hc v n

example : chainDeep (copyDiscipline.disc .distinctVal) = true := by decide

/-! ### one step -/

/-- a world with two stored documents (one with an embedded-document `_id`) and an update
    document the caller holds: `{'$set': {'s': {'p': [ … ]}}}` -/
def sampleWorld : World :=
  { store := [.node 0 true [("_id", .node 1 true [("k", .atom (.int 1))]),
                            ("a", .node 2 false [("", .node 3 true [("x", .atom (.int 1))])])],
              .node 4 true [("_id", .atom (.int 2)), ("a", .node 5 false [])]],
    held := [.node 6 true [("$set", .node 7 true [("s", .node 8 true [("p", .node 9 false [])])])]],
    next := 10 }

/-- `update_many({}, {'$set': {'s': {...}}})`: the update document is patched once, and each of
    the two stored documents receives its own deep copy of the operand -/
def sampleUpdateMany : Step :=
  .write [(.updTemp, 0, [])]
    [(0, ⟨[], false, [], [("s", .piece .setValDoc (.temp 0 [0, 0]))]⟩),
     (1, ⟨[], false, [], [("s", .piece .setValDoc (.temp 0 [0, 0]))]⟩)]
    [] []

/-- Separation is preserved, under ANY table, by every step in which every value that enters or
    leaves the store is deep-copied on the way or is a scalar (`Step.safe`), arguments being
    objects of the caller. -/
theorem step_sep_of_safe (T : Table) (w : World) (s : Step) (hsep : Sep w) (hb : Bounded w)
    (hs : s.safe T w = true) : Sep (step T w s) ∧ Bounded (step T w s) :=
  (Proofs.C07.invC_iff _).mpr
    (Proofs.C07.step_inv T w s ((Proofs.C07.invC_iff w).mp ⟨hsep, hb⟩) hs)

example : Sep sampleWorld ∧ Bounded sampleWorld ∧
    sampleUpdateMany.safe copyDiscipline sampleWorld = true := by decide +kernel

/-- **Separation is preserved by EVERY step of the code's table**: whatever well-formed step
    (any positions of any operation, any values — embedded-document `_id`s, projected arrays of
    sub-documents, …) runs in a separated world, the world stays separated. -/
theorem step_sep (w : World) (s : Step) (hsep : Sep w) (hb : Bounded w)
    (hw : s.wellFormed = true) (hc : s.callerOwns w = true) :
    Sep (step copyDiscipline w s) ∧ Bounded (step copyDiscipline w s) :=
  step_sep_of_safe copyDiscipline w s hsep hb (Proofs.C07.wellFormed_safe w s hw hc)

/-- `find_one({}, {'a': {'$slice': 1}})` on a document whose `_id` is an embedded document: the
    projection re-attaches `_id` and takes the array out of the stored document -/
def sampleProjectedRead : Step :=
  .read [.node true [("_id", .piece .projId (.store 0 [0])),
                     ("a", .node false [("", .piece .projOpStored (.store 0 [1, 0]))])]]

example : Sep sampleWorld ∧ Bounded sampleWorld ∧ sampleProjectedRead.wellFormed = true ∧
    sampleProjectedRead.callerOwns sampleWorld = true ∧
    sampleUpdateMany.wellFormed = true := by decide +kernel

/-! ### operations whose row copies at every position -/

/-- **`step_sep` for every operation whose discipline row uses a copying primitive at every
    position** (any table): a step that stays within the final positions of such an operation
    preserves separation. -/
theorem op_step_sep (T : Table) (op : Op) (hop : op.copying T = true) (w : World) (s : Step)
    (hsep : Sep w) (hb : Bounded w) (hw : s.within (op.rows.filter Pos.final) = true)
    (hc : s.callerOwns w = true) : Sep (step T w s) ∧ Bounded (step T w s) :=
  step_sep_of_safe T w s hsep hb
    (Proofs.C07.within_safe T _ (Proofs.C07.copying_rows T op hop) w s hw hc)

example : Op.updateMany.copying copyDiscipline = true ∧ Sep sampleWorld ∧ Bounded sampleWorld ∧
    sampleUpdateMany.within (Op.updateMany.rows.filter Pos.final) = true ∧
    sampleUpdateMany.callerOwns sampleWorld = true := by decide +kernel

/-- Under the real table EVERY operation copies at every final position that touches the
    store. -/
theorem copying_ops : Op.all.filter (Op.copying copyDiscipline) = Op.all := by decide

/-- The positions where the code does not copy: three inner positions (the document handed to
    `_insert`, the seed and `_id` of an upsert — all rebuilt by `_insert` before they are stored)
    and the caller → caller class `cursor-cache-alias` (known finding; the store is not involved).
    (`agg-literal-alias` was a second one; repaired in /repo: pipeline constants are copied.) -/
theorem aliasing_positions :
    copyDiscipline.aliasing = [.insertArg, .upsertSeed, .upsertId, .cursorCache] := by
  decide

/-- none of them lies between the store and the caller -/
theorem no_store_caller_alias :
    ∀ p, p ∈ copyDiscipline.aliasing → p.final = false ∨ p.flow = .callerToCaller := by decide

/-! ### histories -/

/-- a history: insert two documents (the second call writes `_id` into the caller's dict), an
    `update_many` carrying a container, a single-document `$push` into that container, a read
    without projection, and the caller scribbling on what it got back -/
def sampleHistory : List Step :=
  [ .pass [.node 0 true [("_id", .atom (.int 1)), ("a", .node 1 false [])]],
    .write [] [] [(.piece .insertArg (.held 0 []), .insertDoc)] [],
    .pass [.node 4 true [("a", .node 5 false [])]],
    .calleeWrite 4 [] [("_id", .oid 0)],
    .write [] [] [(.piece .insertArg (.held 1 []), .insertDoc)] [],
    .pass [.node 9 true [("$set", .node 10 true [("s", .node 11 true [("p", .node 12 false [])])])]],
    .write [(.updTemp, 2, [])]
      [(0, ⟨[], false, [], [("s", .piece .setValDoc (.temp 0 [0, 0]))]⟩),
       (1, ⟨[], false, [], [("s", .piece .setValDoc (.temp 0 [0, 0]))]⟩)] [] [],
    .pass [.node 30 true [("$push", .node 31 true [("s.p", .node 32 true [("x", .atom (.int 1))])])]],
    .write [(.updTemp, 3, [])]
      [(0, ⟨[2, 0], false, [], [("", .piece .pushVal (.temp 0 [0, 0]))]⟩)] [] [],
    .read [.piece .findDoc (.store 0 []), .piece .findDoc (.store 1 [])],
    .scribble 1 [] [("", .str "scribbled")] ]

/-- **Every world reachable through the API is separated** (induction over histories): any
    history of well-formed steps, of any operations, under the code's table. -/
theorem reachable_sep (steps : List Step) (h : wfRun copyDiscipline World.empty steps = true) :
    Sep (run copyDiscipline World.empty steps) ∧ Bounded (run copyDiscipline World.empty steps) :=
  (Proofs.C07.invC_iff _).mpr (Proofs.C07.run_inv copyDiscipline steps _ Proofs.C07.invC_empty
    (Proofs.C07.wfRun_safeRun steps _ h))

example : wfRun copyDiscipline World.empty (sampleHistory ++ [sampleProjectedRead]) = true := by
  decide +kernel

/-- the same from any separated world -/
theorem reachable_sep_from (w : World) (steps : List Step) (hsep : Sep w) (hb : Bounded w)
    (h : wfRun copyDiscipline w steps = true) :
    Sep (run copyDiscipline w steps) ∧ Bounded (run copyDiscipline w steps) :=
  (Proofs.C07.invC_iff _).mpr
    (Proofs.C07.run_inv copyDiscipline steps w ((Proofs.C07.invC_iff w).mp ⟨hsep, hb⟩)
      (Proofs.C07.wfRun_safeRun steps w h))

example : Sep sampleWorld ∧ Bounded sampleWorld ∧
    wfRun copyDiscipline sampleWorld [sampleUpdateMany, sampleProjectedRead] = true := by
  decide +kernel

/-- under any table, for histories of steps that copy (used below to show which copies are
    needed) -/
theorem reachable_sep_of_safe (T : Table) (w : World) (steps : List Step) (hsep : Sep w)
    (hb : Bounded w) (h : safeRun T w steps = true) : Sep (run T w steps) ∧ Bounded (run T w steps) :=
  (Proofs.C07.invC_iff _).mpr
    (Proofs.C07.run_inv T steps w ((Proofs.C07.invC_iff w).mp ⟨hsep, hb⟩) h)

example : Sep sampleWorld ∧ Bounded sampleWorld ∧
    safeRun copyDiscipline sampleWorld [sampleUpdateMany, .read [.piece .findDoc (.store 1 [])]] = true := by
  decide +kernel

/-! ### what separation buys -/

/-- **Mutating anything the caller holds never changes what is stored** — whatever the
    mutation `f` does to the object. -/
theorem mutate_held_noop (w : World) (id : Nat) (f : HVal → HVal) (hsep : Sep w)
    (hid : id ∈ idsL w.held) : (w.mutate id f).store = w.store :=
  Proofs.C07.mutate_held_noop w id f hsep hid

example : Sep sampleWorld ∧ 8 ∈ idsL sampleWorld.held := by decide +kernel

/-- **An in-place edit of one stored document never shows in another**: the object edited lies
    in document `i`, every other stored document stays as it is. -/
theorem mutate_one_doc_only (w : World) (id : Nat) (f : HVal → HVal) (hsep : Sep w)
    (i : Nat) (d : HVal) (hd : w.store[i]? = some d) (hid : id ∈ d.ids) :
    ∀ j, j ≠ i → (w.mutate id f).store[j]? = w.store[j]? :=
  Proofs.C07.mutate_one_doc_only w id f hsep i d hd hid

example : ∃ d, sampleWorld.store[0]? = some d ∧ 3 ∈ d.ids := ⟨_, rfl, by decide +kernel⟩

/-- Without the per-document copy separation is lost: the table in which a `$set` operand goes
    into every matched document as it is (the behaviour before the fix "values carried by update
    operators are copied for each updated document") puts one object into two documents. -/
def sharedOperandTable : Table where
  disc
    | .setValDoc => []
    | p => copyDiscipline.disc p

theorem per_document_copy_needed :
    ¬ Sep (step sharedOperandTable sampleWorld sampleUpdateMany) ∧
    Sep (step copyDiscipline sampleWorld sampleUpdateMany) := by decide +kernel

/-- Likewise for the way out: the table in which a projection re-attaches the stored `_id` as it
    is and takes a `$slice`d field out of the stored document (the behaviour before the fix
    5ac4c3c) hands stored objects to the caller — and the caller editing what `find_one` returned
    then edits the stored document. -/
def uncopiedProjectionTable : Table where
  disc
    | .projId => [.noCopy]
    | .projOpStored => [.noCopy]
    | p => copyDiscipline.disc p

theorem projection_copy_needed :
    ¬ Sep (step uncopiedProjectionTable sampleWorld sampleProjectedRead) ∧
    ((step uncopiedProjectionTable sampleWorld sampleProjectedRead).mutate 1
        (scribbleFn [] [("marker", .null)])).store
      ≠ (step uncopiedProjectionTable sampleWorld sampleProjectedRead).store ∧
    Sep (step copyDiscipline sampleWorld sampleProjectedRead) ∧
    ((step copyDiscipline sampleWorld sampleProjectedRead).mutate 11
        (scribbleFn [] [("marker", .null)])).store
      = (step copyDiscipline sampleWorld sampleProjectedRead).store := by
  refine ⟨by decide +kernel, ?_, by decide +kernel, ?_⟩
  · intro h
    have := congrArg (fun st => st.map HVal.size) h
    revert this
    decide +kernel
  · exact mutate_held_noop _ 11 _ (by decide +kernel) (by decide +kernel)

/-! ### arguments -/

/-- **Calls do not modify their arguments**: writes and reads leave every object the caller holds
    exactly as it was (passing further arguments only adds to what is held). -/
theorem args_unchanged (T : Table) (w : World) (s : Step)
    (hs : match s with | .calleeWrite .. => False | .scribble .. => False | _ => True) :
    ∀ (i : Nat) (v : HVal), w.held[i]? = some v → (step T w s).held[i]? = some v :=
  Proofs.C07.held_prefix T w s hs

example : (match sampleUpdateMany with | .calleeWrite .. => False | .scribble .. => False | _ => True) :=
  trivial

/-- The one kind of step by which a call edits an argument touches only the objects that contain
    the edited container … -/
theorem callee_write_only (T : Table) (w : World) (id : Nat) (keep : List (Option String))
    (add : List (String × Val)) :
    ∀ (i : Nat) (v : HVal), w.held[i]? = some v → id ∉ v.ids →
      (step T w (.calleeWrite id keep add)).held[i]? = some v :=
  Proofs.C07.calleeWrite_only T w id keep add

example : ∃ v, sampleWorld.held[0]? = some v ∧ 3 ∉ v.ids := ⟨_, rfl, by decide +kernel⟩

/-- … and only one argument position of the API has such a step: the document of an insert (the
    documented `_id` write).  Every other argument of every operation is left alone. -/
theorem arg_effects (op : Op) (role : ArgRole) :
    argEffect op role = .untouched ∨
    ((op = .insertOne ∨ op = .insertMany) ∧ role = .document ∧ argEffect op role = .addsId) := by
  cases op <;> cases role <;> simp [argEffect]

end MongoModel.Props.C07
