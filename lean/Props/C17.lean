/-
  Props.C17 — property theorems for C17 (databases, collections and indexes appear, persist,
  move, vanish as in MongoDB).  Only statements live here; the proofs are in Proofs/C17*.lean.

  Impl  = MongoModel.Catalog.step / run   (faithful model of mongomock's store.py, database.py,
                                           mongo_client.py and the index catalogue of
                                           collection.py; tied to /repo by the per-run history
                                           correspondence of harness/props/c17.py)
  Spec  = MongoModel.Spec.Catalog.step / run   (the explicit-existence namespace)
  D     = MongoModel.Spec.Catalog.inD / histInD (decidable, state dependent; its negation is
                                           the list of named classes of Spec/CatalogDomain.lean:
                                           no known finding is left, only the two scope limits
                                           `unobtained_handle` and `filter_falsy_name`)
  abs   = MongoModel.Spec.Catalog.abs     (forget everything that is not an existing collection)
  Rel   = MongoModel.Spec.Catalog.Rel     (model state and oracle state describe one namespace)
-/
import Proofs.C17Laws3

namespace MongoModel.Props.C17
open MongoModel MongoModel.Catalog MongoModel.Spec.Catalog

/-! ### Concrete configuration and witness histories (shared with known_findings.json) -/

/-- clients 0 and 1 are independent, client 2 is built on client 0's store -/
def σ3 : Nat → Nat := fun c => if c = 2 then 0 else c

def d1 : DbH := ⟨0, "d1"⟩
def d2 : DbH := ⟨0, "d2"⟩
def a1 : CollH := ⟨0, "d1", "a"⟩
def a2 : CollH := ⟨0, "d2", "a"⟩
def xIdx : IndexInfo := ⟨[("x", 1)], false, false⟩

def wVanishDoc : List Op :=
  [.getDb 0 "d1", .getColl d1 "a", .coll a1 (.insert 1), .coll a1 (.deleteOne 1),
   .listCollectionNames d1 none]
def wVanishIndex : List Op :=
  [.getDb 0 "d1", .getColl d1 "a", .coll a1 (.createIndex none xIdx),
   .coll a1 (.dropIndex (.byName "x_1")), .listCollectionNames d1 none]
/-- what is read after either of them: the database, the indexes, the documents -/
def wStillThere : List Op :=
  [.listDatabaseNames 2, .coll a1 .indexInformation, .coll a1 .find]
def wRenameSelf : List Op :=
  [.getDb 0 "d1", .getColl d1 "a", .coll a1 (.insert 1), .renameCollection d1 "a" "a" true,
   .coll a1 .find]
def wFilter : List Op :=
  [.getDb 0 "d1", .getColl d1 "a", .coll a1 .find, .listCollectionNames d1 (some (.eqStr "a"))]
def wForeignDb : List Op :=
  [.getDb 0 "d1", .getColl d1 "a", .coll a1 (.insert 1), .getDb 1 "d1",
   .dropDatabase 0 (.byHandle ⟨1, "d1"⟩)]
def wForeignColl : List Op :=
  [.getDb 0 "d1", .getColl d1 "a", .coll a1 (.insert 1), .getDb 0 "d2", .getColl d2 "a",
   .coll a2 (.insert 2), .dropCollection d1 (.byHandle a2), .coll a1 .find]
def wSystem : List Op :=
  [.getDb 0 "d1", .createCollection d1 "system.js", .createCollection d1 "system.js"]
/-- `wFilter` continued: the name is written, listed, dropped, and listed again -/
def wFilter2 : List Op :=
  wFilter ++ [.coll a1 (.insert 1), .listCollectionNames d1 (some (.eqStr "a")),
    .coll a1 .drop, .listCollectionNames d1 (some (.opNe "zz"))]

/-- a history inside D with a drop, a rename and reuse of old handles through the shared client -/
def wGood : List Op :=
  [.getDb 0 "d1", .getColl d1 "a", .createCollection d1 "a", .coll a1 (.insert 1),
   .coll a1 (.createIndex none xIdx), .getDb 2 "d1", .getColl ⟨2, "d1"⟩ "b",
   .renameCollection ⟨2, "d1"⟩ "a" "b" false, .coll a1 .find, .coll ⟨2, "d1", "b"⟩ .indexInformation,
   .dropCollection d1 (.byName "b"), .coll ⟨2, "d1", "b"⟩ (.insert 7), .listDatabaseNames 2]

/-! ### The refinement -/

/-- **Main theorem, one step.**  From every well-formed state, a step of the model (in the scope
    of the model: handles obtained before use, no empty-name listing filter) and the same step
    of the oracle from the abstracted state end in states that denote the same maps, with
    equivalent outputs.  No class of behaviour is excluded any more. -/
theorem step_refinement (σ : Nat → Nat) (w : World) (op : Op) (hw : WF w)
    (hD : inD σ w op = true) :
    SEq (abs (Catalog.step σ w op).1) (Spec.Catalog.step σ (abs w) op).1 ∧
    OutEquiv (Catalog.step σ w op).2 (Spec.Catalog.step σ (abs w) op).2 :=
  Proofs.C17.step_refinement_abs σ w op hw hD

/-- a well-formed state (reachable: `reachable_wf`) with a collection that holds one document
    and was never explicitly created, and the step that deletes that document -/
example : WF (Catalog.run σ3 World.init (wVanishDoc.take 3)).1 ∧
    inD σ3 (Catalog.run σ3 World.init (wVanishDoc.take 3)).1 (.coll a1 (.deleteOne 1)) = true :=
  ⟨Proofs.C17.reachable_wf σ3 _ ⟨_, rfl⟩, by decide +kernel⟩

/-- the same as a simulation: related states stay related -/
theorem simulation_step (σ : Nat → Nat) (w : World) (s : SWorld) (op : Op)
    (hR : Rel w s) (hD : inD σ w op = true) :
    Rel (Catalog.step σ w op).1 (Spec.Catalog.step σ s op).1 ∧
    OutEquiv (Catalog.step σ w op).2 (Spec.Catalog.step σ s op).2 :=
  Proofs.C17.step_refines σ w s op hR hD

example : Rel World.init SWorld.init ∧ inD σ3 World.init (.getDb 0 "d1") = true :=
  ⟨Proofs.C17.rel_init, by decide +kernel⟩

/-- **Main theorem, whole histories (full strength).**  Along every history (handles obtained
    before use) the real code answers what the explicit-existence namespace answers, and the two
    end in related states. -/
theorem refinement (σ : Nat → Nat) (ops : List Op)
    (hD : histInD σ World.init ops = true) :
    Rel (Catalog.run σ World.init ops).1 (Spec.Catalog.run σ SWorld.init ops).1 ∧
    OutsEquiv (Catalog.run σ World.init ops).2 (Spec.Catalog.run σ SWorld.init ops).2 :=
  Proofs.C17.run_refines σ ops _ _ Proofs.C17.rel_init hD

/-- D contains non-trivial histories: create, insert, index, rename through a second client on
    the same store, reads through the old handles, drop, reuse, listing - and the histories that
    empty a collection which was never explicitly created. -/
example : histInD σ3 World.init wGood = true ∧ histInD σ3 World.init (wVanishDoc ++ wStillThere) = true ∧
    histInD σ3 World.init (wVanishIndex ++ wStillThere) = true := by decide +kernel

/-- every reachable state is well formed (so `WF` below is no restriction on real states) -/
theorem reachable_wf (σ : Nat → Nat) (w : World) (h : Reachable σ w) : WF w :=
  Proofs.C17.reachable_wf σ w h

example : Reachable σ3 (Catalog.run σ3 World.init wGood).1 := ⟨wGood, rfl⟩

/-! ### The seven classes repaired in the library

The witness histories of the former known findings `vanish_last_doc`, `vanish_last_index`,
`rename_self_droptarget`, `filter_lists_uncreated`, `drop_database_foreign_handle`,
`drop_collection_foreign_handle` and `system_create_existing` are inside D now (no exclusion class
is left for them), so `refinement` covers them; the answers of the model on them are spelt out. -/

/-- insert a document, delete it: the collection is still listed, and so is its database (seen
    through the client sharing the store); it shows the `_id_` index and no document -/
theorem repaired_vanish_last_doc :
    histInD σ3 World.init (wVanishDoc ++ wStillThere) = true ∧
    (Catalog.run σ3 World.init (wVanishDoc ++ wStillThere)).2.drop 2 =
      [.ok, .count 1, .names ["a"], .names ["d1"], .indexes [("_id_", idIndex)], .ids []] := by
  decide +kernel

/-- create an index, drop it: the collection is still listed, with the `_id_` index only -/
theorem repaired_vanish_last_index :
    histInD σ3 World.init (wVanishIndex ++ wStillThere) = true ∧
    (Catalog.run σ3 World.init (wVanishIndex ++ wStillThere)).2.drop 2 =
      [.name "x_1", .ok, .names ["a"], .names ["d1"], .indexes [("_id_", idIndex)], .ids []] := by
  decide +kernel

/-- `rename_collection("a", "a", dropTarget=True)` is refused and the document is still there -/
theorem repaired_rename_self_droptarget :
    histInD σ3 World.init wRenameSelf = true ∧
    (Catalog.run σ3 World.init wRenameSelf).2.drop 3 = [.err .opFail, .ids [1]] := by
  decide +kernel

/-- a name that was only read is not listed by a filtered listing; once written it is, and
    after a drop it is not any more -/
theorem repaired_filter_lists_uncreated :
    histInD σ3 World.init wFilter2 = true ∧
    (Catalog.run σ3 World.init wFilter2).2.drop 3 =
      [.names [], .ok, .names ["a"], .ok, .names []] := by
  decide +kernel

/-- `drop_database(<handle made by client 1>)` through client 0 drops client 0's database of
    that name -/
theorem repaired_drop_database_foreign_handle :
    histInD σ3 World.init (wForeignDb ++ [.coll a1 .find, .listDatabaseNames 0]) = true ∧
    (Catalog.run σ3 World.init (wForeignDb ++ [.coll a1 .find, .listDatabaseNames 0])).2.drop 4 =
      [.ok, .ids [], .names []] := by
  decide +kernel

/-- `d1.drop_collection(<handle of d2.a>)` drops `d1.a` and leaves `d2.a` alone -/
theorem repaired_drop_collection_foreign_handle :
    histInD σ3 World.init (wForeignColl ++ [.coll a2 .find]) = true ∧
    (Catalog.run σ3 World.init (wForeignColl ++ [.coll a2 .find])).2.drop 6 =
      [.ok, .ids [], .ids [2]] := by
  decide +kernel

/-- creating an existing `system.` collection again fails -/
theorem repaired_system_create_existing :
    histInD σ3 World.init wSystem = true ∧
    (Catalog.run σ3 World.init wSystem).2 = [.ok, .ok, .err .collInvalid] := by
  decide +kernel

/-! ### Corollaries over all states / all histories -/

/-- **reads never create.**  Obtaining handles, `find`, `index_information` and the listings -
    in any number and order, from any well-formed state, in or out of D - change no collection
    and no listing. -/
theorem reads_never_create (σ : Nat → Nat) (w : World) (ops : List Op) (hw : WF w)
    (hr : ops.all isRead = true) :
    (∀ i d n, ((Catalog.run σ w ops).1.store i).coll d n = (w.store i).coll d n) ∧
    (∀ i d, (((Catalog.run σ w ops).1.store i).listColls d).Perm ((w.store i).listColls d)) ∧
    (∀ i, ((Catalog.run σ w ops).1.store i).listDbs.Perm (w.store i).listDbs) :=
  Proofs.C17.reads_never_create σ w ops hw hr

example : ∃ (w : World) (ops : List Op), WF w ∧ ops.all isRead = true ∧ ops.length = 6 :=
  ⟨(Catalog.run σ3 World.init wGood).1,
   [.getDb 1 "d2", .getColl ⟨1, "d2"⟩ "c", .coll ⟨1, "d2", "c"⟩ .find,
    .coll ⟨1, "d2", "c"⟩ .indexInformation, .listCollectionNames ⟨1, "d2"⟩ none,
    .listDatabaseNames 1],
   reachable_wf σ3 _ ⟨wGood, rfl⟩, by decide +kernel, rfl⟩

/-- **first write creates, existence lasts until a drop.**  After an insert or an index creation
    through an obtained handle the collection exists, and along EVERY continuation that contains
    no drop of it, no rename from or onto it and no drop of its database - deletes down to no
    document and index drops down to no index included - it still exists at the end: its
    database is listed, and so is the collection (system collections are never listed). -/
theorem exists_from_first_write_until_drop (σ : Nat → Nat) (w : World) (h : CollH) (o : CollOp)
    (ops : List Op) (hw : WF w) (hob : obtainedColl w h = true)
    (ho : (∃ id, o = .insert id) ∨ (∃ nm info, o = .createIndex nm info))
    (hne : ops.all (fun op => !mayRemove σ (σ h.client) h.db h.coll op) = true) :
    created (Catalog.run σ (Catalog.step σ w (.coll h o)).1 ops).1 (σ h.client) h.db h.coll = true ∧
    h.db ∈ ((Catalog.run σ (Catalog.step σ w (.coll h o)).1 ops).1.store (σ h.client)).listDbs ∧
    (isSystem h.coll = false →
      h.coll ∈ ((Catalog.run σ (Catalog.step σ w (.coll h o)).1 ops).1.store (σ h.client)).listColls h.db) := by
  have hw1 := Proofs.C17.wf_step σ w (.coll h o) hw
  have hc := Proofs.C17.exists_until_drop σ (σ h.client) h.db h.coll ops _ hw1 hne
    (Proofs.C17.write_creates σ w h o hob ho)
  exact ⟨hc, Proofs.C17.created_listed (Proofs.C17.wf_run σ ops _ hw1) _ _ _ hc⟩

/-- a non-trivial inhabitant: insert through client 0, then a continuation by both clients of the
    store that deletes every document (the one inserted through the other client too), creates
    and drops an index, renames elsewhere, reads and lists -/
example : ∃ (w : World) (h : CollH) (ops : List Op), WF w ∧ obtainedColl w h = true ∧
    ops.all (fun op => !mayRemove σ3 (σ3 h.client) h.db h.coll op) = true ∧ ops.length = 9 ∧
    (Catalog.step σ3 (Catalog.run σ3 (Catalog.step σ3 w (.coll h (.insert 1))).1 ops).1
      (.coll h .find)).2 = .ids [] :=
  ⟨(Catalog.run σ3 World.init [.getDb 0 "d1", .getColl d1 "a", .getDb 2 "d1",
      .getColl ⟨2, "d1"⟩ "a", .getColl ⟨2, "d1"⟩ "b"]).1, a1,
   [.coll ⟨2, "d1", "a"⟩ (.insert 2), .coll a1 (.deleteOne 1), .coll a1 (.createIndex none xIdx),
    .coll ⟨2, "d1", "b"⟩ (.insert 5), .renameCollection ⟨2, "d1"⟩ "b" "c" true,
    .coll ⟨2, "d1", "a"⟩ .deleteAll, .coll a1 .dropIndexes,
    .coll a1 .find, .listCollectionNames d1 none],
   reachable_wf σ3 _ ⟨_, rfl⟩, by decide +kernel, by decide +kernel, rfl, by decide +kernel⟩

/-- the same from an explicit `create_collection` of a name that does not exist (system
    collections included): it succeeds, and the collection exists until dropped -/
theorem exists_from_create_collection_until_drop (σ : Nat → Nat) (w : World) (h : DbH)
    (n : String) (ops : List Op) (hw : WF w) (hob : obtainedDb w h = true)
    (hv : validName n = true) (hnew : created w (σ h.client) h.db n = false)
    (hne : ops.all (fun op => !mayRemove σ (σ h.client) h.db n op) = true) :
    (Catalog.step σ w (.createCollection h n)).2 = .ok ∧
    created (Catalog.run σ (Catalog.step σ w (.createCollection h n)).1 ops).1 (σ h.client) h.db n
      = true := by
  have hc := Proofs.C17.create_new_succeeds σ w h n hw hob hv hnew
  exact ⟨hc.1, Proofs.C17.exists_until_drop σ (σ h.client) h.db n ops _
    (Proofs.C17.wf_step σ w _ hw) hne hc.2⟩

example : ∃ (w : World) (ops : List Op), WF w ∧ obtainedDb w d1 = true ∧
    created w (σ3 0) "d1" "a" = false ∧
    ops.all (fun op => !mayRemove σ3 (σ3 0) "d1" "a" op) = true ∧ ops.length = 3 :=
  ⟨(Catalog.run σ3 World.init [.getDb 0 "d1"]).1,
   [.coll a1 (.insert 1), .coll a1 .deleteAll, .listDatabaseNames 0],
   reachable_wf σ3 _ ⟨_, rfl⟩, by decide +kernel, by decide +kernel, by decide +kernel, rfl⟩

/-- **... and only a drop ends it.**  Whatever the step - any operation through any client, in
    or out of the scope of the model - if a collection existed before it and does not exist
    after it, the step was a drop of that collection, a rename from or onto its name, or a drop
    of its database, on that store.  (The former findings `vanish_last_doc` /
    `vanish_last_index` were steps contradicting this.) -/
theorem existence_ends_only_by_removal (σ : Nat → Nat) (w : World) (op : Op) (i : Nat)
    (d n : String) (hw : WF w) (hex : created w i d n = true)
    (hgone : created (Catalog.step σ w op).1 i d n = false) : mayRemove σ i d n op = true :=
  Proofs.C17.vanishes_only_by_removal σ w op i d n hw hex hgone

/-- non-vacuity: a reachable state with an existing collection that a drop through the sharing
    client removes -/
example : WF (Catalog.run σ3 World.init (wGood.take 10)).1 ∧
    created (Catalog.run σ3 World.init (wGood.take 10)).1 0 "d1" "b" = true ∧
    created (Catalog.step σ3 (Catalog.run σ3 World.init (wGood.take 10)).1
      (.coll ⟨2, "d1", "b"⟩ .drop)).1 0 "d1" "b" = false :=
  ⟨reachable_wf σ3 _ ⟨_, rfl⟩, by decide +kernel, by decide +kernel⟩

/-- **an emptied collection still exists.**  An existing collection - however it came to exist -
    from which every document is deleted and every index dropped is still there: it finds
    nothing, `index_information()` shows exactly `_id_`, and it and its database are still
    listed. -/
theorem emptied_collection_still_exists (σ : Nat → Nat) (w : World) (h : CollH) (hw : WF w)
    (hob : obtainedColl w h = true) (hex : created w (σ h.client) h.db h.coll = true) :
    let w' := (Catalog.run σ w [.coll h .deleteAll, .coll h .dropIndexes]).1
    created w' (σ h.client) h.db h.coll = true ∧
    (Catalog.step σ w' (.coll h .find)).2 = .ids [] ∧
    (Catalog.step σ w' (.coll h .indexInformation)).2 = .indexes [("_id_", idIndex)] ∧
    h.db ∈ (w'.store (σ h.client)).listDbs ∧
    (isSystem h.coll = false → h.coll ∈ (w'.store (σ h.client)).listColls h.db) :=
  Proofs.C17.emptied_still_exists σ w h hw hob hex

/-- a collection with two documents and an index that exists only through its first insert,
    emptied through the other client of the store -/
example : WF (Catalog.run σ3 World.init ((wGood.take 10).take 2 ++
      [.coll a1 (.insert 1), .coll a1 (.insert 2), .coll a1 (.createIndex none xIdx),
       .getDb 2 "d1", .getColl ⟨2, "d1"⟩ "a"])).1 ∧
    obtainedColl (Catalog.run σ3 World.init ((wGood.take 10).take 2 ++
      [.coll a1 (.insert 1), .coll a1 (.insert 2), .coll a1 (.createIndex none xIdx),
       .getDb 2 "d1", .getColl ⟨2, "d1"⟩ "a"])).1 ⟨2, "d1", "a"⟩ = true ∧
    created (Catalog.run σ3 World.init ((wGood.take 10).take 2 ++
      [.coll a1 (.insert 1), .coll a1 (.insert 2), .coll a1 (.createIndex none xIdx),
       .getDb 2 "d1", .getColl ⟨2, "d1"⟩ "a"])).1 (σ3 2) "d1" "a" = true :=
  ⟨reachable_wf σ3 _ ⟨_, rfl⟩, by decide +kernel, by decide +kernel⟩

/-- **existence is recorded, not derived**: in every reachable state a collection exists iff
    its store carries the created flag - set by the first insert, by an index creation and by
    `create_collection`, reset by nothing but a drop (a rename moves the store, flag included). -/
theorem existence_is_recorded (σ : Nat → Nat) (w : World) (hr : Reachable σ w) (i : Nat)
    (d n : String) : created w i d n = ((w.store i).coll d n).forceCreated :=
  Proofs.C17.created_eq_flag (Proofs.C17.reachable_wf σ w hr) i d n

example : Reachable σ3 (Catalog.run σ3 World.init (wVanishDoc ++ wStillThere)).1 ∧
    created (Catalog.run σ3 World.init (wVanishDoc ++ wStillThere)).1 0 "d1" "a" = true :=
  ⟨⟨_, rfl⟩, by decide +kernel⟩

/-- **create_collection on an existing name fails** with CollectionInvalid and changes nothing -
    whether the existing collection is listed or is a (hidden) system collection -/
theorem create_existing_fails (σ : Nat → Nat) (w : World) (h : DbH) (n : String)
    (hob : obtainedDb w h = true) (hv : validName n = true)
    (hex : created w (σ h.client) h.db n = true) :
    Catalog.step σ w (.createCollection h n) = (w, .err .collInvalid) :=
  Proofs.C17.create_existing_fails σ w h n hob hv hex

example : obtainedDb (Catalog.run σ3 World.init wGood).1 ⟨2, "d1"⟩ = true ∧ validName "b" = true ∧
    created (Catalog.run σ3 World.init wGood).1 (σ3 2) "d1" "b" = true := by decide +kernel

/-- an existing system collection, which no listing shows -/
example : obtainedDb (Catalog.run σ3 World.init (wSystem.take 2)).1 d1 = true ∧
    validName "system.js" = true ∧
    created (Catalog.run σ3 World.init (wSystem.take 2)).1 (σ3 0) "d1" "system.js" = true ∧
    "system.js" ∉ ((Catalog.run σ3 World.init (wSystem.take 2)).1.store (σ3 0)).listColls "d1" := by
  decide +kernel

/-- **rename moves documents and indexes**: onto a different valid name that does not exist (or
    with `dropTarget`), the call succeeds, the new name holds exactly what the old one held, the
    old name is empty again, no other namespace and no other server changes. -/
theorem rename_moves_docs_and_indexes (σ : Nat → Nat) (w : World) (h : DbH) (n n' : String)
    (dt : Bool) (hob : obtainedDb w h = true) (hv : validName n' = true) (hne : n ≠ n')
    (hsrc : created w (σ h.client) h.db n = true)
    (ht : created w (σ h.client) h.db n' = false ∨ dt = true) :
    (Catalog.step σ w (.renameCollection h n n' dt)).2 = .ok ∧
    ((Catalog.step σ w (.renameCollection h n n' dt)).1.store (σ h.client)).coll h.db n'
      = (w.store (σ h.client)).coll h.db n ∧
    ((Catalog.step σ w (.renameCollection h n n' dt)).1.store (σ h.client)).coll h.db n
      = Coll.empty ∧
    (∀ d' m, ¬ (d' = h.db ∧ (m = n ∨ m = n')) →
      ((Catalog.step σ w (.renameCollection h n n' dt)).1.store (σ h.client)).coll d' m
        = (w.store (σ h.client)).coll d' m) ∧
    (∀ j, j ≠ σ h.client → (Catalog.step σ w (.renameCollection h n n' dt)).1.store j = w.store j) :=
  Proofs.C17.rename_moves_world σ w h n n' dt hob hv hne hsrc ht

example : obtainedDb (Catalog.run σ3 World.init wGood).1 d1 = true ∧ validName "c" = true ∧
    created (Catalog.run σ3 World.init wGood).1 (σ3 0) "d1" "b" = true ∧
    created (Catalog.run σ3 World.init wGood).1 (σ3 0) "d1" "c" = false := by decide +kernel

/-- `Collection.rename` is `Database.rename_collection` on the handle's own name -/
theorem coll_rename_is_rename_collection (σ : Nat → Nat) (w : World) (h : CollH) (n' : String)
    (dt : Bool) (hob : obtainedColl w h = true) :
    Catalog.step σ w (.collRename h n' dt) = Catalog.step σ w (.renameCollection h.dbh h.coll n' dt) :=
  Proofs.C17.coll_rename_eq σ w h n' dt hob

/-- **rename errors**: an invalid new name (InvalidName), the collection's own name (with or
    without `dropTarget`), an absent source, or an existing target without `dropTarget`
    (OperationFailure) - and then no lookup changes anywhere: in particular renaming a
    collection onto itself never loses its documents and indexes. -/
theorem rename_errors (σ : Nat → Nat) (w : World) (h : DbH) (n n' : String) (dt : Bool)
    (hob : obtainedDb w h = true)
    (hcase : validName n' = false ∨ n = n' ∨ created w (σ h.client) h.db n = false ∨
      (created w (σ h.client) h.db n' = true ∧ dt = false)) :
    (∃ e, (Catalog.step σ w (.renameCollection h n n' dt)).2 = .err e ∧
      (e = .invalidName ↔ validName n' = false)) ∧
    ∀ j d' m, ((Catalog.step σ w (.renameCollection h n n' dt)).1.store j).coll d' m
      = (w.store j).coll d' m :=
  Proofs.C17.rename_errors_world σ w h n n' dt hob hcase

example : validName "a..b" = false ∧
    created (Catalog.run σ3 World.init wGood).1 (σ3 0) "d1" "zz" = false ∧
    created (Catalog.run σ3 World.init wGood).1 (σ3 0) "d1" "b" = true := by decide +kernel

/-- **drop, then the handles stay usable and start from empty**: after `drop_collection(name)`,
    `drop_collection(<any Collection handle of that name>)`, `coll.drop()`, `drop_database(name)`
    or `drop_database(<any Database handle of that name>)` (issued through any client of the
    same store; `Drops`), every handle onto the dropped name obtained before still works: it
    finds nothing, has no index, and an insert through it succeeds and is the only document. -/
theorem drop_then_empty_handles_usable (σ : Nat → Nat) (w : World) (op : Op) (h : CollH)
    (hob : obtainedColl w h = true) (hdrop : Drops σ w op h) :
    (Catalog.step σ w op).2 = .ok ∧
    (Catalog.step σ (Catalog.step σ w op).1 (.coll h .find)).2 = .ids [] ∧
    (Catalog.step σ (Catalog.step σ w op).1 (.coll h .indexInformation)).2 = .indexes [] ∧
    ∀ id, (Catalog.step σ (Catalog.step σ w op).1 (.coll h (.insert id))).2 = .ok ∧
      (Catalog.step σ (Catalog.step σ (Catalog.step σ w op).1 (.coll h (.insert id))).1
        (.coll h .find)).2 = .ids [id] :=
  Proofs.C17.drop_then_usable σ w op h hob hdrop

/-- an existing collection with a document and an index, dropped by name through client 0 and
    then used through the handle client 2 obtained before -/
example : ∃ (w : World) (op : Op) (h : CollH), obtainedColl w h = true ∧
    Drops σ3 w op h ∧ created w (σ3 h.client) h.db h.coll = true :=
  ⟨(Catalog.run σ3 World.init (wGood.take 10)).1, .dropCollection d1 (.byName "b"), ⟨2, "d1", "b"⟩,
   by decide +kernel, Or.inl ⟨d1, rfl, by decide +kernel, by decide +kernel, rfl⟩,
   by decide +kernel⟩

/-- the same collection dropped by handing `d1.drop_collection` a Collection handle of *another
    client's other database* that merely has the same name, and by handing `drop_database` of
    client 2 the Database handle client 1 made -/
example : ∃ (w : World) (h : CollH), obtainedColl w h = true ∧
    created w (σ3 h.client) h.db h.coll = true ∧
    Drops σ3 w (.dropCollection d1 (.byHandle ⟨1, "d2", "b"⟩)) h ∧
    Drops σ3 w (.dropDatabase 2 (.byHandle ⟨1, "d1"⟩)) h :=
  ⟨(Catalog.run σ3 World.init (wGood.take 10 ++
      [.getDb 1 "d2", .getColl ⟨1, "d2"⟩ "b", .getDb 1 "d1"])).1, ⟨2, "d1", "b"⟩,
   by decide +kernel, by decide +kernel,
   Or.inr (Or.inr (Or.inr (Or.inl ⟨d1, ⟨1, "d2", "b"⟩, rfl, by decide +kernel, by decide +kernel,
     by decide +kernel, rfl, rfl⟩))),
   Or.inr (Or.inr (Or.inr (Or.inr ⟨2, ⟨1, "d1"⟩, rfl, by decide +kernel, by decide +kernel, rfl⟩)))⟩

/-- **... until it is dropped**: after any of these drops the name does not exist and is not
    listed. -/
theorem dropped_not_listed (σ : Nat → Nat) (w : World) (op : Op) (h : CollH) (hw : WF w)
    (hdrop : Drops σ w op h) :
    created (Catalog.step σ w op).1 (σ h.client) h.db h.coll = false ∧
    h.coll ∉ ((Catalog.step σ w op).1.store (σ h.client)).listColls h.db :=
  Proofs.C17.dropped_not_listed σ w op h hw hdrop

/-- once obtained, a handle stays obtained (the caches only grow) -/
theorem handles_stay_obtained (σ : Nat → Nat) (w : World) (ops : List Op) (h : CollH)
    (hob : obtainedColl w h = true) : obtainedColl (Catalog.run σ w ops).1 h = true :=
  Proofs.C17.obtainedColl_run σ ops h w hob

/-- **handles for the same name and clients sharing a store agree**: the same operation through
    two clients built on one store gives the same result and the same stores; so do listings.
    (Two handle objects of one client for one name are one value of the model, by
    `Collection._store` being resolved by name at every use; the correspondence run checks old
    against fresh objects on the real code.) -/
theorem handles_and_shared_clients_agree (σ : Nat → Nat) (w : World) (c c' : Nat) (d n : String)
    (o : CollOp) (f : Option NameFilter) (hσ : σ c = σ c')
    (hob : obtainedColl w ⟨c, d, n⟩ = true) (hob' : obtainedColl w ⟨c', d, n⟩ = true) :
    (Catalog.step σ w (.coll ⟨c, d, n⟩ o)).2 = (Catalog.step σ w (.coll ⟨c', d, n⟩ o)).2 ∧
    (Catalog.step σ w (.coll ⟨c, d, n⟩ o)).1.store = (Catalog.step σ w (.coll ⟨c', d, n⟩ o)).1.store ∧
    (Catalog.step σ w (.listCollectionNames ⟨c, d⟩ f)).2 =
      (Catalog.step σ w (.listCollectionNames ⟨c', d⟩ f)).2 ∧
    (Catalog.step σ w (.listDatabaseNames c)).2 = (Catalog.step σ w (.listDatabaseNames c')).2 := by
  have h1 := Proofs.C17.shared_clients_agree σ w c c' d n o hσ hob hob'
  have hd : obtainedDb w ⟨c, d⟩ = true := by
    unfold obtainedColl at hob; simp only [Bool.and_eq_true] at hob; exact hob.1
  have hd' : obtainedDb w ⟨c', d⟩ = true := by
    unfold obtainedColl at hob'; simp only [Bool.and_eq_true] at hob'; exact hob'.1
  have h2 := Proofs.C17.shared_clients_agree_listings σ w c c' d f hσ hd hd'
  exact ⟨h1.1, h1.2, h2.1, h2.2⟩

example : σ3 0 = σ3 2 ∧ (0 : Nat) ≠ 2 ∧
    obtainedColl (Catalog.run σ3 World.init (wGood ++ [.getColl d1 "b"])).1 ⟨0, "d1", "b"⟩ = true ∧
    obtainedColl (Catalog.run σ3 World.init (wGood ++ [.getColl d1 "b"])).1 ⟨2, "d1", "b"⟩ = true := by
  decide +kernel

/-- **independently created clients are isolated**: whatever clients on other stores do -
    handing handles made by this store's clients to their `drop_collection` / `drop_database`
    included - this store does not change, so no listing, no document and no index seen through
    its clients changes. -/
theorem independent_clients_isolated (σ : Nat → Nat) (j : Nat) (w : World) (ops : List Op)
    (h : ops.all (fun op => σ (opClient op) != j) = true) :
    (Catalog.run σ w ops).1.store j = w.store j :=
  Proofs.C17.other_stores_untouched_run σ j ops w h

example : ((wGood ++ [Op.dropCollection d1 (.byHandle ⟨1, "d1", "b"⟩),
    Op.dropDatabase 2 (.byHandle ⟨1, "d1"⟩)]).all (fun op => σ3 (opClient op) != 1)) = true := by
  decide +kernel

/-- **a filtered listing is the listing, filtered**: `list_collection_names(filter=f)` returns
    exactly the names `list_collection_names()` returns to which `f` applies - so never a name
    that was only read, or was dropped -/
theorem filtered_listing_is_filter_of_listing (σ : Nat → Nat) (w : World) (h : DbH)
    (f : NameFilter) (hob : obtainedDb w h = true) (hf : f.falsy = false) :
    Catalog.step σ w (.listCollectionNames h (some f)) =
      (w, .names (((w.store (σ h.client)).listColls h.db).filter f.applies)) :=
  Proofs.C17.filtered_listing σ w h f hob hf

example : obtainedDb (Catalog.run σ3 World.init wGood).1 d1 = true ∧
    (NameFilter.opNe "a").falsy = false := by decide +kernel

/-- **index_information is exact**: after every history (in the scope of the model) it lists `_id_` followed by exactly
    the indexes the explicit-existence namespace holds for that collection - those created (by
    anyone, under this or, through renames, another name) and not dropped since - and nothing
    when the collection does not exist. -/
theorem index_information_exact (σ : Nat → Nat) (ops : List Op) (h : CollH)
    (hD : histInD σ World.init ops = true)
    (hob : obtainedColl (Catalog.run σ World.init ops).1 h = true) :
    (Catalog.step σ (Catalog.run σ World.init ops).1 (.coll h .indexInformation)).2 =
      .indexes (match alGet? (h.db, h.coll) ((Spec.Catalog.run σ SWorld.init ops).1 (σ h.client)) with
        | some c => ("_id_", idIndex) :: c.indexes
        | none => []) :=
  Proofs.C17.index_information_exact_run σ ops h hD hob

example : histInD σ3 World.init wGood = true ∧
    obtainedColl (Catalog.run σ3 World.init wGood).1 ⟨2, "d1", "b"⟩ = true := by decide +kernel

/-- the index ledger of one collection: a successful `create_index` registers exactly that index
    under its name and touches no other; a successful `drop_index` removes exactly that name -/
theorem index_ledger (c : Coll) :
    (∀ nm info name, (collOp (.createIndex nm info) c).2 = .name name →
      alGet? name (collOp (.createIndex nm info) c).1.indexes = some info ∧
      ∀ k, k ≠ name → alGet? k (collOp (.createIndex nm info) c).1.indexes = alGet? k c.indexes) ∧
    (∀ r, (collOp (.dropIndex r) c).2 = .ok →
      alGet? r.name (collOp (.dropIndex r) c).1.indexes = none ∧
      ∀ k, k ≠ r.name → alGet? k (collOp (.dropIndex r) c).1.indexes = alGet? k c.indexes) :=
  ⟨fun nm info name h => Proofs.C17.index_ledger_create c nm info name h,
   fun r h => Proofs.C17.index_ledger_drop c r h⟩

end MongoModel.Props.C17
