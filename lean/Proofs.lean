import Proofs.C01
