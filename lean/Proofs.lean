import Proofs.C01
import Proofs.C05
import Proofs.C08
import Proofs.C09
