import Proofs.C01
import Proofs.C05
import Proofs.C08
import Proofs.C09
import Proofs.C18
import Proofs.C18Filter
import Proofs.C18Provenance
import Proofs.C06
