import Props.C01
import Props.C05
import Props.C08
import Props.C09
import Props.C18
import Props.C06
