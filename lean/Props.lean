import Props.C01
