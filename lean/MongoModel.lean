import MongoModel.Value
import MongoModel.Wire
import MongoModel.Bson
import MongoModel.Filter
import MongoModel.Update
import MongoModel.Store
import MongoModel.Ops
import MongoModel.DateTime
