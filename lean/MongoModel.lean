import MongoModel.Value
import MongoModel.Wire
