import MongoModel.Value
import MongoModel.Wire
import MongoModel.Bson
import MongoModel.Filter
