/-
  GENERATED on every `./check C20` run by harness/extract_vocab.py (probe_vocab) from the working tree of /repo.
  Do not edit.  The OBSERVED disposition of every vocabulary name at every position: one `Row` per name (string, code, classification against Generated.tables, observed dispositions).
-/

import MongoModel.Vocab

namespace Generated
open MongoModel.Vocab

/-! distinct classifications -/
def cls_0 : NameClass :=
  { op := true, comment := false, expr := false, not_ := false, all := false, exists_ := false, neNin := false, each := false, needsDecimal := false, operatorMap := false, logical := false, logicalConst := false, topNI := false, fieldNI := false, updater := false, updateInline := false, updateChecked := false, pushMod := false, stageImpl := false, exprHit := none, exprNI := false, grouping := false, groupInline := false, groupChecked := false, typeImpl := false, typeNone := false }
def cls_1 : NameClass :=
  { op := false, comment := false, expr := false, not_ := false, all := false, exists_ := false, neNin := false, each := false, needsDecimal := false, operatorMap := false, logical := false, logicalConst := false, topNI := false, fieldNI := false, updater := false, updateInline := false, updateChecked := false, pushMod := false, stageImpl := false, exprHit := none, exprNI := false, grouping := false, groupInline := false, groupChecked := false, typeImpl := false, typeNone := false }
def cls_2 : NameClass :=
  { op := true, comment := false, expr := false, not_ := false, all := false, exists_ := false, neNin := true, each := false, needsDecimal := false, operatorMap := true, logical := false, logicalConst := false, topNI := false, fieldNI := false, updater := false, updateInline := false, updateChecked := false, pushMod := false, stageImpl := false, exprHit := some true, exprNI := false, grouping := false, groupInline := false, groupChecked := false, typeImpl := false, typeNone := false }
def cls_3 : NameClass :=
  { op := true, comment := false, expr := false, not_ := false, all := false, exists_ := false, neNin := false, each := false, needsDecimal := false, operatorMap := true, logical := false, logicalConst := false, topNI := false, fieldNI := false, updater := false, updateInline := false, updateChecked := false, pushMod := false, stageImpl := false, exprHit := some true, exprNI := false, grouping := false, groupInline := false, groupChecked := false, typeImpl := false, typeNone := false }
def cls_4 : NameClass :=
  { op := true, comment := false, expr := false, not_ := false, all := false, exists_ := false, neNin := false, each := false, needsDecimal := false, operatorMap := false, logical := false, logicalConst := false, topNI := false, fieldNI := false, updater := false, updateInline := false, updateChecked := false, pushMod := false, stageImpl := false, exprHit := some true, exprNI := false, grouping := false, groupInline := false, groupChecked := false, typeImpl := false, typeNone := false }
def cls_5 : NameClass :=
  { op := true, comment := false, expr := false, not_ := false, all := false, exists_ := false, neNin := false, each := false, needsDecimal := false, operatorMap := false, logical := true, logicalConst := false, topNI := false, fieldNI := false, updater := false, updateInline := false, updateChecked := false, pushMod := false, stageImpl := false, exprHit := some true, exprNI := false, grouping := false, groupInline := false, groupChecked := false, typeImpl := false, typeNone := false }
def cls_6 : NameClass :=
  { op := false, comment := false, expr := false, not_ := false, all := false, exists_ := false, neNin := false, each := false, needsDecimal := false, operatorMap := false, logical := false, logicalConst := false, topNI := false, fieldNI := false, updater := false, updateInline := false, updateChecked := false, pushMod := false, stageImpl := false, exprHit := none, exprNI := false, grouping := false, groupInline := false, groupChecked := false, typeImpl := true, typeNone := false }
def cls_7 : NameClass :=
  { op := true, comment := false, expr := false, not_ := false, all := false, exists_ := false, neNin := false, each := false, needsDecimal := false, operatorMap := false, logical := false, logicalConst := false, topNI := false, fieldNI := false, updater := true, updateInline := false, updateChecked := true, pushMod := false, stageImpl := false, exprHit := none, exprNI := false, grouping := false, groupInline := false, groupChecked := false, typeImpl := false, typeNone := false }
def cls_8 : NameClass :=
  { op := true, comment := false, expr := false, not_ := false, all := false, exists_ := false, neNin := false, each := false, needsDecimal := false, operatorMap := false, logical := false, logicalConst := false, topNI := false, fieldNI := false, updater := false, updateInline := false, updateChecked := false, pushMod := false, stageImpl := false, exprHit := some true, exprNI := false, grouping := true, groupInline := false, groupChecked := true, typeImpl := false, typeNone := false }
def cls_9 : NameClass :=
  { op := true, comment := false, expr := false, not_ := false, all := true, exists_ := false, neNin := false, each := false, needsDecimal := false, operatorMap := true, logical := false, logicalConst := false, topNI := false, fieldNI := false, updater := false, updateInline := false, updateChecked := false, pushMod := false, stageImpl := false, exprHit := none, exprNI := false, grouping := false, groupInline := false, groupChecked := false, typeImpl := false, typeNone := false }
def cls_10 : NameClass :=
  { op := false, comment := false, expr := false, not_ := false, all := false, exists_ := false, neNin := false, each := false, needsDecimal := false, operatorMap := false, logical := false, logicalConst := false, topNI := false, fieldNI := false, updater := false, updateInline := false, updateChecked := false, pushMod := false, stageImpl := false, exprHit := none, exprNI := false, grouping := false, groupInline := false, groupChecked := false, typeImpl := false, typeNone := true }
def cls_11 : NameClass :=
  { op := true, comment := false, expr := false, not_ := false, all := false, exists_ := false, neNin := false, each := false, needsDecimal := false, operatorMap := false, logical := false, logicalConst := false, topNI := false, fieldNI := false, updater := true, updateInline := false, updateChecked := true, pushMod := false, stageImpl := false, exprHit := some true, exprNI := false, grouping := true, groupInline := false, groupChecked := true, typeImpl := false, typeNone := false }
def cls_12 : NameClass :=
  { op := true, comment := false, expr := false, not_ := false, all := false, exists_ := false, neNin := true, each := false, needsDecimal := false, operatorMap := true, logical := false, logicalConst := false, topNI := false, fieldNI := false, updater := false, updateInline := false, updateChecked := false, pushMod := false, stageImpl := false, exprHit := none, exprNI := false, grouping := false, groupInline := false, groupChecked := false, typeImpl := false, typeNone := false }
def cls_13 : NameClass :=
  { op := true, comment := false, expr := false, not_ := false, all := false, exists_ := false, neNin := false, each := false, needsDecimal := false, operatorMap := false, logical := false, logicalConst := false, topNI := false, fieldNI := false, updater := false, updateInline := false, updateChecked := false, pushMod := false, stageImpl := false, exprHit := some false, exprNI := false, grouping := false, groupInline := false, groupChecked := false, typeImpl := false, typeNone := false }
def cls_14 : NameClass :=
  { op := true, comment := false, expr := false, not_ := false, all := false, exists_ := false, neNin := false, each := false, needsDecimal := false, operatorMap := false, logical := true, logicalConst := false, topNI := false, fieldNI := false, updater := false, updateInline := false, updateChecked := false, pushMod := false, stageImpl := false, exprHit := none, exprNI := false, grouping := false, groupInline := false, groupChecked := false, typeImpl := false, typeNone := false }
def cls_15 : NameClass :=
  { op := true, comment := false, expr := false, not_ := false, all := false, exists_ := false, neNin := false, each := false, needsDecimal := false, operatorMap := false, logical := false, logicalConst := false, topNI := false, fieldNI := false, updater := false, updateInline := false, updateChecked := false, pushMod := false, stageImpl := false, exprHit := some true, exprNI := true, grouping := false, groupInline := false, groupChecked := false, typeImpl := false, typeNone := false }
def cls_16 : NameClass :=
  { op := true, comment := false, expr := false, not_ := false, all := false, exists_ := false, neNin := false, each := false, needsDecimal := false, operatorMap := false, logical := false, logicalConst := false, topNI := false, fieldNI := false, updater := true, updateInline := false, updateChecked := true, pushMod := false, stageImpl := true, exprHit := none, exprNI := false, grouping := false, groupInline := false, groupChecked := false, typeImpl := false, typeNone := false }
def cls_17 : NameClass :=
  { op := true, comment := false, expr := false, not_ := true, all := false, exists_ := false, neNin := false, each := false, needsDecimal := false, operatorMap := false, logical := true, logicalConst := true, topNI := false, fieldNI := false, updater := false, updateInline := false, updateChecked := false, pushMod := false, stageImpl := false, exprHit := some true, exprNI := false, grouping := false, groupInline := false, groupChecked := false, typeImpl := false, typeNone := false }
def cls_18 : NameClass :=
  { op := true, comment := false, expr := false, not_ := false, all := false, exists_ := false, neNin := false, each := false, needsDecimal := false, operatorMap := false, logical := false, logicalConst := false, topNI := false, fieldNI := false, updater := false, updateInline := false, updateChecked := false, pushMod := false, stageImpl := true, exprHit := none, exprNI := false, grouping := false, groupInline := false, groupChecked := false, typeImpl := false, typeNone := false }
def cls_19 : NameClass :=
  { op := true, comment := false, expr := false, not_ := false, all := false, exists_ := false, neNin := false, each := false, needsDecimal := false, operatorMap := false, logical := false, logicalConst := false, topNI := false, fieldNI := false, updater := false, updateInline := false, updateChecked := false, pushMod := false, stageImpl := false, exprHit := none, exprNI := true, grouping := false, groupInline := false, groupChecked := false, typeImpl := false, typeNone := false }
def cls_20 : NameClass :=
  { op := true, comment := false, expr := false, not_ := false, all := false, exists_ := false, neNin := false, each := false, needsDecimal := false, operatorMap := true, logical := false, logicalConst := false, topNI := false, fieldNI := false, updater := false, updateInline := false, updateChecked := false, pushMod := false, stageImpl := false, exprHit := none, exprNI := false, grouping := false, groupInline := false, groupChecked := false, typeImpl := false, typeNone := false }
def cls_21 : NameClass :=
  { op := true, comment := false, expr := false, not_ := false, all := false, exists_ := false, neNin := false, each := true, needsDecimal := false, operatorMap := false, logical := false, logicalConst := false, topNI := false, fieldNI := false, updater := false, updateInline := false, updateChecked := false, pushMod := true, stageImpl := false, exprHit := none, exprNI := false, grouping := false, groupInline := false, groupChecked := false, typeImpl := false, typeNone := false }
def cls_22 : NameClass :=
  { op := true, comment := false, expr := false, not_ := false, all := false, exists_ := false, neNin := false, each := false, needsDecimal := false, operatorMap := false, logical := false, logicalConst := false, topNI := false, fieldNI := false, updater := false, updateInline := true, updateChecked := true, pushMod := false, stageImpl := false, exprHit := none, exprNI := false, grouping := false, groupInline := true, groupChecked := true, typeImpl := false, typeNone := false }
def cls_23 : NameClass :=
  { op := true, comment := false, expr := false, not_ := false, all := false, exists_ := false, neNin := false, each := false, needsDecimal := false, operatorMap := false, logical := false, logicalConst := false, topNI := false, fieldNI := false, updater := false, updateInline := true, updateChecked := true, pushMod := false, stageImpl := false, exprHit := none, exprNI := false, grouping := false, groupInline := false, groupChecked := false, typeImpl := false, typeNone := false }
def cls_24 : NameClass :=
  { op := true, comment := false, expr := false, not_ := false, all := false, exists_ := false, neNin := false, each := false, needsDecimal := false, operatorMap := false, logical := false, logicalConst := false, topNI := false, fieldNI := true, updater := false, updateInline := false, updateChecked := false, pushMod := false, stageImpl := false, exprHit := none, exprNI := false, grouping := false, groupInline := false, groupChecked := false, typeImpl := false, typeNone := false }
def cls_25 : NameClass :=
  { op := true, comment := false, expr := true, not_ := false, all := false, exists_ := false, neNin := false, each := false, needsDecimal := false, operatorMap := false, logical := false, logicalConst := false, topNI := true, fieldNI := false, updater := false, updateInline := false, updateChecked := false, pushMod := false, stageImpl := false, exprHit := none, exprNI := false, grouping := false, groupInline := false, groupChecked := false, typeImpl := false, typeNone := false }
def cls_26 : NameClass :=
  { op := true, comment := false, expr := false, not_ := false, all := false, exists_ := false, neNin := false, each := false, needsDecimal := false, operatorMap := false, logical := false, logicalConst := false, topNI := false, fieldNI := false, updater := false, updateInline := false, updateChecked := false, pushMod := true, stageImpl := true, exprHit := none, exprNI := false, grouping := false, groupInline := false, groupChecked := false, typeImpl := false, typeNone := false }
def cls_27 : NameClass :=
  { op := true, comment := false, expr := false, not_ := false, all := false, exists_ := false, neNin := false, each := false, needsDecimal := false, operatorMap := false, logical := false, logicalConst := false, topNI := true, fieldNI := false, updater := false, updateInline := false, updateChecked := false, pushMod := false, stageImpl := false, exprHit := none, exprNI := false, grouping := false, groupInline := false, groupChecked := false, typeImpl := false, typeNone := false }
def cls_28 : NameClass :=
  { op := true, comment := false, expr := false, not_ := false, all := false, exists_ := false, neNin := false, each := false, needsDecimal := false, operatorMap := false, logical := false, logicalConst := false, topNI := false, fieldNI := false, updater := false, updateInline := false, updateChecked := false, pushMod := true, stageImpl := false, exprHit := some true, exprNI := false, grouping := false, groupInline := false, groupChecked := false, typeImpl := false, typeNone := false }
def cls_29 : NameClass :=
  { op := true, comment := false, expr := false, not_ := false, all := false, exists_ := false, neNin := false, each := false, needsDecimal := true, operatorMap := false, logical := false, logicalConst := false, topNI := false, fieldNI := false, updater := false, updateInline := false, updateChecked := false, pushMod := false, stageImpl := false, exprHit := some true, exprNI := false, grouping := false, groupInline := false, groupChecked := false, typeImpl := false, typeNone := false }
def cls_30 : NameClass :=
  { op := true, comment := false, expr := false, not_ := false, all := false, exists_ := true, neNin := false, each := false, needsDecimal := false, operatorMap := true, logical := false, logicalConst := false, topNI := false, fieldNI := false, updater := false, updateInline := false, updateChecked := false, pushMod := false, stageImpl := false, exprHit := none, exprNI := false, grouping := false, groupInline := false, groupChecked := false, typeImpl := false, typeNone := false }
def cls_31 : NameClass :=
  { op := true, comment := true, expr := false, not_ := false, all := false, exists_ := false, neNin := false, each := false, needsDecimal := false, operatorMap := false, logical := false, logicalConst := false, topNI := false, fieldNI := false, updater := false, updateInline := false, updateChecked := false, pushMod := false, stageImpl := false, exprHit := none, exprNI := false, grouping := false, groupInline := false, groupChecked := false, typeImpl := false, typeNone := false }
def cls_32 : NameClass :=
  { op := true, comment := false, expr := false, not_ := false, all := false, exists_ := false, neNin := false, each := false, needsDecimal := false, operatorMap := false, logical := false, logicalConst := false, topNI := false, fieldNI := false, updater := false, updateInline := false, updateChecked := false, pushMod := true, stageImpl := false, exprHit := none, exprNI := false, grouping := false, groupInline := false, groupChecked := false, typeImpl := false, typeNone := false }
def cls_33 : NameClass :=
  { op := true, comment := false, expr := false, not_ := false, all := false, exists_ := false, neNin := false, each := false, needsDecimal := false, operatorMap := false, logical := false, logicalConst := false, topNI := false, fieldNI := false, updater := false, updateInline := false, updateChecked := false, pushMod := false, stageImpl := false, exprHit := none, exprNI := true, grouping := true, groupInline := false, groupChecked := true, typeImpl := false, typeNone := false }

/-! distinct vectors of observed dispositions -/
def dv_0 : List (Position × Disposition) :=
  [(.queryField, .raisesOther), (.queryFieldDeadEnd, .raisesOther), (.queryTop, .raisesOther), (.queryNot, .raisesOther), (.queryElemMatch, .raisesOther), (.updateOp, .raisesOther), (.updateNoMatch, .raisesOther), (.pushModifier, .raisesOther), (.addToSetModifier, .raisesOther), (.stage, .raisesNotImplemented), (.exprProject, .raisesOther), (.exprAddFields, .raisesOther), (.exprMatchExpr, .raisesOther), (.exprGroupId, .raisesOther), (.accumulator, .raisesNotImplemented), (.typeAlias, .raisesOther)]
def dv_1 : List (Position × Disposition) :=
  [(.typeAlias, .raisesOther)]
def dv_2 : List (Position × Disposition) :=
  [(.queryField, .implemented), (.queryFieldDeadEnd, .ignored), (.queryTop, .raisesOther), (.queryNot, .implemented), (.queryElemMatch, .implemented), (.updateOp, .raisesOther), (.updateNoMatch, .raisesOther), (.pushModifier, .raisesOther), (.addToSetModifier, .raisesOther), (.stage, .raisesNotImplemented), (.exprProject, .implemented), (.exprAddFields, .implemented), (.exprMatchExpr, .implemented), (.exprGroupId, .implemented), (.accumulator, .raisesNotImplemented), (.typeAlias, .raisesOther)]
def dv_3 : List (Position × Disposition) :=
  [(.queryField, .implemented), (.queryFieldDeadEnd, .implemented), (.queryTop, .raisesOther), (.queryNot, .implemented), (.queryElemMatch, .implemented), (.updateOp, .raisesOther), (.updateNoMatch, .raisesOther), (.pushModifier, .raisesOther), (.addToSetModifier, .raisesOther), (.stage, .raisesNotImplemented), (.exprProject, .implemented), (.exprAddFields, .implemented), (.exprMatchExpr, .implemented), (.exprGroupId, .implemented), (.accumulator, .raisesNotImplemented), (.typeAlias, .raisesOther)]
def dv_4 : List (Position × Disposition) :=
  [(.queryField, .raisesOther), (.queryFieldDeadEnd, .raisesOther), (.queryTop, .raisesOther), (.queryNot, .raisesOther), (.queryElemMatch, .raisesOther), (.updateOp, .raisesOther), (.updateNoMatch, .raisesOther), (.pushModifier, .raisesOther), (.addToSetModifier, .raisesOther), (.stage, .raisesNotImplemented), (.exprProject, .implemented), (.exprAddFields, .implemented), (.exprMatchExpr, .implemented), (.exprGroupId, .implemented), (.accumulator, .raisesNotImplemented), (.typeAlias, .raisesOther)]
def dv_5 : List (Position × Disposition) :=
  [(.queryField, .raisesOther), (.queryFieldDeadEnd, .raisesOther), (.queryTop, .implemented), (.queryNot, .raisesOther), (.queryElemMatch, .implemented), (.updateOp, .raisesOther), (.updateNoMatch, .raisesOther), (.pushModifier, .raisesOther), (.addToSetModifier, .raisesOther), (.stage, .raisesNotImplemented), (.exprProject, .implemented), (.exprAddFields, .implemented), (.exprMatchExpr, .implemented), (.exprGroupId, .implemented), (.accumulator, .raisesNotImplemented), (.typeAlias, .raisesOther)]
def dv_6 : List (Position × Disposition) :=
  [(.typeAlias, .implemented)]
def dv_7 : List (Position × Disposition) :=
  [(.queryField, .raisesOther), (.queryFieldDeadEnd, .raisesOther), (.queryTop, .raisesOther), (.queryNot, .raisesOther), (.queryElemMatch, .raisesOther), (.updateOp, .implemented), (.updateNoMatch, .implemented), (.pushModifier, .raisesOther), (.addToSetModifier, .raisesOther), (.stage, .raisesNotImplemented), (.exprProject, .raisesOther), (.exprAddFields, .raisesOther), (.exprMatchExpr, .raisesOther), (.exprGroupId, .raisesOther), (.accumulator, .raisesNotImplemented), (.typeAlias, .raisesOther)]
def dv_8 : List (Position × Disposition) :=
  [(.queryField, .raisesOther), (.queryFieldDeadEnd, .raisesOther), (.queryTop, .raisesOther), (.queryNot, .raisesOther), (.queryElemMatch, .raisesOther), (.updateOp, .raisesOther), (.updateNoMatch, .raisesOther), (.pushModifier, .raisesOther), (.addToSetModifier, .raisesOther), (.stage, .raisesNotImplemented), (.exprProject, .implemented), (.exprAddFields, .implemented), (.exprMatchExpr, .implemented), (.exprGroupId, .implemented), (.accumulator, .implemented), (.typeAlias, .raisesOther)]
def dv_9 : List (Position × Disposition) :=
  [(.queryField, .implemented), (.queryFieldDeadEnd, .implemented), (.queryTop, .raisesOther), (.queryNot, .implemented), (.queryElemMatch, .implemented), (.updateOp, .raisesOther), (.updateNoMatch, .raisesOther), (.pushModifier, .raisesOther), (.addToSetModifier, .raisesOther), (.stage, .raisesNotImplemented), (.exprProject, .raisesOther), (.exprAddFields, .raisesOther), (.exprMatchExpr, .raisesOther), (.exprGroupId, .raisesOther), (.accumulator, .raisesNotImplemented), (.typeAlias, .raisesOther)]
def dv_10 : List (Position × Disposition) :=
  [(.typeAlias, .raisesNotImplemented)]
def dv_11 : List (Position × Disposition) :=
  [(.queryField, .raisesOther), (.queryFieldDeadEnd, .raisesOther), (.queryTop, .raisesOther), (.queryNot, .raisesOther), (.queryElemMatch, .raisesOther), (.updateOp, .implemented), (.updateNoMatch, .implemented), (.pushModifier, .raisesOther), (.addToSetModifier, .raisesOther), (.stage, .raisesNotImplemented), (.exprProject, .implemented), (.exprAddFields, .implemented), (.exprMatchExpr, .implemented), (.exprGroupId, .implemented), (.accumulator, .implemented), (.typeAlias, .raisesOther)]
def dv_12 : List (Position × Disposition) :=
  [(.queryField, .implemented), (.queryFieldDeadEnd, .ignored), (.queryTop, .raisesOther), (.queryNot, .implemented), (.queryElemMatch, .implemented), (.updateOp, .raisesOther), (.updateNoMatch, .raisesOther), (.pushModifier, .raisesOther), (.addToSetModifier, .raisesOther), (.stage, .raisesNotImplemented), (.exprProject, .raisesOther), (.exprAddFields, .raisesOther), (.exprMatchExpr, .raisesOther), (.exprGroupId, .raisesOther), (.accumulator, .raisesNotImplemented), (.typeAlias, .raisesOther)]
def dv_13 : List (Position × Disposition) :=
  [(.queryField, .raisesOther), (.queryFieldDeadEnd, .raisesOther), (.queryTop, .raisesOther), (.queryNot, .raisesOther), (.queryElemMatch, .raisesOther), (.updateOp, .raisesOther), (.updateNoMatch, .raisesOther), (.pushModifier, .raisesOther), (.addToSetModifier, .raisesOther), (.stage, .raisesNotImplemented), (.exprProject, .raisesNotImplemented), (.exprAddFields, .raisesNotImplemented), (.exprMatchExpr, .raisesNotImplemented), (.exprGroupId, .raisesNotImplemented), (.accumulator, .raisesNotImplemented), (.typeAlias, .raisesOther)]
def dv_14 : List (Position × Disposition) :=
  [(.queryField, .raisesOther), (.queryFieldDeadEnd, .raisesOther), (.queryTop, .implemented), (.queryNot, .raisesOther), (.queryElemMatch, .implemented), (.updateOp, .raisesOther), (.updateNoMatch, .raisesOther), (.pushModifier, .raisesOther), (.addToSetModifier, .raisesOther), (.stage, .raisesNotImplemented), (.exprProject, .raisesOther), (.exprAddFields, .raisesOther), (.exprMatchExpr, .raisesOther), (.exprGroupId, .raisesOther), (.accumulator, .raisesNotImplemented), (.typeAlias, .raisesOther)]
def dv_15 : List (Position × Disposition) :=
  [(.queryField, .raisesOther), (.queryFieldDeadEnd, .raisesOther), (.queryTop, .raisesOther), (.queryNot, .raisesOther), (.queryElemMatch, .raisesOther), (.updateOp, .implemented), (.updateNoMatch, .implemented), (.pushModifier, .raisesOther), (.addToSetModifier, .raisesOther), (.stage, .implemented), (.exprProject, .raisesOther), (.exprAddFields, .raisesOther), (.exprMatchExpr, .raisesOther), (.exprGroupId, .raisesOther), (.accumulator, .raisesNotImplemented), (.typeAlias, .raisesOther)]
def dv_16 : List (Position × Disposition) :=
  [(.queryField, .raisesOther), (.queryFieldDeadEnd, .raisesOther), (.queryTop, .raisesOther), (.queryNot, .raisesOther), (.queryElemMatch, .raisesOther), (.updateOp, .raisesOther), (.updateNoMatch, .raisesOther), (.pushModifier, .raisesOther), (.addToSetModifier, .raisesOther), (.stage, .implemented), (.exprProject, .raisesOther), (.exprAddFields, .raisesOther), (.exprMatchExpr, .raisesOther), (.exprGroupId, .raisesOther), (.accumulator, .raisesNotImplemented), (.typeAlias, .raisesOther)]
def dv_17 : List (Position × Disposition) :=
  [(.queryField, .raisesOther), (.queryFieldDeadEnd, .raisesOther), (.queryTop, .raisesOther), (.queryNot, .raisesOther), (.queryElemMatch, .raisesOther), (.updateOp, .raisesOther), (.updateNoMatch, .raisesOther), (.pushModifier, .implemented), (.addToSetModifier, .implemented), (.stage, .raisesNotImplemented), (.exprProject, .raisesOther), (.exprAddFields, .raisesOther), (.exprMatchExpr, .raisesOther), (.exprGroupId, .raisesOther), (.accumulator, .raisesNotImplemented), (.typeAlias, .raisesOther)]
def dv_18 : List (Position × Disposition) :=
  [(.queryField, .raisesOther), (.queryFieldDeadEnd, .raisesOther), (.queryTop, .raisesOther), (.queryNot, .raisesOther), (.queryElemMatch, .raisesOther), (.updateOp, .implemented), (.updateNoMatch, .implemented), (.pushModifier, .raisesOther), (.addToSetModifier, .raisesOther), (.stage, .raisesNotImplemented), (.exprProject, .raisesOther), (.exprAddFields, .raisesOther), (.exprMatchExpr, .raisesOther), (.exprGroupId, .raisesOther), (.accumulator, .implemented), (.typeAlias, .raisesOther)]
def dv_19 : List (Position × Disposition) :=
  [(.queryField, .raisesNotImplemented), (.queryFieldDeadEnd, .raisesNotImplemented), (.queryTop, .raisesOther), (.queryNot, .raisesOther), (.queryElemMatch, .raisesNotImplemented), (.updateOp, .raisesOther), (.updateNoMatch, .raisesOther), (.pushModifier, .raisesOther), (.addToSetModifier, .raisesOther), (.stage, .raisesNotImplemented), (.exprProject, .raisesOther), (.exprAddFields, .raisesOther), (.exprMatchExpr, .raisesOther), (.exprGroupId, .raisesOther), (.accumulator, .raisesNotImplemented), (.typeAlias, .raisesOther)]
def dv_20 : List (Position × Disposition) :=
  [(.queryField, .raisesOther), (.queryFieldDeadEnd, .raisesOther), (.queryTop, .raisesOther), (.queryNot, .raisesOther), (.queryElemMatch, .raisesOther), (.updateOp, .raisesOther), (.updateNoMatch, .raisesOther), (.pushModifier, .implemented), (.addToSetModifier, .raisesOther), (.stage, .implemented), (.exprProject, .raisesOther), (.exprAddFields, .raisesOther), (.exprMatchExpr, .raisesOther), (.exprGroupId, .raisesOther), (.accumulator, .raisesNotImplemented), (.typeAlias, .raisesOther)]
def dv_21 : List (Position × Disposition) :=
  [(.queryField, .raisesOther), (.queryFieldDeadEnd, .raisesOther), (.queryTop, .raisesNotImplemented), (.queryNot, .raisesOther), (.queryElemMatch, .raisesNotImplemented), (.updateOp, .raisesOther), (.updateNoMatch, .raisesOther), (.pushModifier, .raisesOther), (.addToSetModifier, .raisesOther), (.stage, .raisesNotImplemented), (.exprProject, .raisesOther), (.exprAddFields, .raisesOther), (.exprMatchExpr, .raisesOther), (.exprGroupId, .raisesOther), (.accumulator, .raisesNotImplemented), (.typeAlias, .raisesOther)]
def dv_22 : List (Position × Disposition) :=
  [(.queryField, .raisesOther), (.queryFieldDeadEnd, .raisesOther), (.queryTop, .raisesOther), (.queryNot, .raisesOther), (.queryElemMatch, .raisesOther), (.updateOp, .raisesOther), (.updateNoMatch, .raisesOther), (.pushModifier, .implemented), (.addToSetModifier, .raisesOther), (.stage, .raisesNotImplemented), (.exprProject, .implemented), (.exprAddFields, .implemented), (.exprMatchExpr, .implemented), (.exprGroupId, .implemented), (.accumulator, .raisesNotImplemented), (.typeAlias, .raisesOther)]
def dv_23 : List (Position × Disposition) :=
  [(.queryField, .raisesOther), (.queryFieldDeadEnd, .raisesOther), (.queryTop, .raisesOther), (.queryNot, .raisesOther), (.queryElemMatch, .raisesOther), (.updateOp, .raisesOther), (.updateNoMatch, .raisesOther), (.pushModifier, .implemented), (.addToSetModifier, .raisesOther), (.stage, .raisesNotImplemented), (.exprProject, .raisesOther), (.exprAddFields, .raisesOther), (.exprMatchExpr, .raisesOther), (.exprGroupId, .raisesOther), (.accumulator, .raisesNotImplemented), (.typeAlias, .raisesOther)]
def dv_24 : List (Position × Disposition) :=
  [(.queryField, .raisesOther), (.queryFieldDeadEnd, .raisesOther), (.queryTop, .raisesOther), (.queryNot, .raisesOther), (.queryElemMatch, .raisesOther), (.updateOp, .raisesOther), (.updateNoMatch, .raisesOther), (.pushModifier, .raisesOther), (.addToSetModifier, .raisesOther), (.stage, .raisesNotImplemented), (.exprProject, .raisesNotImplemented), (.exprAddFields, .raisesNotImplemented), (.exprMatchExpr, .raisesNotImplemented), (.exprGroupId, .raisesNotImplemented), (.accumulator, .implemented), (.typeAlias, .raisesOther)]

def rows_0 : List Row := [
  ⟨"$", 36, cls_0, dv_0⟩,
  ⟨"1", 49, cls_1, dv_1⟩,
  ⟨"2", 50, cls_1, dv_1⟩,
  ⟨"3", 51, cls_1, dv_1⟩,
  ⟨"4", 52, cls_1, dv_1⟩,
  ⟨"5", 53, cls_1, dv_1⟩,
  ⟨"6", 54, cls_1, dv_1⟩,
  ⟨"7", 55, cls_1, dv_1⟩,
  ⟨"8", 56, cls_1, dv_1⟩,
  ⟨"9", 57, cls_1, dv_1⟩,
  ⟨"$$", 9252, cls_0, dv_0⟩,
  ⟨"10", 12337, cls_1, dv_1⟩,
  ⟨"-1", 12589, cls_1, dv_1⟩,
  ⟨"11", 12593, cls_1, dv_1⟩,
  ⟨"12", 12849, cls_1, dv_1⟩,
  ⟨"13", 13105, cls_1, dv_1⟩,
  ⟨"14", 13361, cls_1, dv_1⟩,
  ⟨"15", 13617, cls_1, dv_1⟩,
  ⟨"16", 13873, cls_1, dv_1⟩,
  ⟨"17", 14129, cls_1, dv_1⟩,
  ⟨"18", 14385, cls_1, dv_1⟩,
  ⟨"19", 14641, cls_1, dv_1⟩,
  ⟨"$e", 25892, cls_0, dv_0⟩,
  ⟨"127", 3617329, cls_1, dv_1⟩,
  ⟨"$EQ", 5326116, cls_0, dv_0⟩,
  ⟨"$[]", 6118180, cls_0, dv_0⟩,
  ⟨"$ne", 6647332, cls_2, dv_2⟩,
  ⟨"$in", 7235876, cls_3, dv_3⟩,
  ⟨"$ln", 7236644, cls_4, dv_4⟩,
  ⟨"$no", 7302692, cls_0, dv_0⟩,
  ⟨"$Eq", 7423268, cls_0, dv_0⟩,
  ⟨"$eq", 7431460, cls_3, dv_3⟩,
  ⟨"$or", 7499556, cls_5, dv_5⟩,
  ⟨"str", 7500915, cls_1, dv_1⟩,
  ⟨"$gt", 7628580, cls_3, dv_3⟩,
  ⟨"$lt", 7629860, cls_3, dv_3⟩,
  ⟨"int", 7630441, cls_6, dv_6⟩,
  ⟨"$eq ", 544302372, cls_0, dv_0⟩,
  ⟨"$NqW", 1467043364, cls_0, dv_0⟩,
  ⟨"$inc", 1668180260, cls_7, dv_7⟩]
def rows_1 : List Row := [
  ⟨"$add", 1684300068, cls_4, dv_4⟩,
  ⟨"$and", 1684955428, cls_5, dv_5⟩,
  ⟨"$mod", 1685024036, cls_4, dv_4⟩,
  ⟨"date", 1702125924, cls_6, dv_6⟩,
  ⟨"$gte", 1702127396, cls_3, dv_3⟩,
  ⟨"$lte", 1702128676, cls_3, dv_3⟩,
  ⟨"long", 1735290732, cls_6, dv_6⟩,
  ⟨"$log", 1735355428, cls_4, dv_4⟩,
  ⟨"$avg", 1735811364, cls_8, dv_8⟩,
  ⟨"$all", 1819042084, cls_9, dv_9⟩,
  ⟨"null", 1819047278, cls_10, dv_10⟩,
  ⟨"bool", 1819242338, cls_6, dv_6⟩,
  ⟨"$mul", 1819634980, cls_0, dv_0⟩,
  ⟨"$Sum", 1836405540, cls_0, dv_0⟩,
  ⟨"$sum", 1836413732, cls_8, dv_8⟩,
  ⟨"$tan", 1851880484, cls_0, dv_0⟩,
  ⟨"$min", 1852402980, cls_11, dv_11⟩,
  ⟨"$nin", 1852403236, cls_12, dv_12⟩,
  ⟨"$sin", 1852404516, cls_0, dv_0⟩,
  ⟨"$map", 1885433124, cls_4, dv_4⟩,
  ⟨"$zip", 1885960740, cls_13, dv_13⟩,
  ⟨"$cmp", 1886216996, cls_13, dv_13⟩,
  ⟨"$pop", 1886351396, cls_7, dv_7⟩,
  ⟨"$exp", 1886938404, cls_4, dv_4⟩,
  ⟨"$ eq", 1902452772, cls_0, dv_0⟩,
  ⟨"$$eq", 1902453796, cls_0, dv_0⟩,
  ⟨"$eqq", 1903256868, cls_0, dv_0⟩,
  ⟨"$nor", 1919905316, cls_14, dv_14⟩,
  ⟨"$abs", 1935827236, cls_4, dv_4⟩,
  ⟨"$cos", 1936679716, cls_0, dv_0⟩,
  ⟨"dict", 1952672100, cls_1, dv_1⟩,
  ⟨"$Set", 1952797476, cls_0, dv_0⟩,
  ⟨"$let", 1952803876, cls_15, dv_4⟩,
  ⟨"$set", 1952805668, cls_16, dv_15⟩,
  ⟨"$bit", 1953063460, cls_0, dv_0⟩,
  ⟨"$not", 1953459748, cls_17, dv_3⟩,
  ⟨"$out", 1953853220, cls_18, dv_16⟩,
  ⟨"$pow", 2003791908, cls_4, dv_4⟩,
  ⟨"$max", 2019650852, cls_11, dv_11⟩,
  ⟨"$box", 2020565540, cls_0, dv_0⟩]
def rows_2 : List Row := [
  ⟨"$QXDC", 288909447460, cls_0, dv_0⟩,
  ⟨"$meta", 418564631844, cls_19, dv_13⟩,
  ⟨"$rand", 431348609572, cls_0, dv_0⟩,
  ⟨"$cond", 431349523236, cls_4, dv_4⟩,
  ⟨"$gtee", 435493824292, cls_0, dv_0⟩,
  ⟨"$type", 435678704676, cls_20, dv_9⟩,
  ⟨"$note", 435745156644, cls_0, dv_0⟩,
  ⟨"$size", 435845428004, cls_3, dv_3⟩,
  ⟨"$each", 448343926052, cls_21, dv_17⟩,
  ⟨"$tanh", 448528479268, cls_0, dv_0⟩,
  ⟨"$sinh", 448529003300, cls_0, dv_0⟩,
  ⟨"$cosh", 448613278500, cls_0, dv_0⟩,
  ⟨"$push", 448613675044, cls_22, dv_18⟩,
  ⟨"$week", 461262649124, cls_4, dv_4⟩,
  ⟨"$rank", 461413380644, cls_0, dv_0⟩,
  ⟨"$ceil", 465624720164, cls_4, dv_4⟩,
  ⟨"$pull", 465676103716, cls_23, dv_7⟩,
  ⟨"$trim", 469920543780, cls_13, dv_13⟩,
  ⟨"$summ", 469987848996, cls_0, dv_0⟩,
  ⟨"$atan", 474081419556, cls_0, dv_0⟩,
  ⟨"$asin", 474215571748, cls_0, dv_0⟩,
  ⟨"$typo", 478628377636, cls_0, dv_0⟩,
  ⟨"$skip", 482804986660, cls_18, dv_16⟩,
  ⟨"$near", 491260309028, cls_24, dv_19⟩,
  ⟨"$year", 491260311844, cls_4, dv_4⟩,
  ⟨"$expr", 491513210148, cls_25, dv_14⟩,
  ⟨"$hour", 491596507172, cls_4, dv_4⟩,
  ⟨"$acos", 495790022948, cls_0, dv_0⟩,
  ⟨"float", 499850898534, cls_1, dv_1⟩,
  ⟨"$hint", 500068608036, cls_0, dv_0⟩,
  ⟨"$sort", 500136112932, cls_26, dv_20⟩,
  ⟨"$sqrt", 500136244004, cls_4, dv_4⟩,
  ⟨"$last", 500151970852, cls_8, dv_8⟩,
  ⟨"$sett", 500169012004, cls_0, dv_0⟩,
  ⟨"$text", 500236121124, cls_27, dv_21⟩,
  ⟨"regex", 517097350514, cls_10, dv_10⟩,
  ⟨"array", 521325933153, cls_6, dv_6⟩,
  ⟨"$log10", 52988746886180, cls_4, dv_4⟩,
  ⟨"$atan2", 55449662808356, cls_0, dv_0⟩,
  ⟨"$trunc", 109326067987492, cls_4, dv_4⟩]
def rows_3 : List Row := [
  ⟨"$round", 110425579418148, cls_0, dv_0⟩,
  ⟨"$slice", 111477644882724, cls_28, dv_22⟩,
  ⟨"$range", 111494907916836, cls_13, dv_13⟩,
  ⟨"$merge", 111494975286564, cls_0, dv_0⟩,
  ⟨"Double", 111516182736708, cls_1, dv_1⟩,
  ⟨"double", 111516182736740, cls_6, dv_6⟩,
  ⟨"$where", 111542002022180, cls_27, dv_21⟩,
  ⟨"string", 113723913172083, cls_6, dv_6⟩,
  ⟨"$Match", 114776363584804, cls_0, dv_0⟩,
  ⟨"$match", 114776363592996, cls_18, dv_16⟩,
  ⟨"$eachh", 114797553214756, cls_0, dv_0⟩,
  ⟨"$atanh", 114823290708260, cls_0, dv_0⟩,
  ⟨"$asinh", 114823424860452, cls_0, dv_0⟩,
  ⟨"$acosh", 114844999311652, cls_0, dv_0⟩,
  ⟨"$month", 114849278291236, cls_4, dv_4⟩,
  ⟨"$AQnMj", 116880795844900, cls_0, dv_0⟩,
  ⟨"symbol", 119225648511347, cls_10, dv_10⟩,
  ⟨"$ltrim", 120299659226148, cls_0, dv_0⟩,
  ⟨"$rtrim", 120299659227684, cls_0, dv_0⟩,
  ⟨"$group", 123649683253028, cls_18, dv_16⟩,
  ⟨"number", 125779768604014, cls_6, dv_6⟩,
  ⟨"$floor", 125822936311332, cls_4, dv_4⟩,
  ⟨"object", 127970252055151, cls_6, dv_6⟩,
  ⟨"$facet", 127978807846436, cls_18, dv_16⟩,
  ⟨"$unset", 127979077137700, cls_7, dv_7⟩,
  ⟨"$shift", 127983203939108, cls_0, dv_0⟩,
  ⟨"$split", 127996139696932, cls_4, dv_4⟩,
  ⟨"$limit", 127996156013604, cls_18, dv_16⟩,
  ⟨"$toInt", 128017027265572, cls_29, dv_13⟩,
  ⟨"$count", 128017765458724, cls_18, dv_16⟩,
  ⟨"$first", 128039189571108, cls_8, dv_8⟩,
  ⟨"$set.x", 132140916634404, cls_0, dv_0⟩,
  ⟨"$regex", 132376921731620, cls_20, dv_9⟩,
  ⟨"minKey", 133475964184941, cls_10, dv_10⟩,
  ⟨"maxKey", 133475964838253, cls_10, dv_10⟩,
  ⟨"$query", 133532235428132, cls_0, dv_0⟩,
  ⟨"binData", 27431033849669986, cls_6, dv_6⟩,
  ⟨"$unwind", 28268896925414692, cls_18, dv_16⟩,
  ⟨"$second", 28268922359083812, cls_4, dv_4⟩,
  ⟨"$reduce", 28538328494469668, cls_13, dv_13⟩]
def rows_4 : List Row := [
  ⟨"$divide", 28539376768738340, cls_4, dv_4⟩,
  ⟨"$sample", 28548202775016228, cls_18, dv_16⟩,
  ⟨"$rename", 28549237879173668, cls_23, dv_7⟩,
  ⟨"$toDate", 28556933756580900, cls_0, dv_0⟩,
  ⟨"$minute", 28557020360174884, cls_4, dv_4⟩,
  ⟨"$toLong", 29113346903995428, cls_29, dv_13⟩,
  ⟨"$search", 29382740489368356, cls_0, dv_0⟩,
  ⟨"$switch", 29382749214700324, cls_4, dv_4⟩,
  ⟨"$matchh", 29388173941501220, cls_0, dv_0⟩,
  ⟨"decimal", 30506420032202084, cls_10, dv_10⟩,
  ⟨"$ifNull", 30518548567058724, cls_4, dv_4⟩,
  ⟨"$toBool", 30521821131404324, cls_0, dv_0⟩,
  ⟨"$lookup", 31654301683117092, cls_18, dv_16⟩,
  ⟨"integer", 32199642103180905, cls_1, dv_1⟩,
  ⟨"$filter", 32199698054473252, cls_4, dv_4⟩,
  ⟨"$center", 32199698087764772, cls_0, dv_0⟩,
  ⟨"$substr", 32216186266940196, cls_4, dv_4⟩,
  ⟨"$exists", 32497661361284388, cls_30, dv_9⟩,
  ⟨"$concat", 32758176980886308, cls_4, dv_4⟩,
  ⟨"$redact", 32760367245783588, cls_0, dv_0⟩,
  ⟨"$bucket", 32762609202979364, cls_18, dv_16⟩,
  ⟨"objectId", 7226435047344726639, cls_6, dv_6⟩,
  ⟨"$dateAdd", 7233978805463901220, cls_0, dv_0⟩,
  ⟨"$isoWeek", 7738702960912460068, cls_13, dv_13⟩,
  ⟨"$literal", 7809649008907480100, cls_15, dv_4⟩,
  ⟨"$natural", 7809649077626433060, cls_0, dv_0⟩,
  ⟨"$pullAll", 7812691387512877092, cls_23, dv_7⟩,
  ⟨"$maxScan", 7953747627066092836, cls_0, dv_0⟩,
  ⟨"$explain", 7955997335097992484, cls_0, dv_0⟩,
  ⟨"$polygon", 7957692837794902052, cls_0, dv_0⟩,
  ⟨"$geoNear", 8241980180615489316, cls_0, dv_0⟩,
  ⟨"$toUpper", 8243118320743576612, cls_4, dv_4⟩,
  ⟨"$toLower", 8243126012879008804, cls_4, dv_4⟩,
  ⟨"$options", 8317708060515659556, cls_0, dv_0⟩,
  ⟨"$existss", 8319120975722997028, cls_0, dv_0⟩,
  ⟨"$project", 8386658438904705060, cls_18, dv_16⟩,
  ⟨"$Comment", 8389754676499661604, cls_0, dv_0⟩,
  ⟨"$comment", 8389754676499669796, cls_31, dv_14⟩,
  ⟨"$convert", 8390880615077995300, cls_13, dv_13⟩,
  ⟨"$isArray", 8746397786380134692, cls_4, dv_4⟩]
def rows_5 : List Row := [
  ⟨"$orderby", 8746679206109409060, cls_0, dv_0⟩,
  ⟨"$strLenCP", 1480598458323755627300, cls_13, dv_13⟩,
  ⟨"$substrCP", 1480599600883572241188, cls_13, dv_13⟩,
  ⟨"undefined", 1851983302504732716661, cls_10, dv_10⟩,
  ⟨"$getField", 1852485172251020584740, cls_0, dv_0⟩,
  ⟨"$setField", 1852485172251020587812, cls_0, dv_0⟩,
  ⟨"$language", 1870570515790406183972, cls_0, dv_0⟩,
  ⟨"$toDouble", 1870931085269228549156, cls_0, dv_0⟩,
  ⟨"$bsonSize", 1871941824523627880996, cls_0, dv_0⟩,
  ⟨"$dateDiff", 1888947400185332458532, cls_0, dv_0⟩,
  ⟨"$toString", 1907970655652752094244, cls_4, dv_4⟩,
  ⟨"$integral", 1999270148415098349860, cls_0, dv_0⟩,
  ⟨"$setUnion", 2037169917232119378724, cls_4, dv_4⟩,
  ⟨"$function", 2037169923889219069476, cls_0, dv_0⟩,
  ⟨"$position", 2037169923915072368676, cls_32, dv_23⟩,
  ⟨"timestamp", 2073917045117316589940, cls_10, dv_10⟩,
  ⟨"$isNumber", 2110234346299032037668, cls_4, dv_4⟩,
  ⟨"dbPointer", 2110239413897136202340, cls_10, dv_10⟩,
  ⟨"$comments", 2129765323153098105636, cls_0, dv_0⟩,
  ⟨"$subtract", 2146983443276997423908, cls_4, dv_4⟩,
  ⟨"$addToSet", 2147123614379457929508, cls_22, dv_18⟩,
  ⟨"$snapshot", 2147850105812604056356, cls_0, dv_0⟩,
  ⟨"$multiply", 2239869894221100313892, cls_4, dv_4⟩,
  ⟨"$geometry", 2240303361257172723492, cls_0, dv_0⟩,
  ⟨"$ZcCd_wnhI", 346659174568900526561828, cls_0, dv_0⟩,
  ⟨"$indexOfCP", 379032622726002057832740, cls_13, dv_13⟩,
  ⟨"$maxTimeMS", 393384125985437998214436, cls_0, dv_0⟩,
  ⟨"$CgTQkFNIV", 407475770157750666347300, cls_0, dv_0⟩,
  ⟨"$dateTrunc", 469551886571647430386724, cls_0, dv_0⟩,
  ⟨"$regexFind", 474273376018071845958180, cls_0, dv_0⟩,
  ⟨"$elemMatch", 492960727950853736785188, cls_20, dv_9⟩,
  ⟨"$unionWith", 493273527188115155744036, cls_0, dv_0⟩,
  ⟨"$dayOfWeek", 507163637236309032002596, cls_4, dv_4⟩,
  ⟨"$denseRank", 507329368294276305609764, cls_0, dv_0⟩,
  ⟨"$toDecimal", 511812798266980789351460, cls_29, dv_13⟩,
  ⟨"$geoWithin", 521404748000101971355428, cls_24, dv_19⟩,
  ⟨"$currentOp", 530370728617921377297188, cls_0, dv_0⟩,
  ⟨"$xAIkNfDZp", 530570181761099024660516, cls_0, dv_0⟩,
  ⟨"$stdDevPop", 530958432606496727790372, cls_13, dv_13⟩,
  ⟨"$dayOfYear", 540146416203051663713316, cls_4, dv_4⟩]
def rows_6 : List Row := [
  ⟨"$addFields", 544924630702259951657252, cls_18, dv_16⟩,
  ⟨"$setEquals", 545071416533706904793892, cls_4, dv_4⟩,
  ⟨"$collStats", 545218990172003625820964, cls_0, dv_0⟩,
  ⟨"javascript", 549868145594002849554794, cls_10, dv_10⟩,
  ⟨"$returnKey", 573274900986320807883300, cls_0, dv_0⟩,
  ⟨"$jsonSchema", 117782413092350802359708196, cls_27, dv_21⟩,
  ⟨"$searchMeta", 117815467713600834865820452, cls_0, dv_0⟩,
  ⟨"$toObjectId", 121239461699272704753890340, cls_0, dv_0⟩,
  ⟨"$unsetField", 121404468248642885247726884, cls_0, dv_0⟩,
  ⟨"$replaceOne", 122622432692765169568543268, cls_0, dv_0⟩,
  ⟨"$nearSphere", 122641728206882858925911588, cls_24, dv_19⟩,
  ⟨"$sampleRate", 122651097564536489201726244, cls_0, dv_0⟩,
  ⟨"$derivative", 122660692320298080686924836, cls_0, dv_0⟩,
  ⟨"$binarySize", 122679579415079922984116772, cls_0, dv_0⟩,
  ⟨"$regexMatch", 126197946355430651161047588, cls_4, dv_4⟩,
  ⟨"$dayOfMonth", 126278116913961424006505508, cls_4, dv_4⟩,
  ⟨"$replaceAll", 131075210442684802567336484, cls_0, dv_0⟩,
  ⟨"$bucketAuto", 134740723474799562923008548, cls_0, dv_0⟩,
  ⟨"$stdDevSamp", 135916225091752105539302180, cls_13, dv_13⟩,
  ⟨"$strcasecmp", 135916263281428256043332388, cls_4, dv_4⟩,
  ⟨"$uniqueDocs", 139496036054553128915072292, cls_0, dv_0⟩,
  ⟨"$indexStats", 139576061484046092101118244, cls_0, dv_0⟩,
  ⟨"$bitsAllSet", 140713892982516354036359716, cls_24, dv_19⟩,
  ⟨"$bitsAnySet", 140713893919828026482844196, cls_24, dv_19⟩,
  ⟨"$showDiskLoc", 30773567620260953088781218596, cls_0, dv_0⟩,
  ⟨"$millisecond", 31082008838509680444108795172, cls_4, dv_4⟩,
  ⟨"$minDistance", 31378190906136157313651272996, cls_24, dv_19⟩,
  ⟨"$maxDistance", 31378190906136157313818520868, cls_24, dv_19⟩,
  ⟨"$currentDate", 31398680719348338991362827044, cls_23, dv_7⟩,
  ⟨"$replaceWith", 32327173877148409996016710180, cls_0, dv_0⟩,
  ⟨"$graphLookup", 34804272769707718412734719780, cls_18, dv_16⟩,
  ⟨"$isoWeekYear", 35399035532649652219800676644, cls_13, dv_13⟩,
  ⟨"$accumulator", 35416031477272022781006143780, cls_0, dv_0⟩,
  ⟨"$strLenBytes", 35713427668590681080649249572, cls_13, dv_13⟩,
  ⟨"$substrBytes", 35713427668591823640465863460, cls_13, dv_13⟩,
  ⟨"$dateToParts", 35731551669439146217166693412, cls_0, dv_0⟩,
  ⟨"$arrayElemAt", 35979357926420538493351649572, cls_4, dv_4⟩,
  ⟨"$setIsSubset", 36022907535437782436282725156, cls_13, dv_13⟩,
  ⟨"$sortByCount", 36033797548762715452169220900, cls_0, dv_0⟩,
  ⟨"$replaceRoot", 36034977607871654524164076068, cls_18, dv_16⟩]
def rows_7 : List Row := [
  ⟨"$setOnInsert", 36038557771049438313762353956, cls_23, dv_7⟩,
  ⟨"$centerSphere", 8037448299766275047031017136932, cls_0, dv_0⟩,
  ⟨"$dateToString", 8194671567756247742270243169316, cls_4, dv_4⟩,
  ⟨"$expMovingAvg", 8197099038746909408622039033124, cls_0, dv_0⟩,
  ⟨"$isoDayOfWeek", 8508793889259199672522292554020, cls_13, dv_13⟩,
  ⟨"$regexFindAll", 8590144987052904696493224849956, cls_0, dv_0⟩,
  ⟨"$changeStream", 8666012402010875029600676111140, cls_0, dv_0⟩,
  ⟨"$bitsAllClear", 9062153185345910729154893537828, cls_24, dv_19⟩,
  ⟨"$bitsAnyClear", 9062153185346848040827340022308, cls_24, dv_19⟩,
  ⟨"$indexOfBytes", 9142637483158631751766825134372, cls_13, dv_13⟩,
  ⟨"$listSessions", 9145416728964895418491645553700, cls_0, dv_0⟩,
  ⟨"$mergeObjects", 9147259112857270333399156223268, cls_33, dv_24⟩,
  ⟨"$concatArrays", 9148804181590708568935088743204, cls_4, dv_4⟩,
  ⟨"$dateSubtract", 9221223673928174969857861837860, cls_0, dv_0⟩,
  ⟨"$reverseArray", 9616766067278219112541969543716, cls_13, dv_13⟩,
  ⟨"$indexOfArray", 9616766067278281043633614252324, cls_13, dv_13⟩,
  ⟨"$setDifference", 2056401124050539290174906045920036, cls_13, dv_13⟩,
  ⟨"$caseSensitive", 2057904929804906032309712292242212, cls_0, dv_0⟩,
  ⟨"$covariancePop", 2280449083019914360557480235197220, cls_0, dv_0⟩,
  ⟨"$geoIntersects", 2341698332934259241097904292980516, cls_24, dv_19⟩,
  ⟨"$dateFromParts", 2341702970208328942163742639088676, cls_4, dv_4⟩,
  ⟨"$arrayToObject", 2360634488708892003875619700105508, cls_4, dv_4⟩,
  ⟨"$objectToArray", 2461892113223406327026744121519908, cls_4, dv_4⟩,
  ⟨"$anyElementTrue", 526804082783669013441043252875518244, cls_13, dv_13⟩,
  ⟨"$dateFromString", 537045995864473417093098162563933220, cls_13, dv_13⟩,
  ⟨"$covarianceSamp", 583755741744289483508010123913028388, cls_0, dv_0⟩,
  ⟨"$documentNumber", 593978163478546450054764576061219876, cls_0, dv_0⟩,
  ⟨"$planCacheStats", 599474619378373521632206250163597348, cls_0, dv_0⟩,
  ⟨"$allElementsTrue", 134861845192317078340302341764635451684, cls_13, dv_13⟩,
  ⟨"$setIntersection", 146793563361875009628722520155245343524, cls_13, dv_13⟩,
  ⟨"$setWindowFields", 153382647735981531322945892219678454564, cls_0, dv_0⟩,
  ⟨"$radiansToDegrees", 39267250965851448092989714490106971255332, cls_0, dv_0⟩,
  ⟨"$degreesToRadians", 39279193065845486261049694499053792224292, cls_0, dv_0⟩,
  ⟨"$toHashedIndexKey", 41308810289194499375851927760368877663268, cls_0, dv_0⟩,
  ⟨"$listLocalSessions", 10055492034354053569109242528692577206103076, cls_0, dv_0⟩,
  ⟨"javascriptWithScope", 2262169744445329124721319841588673581996728682, cls_10, dv_10⟩,
  ⟨"$diacriticSensitive", 2262690399178047249695563783587933581916857380, cls_0, dv_0⟩]

def rowChunks : List (List Row) := [rows_0, rows_1, rows_2, rows_3, rows_4, rows_5, rows_6, rows_7]

/-- all rows (317 names) -/
def rows : List Row := rowChunks.flatten

/-- the probed table: one entry per (position, name), 4352 entries -/
def vocab : List Entry := entriesOf rows

/-- known findings (known_findings.json): single (position, name) pairs: queryFieldDeadEnd $ne, queryFieldDeadEnd $nin -/
def knownIgnoredPairs : List (Position × Code) := [(.queryFieldDeadEnd, 6647332), (.queryFieldDeadEnd, 1852403236)]

end Generated
