/-
  GENERATED on every `./check C20` run by harness/extract_sites.py from the working tree of /repo.
  Do not edit.  The parts of the stage specifications that reach a dispatch helper (derived from the syntax tree of mongomock/aggregate.py and a traced run of every stage), and the OBSERVED disposition of the probed names at each of them.
-/

import MongoModel.Vocab

namespace Generated
open MongoModel.Vocab

/-- every call of a dispatch helper in a module-level function of aggregate.py; the helpers: _accumulate_group (accumulator), _parse_expression (expr), process_pipeline (stage), filter_applies (query), _validate_accumulators (accumulator) -/
def callSites : List CallSite := [
  ⟨"_accumulate_group", "_parse_expression", 1279⟩,
  ⟨"_handle_graph_lookup_stage", "filter_applies", 1425⟩,
  ⟨"_handle_graph_lookup_stage", "_parse_expression", 1437⟩,
  ⟨"_handle_group_stage", "_validate_accumulators", 1454⟩,
  ⟨"_handle_group_stage", "_parse_expression", 1461⟩,
  ⟨"_handle_group_stage", "_accumulate_group", 1477⟩,
  ⟨"_handle_bucket_stage", "_validate_accumulators", 1506⟩,
  ⟨"_handle_bucket_stage", "_parse_expression", 1529⟩,
  ⟨"_handle_bucket_stage", "_accumulate_group", 1544⟩,
  ⟨"_handle_replace_root_stage", "_parse_expression", 1725⟩,
  ⟨"_handle_project_stage", "_parse_expression", 1766⟩,
  ⟨"_handle_add_fields_stage", "_parse_expression", 1798⟩,
  ⟨"_handle_facet_stage", "process_pipeline", 1850⟩,
  ⟨"_handle_match_stage", "filter_applies", 1859⟩,
  ⟨"_handle_match_stage", "filter_applies", 1862⟩]

/-- ⟨`<stage>/<key path in the probed specification>:<family>`, index of the call site, family of the helper called there⟩ -/
def sites : List Site := [
  ⟨"$addFields/zq:expr", 11, .expr⟩,
  ⟨"$bucket/groupBy:expr", 7, .expr⟩,
  ⟨"$bucket/output.zn.$sum:expr", 0, .expr⟩,
  ⟨"$bucket/output:accumulator~_validate_accumulators", 6, .accumulator⟩,
  ⟨"$bucket/output:accumulator~_accumulate_group", 8, .accumulator⟩,
  ⟨"$facet/zp:stage", 12, .stage⟩,
  ⟨"$graphLookup/restrictSearchWithMatch:query", 1, .query⟩,
  ⟨"$graphLookup/startWith:expr", 2, .expr⟩,
  ⟨"$group/*:accumulator~_validate_accumulators", 3, .accumulator⟩,
  ⟨"$group/*:accumulator~_accumulate_group", 5, .accumulator⟩,
  ⟨"$group/_id:expr", 4, .expr⟩,
  ⟨"$group/zn.$sum:expr", 0, .expr⟩,
  ⟨"$match/*:query", 14, .query⟩,
  ⟨"$match/*:query@empty", 13, .query⟩,
  ⟨"$project/zq:expr", 10, .expr⟩,
  ⟨"$replaceRoot/newRoot:expr", 9, .expr⟩,
  ⟨"$set/zq:expr", 11, .expr⟩]

/-! distinct classifications -/
def scls_0 : NameClass :=
  { op := true, comment := false, expr := false, not_ := false, all := false, exists_ := false, neNin := false, each := false, needsDecimal := false, operatorMap := false, logical := false, logicalConst := false, topNI := false, fieldNI := false, updater := false, updateInline := false, updateChecked := false, pushMod := false, stageImpl := false, exprHit := none, exprNI := false, grouping := false, groupInline := false, groupChecked := false, typeImpl := false, typeNone := false }
def scls_1 : NameClass :=
  { op := true, comment := false, expr := false, not_ := false, all := false, exists_ := false, neNin := true, each := false, needsDecimal := false, operatorMap := true, logical := false, logicalConst := false, topNI := false, fieldNI := false, updater := false, updateInline := false, updateChecked := false, pushMod := false, stageImpl := false, exprHit := some true, exprNI := false, grouping := false, groupInline := false, groupChecked := false, typeImpl := false, typeNone := false }
def scls_2 : NameClass :=
  { op := true, comment := false, expr := false, not_ := false, all := false, exists_ := false, neNin := false, each := false, needsDecimal := false, operatorMap := true, logical := false, logicalConst := false, topNI := false, fieldNI := false, updater := false, updateInline := false, updateChecked := false, pushMod := false, stageImpl := false, exprHit := some true, exprNI := false, grouping := false, groupInline := false, groupChecked := false, typeImpl := false, typeNone := false }
def scls_3 : NameClass :=
  { op := true, comment := false, expr := false, not_ := false, all := false, exists_ := false, neNin := false, each := false, needsDecimal := false, operatorMap := false, logical := false, logicalConst := false, topNI := false, fieldNI := false, updater := false, updateInline := false, updateChecked := false, pushMod := false, stageImpl := false, exprHit := some true, exprNI := false, grouping := false, groupInline := false, groupChecked := false, typeImpl := false, typeNone := false }
def scls_4 : NameClass :=
  { op := true, comment := false, expr := false, not_ := false, all := false, exists_ := false, neNin := false, each := false, needsDecimal := false, operatorMap := false, logical := true, logicalConst := false, topNI := false, fieldNI := false, updater := false, updateInline := false, updateChecked := false, pushMod := false, stageImpl := false, exprHit := some true, exprNI := false, grouping := false, groupInline := false, groupChecked := false, typeImpl := false, typeNone := false }
def scls_5 : NameClass :=
  { op := true, comment := false, expr := false, not_ := false, all := false, exists_ := false, neNin := false, each := false, needsDecimal := false, operatorMap := false, logical := false, logicalConst := false, topNI := false, fieldNI := false, updater := false, updateInline := false, updateChecked := false, pushMod := false, stageImpl := false, exprHit := some true, exprNI := false, grouping := true, groupInline := false, groupChecked := true, typeImpl := false, typeNone := false }
def scls_6 : NameClass :=
  { op := true, comment := false, expr := false, not_ := false, all := true, exists_ := false, neNin := false, each := false, needsDecimal := false, operatorMap := true, logical := false, logicalConst := false, topNI := false, fieldNI := false, updater := false, updateInline := false, updateChecked := false, pushMod := false, stageImpl := false, exprHit := none, exprNI := false, grouping := false, groupInline := false, groupChecked := false, typeImpl := false, typeNone := false }
def scls_7 : NameClass :=
  { op := true, comment := false, expr := false, not_ := false, all := false, exists_ := false, neNin := false, each := false, needsDecimal := false, operatorMap := false, logical := false, logicalConst := false, topNI := false, fieldNI := false, updater := true, updateInline := false, updateChecked := true, pushMod := false, stageImpl := false, exprHit := some true, exprNI := false, grouping := true, groupInline := false, groupChecked := true, typeImpl := false, typeNone := false }
def scls_8 : NameClass :=
  { op := true, comment := false, expr := false, not_ := false, all := false, exists_ := false, neNin := true, each := false, needsDecimal := false, operatorMap := true, logical := false, logicalConst := false, topNI := false, fieldNI := false, updater := false, updateInline := false, updateChecked := false, pushMod := false, stageImpl := false, exprHit := none, exprNI := false, grouping := false, groupInline := false, groupChecked := false, typeImpl := false, typeNone := false }
def scls_9 : NameClass :=
  { op := true, comment := false, expr := false, not_ := false, all := false, exists_ := false, neNin := false, each := false, needsDecimal := false, operatorMap := false, logical := false, logicalConst := false, topNI := false, fieldNI := false, updater := false, updateInline := false, updateChecked := false, pushMod := false, stageImpl := false, exprHit := some false, exprNI := false, grouping := false, groupInline := false, groupChecked := false, typeImpl := false, typeNone := false }
def scls_10 : NameClass :=
  { op := true, comment := false, expr := false, not_ := false, all := false, exists_ := false, neNin := false, each := false, needsDecimal := false, operatorMap := false, logical := true, logicalConst := false, topNI := false, fieldNI := false, updater := false, updateInline := false, updateChecked := false, pushMod := false, stageImpl := false, exprHit := none, exprNI := false, grouping := false, groupInline := false, groupChecked := false, typeImpl := false, typeNone := false }
def scls_11 : NameClass :=
  { op := true, comment := false, expr := false, not_ := false, all := false, exists_ := false, neNin := false, each := false, needsDecimal := false, operatorMap := false, logical := false, logicalConst := false, topNI := false, fieldNI := false, updater := false, updateInline := false, updateChecked := false, pushMod := false, stageImpl := false, exprHit := some true, exprNI := true, grouping := false, groupInline := false, groupChecked := false, typeImpl := false, typeNone := false }
def scls_12 : NameClass :=
  { op := true, comment := false, expr := false, not_ := false, all := false, exists_ := false, neNin := false, each := false, needsDecimal := false, operatorMap := false, logical := false, logicalConst := false, topNI := false, fieldNI := false, updater := true, updateInline := false, updateChecked := true, pushMod := false, stageImpl := true, exprHit := none, exprNI := false, grouping := false, groupInline := false, groupChecked := false, typeImpl := false, typeNone := false }
def scls_13 : NameClass :=
  { op := true, comment := false, expr := false, not_ := true, all := false, exists_ := false, neNin := false, each := false, needsDecimal := false, operatorMap := false, logical := true, logicalConst := true, topNI := false, fieldNI := false, updater := false, updateInline := false, updateChecked := false, pushMod := false, stageImpl := false, exprHit := some true, exprNI := false, grouping := false, groupInline := false, groupChecked := false, typeImpl := false, typeNone := false }
def scls_14 : NameClass :=
  { op := true, comment := false, expr := false, not_ := false, all := false, exists_ := false, neNin := false, each := false, needsDecimal := false, operatorMap := false, logical := false, logicalConst := false, topNI := false, fieldNI := false, updater := false, updateInline := false, updateChecked := false, pushMod := false, stageImpl := true, exprHit := none, exprNI := false, grouping := false, groupInline := false, groupChecked := false, typeImpl := false, typeNone := false }
def scls_15 : NameClass :=
  { op := true, comment := false, expr := false, not_ := false, all := false, exists_ := false, neNin := false, each := false, needsDecimal := false, operatorMap := false, logical := false, logicalConst := false, topNI := false, fieldNI := false, updater := false, updateInline := false, updateChecked := false, pushMod := false, stageImpl := false, exprHit := none, exprNI := true, grouping := false, groupInline := false, groupChecked := false, typeImpl := false, typeNone := false }
def scls_16 : NameClass :=
  { op := true, comment := false, expr := false, not_ := false, all := false, exists_ := false, neNin := false, each := false, needsDecimal := false, operatorMap := true, logical := false, logicalConst := false, topNI := false, fieldNI := false, updater := false, updateInline := false, updateChecked := false, pushMod := false, stageImpl := false, exprHit := none, exprNI := false, grouping := false, groupInline := false, groupChecked := false, typeImpl := false, typeNone := false }
def scls_17 : NameClass :=
  { op := true, comment := false, expr := false, not_ := false, all := false, exists_ := false, neNin := false, each := false, needsDecimal := false, operatorMap := false, logical := false, logicalConst := false, topNI := false, fieldNI := false, updater := false, updateInline := true, updateChecked := true, pushMod := false, stageImpl := false, exprHit := none, exprNI := false, grouping := false, groupInline := true, groupChecked := true, typeImpl := false, typeNone := false }
def scls_18 : NameClass :=
  { op := true, comment := false, expr := false, not_ := false, all := false, exists_ := false, neNin := false, each := false, needsDecimal := false, operatorMap := false, logical := false, logicalConst := false, topNI := false, fieldNI := true, updater := false, updateInline := false, updateChecked := false, pushMod := false, stageImpl := false, exprHit := none, exprNI := false, grouping := false, groupInline := false, groupChecked := false, typeImpl := false, typeNone := false }
def scls_19 : NameClass :=
  { op := true, comment := false, expr := true, not_ := false, all := false, exists_ := false, neNin := false, each := false, needsDecimal := false, operatorMap := false, logical := false, logicalConst := false, topNI := true, fieldNI := false, updater := false, updateInline := false, updateChecked := false, pushMod := false, stageImpl := false, exprHit := none, exprNI := false, grouping := false, groupInline := false, groupChecked := false, typeImpl := false, typeNone := false }
def scls_20 : NameClass :=
  { op := true, comment := false, expr := false, not_ := false, all := false, exists_ := false, neNin := false, each := false, needsDecimal := false, operatorMap := false, logical := false, logicalConst := false, topNI := false, fieldNI := false, updater := false, updateInline := false, updateChecked := false, pushMod := true, stageImpl := true, exprHit := none, exprNI := false, grouping := false, groupInline := false, groupChecked := false, typeImpl := false, typeNone := false }
def scls_21 : NameClass :=
  { op := true, comment := false, expr := false, not_ := false, all := false, exists_ := false, neNin := false, each := false, needsDecimal := false, operatorMap := false, logical := false, logicalConst := false, topNI := true, fieldNI := false, updater := false, updateInline := false, updateChecked := false, pushMod := false, stageImpl := false, exprHit := none, exprNI := false, grouping := false, groupInline := false, groupChecked := false, typeImpl := false, typeNone := false }
def scls_22 : NameClass :=
  { op := true, comment := false, expr := false, not_ := false, all := false, exists_ := false, neNin := false, each := false, needsDecimal := false, operatorMap := false, logical := false, logicalConst := false, topNI := false, fieldNI := false, updater := false, updateInline := false, updateChecked := false, pushMod := true, stageImpl := false, exprHit := some true, exprNI := false, grouping := false, groupInline := false, groupChecked := false, typeImpl := false, typeNone := false }
def scls_23 : NameClass :=
  { op := true, comment := false, expr := false, not_ := false, all := false, exists_ := false, neNin := false, each := false, needsDecimal := false, operatorMap := false, logical := false, logicalConst := false, topNI := false, fieldNI := false, updater := true, updateInline := false, updateChecked := true, pushMod := false, stageImpl := false, exprHit := none, exprNI := false, grouping := false, groupInline := false, groupChecked := false, typeImpl := false, typeNone := false }
def scls_24 : NameClass :=
  { op := true, comment := false, expr := false, not_ := false, all := false, exists_ := false, neNin := false, each := false, needsDecimal := true, operatorMap := false, logical := false, logicalConst := false, topNI := false, fieldNI := false, updater := false, updateInline := false, updateChecked := false, pushMod := false, stageImpl := false, exprHit := some true, exprNI := false, grouping := false, groupInline := false, groupChecked := false, typeImpl := false, typeNone := false }
def scls_25 : NameClass :=
  { op := true, comment := false, expr := false, not_ := false, all := false, exists_ := true, neNin := false, each := false, needsDecimal := false, operatorMap := true, logical := false, logicalConst := false, topNI := false, fieldNI := false, updater := false, updateInline := false, updateChecked := false, pushMod := false, stageImpl := false, exprHit := none, exprNI := false, grouping := false, groupInline := false, groupChecked := false, typeImpl := false, typeNone := false }
def scls_26 : NameClass :=
  { op := true, comment := true, expr := false, not_ := false, all := false, exists_ := false, neNin := false, each := false, needsDecimal := false, operatorMap := false, logical := false, logicalConst := false, topNI := false, fieldNI := false, updater := false, updateInline := false, updateChecked := false, pushMod := false, stageImpl := false, exprHit := none, exprNI := false, grouping := false, groupInline := false, groupChecked := false, typeImpl := false, typeNone := false }
def scls_27 : NameClass :=
  { op := true, comment := false, expr := false, not_ := false, all := false, exists_ := false, neNin := false, each := false, needsDecimal := false, operatorMap := false, logical := false, logicalConst := false, topNI := false, fieldNI := false, updater := false, updateInline := false, updateChecked := false, pushMod := false, stageImpl := false, exprHit := none, exprNI := true, grouping := true, groupInline := false, groupChecked := true, typeImpl := false, typeNone := false }

/-! distinct vectors of observations: ⟨site, position of the dispatcher, observed, the same calls on an empty collection⟩ -/
def sv_0 : List SiteObs :=
  [⟨6, .queryField, .raisesOther, .silent⟩, ⟨6, .queryTop, .raisesOther, .silent⟩, ⟨12, .queryField, .raisesOther, .raises⟩, ⟨12, .queryTop, .raisesOther, .raises⟩, ⟨13, .queryField, .raisesOther, .raises⟩, ⟨13, .queryTop, .raisesOther, .raises⟩]
def sv_1 : List SiteObs :=
  [⟨0, .exprProject, .raisesOther, .silent⟩, ⟨1, .exprProject, .raisesOther, .silent⟩, ⟨2, .exprProject, .raisesOther, .silent⟩, ⟨3, .accumulator, .raisesNotImplemented, .raises⟩, ⟨4, .accumulator, .raisesNotImplemented, .raises⟩, ⟨5, .stage, .raisesNotImplemented, .raises⟩, ⟨6, .queryField, .raisesOther, .silent⟩, ⟨6, .queryTop, .raisesOther, .silent⟩, ⟨7, .exprProject, .raisesOther, .silent⟩, ⟨8, .accumulator, .raisesNotImplemented, .raises⟩, ⟨9, .accumulator, .raisesNotImplemented, .raises⟩, ⟨10, .exprProject, .raisesOther, .silent⟩, ⟨11, .exprProject, .raisesOther, .silent⟩, ⟨12, .queryField, .raisesOther, .raises⟩, ⟨12, .queryTop, .raisesOther, .raises⟩, ⟨13, .queryField, .raisesOther, .raises⟩, ⟨13, .queryTop, .raisesOther, .raises⟩, ⟨14, .exprProject, .raisesOther, .silent⟩, ⟨15, .exprProject, .raisesOther, .silent⟩, ⟨16, .exprProject, .raisesOther, .silent⟩]
def sv_2 : List SiteObs :=
  [⟨0, .exprProject, .implemented, .notProbed⟩, ⟨1, .exprProject, .implemented, .notProbed⟩, ⟨2, .exprProject, .implemented, .notProbed⟩, ⟨6, .queryField, .implemented, .notProbed⟩, ⟨6, .queryTop, .raisesOther, .silent⟩, ⟨7, .exprProject, .implemented, .notProbed⟩, ⟨10, .exprProject, .implemented, .notProbed⟩, ⟨11, .exprProject, .implemented, .notProbed⟩, ⟨12, .queryField, .implemented, .notProbed⟩, ⟨12, .queryTop, .raisesOther, .raises⟩, ⟨13, .queryField, .implemented, .notProbed⟩, ⟨13, .queryTop, .raisesOther, .raises⟩, ⟨14, .exprProject, .implemented, .notProbed⟩, ⟨15, .exprProject, .raisesOther, .silent⟩, ⟨16, .exprProject, .implemented, .notProbed⟩]
def sv_3 : List SiteObs :=
  [⟨0, .exprProject, .implemented, .notProbed⟩, ⟨1, .exprProject, .implemented, .notProbed⟩, ⟨2, .exprProject, .implemented, .notProbed⟩, ⟨7, .exprProject, .implemented, .notProbed⟩, ⟨10, .exprProject, .implemented, .notProbed⟩, ⟨11, .exprProject, .implemented, .notProbed⟩, ⟨14, .exprProject, .implemented, .notProbed⟩, ⟨15, .exprProject, .raisesOther, .silent⟩, ⟨16, .exprProject, .implemented, .notProbed⟩]
def sv_4 : List SiteObs :=
  [⟨0, .exprProject, .implemented, .notProbed⟩, ⟨1, .exprProject, .implemented, .notProbed⟩, ⟨2, .exprProject, .implemented, .notProbed⟩, ⟨6, .queryField, .raisesOther, .silent⟩, ⟨6, .queryTop, .implemented, .notProbed⟩, ⟨7, .exprProject, .implemented, .notProbed⟩, ⟨10, .exprProject, .implemented, .notProbed⟩, ⟨11, .exprProject, .implemented, .notProbed⟩, ⟨12, .queryField, .raisesOther, .raises⟩, ⟨12, .queryTop, .implemented, .notProbed⟩, ⟨13, .queryField, .raisesOther, .raises⟩, ⟨13, .queryTop, .implemented, .notProbed⟩, ⟨14, .exprProject, .implemented, .notProbed⟩, ⟨15, .exprProject, .raisesOther, .silent⟩, ⟨16, .exprProject, .implemented, .notProbed⟩]
def sv_5 : List SiteObs :=
  [⟨0, .exprProject, .implemented, .notProbed⟩, ⟨1, .exprProject, .implemented, .notProbed⟩, ⟨2, .exprProject, .implemented, .notProbed⟩, ⟨6, .queryField, .raisesOther, .silent⟩, ⟨6, .queryTop, .raisesOther, .silent⟩, ⟨7, .exprProject, .implemented, .notProbed⟩, ⟨10, .exprProject, .implemented, .notProbed⟩, ⟨11, .exprProject, .implemented, .notProbed⟩, ⟨12, .queryField, .raisesOther, .raises⟩, ⟨12, .queryTop, .raisesOther, .raises⟩, ⟨13, .queryField, .raisesOther, .raises⟩, ⟨13, .queryTop, .raisesOther, .raises⟩, ⟨14, .exprProject, .implemented, .notProbed⟩, ⟨15, .exprProject, .raisesOther, .silent⟩, ⟨16, .exprProject, .implemented, .notProbed⟩]
def sv_6 : List SiteObs :=
  [⟨0, .exprProject, .implemented, .notProbed⟩, ⟨1, .exprProject, .implemented, .notProbed⟩, ⟨2, .exprProject, .implemented, .notProbed⟩, ⟨3, .accumulator, .implemented, .notProbed⟩, ⟨4, .accumulator, .implemented, .notProbed⟩, ⟨7, .exprProject, .implemented, .notProbed⟩, ⟨8, .accumulator, .implemented, .notProbed⟩, ⟨9, .accumulator, .implemented, .notProbed⟩, ⟨10, .exprProject, .implemented, .notProbed⟩, ⟨11, .exprProject, .implemented, .notProbed⟩, ⟨14, .exprProject, .implemented, .notProbed⟩, ⟨15, .exprProject, .raisesOther, .silent⟩, ⟨16, .exprProject, .implemented, .notProbed⟩]
def sv_7 : List SiteObs :=
  [⟨6, .queryField, .implemented, .notProbed⟩, ⟨6, .queryTop, .raisesOther, .silent⟩, ⟨12, .queryField, .implemented, .notProbed⟩, ⟨12, .queryTop, .raisesOther, .raises⟩, ⟨13, .queryField, .implemented, .notProbed⟩, ⟨13, .queryTop, .raisesOther, .raises⟩]
def sv_8 : List SiteObs :=
  [⟨0, .exprProject, .raisesOther, .silent⟩, ⟨1, .exprProject, .raisesOther, .silent⟩, ⟨2, .exprProject, .raisesOther, .silent⟩, ⟨7, .exprProject, .raisesOther, .silent⟩, ⟨10, .exprProject, .raisesOther, .silent⟩, ⟨11, .exprProject, .raisesOther, .silent⟩, ⟨14, .exprProject, .raisesOther, .silent⟩, ⟨15, .exprProject, .raisesOther, .silent⟩, ⟨16, .exprProject, .raisesOther, .silent⟩]
def sv_9 : List SiteObs :=
  [⟨0, .exprProject, .implemented, .notProbed⟩, ⟨1, .exprProject, .implemented, .notProbed⟩, ⟨2, .exprProject, .implemented, .notProbed⟩, ⟨3, .accumulator, .implemented, .notProbed⟩, ⟨4, .accumulator, .implemented, .notProbed⟩, ⟨6, .queryField, .raisesOther, .silent⟩, ⟨6, .queryTop, .raisesOther, .silent⟩, ⟨7, .exprProject, .implemented, .notProbed⟩, ⟨8, .accumulator, .implemented, .notProbed⟩, ⟨9, .accumulator, .implemented, .notProbed⟩, ⟨10, .exprProject, .implemented, .notProbed⟩, ⟨11, .exprProject, .implemented, .notProbed⟩, ⟨12, .queryField, .raisesOther, .raises⟩, ⟨12, .queryTop, .raisesOther, .raises⟩, ⟨13, .queryField, .raisesOther, .raises⟩, ⟨13, .queryTop, .raisesOther, .raises⟩, ⟨14, .exprProject, .implemented, .notProbed⟩, ⟨15, .exprProject, .raisesOther, .silent⟩, ⟨16, .exprProject, .implemented, .notProbed⟩]
def sv_10 : List SiteObs :=
  [⟨0, .exprProject, .implemented, .notProbed⟩, ⟨1, .exprProject, .raisesOther, .silent⟩, ⟨2, .exprProject, .implemented, .notProbed⟩, ⟨7, .exprProject, .implemented, .notProbed⟩, ⟨10, .exprProject, .implemented, .notProbed⟩, ⟨11, .exprProject, .implemented, .notProbed⟩, ⟨14, .exprProject, .implemented, .notProbed⟩, ⟨15, .exprProject, .raisesOther, .silent⟩, ⟨16, .exprProject, .implemented, .notProbed⟩]
def sv_11 : List SiteObs :=
  [⟨0, .exprProject, .raisesNotImplemented, .silent⟩, ⟨1, .exprProject, .raisesNotImplemented, .silent⟩, ⟨2, .exprProject, .raisesNotImplemented, .silent⟩, ⟨7, .exprProject, .raisesNotImplemented, .silent⟩, ⟨10, .exprProject, .raisesNotImplemented, .silent⟩, ⟨11, .exprProject, .raisesNotImplemented, .silent⟩, ⟨14, .exprProject, .raisesNotImplemented, .silent⟩, ⟨15, .exprProject, .raisesNotImplemented, .silent⟩, ⟨16, .exprProject, .raisesNotImplemented, .silent⟩]
def sv_12 : List SiteObs :=
  [⟨6, .queryField, .raisesOther, .silent⟩, ⟨6, .queryTop, .implemented, .notProbed⟩, ⟨12, .queryField, .raisesOther, .raises⟩, ⟨12, .queryTop, .implemented, .notProbed⟩, ⟨13, .queryField, .raisesOther, .raises⟩, ⟨13, .queryTop, .implemented, .notProbed⟩]
def sv_13 : List SiteObs :=
  [⟨5, .stage, .implemented, .notProbed⟩]
def sv_14 : List SiteObs :=
  [⟨0, .exprProject, .raisesNotImplemented, .silent⟩, ⟨1, .exprProject, .raisesNotImplemented, .silent⟩, ⟨2, .exprProject, .raisesNotImplemented, .silent⟩, ⟨6, .queryField, .raisesOther, .silent⟩, ⟨6, .queryTop, .raisesOther, .silent⟩, ⟨7, .exprProject, .raisesNotImplemented, .silent⟩, ⟨10, .exprProject, .raisesNotImplemented, .silent⟩, ⟨11, .exprProject, .raisesNotImplemented, .silent⟩, ⟨12, .queryField, .raisesOther, .raises⟩, ⟨12, .queryTop, .raisesOther, .raises⟩, ⟨13, .queryField, .raisesOther, .raises⟩, ⟨13, .queryTop, .raisesOther, .raises⟩, ⟨14, .exprProject, .raisesNotImplemented, .silent⟩, ⟨15, .exprProject, .raisesNotImplemented, .silent⟩, ⟨16, .exprProject, .raisesNotImplemented, .silent⟩]
def sv_15 : List SiteObs :=
  [⟨0, .exprProject, .raisesOther, .silent⟩, ⟨1, .exprProject, .raisesOther, .silent⟩, ⟨2, .exprProject, .raisesOther, .silent⟩, ⟨6, .queryField, .raisesOther, .silent⟩, ⟨6, .queryTop, .raisesOther, .silent⟩, ⟨7, .exprProject, .raisesOther, .silent⟩, ⟨10, .exprProject, .raisesOther, .silent⟩, ⟨11, .exprProject, .raisesOther, .silent⟩, ⟨12, .queryField, .raisesOther, .raises⟩, ⟨12, .queryTop, .raisesOther, .raises⟩, ⟨13, .queryField, .raisesOther, .raises⟩, ⟨13, .queryTop, .raisesOther, .raises⟩, ⟨14, .exprProject, .raisesOther, .silent⟩, ⟨15, .exprProject, .raisesOther, .silent⟩, ⟨16, .exprProject, .raisesOther, .silent⟩]
def sv_16 : List SiteObs :=
  [⟨0, .exprProject, .raisesOther, .silent⟩, ⟨1, .exprProject, .raisesOther, .silent⟩, ⟨2, .exprProject, .raisesOther, .silent⟩, ⟨6, .queryField, .implemented, .notProbed⟩, ⟨6, .queryTop, .raisesOther, .silent⟩, ⟨7, .exprProject, .raisesOther, .silent⟩, ⟨10, .exprProject, .raisesOther, .silent⟩, ⟨11, .exprProject, .raisesOther, .silent⟩, ⟨12, .queryField, .implemented, .notProbed⟩, ⟨12, .queryTop, .raisesOther, .raises⟩, ⟨13, .queryField, .implemented, .notProbed⟩, ⟨13, .queryTop, .raisesOther, .raises⟩, ⟨14, .exprProject, .raisesOther, .silent⟩, ⟨15, .exprProject, .raisesOther, .silent⟩, ⟨16, .exprProject, .raisesOther, .silent⟩]
def sv_17 : List SiteObs :=
  [⟨0, .exprProject, .raisesOther, .silent⟩, ⟨1, .exprProject, .raisesOther, .silent⟩, ⟨2, .exprProject, .raisesOther, .silent⟩, ⟨3, .accumulator, .implemented, .notProbed⟩, ⟨4, .accumulator, .implemented, .notProbed⟩, ⟨7, .exprProject, .raisesOther, .silent⟩, ⟨8, .accumulator, .implemented, .notProbed⟩, ⟨9, .accumulator, .implemented, .notProbed⟩, ⟨10, .exprProject, .raisesOther, .silent⟩, ⟨11, .exprProject, .raisesOther, .silent⟩, ⟨14, .exprProject, .raisesOther, .silent⟩, ⟨15, .exprProject, .raisesOther, .silent⟩, ⟨16, .exprProject, .raisesOther, .silent⟩]
def sv_18 : List SiteObs :=
  [⟨6, .queryField, .raisesNotImplemented, .silent⟩, ⟨6, .queryTop, .raisesOther, .silent⟩, ⟨12, .queryField, .raisesNotImplemented, .raises⟩, ⟨12, .queryTop, .raisesOther, .raises⟩, ⟨13, .queryField, .raisesNotImplemented, .raises⟩, ⟨13, .queryTop, .raisesOther, .raises⟩]
def sv_19 : List SiteObs :=
  [⟨6, .queryField, .raisesOther, .silent⟩, ⟨6, .queryTop, .raisesNotImplemented, .silent⟩, ⟨12, .queryField, .raisesOther, .raises⟩, ⟨12, .queryTop, .raisesNotImplemented, .raises⟩, ⟨13, .queryField, .raisesOther, .raises⟩, ⟨13, .queryTop, .raisesNotImplemented, .raises⟩]
def sv_20 : List SiteObs :=
  [⟨0, .exprProject, .implemented, .notProbed⟩, ⟨1, .exprProject, .raisesOther, .silent⟩, ⟨2, .exprProject, .implemented, .notProbed⟩, ⟨6, .queryField, .raisesOther, .silent⟩, ⟨6, .queryTop, .raisesOther, .silent⟩, ⟨7, .exprProject, .implemented, .notProbed⟩, ⟨10, .exprProject, .implemented, .notProbed⟩, ⟨11, .exprProject, .implemented, .notProbed⟩, ⟨12, .queryField, .raisesOther, .raises⟩, ⟨12, .queryTop, .raisesOther, .raises⟩, ⟨13, .queryField, .raisesOther, .raises⟩, ⟨13, .queryTop, .raisesOther, .raises⟩, ⟨14, .exprProject, .implemented, .notProbed⟩, ⟨15, .exprProject, .raisesOther, .silent⟩, ⟨16, .exprProject, .implemented, .notProbed⟩]
def sv_21 : List SiteObs :=
  [⟨5, .stage, .raisesNotImplemented, .raises⟩]
def sv_22 : List SiteObs :=
  [⟨0, .exprProject, .raisesOther, .silent⟩, ⟨1, .exprProject, .raisesOther, .silent⟩, ⟨2, .exprProject, .raisesOther, .silent⟩, ⟨3, .accumulator, .raisesNotImplemented, .raises⟩, ⟨4, .accumulator, .raisesNotImplemented, .raises⟩, ⟨5, .stage, .implemented, .notProbed⟩, ⟨7, .exprProject, .raisesOther, .silent⟩, ⟨8, .accumulator, .raisesNotImplemented, .raises⟩, ⟨9, .accumulator, .raisesNotImplemented, .raises⟩, ⟨10, .exprProject, .raisesOther, .silent⟩, ⟨11, .exprProject, .raisesOther, .silent⟩, ⟨14, .exprProject, .raisesOther, .silent⟩, ⟨15, .exprProject, .raisesOther, .silent⟩, ⟨16, .exprProject, .raisesOther, .silent⟩]
def sv_23 : List SiteObs :=
  [⟨5, .stage, .raisesNotImplemented, .raises⟩, ⟨6, .queryField, .raisesOther, .silent⟩, ⟨6, .queryTop, .raisesOther, .silent⟩, ⟨12, .queryField, .raisesOther, .raises⟩, ⟨12, .queryTop, .raisesOther, .raises⟩, ⟨13, .queryField, .raisesOther, .raises⟩, ⟨13, .queryTop, .raisesOther, .raises⟩]
def sv_24 : List SiteObs :=
  [⟨0, .exprProject, .implemented, .notProbed⟩, ⟨1, .exprProject, .implemented, .notProbed⟩, ⟨2, .exprProject, .implemented, .notProbed⟩, ⟨7, .exprProject, .implemented, .notProbed⟩, ⟨10, .exprProject, .implemented, .notProbed⟩, ⟨11, .exprProject, .implemented, .notProbed⟩, ⟨14, .exprProject, .implemented, .notProbed⟩, ⟨15, .exprProject, .implemented, .notProbed⟩, ⟨16, .exprProject, .implemented, .notProbed⟩]
def sv_25 : List SiteObs :=
  [⟨0, .exprProject, .raisesNotImplemented, .silent⟩, ⟨1, .exprProject, .raisesNotImplemented, .silent⟩, ⟨2, .exprProject, .raisesNotImplemented, .silent⟩, ⟨3, .accumulator, .raisesNotImplemented, .raises⟩, ⟨4, .accumulator, .raisesNotImplemented, .raises⟩, ⟨7, .exprProject, .raisesNotImplemented, .silent⟩, ⟨8, .accumulator, .raisesNotImplemented, .raises⟩, ⟨9, .accumulator, .raisesNotImplemented, .raises⟩, ⟨10, .exprProject, .raisesNotImplemented, .silent⟩, ⟨11, .exprProject, .raisesNotImplemented, .silent⟩, ⟨14, .exprProject, .raisesNotImplemented, .silent⟩, ⟨15, .exprProject, .raisesNotImplemented, .silent⟩, ⟨16, .exprProject, .raisesNotImplemented, .silent⟩]
def sv_26 : List SiteObs :=
  [⟨0, .exprProject, .raisesOther, .silent⟩, ⟨1, .exprProject, .raisesOther, .silent⟩, ⟨2, .exprProject, .raisesOther, .silent⟩, ⟨3, .accumulator, .raisesNotImplemented, .raises⟩, ⟨4, .accumulator, .raisesNotImplemented, .raises⟩, ⟨7, .exprProject, .raisesOther, .silent⟩, ⟨8, .accumulator, .raisesNotImplemented, .raises⟩, ⟨9, .accumulator, .raisesNotImplemented, .raises⟩, ⟨10, .exprProject, .raisesOther, .silent⟩, ⟨11, .exprProject, .raisesOther, .silent⟩, ⟨14, .exprProject, .raisesOther, .silent⟩, ⟨15, .exprProject, .raisesOther, .silent⟩, ⟨16, .exprProject, .raisesOther, .silent⟩]
def sv_27 : List SiteObs :=
  [⟨0, .exprProject, .raisesNotImplemented, .silent⟩, ⟨1, .exprProject, .raisesNotImplemented, .silent⟩, ⟨2, .exprProject, .raisesNotImplemented, .silent⟩, ⟨3, .accumulator, .implemented, .notProbed⟩, ⟨4, .accumulator, .implemented, .notProbed⟩, ⟨7, .exprProject, .raisesNotImplemented, .silent⟩, ⟨8, .accumulator, .implemented, .notProbed⟩, ⟨9, .accumulator, .implemented, .notProbed⟩, ⟨10, .exprProject, .raisesNotImplemented, .silent⟩, ⟨11, .exprProject, .raisesNotImplemented, .silent⟩, ⟨14, .exprProject, .raisesNotImplemented, .silent⟩, ⟨15, .exprProject, .raisesNotImplemented, .silent⟩, ⟨16, .exprProject, .raisesNotImplemented, .silent⟩]
def sv_28 : List SiteObs :=
  [⟨0, .exprProject, .implemented, .notProbed⟩, ⟨1, .exprProject, .raisesOther, .silent⟩, ⟨2, .exprProject, .implemented, .notProbed⟩, ⟨7, .exprProject, .implemented, .notProbed⟩, ⟨10, .exprProject, .implemented, .notProbed⟩, ⟨11, .exprProject, .implemented, .notProbed⟩, ⟨14, .exprProject, .implemented, .notProbed⟩, ⟨15, .exprProject, .implemented, .notProbed⟩, ⟨16, .exprProject, .implemented, .notProbed⟩]

/-- $ $$ $e $EQ $ne $in $ln $no $Eq $eq $or $gt $lt $eq  $NqW $add $and $mod $gte $lte $log $avg $all $Sum $sum $tan $min $nin $sin $map $zip $cmp $exp $ eq $$eq $eqq $nor $abs $cos $Set -/
def siteRows_0 : List SiteRow := [
  ⟨36, scls_0, sv_0⟩,
  ⟨9252, scls_0, sv_1⟩,
  ⟨25892, scls_0, sv_1⟩,
  ⟨5326116, scls_0, sv_1⟩,
  ⟨6647332, scls_1, sv_2⟩,
  ⟨7235876, scls_2, sv_2⟩,
  ⟨7236644, scls_3, sv_3⟩,
  ⟨7302692, scls_0, sv_1⟩,
  ⟨7423268, scls_0, sv_1⟩,
  ⟨7431460, scls_2, sv_2⟩,
  ⟨7499556, scls_4, sv_4⟩,
  ⟨7628580, scls_2, sv_2⟩,
  ⟨7629860, scls_2, sv_2⟩,
  ⟨544302372, scls_0, sv_1⟩,
  ⟨1467043364, scls_0, sv_1⟩,
  ⟨1684300068, scls_3, sv_3⟩,
  ⟨1684955428, scls_4, sv_4⟩,
  ⟨1685024036, scls_3, sv_5⟩,
  ⟨1702127396, scls_2, sv_2⟩,
  ⟨1702128676, scls_2, sv_2⟩,
  ⟨1735355428, scls_3, sv_3⟩,
  ⟨1735811364, scls_5, sv_6⟩,
  ⟨1819042084, scls_6, sv_7⟩,
  ⟨1836405540, scls_0, sv_1⟩,
  ⟨1836413732, scls_5, sv_6⟩,
  ⟨1851880484, scls_0, sv_8⟩,
  ⟨1852402980, scls_7, sv_9⟩,
  ⟨1852403236, scls_8, sv_7⟩,
  ⟨1852404516, scls_0, sv_8⟩,
  ⟨1885433124, scls_3, sv_10⟩,
  ⟨1885960740, scls_9, sv_11⟩,
  ⟨1886216996, scls_9, sv_11⟩,
  ⟨1886938404, scls_3, sv_3⟩,
  ⟨1902452772, scls_0, sv_1⟩,
  ⟨1902453796, scls_0, sv_1⟩,
  ⟨1903256868, scls_0, sv_1⟩,
  ⟨1919905316, scls_10, sv_12⟩,
  ⟨1935827236, scls_3, sv_3⟩,
  ⟨1936679716, scls_0, sv_8⟩,
  ⟨1952797476, scls_0, sv_1⟩]
/-- $let $set $not $out $pow $max $box $QXDC $meta $rand $cond $gtee $type $note $size $tanh $sinh $cosh $push $week $rank $ceil $trim $summ $atan $asin $typo $skip $near $year $expr $hour $acos $hint $sort $sqrt $last $sett $text $log10 -/
def siteRows_1 : List SiteRow := [
  ⟨1952803876, scls_11, sv_3⟩,
  ⟨1952805668, scls_12, sv_13⟩,
  ⟨1953459748, scls_13, sv_2⟩,
  ⟨1953853220, scls_14, sv_13⟩,
  ⟨2003791908, scls_3, sv_3⟩,
  ⟨2019650852, scls_7, sv_9⟩,
  ⟨2020565540, scls_0, sv_0⟩,
  ⟨288909447460, scls_0, sv_1⟩,
  ⟨418564631844, scls_15, sv_14⟩,
  ⟨431348609572, scls_0, sv_15⟩,
  ⟨431349523236, scls_3, sv_10⟩,
  ⟨435493824292, scls_0, sv_1⟩,
  ⟨435678704676, scls_16, sv_16⟩,
  ⟨435745156644, scls_0, sv_1⟩,
  ⟨435845428004, scls_2, sv_2⟩,
  ⟨448528479268, scls_0, sv_8⟩,
  ⟨448529003300, scls_0, sv_8⟩,
  ⟨448613278500, scls_0, sv_8⟩,
  ⟨448613675044, scls_17, sv_17⟩,
  ⟨461262649124, scls_3, sv_3⟩,
  ⟨461413380644, scls_0, sv_8⟩,
  ⟨465624720164, scls_3, sv_3⟩,
  ⟨469920543780, scls_9, sv_11⟩,
  ⟨469987848996, scls_0, sv_1⟩,
  ⟨474081419556, scls_0, sv_8⟩,
  ⟨474215571748, scls_0, sv_8⟩,
  ⟨478628377636, scls_0, sv_1⟩,
  ⟨482804986660, scls_14, sv_13⟩,
  ⟨491260309028, scls_18, sv_18⟩,
  ⟨491260311844, scls_3, sv_3⟩,
  ⟨491513210148, scls_19, sv_12⟩,
  ⟨491596507172, scls_3, sv_3⟩,
  ⟨495790022948, scls_0, sv_8⟩,
  ⟨500068608036, scls_0, sv_0⟩,
  ⟨500136112932, scls_20, sv_13⟩,
  ⟨500136244004, scls_3, sv_3⟩,
  ⟨500151970852, scls_5, sv_6⟩,
  ⟨500169012004, scls_0, sv_1⟩,
  ⟨500236121124, scls_21, sv_19⟩,
  ⟨52988746886180, scls_3, sv_3⟩]
/-- $atan2 $trunc $round $slice $range $merge $where $Match $match $eachh $atanh $asinh $acosh $month $AQnMj $ltrim $rtrim $group $floor $facet $unset $shift $split $limit $toInt $count $first $set.x $regex $query $unwind $second $reduce $divide $sample $toDate $minute $toLong $search $switch -/
def siteRows_2 : List SiteRow := [
  ⟨55449662808356, scls_0, sv_8⟩,
  ⟨109326067987492, scls_3, sv_3⟩,
  ⟨110425579418148, scls_0, sv_8⟩,
  ⟨111477644882724, scls_22, sv_20⟩,
  ⟨111494907916836, scls_9, sv_11⟩,
  ⟨111494975286564, scls_0, sv_21⟩,
  ⟨111542002022180, scls_21, sv_19⟩,
  ⟨114776363584804, scls_0, sv_1⟩,
  ⟨114776363592996, scls_14, sv_13⟩,
  ⟨114797553214756, scls_0, sv_1⟩,
  ⟨114823290708260, scls_0, sv_8⟩,
  ⟨114823424860452, scls_0, sv_8⟩,
  ⟨114844999311652, scls_0, sv_8⟩,
  ⟨114849278291236, scls_3, sv_3⟩,
  ⟨116880795844900, scls_0, sv_1⟩,
  ⟨120299659226148, scls_0, sv_8⟩,
  ⟨120299659227684, scls_0, sv_8⟩,
  ⟨123649683253028, scls_14, sv_13⟩,
  ⟨125822936311332, scls_3, sv_3⟩,
  ⟨127978807846436, scls_14, sv_13⟩,
  ⟨127979077137700, scls_23, sv_21⟩,
  ⟨127983203939108, scls_0, sv_8⟩,
  ⟨127996139696932, scls_3, sv_10⟩,
  ⟨127996156013604, scls_14, sv_13⟩,
  ⟨128017027265572, scls_24, sv_11⟩,
  ⟨128017765458724, scls_14, sv_22⟩,
  ⟨128039189571108, scls_5, sv_6⟩,
  ⟨132140916634404, scls_0, sv_1⟩,
  ⟨132376921731620, scls_16, sv_7⟩,
  ⟨133532235428132, scls_0, sv_0⟩,
  ⟨28268896925414692, scls_14, sv_13⟩,
  ⟨28268922359083812, scls_3, sv_3⟩,
  ⟨28538328494469668, scls_9, sv_11⟩,
  ⟨28539376768738340, scls_3, sv_3⟩,
  ⟨28548202775016228, scls_14, sv_13⟩,
  ⟨28556933756580900, scls_0, sv_8⟩,
  ⟨28557020360174884, scls_3, sv_3⟩,
  ⟨29113346903995428, scls_24, sv_11⟩,
  ⟨29382740489368356, scls_0, sv_23⟩,
  ⟨29382749214700324, scls_3, sv_10⟩]
/-- $matchh $ifNull $toBool $lookup $filter $center $substr $exists $concat $redact $bucket $dateAdd $isoWeek $literal $natural $maxScan $explain $polygon $geoNear $toUpper $toLower $options $existss $project $Comment $comment $convert $isArray $orderby $strLenCP $substrCP $getField $setField $language $toDouble $bsonSize $dateDiff $toString $integral $setUnion -/
def siteRows_3 : List SiteRow := [
  ⟨29388173941501220, scls_0, sv_1⟩,
  ⟨30518548567058724, scls_3, sv_3⟩,
  ⟨30521821131404324, scls_0, sv_8⟩,
  ⟨31654301683117092, scls_14, sv_13⟩,
  ⟨32199698054473252, scls_3, sv_10⟩,
  ⟨32199698087764772, scls_0, sv_0⟩,
  ⟨32216186266940196, scls_3, sv_10⟩,
  ⟨32497661361284388, scls_25, sv_7⟩,
  ⟨32758176980886308, scls_3, sv_10⟩,
  ⟨32760367245783588, scls_0, sv_21⟩,
  ⟨32762609202979364, scls_14, sv_13⟩,
  ⟨7233978805463901220, scls_0, sv_8⟩,
  ⟨7738702960912460068, scls_9, sv_11⟩,
  ⟨7809649008907480100, scls_11, sv_24⟩,
  ⟨7809649077626433060, scls_0, sv_0⟩,
  ⟨7953747627066092836, scls_0, sv_0⟩,
  ⟨7955997335097992484, scls_0, sv_0⟩,
  ⟨7957692837794902052, scls_0, sv_0⟩,
  ⟨8241980180615489316, scls_0, sv_21⟩,
  ⟨8243118320743576612, scls_3, sv_10⟩,
  ⟨8243126012879008804, scls_3, sv_10⟩,
  ⟨8317708060515659556, scls_0, sv_0⟩,
  ⟨8319120975722997028, scls_0, sv_1⟩,
  ⟨8386658438904705060, scls_14, sv_13⟩,
  ⟨8389754676499661604, scls_0, sv_1⟩,
  ⟨8389754676499669796, scls_26, sv_12⟩,
  ⟨8390880615077995300, scls_9, sv_11⟩,
  ⟨8746397786380134692, scls_3, sv_3⟩,
  ⟨8746679206109409060, scls_0, sv_0⟩,
  ⟨1480598458323755627300, scls_9, sv_11⟩,
  ⟨1480599600883572241188, scls_9, sv_11⟩,
  ⟨1852485172251020584740, scls_0, sv_8⟩,
  ⟨1852485172251020587812, scls_0, sv_8⟩,
  ⟨1870570515790406183972, scls_0, sv_0⟩,
  ⟨1870931085269228549156, scls_0, sv_8⟩,
  ⟨1871941824523627880996, scls_0, sv_8⟩,
  ⟨1888947400185332458532, scls_0, sv_8⟩,
  ⟨1907970655652752094244, scls_3, sv_10⟩,
  ⟨1999270148415098349860, scls_0, sv_8⟩,
  ⟨2037169917232119378724, scls_3, sv_10⟩]
/-- $function $isNumber $comments $subtract $addToSet $snapshot $multiply $geometry $ZcCd_wnhI $indexOfCP $maxTimeMS $CgTQkFNIV $dateTrunc $regexFind $elemMatch $unionWith $dayOfWeek $denseRank $toDecimal $geoWithin $currentOp $xAIkNfDZp $stdDevPop $dayOfYear $addFields $setEquals $collStats $returnKey $jsonSchema $searchMeta $toObjectId $unsetField $replaceOne $nearSphere $sampleRate $derivative $binarySize $regexMatch $dayOfMonth $replaceAll -/
def siteRows_4 : List SiteRow := [
  ⟨2037169923889219069476, scls_0, sv_8⟩,
  ⟨2110234346299032037668, scls_3, sv_3⟩,
  ⟨2129765323153098105636, scls_0, sv_1⟩,
  ⟨2146983443276997423908, scls_3, sv_3⟩,
  ⟨2147123614379457929508, scls_17, sv_17⟩,
  ⟨2147850105812604056356, scls_0, sv_0⟩,
  ⟨2239869894221100313892, scls_3, sv_3⟩,
  ⟨2240303361257172723492, scls_0, sv_0⟩,
  ⟨346659174568900526561828, scls_0, sv_1⟩,
  ⟨379032622726002057832740, scls_9, sv_11⟩,
  ⟨393384125985437998214436, scls_0, sv_0⟩,
  ⟨407475770157750666347300, scls_0, sv_1⟩,
  ⟨469551886571647430386724, scls_0, sv_8⟩,
  ⟨474273376018071845958180, scls_0, sv_8⟩,
  ⟨492960727950853736785188, scls_16, sv_7⟩,
  ⟨493273527188115155744036, scls_0, sv_21⟩,
  ⟨507163637236309032002596, scls_3, sv_3⟩,
  ⟨507329368294276305609764, scls_0, sv_8⟩,
  ⟨511812798266980789351460, scls_24, sv_11⟩,
  ⟨521404748000101971355428, scls_18, sv_18⟩,
  ⟨530370728617921377297188, scls_0, sv_21⟩,
  ⟨530570181761099024660516, scls_0, sv_1⟩,
  ⟨530958432606496727790372, scls_9, sv_25⟩,
  ⟨540146416203051663713316, scls_3, sv_3⟩,
  ⟨544924630702259951657252, scls_14, sv_13⟩,
  ⟨545071416533706904793892, scls_3, sv_3⟩,
  ⟨545218990172003625820964, scls_0, sv_21⟩,
  ⟨573274900986320807883300, scls_0, sv_0⟩,
  ⟨117782413092350802359708196, scls_21, sv_19⟩,
  ⟨117815467713600834865820452, scls_0, sv_21⟩,
  ⟨121239461699272704753890340, scls_0, sv_8⟩,
  ⟨121404468248642885247726884, scls_0, sv_8⟩,
  ⟨122622432692765169568543268, scls_0, sv_8⟩,
  ⟨122641728206882858925911588, scls_18, sv_18⟩,
  ⟨122651097564536489201726244, scls_0, sv_8⟩,
  ⟨122660692320298080686924836, scls_0, sv_8⟩,
  ⟨122679579415079922984116772, scls_0, sv_8⟩,
  ⟨126197946355430651161047588, scls_3, sv_3⟩,
  ⟨126278116913961424006505508, scls_3, sv_3⟩,
  ⟨131075210442684802567336484, scls_0, sv_8⟩]
/-- $bucketAuto $stdDevSamp $strcasecmp $uniqueDocs $indexStats $bitsAllSet $bitsAnySet $showDiskLoc $millisecond $minDistance $maxDistance $replaceWith $graphLookup $isoWeekYear $accumulator $strLenBytes $substrBytes $dateToParts $arrayElemAt $setIsSubset $sortByCount $replaceRoot $centerSphere $dateToString $expMovingAvg $isoDayOfWeek $regexFindAll $changeStream $bitsAllClear $bitsAnyClear $indexOfBytes $listSessions $mergeObjects $concatArrays $dateSubtract $reverseArray $indexOfArray $setDifference $caseSensitive $covariancePop -/
def siteRows_5 : List SiteRow := [
  ⟨134740723474799562923008548, scls_0, sv_21⟩,
  ⟨135916225091752105539302180, scls_9, sv_25⟩,
  ⟨135916263281428256043332388, scls_3, sv_3⟩,
  ⟨139496036054553128915072292, scls_0, sv_0⟩,
  ⟨139576061484046092101118244, scls_0, sv_21⟩,
  ⟨140713892982516354036359716, scls_18, sv_18⟩,
  ⟨140713893919828026482844196, scls_18, sv_18⟩,
  ⟨30773567620260953088781218596, scls_0, sv_0⟩,
  ⟨31082008838509680444108795172, scls_3, sv_3⟩,
  ⟨31378190906136157313651272996, scls_18, sv_18⟩,
  ⟨31378190906136157313818520868, scls_18, sv_18⟩,
  ⟨32327173877148409996016710180, scls_0, sv_21⟩,
  ⟨34804272769707718412734719780, scls_14, sv_13⟩,
  ⟨35399035532649652219800676644, scls_9, sv_11⟩,
  ⟨35416031477272022781006143780, scls_0, sv_26⟩,
  ⟨35713427668590681080649249572, scls_9, sv_11⟩,
  ⟨35713427668591823640465863460, scls_9, sv_11⟩,
  ⟨35731551669439146217166693412, scls_0, sv_8⟩,
  ⟨35979357926420538493351649572, scls_3, sv_3⟩,
  ⟨36022907535437782436282725156, scls_9, sv_11⟩,
  ⟨36033797548762715452169220900, scls_0, sv_21⟩,
  ⟨36034977607871654524164076068, scls_14, sv_13⟩,
  ⟨8037448299766275047031017136932, scls_0, sv_0⟩,
  ⟨8194671567756247742270243169316, scls_3, sv_10⟩,
  ⟨8197099038746909408622039033124, scls_0, sv_8⟩,
  ⟨8508793889259199672522292554020, scls_9, sv_11⟩,
  ⟨8590144987052904696493224849956, scls_0, sv_8⟩,
  ⟨8666012402010875029600676111140, scls_0, sv_21⟩,
  ⟨9062153185345910729154893537828, scls_18, sv_18⟩,
  ⟨9062153185346848040827340022308, scls_18, sv_18⟩,
  ⟨9142637483158631751766825134372, scls_9, sv_11⟩,
  ⟨9145416728964895418491645553700, scls_0, sv_21⟩,
  ⟨9147259112857270333399156223268, scls_27, sv_27⟩,
  ⟨9148804181590708568935088743204, scls_3, sv_10⟩,
  ⟨9221223673928174969857861837860, scls_0, sv_8⟩,
  ⟨9616766067278219112541969543716, scls_9, sv_11⟩,
  ⟨9616766067278281043633614252324, scls_9, sv_11⟩,
  ⟨2056401124050539290174906045920036, scls_9, sv_11⟩,
  ⟨2057904929804906032309712292242212, scls_0, sv_0⟩,
  ⟨2280449083019914360557480235197220, scls_0, sv_8⟩]
/-- $geoIntersects $dateFromParts $arrayToObject $objectToArray $anyElementTrue $dateFromString $covarianceSamp $documentNumber $planCacheStats $allElementsTrue $setIntersection $setWindowFields $radiansToDegrees $degreesToRadians $toHashedIndexKey $listLocalSessions $diacriticSensitive -/
def siteRows_6 : List SiteRow := [
  ⟨2341698332934259241097904292980516, scls_18, sv_18⟩,
  ⟨2341702970208328942163742639088676, scls_3, sv_10⟩,
  ⟨2360634488708892003875619700105508, scls_3, sv_28⟩,
  ⟨2461892113223406327026744121519908, scls_3, sv_10⟩,
  ⟨526804082783669013441043252875518244, scls_9, sv_11⟩,
  ⟨537045995864473417093098162563933220, scls_9, sv_11⟩,
  ⟨583755741744289483508010123913028388, scls_0, sv_8⟩,
  ⟨593978163478546450054764576061219876, scls_0, sv_8⟩,
  ⟨599474619378373521632206250163597348, scls_0, sv_21⟩,
  ⟨134861845192317078340302341764635451684, scls_9, sv_11⟩,
  ⟨146793563361875009628722520155245343524, scls_9, sv_11⟩,
  ⟨153382647735981531322945892219678454564, scls_0, sv_21⟩,
  ⟨39267250965851448092989714490106971255332, scls_0, sv_8⟩,
  ⟨39279193065845486261049694499053792224292, scls_0, sv_8⟩,
  ⟨41308810289194499375851927760368877663268, scls_0, sv_8⟩,
  ⟨10055492034354053569109242528692577206103076, scls_0, sv_21⟩,
  ⟨2262690399178047249695563783587933581916857380, scls_0, sv_0⟩]

def siteRowChunks : List (List SiteRow) := [siteRows_0, siteRows_1, siteRows_2, siteRows_3, siteRows_4, siteRows_5, siteRows_6]

/-- all site rows (257 names) -/
def siteRows : List SiteRow := siteRowChunks.flatten

/-- one entry per (site, position of the dispatcher, name), 2401 entries -/
def siteVocab : List SiteEntry := siteEntriesOf siteRows

/-- known findings (known_findings.json): (site, name) pairs accepted silently:  -/
def knownIgnoredSitePairs : List (Nat × Code) := []

/-- known findings (known_findings.json, `lazy-empty:<site>`): sites at which a name that is refused on a populated collection is let through on an empty one: $addFields/zq:expr, $bucket/groupBy:expr, $bucket/output.zn.$sum:expr, $graphLookup/restrictSearchWithMatch:query, $graphLookup/startWith:expr, $group/_id:expr, $group/zn.$sum:expr, $project/zq:expr, $replaceRoot/newRoot:expr, $set/zq:expr -/
def knownLazyEmptySites : List Nat := [0, 1, 2, 6, 7, 10, 11, 14, 15, 16]

end Generated
