/-
  GENERATED on every `./check C20` run by harness/extract_options.py from the working tree of /repo.
  Do not edit.  The option matrix: what each public method did with each option it accepts, with the feature opted out (ignore_feature) and not.
-/

import MongoModel.Vocab

namespace Generated
open MongoModel.Vocab

/-- the probed methods; `OptEntry.mid` is an index into this list -/
def methods : List (String × String) := [
  ("BulkOperationBuilder", "add_delete"),
  ("BulkOperationBuilder", "add_replace"),
  ("BulkOperationBuilder", "add_update"),
  ("BulkWriteOperation", "register_remove_op"),
  ("BulkWriteOperation", "register_update_op"),
  ("BulkWriteOperation", "replace_one"),
  ("BulkWriteOperation", "update"),
  ("BulkWriteOperation", "update_one"),
  ("Collection", "aggregate"),
  ("Collection", "bulk_write"),
  ("Collection", "count_documents"),
  ("Collection", "create_index"),
  ("Collection", "create_indexes"),
  ("Collection", "delete_many"),
  ("Collection", "delete_one"),
  ("Collection", "distinct"),
  ("Collection", "drop"),
  ("Collection", "drop_index"),
  ("Collection", "drop_indexes"),
  ("Collection", "estimated_document_count"),
  ("Collection", "find"),
  ("Collection", "find_one"),
  ("Collection", "find_one_and_delete"),
  ("Collection", "find_one_and_replace"),
  ("Collection", "find_one_and_update"),
  ("Collection", "index_information"),
  ("Collection", "insert_many"),
  ("Collection", "insert_one"),
  ("Collection", "list_indexes"),
  ("Collection", "rename"),
  ("Collection", "replace_one"),
  ("Collection", "update_many"),
  ("Collection", "update_one"),
  ("Cursor", "distinct"),
  ("Database", "command"),
  ("Database", "create_collection"),
  ("Database", "dereference"),
  ("Database", "drop_collection"),
  ("Database", "list_collection_names")]

/-- ⟨mid, option, named, write, optedOut, observed⟩ -/
def options : List OptEntry := [
  ⟨0, .collation, true, true, false, .raisesNotImplemented⟩,  -- BulkOperationBuilder.add_delete
  ⟨0, .collation, true, true, true, .accepted⟩,  -- BulkOperationBuilder.add_delete
  ⟨0, .hint, true, true, false, .raisesNotImplemented⟩,  -- BulkOperationBuilder.add_delete
  ⟨1, .collation, true, true, false, .raisesNotImplemented⟩,  -- BulkOperationBuilder.add_replace
  ⟨1, .collation, true, true, true, .accepted⟩,  -- BulkOperationBuilder.add_replace
  ⟨1, .hint, true, true, false, .raisesNotImplemented⟩,  -- BulkOperationBuilder.add_replace
  ⟨2, .collation, true, true, false, .raisesNotImplemented⟩,  -- BulkOperationBuilder.add_update
  ⟨2, .collation, true, true, true, .accepted⟩,  -- BulkOperationBuilder.add_update
  ⟨2, .arrayFilters, true, true, false, .raisesNotImplemented⟩,  -- BulkOperationBuilder.add_update
  ⟨2, .arrayFilters, true, true, true, .accepted⟩,  -- BulkOperationBuilder.add_update
  ⟨2, .hint, true, true, false, .raisesNotImplemented⟩,  -- BulkOperationBuilder.add_update
  ⟨3, .hint, true, true, false, .raisesNotImplemented⟩,  -- BulkWriteOperation.register_remove_op
  ⟨4, .session, false, true, false, .raisesNotImplemented⟩,  -- BulkWriteOperation.register_update_op
  ⟨4, .session, false, true, true, .accepted⟩,  -- BulkWriteOperation.register_update_op
  ⟨4, .collation, false, true, false, .raisesNotImplemented⟩,  -- BulkWriteOperation.register_update_op
  ⟨4, .collation, false, true, true, .accepted⟩,  -- BulkWriteOperation.register_update_op
  ⟨4, .arrayFilters, false, true, false, .raisesNotImplemented⟩,  -- BulkWriteOperation.register_update_op
  ⟨4, .arrayFilters, false, true, true, .accepted⟩,  -- BulkWriteOperation.register_update_op
  ⟨4, .let_, false, true, false, .raisesNotImplemented⟩,  -- BulkWriteOperation.register_update_op
  ⟨4, .let_, false, true, true, .accepted⟩,  -- BulkWriteOperation.register_update_op
  ⟨4, .hint, false, true, false, .raisesNotImplemented⟩,  -- BulkWriteOperation.register_update_op
  ⟨5, .hint, true, true, false, .raisesNotImplemented⟩,  -- BulkWriteOperation.replace_one
  ⟨6, .hint, true, true, false, .raisesNotImplemented⟩,  -- BulkWriteOperation.update
  ⟨7, .hint, true, true, false, .raisesNotImplemented⟩,  -- BulkWriteOperation.update_one
  ⟨8, .session, true, false, false, .raisesNotImplemented⟩,  -- Collection.aggregate
  ⟨8, .session, true, false, true, .accepted⟩,  -- Collection.aggregate
  ⟨8, .collation, true, false, false, .raisesNotImplemented⟩,  -- Collection.aggregate
  ⟨8, .collation, true, false, true, .accepted⟩,  -- Collection.aggregate
  ⟨8, .arrayFilters, true, false, false, .raisesNotImplemented⟩,  -- Collection.aggregate
  ⟨8, .arrayFilters, true, false, true, .accepted⟩,  -- Collection.aggregate
  ⟨8, .let_, true, false, false, .raisesNotImplemented⟩,  -- Collection.aggregate
  ⟨8, .let_, true, false, true, .accepted⟩,  -- Collection.aggregate
  ⟨8, .hint, false, false, false, .accepted⟩,  -- Collection.aggregate
  ⟨9, .session, true, true, false, .raisesNotImplemented⟩,  -- Collection.bulk_write
  ⟨9, .session, true, true, true, .accepted⟩,  -- Collection.bulk_write
  ⟨10, .session, false, false, false, .raisesNotImplemented⟩,  -- Collection.count_documents
  ⟨10, .session, false, false, true, .accepted⟩,  -- Collection.count_documents
  ⟨10, .collation, false, false, false, .raisesNotImplemented⟩,  -- Collection.count_documents
  ⟨10, .collation, false, false, true, .accepted⟩,  -- Collection.count_documents
  ⟨10, .arrayFilters, false, false, false, .raisesOther⟩,  -- Collection.count_documents
  ⟨10, .arrayFilters, false, false, true, .raisesOther⟩,  -- Collection.count_documents
  ⟨10, .let_, false, false, false, .raisesOther⟩,  -- Collection.count_documents
  ⟨10, .let_, false, false, true, .raisesOther⟩,  -- Collection.count_documents
  ⟨10, .hint, false, false, false, .accepted⟩,  -- Collection.count_documents
  ⟨11, .session, true, false, false, .raisesNotImplemented⟩,  -- Collection.create_index
  ⟨11, .session, true, false, true, .accepted⟩,  -- Collection.create_index
  ⟨11, .collation, false, false, false, .raisesNotImplemented⟩,  -- Collection.create_index
  ⟨11, .collation, false, false, true, .accepted⟩,  -- Collection.create_index
  ⟨11, .arrayFilters, false, false, false, .raisesNotImplemented⟩,  -- Collection.create_index
  ⟨11, .arrayFilters, false, false, true, .accepted⟩,  -- Collection.create_index
  ⟨11, .let_, false, false, false, .raisesNotImplemented⟩,  -- Collection.create_index
  ⟨11, .let_, false, false, true, .accepted⟩,  -- Collection.create_index
  ⟨11, .hint, false, false, false, .accepted⟩,  -- Collection.create_index
  ⟨12, .session, true, false, false, .raisesNotImplemented⟩,  -- Collection.create_indexes
  ⟨12, .session, true, false, true, .accepted⟩,  -- Collection.create_indexes
  ⟨13, .session, true, true, false, .raisesNotImplemented⟩,  -- Collection.delete_many
  ⟨13, .session, true, true, true, .accepted⟩,  -- Collection.delete_many
  ⟨13, .collation, true, true, false, .raisesNotImplemented⟩,  -- Collection.delete_many
  ⟨13, .collation, true, true, true, .accepted⟩,  -- Collection.delete_many
  ⟨13, .hint, true, true, false, .raisesNotImplemented⟩,  -- Collection.delete_many
  ⟨14, .session, true, true, false, .raisesNotImplemented⟩,  -- Collection.delete_one
  ⟨14, .session, true, true, true, .accepted⟩,  -- Collection.delete_one
  ⟨14, .collation, true, true, false, .raisesNotImplemented⟩,  -- Collection.delete_one
  ⟨14, .collation, true, true, true, .accepted⟩,  -- Collection.delete_one
  ⟨14, .hint, true, true, false, .raisesNotImplemented⟩,  -- Collection.delete_one
  ⟨15, .session, true, false, false, .raisesNotImplemented⟩,  -- Collection.distinct
  ⟨15, .session, true, false, true, .accepted⟩,  -- Collection.distinct
  ⟨16, .session, true, false, false, .raisesNotImplemented⟩,  -- Collection.drop
  ⟨16, .session, true, false, true, .accepted⟩,  -- Collection.drop
  ⟨17, .session, true, false, false, .raisesNotImplemented⟩,  -- Collection.drop_index
  ⟨17, .session, true, false, true, .accepted⟩,  -- Collection.drop_index
  ⟨18, .session, true, false, false, .raisesNotImplemented⟩,  -- Collection.drop_indexes
  ⟨18, .session, true, false, true, .accepted⟩,  -- Collection.drop_indexes
  ⟨19, .session, false, false, false, .raisesOther⟩,  -- Collection.estimated_document_count
  ⟨19, .session, false, false, true, .raisesOther⟩,  -- Collection.estimated_document_count
  ⟨19, .collation, false, false, false, .raisesOther⟩,  -- Collection.estimated_document_count
  ⟨19, .collation, false, false, true, .raisesOther⟩,  -- Collection.estimated_document_count
  ⟨19, .arrayFilters, false, false, false, .raisesOther⟩,  -- Collection.estimated_document_count
  ⟨19, .arrayFilters, false, false, true, .raisesOther⟩,  -- Collection.estimated_document_count
  ⟨19, .let_, false, false, false, .raisesOther⟩,  -- Collection.estimated_document_count
  ⟨19, .let_, false, false, true, .raisesOther⟩,  -- Collection.estimated_document_count
  ⟨19, .hint, false, false, false, .accepted⟩,  -- Collection.estimated_document_count
  ⟨20, .session, true, false, false, .raisesNotImplemented⟩,  -- Collection.find
  ⟨20, .session, true, false, true, .accepted⟩,  -- Collection.find
  ⟨20, .collation, true, false, false, .accepted⟩,  -- Collection.find
  ⟨20, .collation, true, false, true, .accepted⟩,  -- Collection.find
  ⟨20, .arrayFilters, false, false, false, .raisesOther⟩,  -- Collection.find
  ⟨20, .arrayFilters, false, false, true, .raisesOther⟩,  -- Collection.find
  ⟨20, .let_, false, false, false, .raisesOther⟩,  -- Collection.find
  ⟨20, .let_, false, false, true, .raisesOther⟩,  -- Collection.find
  ⟨20, .hint, false, false, false, .raisesOther⟩,  -- Collection.find
  ⟨21, .session, false, false, false, .raisesNotImplemented⟩,  -- Collection.find_one
  ⟨21, .session, false, false, true, .accepted⟩,  -- Collection.find_one
  ⟨21, .collation, false, false, false, .raisesNotImplemented⟩,  -- Collection.find_one
  ⟨21, .collation, false, false, true, .accepted⟩,  -- Collection.find_one
  ⟨21, .arrayFilters, false, false, false, .raisesOther⟩,  -- Collection.find_one
  ⟨21, .arrayFilters, false, false, true, .raisesOther⟩,  -- Collection.find_one
  ⟨21, .let_, false, false, false, .raisesOther⟩,  -- Collection.find_one
  ⟨21, .let_, false, false, true, .raisesOther⟩,  -- Collection.find_one
  ⟨21, .hint, false, false, false, .raisesOther⟩,  -- Collection.find_one
  ⟨22, .session, false, true, false, .raisesNotImplemented⟩,  -- Collection.find_one_and_delete
  ⟨22, .session, false, true, true, .accepted⟩,  -- Collection.find_one_and_delete
  ⟨22, .collation, false, true, false, .raisesNotImplemented⟩,  -- Collection.find_one_and_delete
  ⟨22, .collation, false, true, true, .accepted⟩,  -- Collection.find_one_and_delete
  ⟨22, .arrayFilters, false, true, false, .raisesNotImplemented⟩,  -- Collection.find_one_and_delete
  ⟨22, .arrayFilters, false, true, true, .accepted⟩,  -- Collection.find_one_and_delete
  ⟨22, .let_, false, true, false, .raisesNotImplemented⟩,  -- Collection.find_one_and_delete
  ⟨22, .let_, false, true, true, .accepted⟩,  -- Collection.find_one_and_delete
  ⟨22, .hint, false, true, false, .raisesNotImplemented⟩,  -- Collection.find_one_and_delete
  ⟨23, .session, false, true, false, .raisesNotImplemented⟩,  -- Collection.find_one_and_replace
  ⟨23, .session, false, true, true, .accepted⟩,  -- Collection.find_one_and_replace
  ⟨23, .collation, false, true, false, .raisesNotImplemented⟩,  -- Collection.find_one_and_replace
  ⟨23, .collation, false, true, true, .accepted⟩,  -- Collection.find_one_and_replace
  ⟨23, .arrayFilters, false, true, false, .raisesNotImplemented⟩,  -- Collection.find_one_and_replace
  ⟨23, .arrayFilters, false, true, true, .accepted⟩,  -- Collection.find_one_and_replace
  ⟨23, .let_, false, true, false, .raisesNotImplemented⟩,  -- Collection.find_one_and_replace
  ⟨23, .let_, false, true, true, .accepted⟩,  -- Collection.find_one_and_replace
  ⟨23, .hint, false, true, false, .raisesNotImplemented⟩,  -- Collection.find_one_and_replace
  ⟨24, .session, false, true, false, .raisesNotImplemented⟩,  -- Collection.find_one_and_update
  ⟨24, .session, false, true, true, .accepted⟩,  -- Collection.find_one_and_update
  ⟨24, .collation, false, true, false, .raisesNotImplemented⟩,  -- Collection.find_one_and_update
  ⟨24, .collation, false, true, true, .accepted⟩,  -- Collection.find_one_and_update
  ⟨24, .arrayFilters, false, true, false, .raisesNotImplemented⟩,  -- Collection.find_one_and_update
  ⟨24, .arrayFilters, false, true, true, .accepted⟩,  -- Collection.find_one_and_update
  ⟨24, .let_, false, true, false, .raisesNotImplemented⟩,  -- Collection.find_one_and_update
  ⟨24, .let_, false, true, true, .accepted⟩,  -- Collection.find_one_and_update
  ⟨24, .hint, false, true, false, .raisesNotImplemented⟩,  -- Collection.find_one_and_update
  ⟨25, .session, true, false, false, .raisesNotImplemented⟩,  -- Collection.index_information
  ⟨25, .session, true, false, true, .accepted⟩,  -- Collection.index_information
  ⟨26, .session, true, false, false, .raisesNotImplemented⟩,  -- Collection.insert_many
  ⟨26, .session, true, false, true, .accepted⟩,  -- Collection.insert_many
  ⟨27, .session, true, false, false, .raisesNotImplemented⟩,  -- Collection.insert_one
  ⟨27, .session, true, false, true, .accepted⟩,  -- Collection.insert_one
  ⟨28, .session, true, false, false, .raisesNotImplemented⟩,  -- Collection.list_indexes
  ⟨28, .session, true, false, true, .accepted⟩,  -- Collection.list_indexes
  ⟨29, .session, true, false, false, .raisesNotImplemented⟩,  -- Collection.rename
  ⟨29, .session, true, false, true, .accepted⟩,  -- Collection.rename
  ⟨29, .collation, false, false, false, .raisesOther⟩,  -- Collection.rename
  ⟨29, .collation, false, false, true, .raisesOther⟩,  -- Collection.rename
  ⟨29, .arrayFilters, false, false, false, .raisesOther⟩,  -- Collection.rename
  ⟨29, .arrayFilters, false, false, true, .raisesOther⟩,  -- Collection.rename
  ⟨29, .let_, false, false, false, .raisesOther⟩,  -- Collection.rename
  ⟨29, .let_, false, false, true, .raisesOther⟩,  -- Collection.rename
  ⟨29, .hint, false, false, false, .raisesOther⟩,  -- Collection.rename
  ⟨30, .session, true, true, false, .raisesNotImplemented⟩,  -- Collection.replace_one
  ⟨30, .session, true, true, true, .accepted⟩,  -- Collection.replace_one
  ⟨30, .hint, true, true, false, .raisesNotImplemented⟩,  -- Collection.replace_one
  ⟨31, .session, true, true, false, .raisesNotImplemented⟩,  -- Collection.update_many
  ⟨31, .session, true, true, true, .accepted⟩,  -- Collection.update_many
  ⟨31, .collation, true, true, false, .raisesNotImplemented⟩,  -- Collection.update_many
  ⟨31, .collation, true, true, true, .accepted⟩,  -- Collection.update_many
  ⟨31, .arrayFilters, true, true, false, .raisesNotImplemented⟩,  -- Collection.update_many
  ⟨31, .arrayFilters, true, true, true, .accepted⟩,  -- Collection.update_many
  ⟨31, .let_, true, true, false, .raisesNotImplemented⟩,  -- Collection.update_many
  ⟨31, .let_, true, true, true, .accepted⟩,  -- Collection.update_many
  ⟨31, .hint, true, true, false, .raisesNotImplemented⟩,  -- Collection.update_many
  ⟨32, .session, true, true, false, .raisesNotImplemented⟩,  -- Collection.update_one
  ⟨32, .session, true, true, true, .accepted⟩,  -- Collection.update_one
  ⟨32, .collation, true, true, false, .raisesNotImplemented⟩,  -- Collection.update_one
  ⟨32, .collation, true, true, true, .accepted⟩,  -- Collection.update_one
  ⟨32, .arrayFilters, true, true, false, .raisesNotImplemented⟩,  -- Collection.update_one
  ⟨32, .arrayFilters, true, true, true, .accepted⟩,  -- Collection.update_one
  ⟨32, .let_, true, true, false, .raisesNotImplemented⟩,  -- Collection.update_one
  ⟨32, .let_, true, true, true, .accepted⟩,  -- Collection.update_one
  ⟨32, .hint, true, true, false, .raisesNotImplemented⟩,  -- Collection.update_one
  ⟨33, .session, true, false, false, .raisesNotImplemented⟩,  -- Cursor.distinct
  ⟨33, .session, true, false, true, .accepted⟩,  -- Cursor.distinct
  ⟨34, .session, false, false, false, .raisesNotImplemented⟩,  -- Database.command
  ⟨34, .session, false, false, true, .accepted⟩,  -- Database.command
  ⟨34, .collation, false, false, false, .raisesNotImplemented⟩,  -- Database.command
  ⟨34, .collation, false, false, true, .accepted⟩,  -- Database.command
  ⟨34, .arrayFilters, false, false, false, .raisesNotImplemented⟩,  -- Database.command
  ⟨34, .arrayFilters, false, false, true, .accepted⟩,  -- Database.command
  ⟨34, .let_, false, false, false, .raisesNotImplemented⟩,  -- Database.command
  ⟨34, .let_, false, false, true, .accepted⟩,  -- Database.command
  ⟨34, .hint, false, false, false, .accepted⟩,  -- Database.command
  ⟨35, .session, false, false, false, .raisesNotImplemented⟩,  -- Database.create_collection
  ⟨35, .session, false, false, true, .accepted⟩,  -- Database.create_collection
  ⟨35, .collation, false, false, false, .raisesNotImplemented⟩,  -- Database.create_collection
  ⟨35, .collation, false, false, true, .accepted⟩,  -- Database.create_collection
  ⟨35, .arrayFilters, false, false, false, .raisesNotImplemented⟩,  -- Database.create_collection
  ⟨35, .arrayFilters, false, false, true, .accepted⟩,  -- Database.create_collection
  ⟨35, .let_, false, false, false, .raisesNotImplemented⟩,  -- Database.create_collection
  ⟨35, .let_, false, false, true, .accepted⟩,  -- Database.create_collection
  ⟨35, .hint, false, false, false, .raisesNotImplemented⟩,  -- Database.create_collection
  ⟨36, .session, true, false, false, .raisesNotImplemented⟩,  -- Database.dereference
  ⟨36, .session, true, false, true, .accepted⟩,  -- Database.dereference
  ⟨37, .session, true, false, false, .raisesNotImplemented⟩,  -- Database.drop_collection
  ⟨37, .session, true, false, true, .accepted⟩,  -- Database.drop_collection
  ⟨38, .session, true, false, false, .raisesNotImplemented⟩,  -- Database.list_collection_names
  ⟨38, .session, true, false, true, .accepted⟩   -- Database.list_collection_names
  ]

/-- known findings: options dropped silently (no opt-out given): Collection.find(collation) -/
def knownSilent : List (Nat × Opt) := [(20, .collation)]

/-- both options present: ⟨mid, a, b, write, a opted out, observed⟩ (b is never opted out) -/
def optionPairs_0 : List OptPair := [
  ⟨0, .collation, .hint, true, false, .raisesNotImplemented⟩,
  ⟨0, .collation, .hint, true, true, .raisesNotImplemented⟩,
  ⟨0, .hint, .collation, true, false, .raisesNotImplemented⟩,
  ⟨1, .collation, .hint, true, false, .raisesNotImplemented⟩,
  ⟨1, .collation, .hint, true, true, .raisesNotImplemented⟩,
  ⟨1, .hint, .collation, true, false, .raisesNotImplemented⟩,
  ⟨2, .collation, .arrayFilters, true, false, .raisesNotImplemented⟩,
  ⟨2, .collation, .arrayFilters, true, true, .raisesNotImplemented⟩,
  ⟨2, .collation, .hint, true, false, .raisesNotImplemented⟩,
  ⟨2, .collation, .hint, true, true, .raisesNotImplemented⟩,
  ⟨2, .arrayFilters, .collation, true, false, .raisesNotImplemented⟩,
  ⟨2, .arrayFilters, .collation, true, true, .raisesNotImplemented⟩,
  ⟨2, .arrayFilters, .hint, true, false, .raisesNotImplemented⟩,
  ⟨2, .arrayFilters, .hint, true, true, .raisesNotImplemented⟩,
  ⟨2, .hint, .collation, true, false, .raisesNotImplemented⟩,
  ⟨2, .hint, .arrayFilters, true, false, .raisesNotImplemented⟩,
  ⟨4, .session, .collation, true, false, .raisesNotImplemented⟩,
  ⟨4, .session, .collation, true, true, .raisesNotImplemented⟩,
  ⟨4, .session, .arrayFilters, true, false, .raisesNotImplemented⟩,
  ⟨4, .session, .arrayFilters, true, true, .raisesNotImplemented⟩,
  ⟨4, .session, .let_, true, false, .raisesNotImplemented⟩,
  ⟨4, .session, .let_, true, true, .raisesNotImplemented⟩,
  ⟨4, .session, .hint, true, false, .raisesNotImplemented⟩,
  ⟨4, .session, .hint, true, true, .raisesNotImplemented⟩,
  ⟨4, .collation, .session, true, false, .raisesNotImplemented⟩,
  ⟨4, .collation, .session, true, true, .raisesNotImplemented⟩,
  ⟨4, .collation, .arrayFilters, true, false, .raisesNotImplemented⟩,
  ⟨4, .collation, .arrayFilters, true, true, .raisesNotImplemented⟩,
  ⟨4, .collation, .let_, true, false, .raisesNotImplemented⟩,
  ⟨4, .collation, .let_, true, true, .raisesNotImplemented⟩,
  ⟨4, .collation, .hint, true, false, .raisesNotImplemented⟩,
  ⟨4, .collation, .hint, true, true, .raisesNotImplemented⟩,
  ⟨4, .arrayFilters, .session, true, false, .raisesNotImplemented⟩,
  ⟨4, .arrayFilters, .session, true, true, .raisesNotImplemented⟩,
  ⟨4, .arrayFilters, .collation, true, false, .raisesNotImplemented⟩,
  ⟨4, .arrayFilters, .collation, true, true, .raisesNotImplemented⟩,
  ⟨4, .arrayFilters, .let_, true, false, .raisesNotImplemented⟩,
  ⟨4, .arrayFilters, .let_, true, true, .raisesNotImplemented⟩,
  ⟨4, .arrayFilters, .hint, true, false, .raisesNotImplemented⟩,
  ⟨4, .arrayFilters, .hint, true, true, .raisesNotImplemented⟩,
  ⟨4, .let_, .session, true, false, .raisesNotImplemented⟩,
  ⟨4, .let_, .session, true, true, .raisesNotImplemented⟩,
  ⟨4, .let_, .collation, true, false, .raisesNotImplemented⟩,
  ⟨4, .let_, .collation, true, true, .raisesNotImplemented⟩,
  ⟨4, .let_, .arrayFilters, true, false, .raisesNotImplemented⟩,
  ⟨4, .let_, .arrayFilters, true, true, .raisesNotImplemented⟩,
  ⟨4, .let_, .hint, true, false, .raisesNotImplemented⟩,
  ⟨4, .let_, .hint, true, true, .raisesNotImplemented⟩,
  ⟨4, .hint, .session, true, false, .raisesNotImplemented⟩,
  ⟨4, .hint, .collation, true, false, .raisesNotImplemented⟩,
  ⟨4, .hint, .arrayFilters, true, false, .raisesNotImplemented⟩,
  ⟨4, .hint, .let_, true, false, .raisesNotImplemented⟩,
  ⟨8, .session, .collation, false, false, .raisesNotImplemented⟩,
  ⟨8, .session, .collation, false, true, .raisesNotImplemented⟩,
  ⟨8, .session, .arrayFilters, false, false, .raisesNotImplemented⟩,
  ⟨8, .session, .arrayFilters, false, true, .raisesNotImplemented⟩,
  ⟨8, .session, .let_, false, false, .raisesNotImplemented⟩,
  ⟨8, .session, .let_, false, true, .raisesNotImplemented⟩,
  ⟨8, .session, .hint, false, false, .raisesNotImplemented⟩,
  ⟨8, .session, .hint, false, true, .accepted⟩,
  ⟨8, .collation, .session, false, false, .raisesNotImplemented⟩,
  ⟨8, .collation, .session, false, true, .raisesNotImplemented⟩,
  ⟨8, .collation, .arrayFilters, false, false, .raisesNotImplemented⟩,
  ⟨8, .collation, .arrayFilters, false, true, .raisesNotImplemented⟩,
  ⟨8, .collation, .let_, false, false, .raisesNotImplemented⟩,
  ⟨8, .collation, .let_, false, true, .raisesNotImplemented⟩,
  ⟨8, .collation, .hint, false, false, .raisesNotImplemented⟩,
  ⟨8, .collation, .hint, false, true, .accepted⟩,
  ⟨8, .arrayFilters, .session, false, false, .raisesNotImplemented⟩,
  ⟨8, .arrayFilters, .session, false, true, .raisesNotImplemented⟩,
  ⟨8, .arrayFilters, .collation, false, false, .raisesNotImplemented⟩,
  ⟨8, .arrayFilters, .collation, false, true, .raisesNotImplemented⟩,
  ⟨8, .arrayFilters, .let_, false, false, .raisesNotImplemented⟩,
  ⟨8, .arrayFilters, .let_, false, true, .raisesNotImplemented⟩,
  ⟨8, .arrayFilters, .hint, false, false, .raisesNotImplemented⟩,
  ⟨8, .arrayFilters, .hint, false, true, .accepted⟩,
  ⟨8, .let_, .session, false, false, .raisesNotImplemented⟩,
  ⟨8, .let_, .session, false, true, .raisesNotImplemented⟩,
  ⟨8, .let_, .collation, false, false, .raisesNotImplemented⟩,
  ⟨8, .let_, .collation, false, true, .raisesNotImplemented⟩,
  ⟨8, .let_, .arrayFilters, false, false, .raisesNotImplemented⟩,
  ⟨8, .let_, .arrayFilters, false, true, .raisesNotImplemented⟩,
  ⟨8, .let_, .hint, false, false, .raisesNotImplemented⟩,
  ⟨8, .let_, .hint, false, true, .accepted⟩,
  ⟨8, .hint, .session, false, false, .raisesNotImplemented⟩,
  ⟨8, .hint, .collation, false, false, .raisesNotImplemented⟩,
  ⟨8, .hint, .arrayFilters, false, false, .raisesNotImplemented⟩,
  ⟨8, .hint, .let_, false, false, .raisesNotImplemented⟩,
  ⟨10, .session, .collation, false, false, .raisesNotImplemented⟩,
  ⟨10, .session, .collation, false, true, .raisesNotImplemented⟩,
  ⟨10, .session, .arrayFilters, false, false, .raisesNotImplemented⟩,
  ⟨10, .session, .arrayFilters, false, true, .raisesOther⟩,
  ⟨10, .session, .let_, false, false, .raisesNotImplemented⟩,
  ⟨10, .session, .let_, false, true, .raisesOther⟩,
  ⟨10, .session, .hint, false, false, .raisesNotImplemented⟩,
  ⟨10, .session, .hint, false, true, .accepted⟩,
  ⟨10, .collation, .session, false, false, .raisesNotImplemented⟩,
  ⟨10, .collation, .session, false, true, .raisesNotImplemented⟩,
  ⟨10, .collation, .arrayFilters, false, false, .raisesNotImplemented⟩,
  ⟨10, .collation, .arrayFilters, false, true, .raisesOther⟩,
  ⟨10, .collation, .let_, false, false, .raisesNotImplemented⟩,
  ⟨10, .collation, .let_, false, true, .raisesOther⟩,
  ⟨10, .collation, .hint, false, false, .raisesNotImplemented⟩,
  ⟨10, .collation, .hint, false, true, .accepted⟩,
  ⟨10, .arrayFilters, .session, false, false, .raisesNotImplemented⟩,
  ⟨10, .arrayFilters, .session, false, true, .raisesNotImplemented⟩,
  ⟨10, .arrayFilters, .collation, false, false, .raisesNotImplemented⟩,
  ⟨10, .arrayFilters, .collation, false, true, .raisesNotImplemented⟩,
  ⟨10, .arrayFilters, .let_, false, false, .raisesOther⟩,
  ⟨10, .arrayFilters, .let_, false, true, .raisesOther⟩,
  ⟨10, .arrayFilters, .hint, false, false, .raisesOther⟩,
  ⟨10, .arrayFilters, .hint, false, true, .raisesOther⟩,
  ⟨10, .let_, .session, false, false, .raisesNotImplemented⟩,
  ⟨10, .let_, .session, false, true, .raisesNotImplemented⟩,
  ⟨10, .let_, .collation, false, false, .raisesNotImplemented⟩,
  ⟨10, .let_, .collation, false, true, .raisesNotImplemented⟩,
  ⟨10, .let_, .arrayFilters, false, false, .raisesOther⟩,
  ⟨10, .let_, .arrayFilters, false, true, .raisesOther⟩,
  ⟨10, .let_, .hint, false, false, .raisesOther⟩,
  ⟨10, .let_, .hint, false, true, .raisesOther⟩,
  ⟨10, .hint, .session, false, false, .raisesNotImplemented⟩,
  ⟨10, .hint, .collation, false, false, .raisesNotImplemented⟩,
  ⟨10, .hint, .arrayFilters, false, false, .raisesOther⟩,
  ⟨10, .hint, .let_, false, false, .raisesOther⟩,
  ⟨11, .session, .collation, false, false, .raisesNotImplemented⟩,
  ⟨11, .session, .collation, false, true, .raisesNotImplemented⟩,
  ⟨11, .session, .arrayFilters, false, false, .raisesNotImplemented⟩,
  ⟨11, .session, .arrayFilters, false, true, .raisesNotImplemented⟩,
  ⟨11, .session, .let_, false, false, .raisesNotImplemented⟩,
  ⟨11, .session, .let_, false, true, .raisesNotImplemented⟩,
  ⟨11, .session, .hint, false, false, .raisesNotImplemented⟩,
  ⟨11, .session, .hint, false, true, .accepted⟩,
  ⟨11, .collation, .session, false, false, .raisesNotImplemented⟩,
  ⟨11, .collation, .session, false, true, .raisesNotImplemented⟩,
  ⟨11, .collation, .arrayFilters, false, false, .raisesNotImplemented⟩,
  ⟨11, .collation, .arrayFilters, false, true, .raisesNotImplemented⟩,
  ⟨11, .collation, .let_, false, false, .raisesNotImplemented⟩,
  ⟨11, .collation, .let_, false, true, .raisesNotImplemented⟩,
  ⟨11, .collation, .hint, false, false, .raisesNotImplemented⟩,
  ⟨11, .collation, .hint, false, true, .accepted⟩,
  ⟨11, .arrayFilters, .session, false, false, .raisesNotImplemented⟩,
  ⟨11, .arrayFilters, .session, false, true, .raisesNotImplemented⟩,
  ⟨11, .arrayFilters, .collation, false, false, .raisesNotImplemented⟩,
  ⟨11, .arrayFilters, .collation, false, true, .raisesNotImplemented⟩,
  ⟨11, .arrayFilters, .let_, false, false, .raisesNotImplemented⟩,
  ⟨11, .arrayFilters, .let_, false, true, .raisesNotImplemented⟩,
  ⟨11, .arrayFilters, .hint, false, false, .raisesNotImplemented⟩,
  ⟨11, .arrayFilters, .hint, false, true, .accepted⟩,
  ⟨11, .let_, .session, false, false, .raisesNotImplemented⟩,
  ⟨11, .let_, .session, false, true, .raisesNotImplemented⟩]

def optionPairs_1 : List OptPair := [
  ⟨11, .let_, .collation, false, false, .raisesNotImplemented⟩,
  ⟨11, .let_, .collation, false, true, .raisesNotImplemented⟩,
  ⟨11, .let_, .arrayFilters, false, false, .raisesNotImplemented⟩,
  ⟨11, .let_, .arrayFilters, false, true, .raisesNotImplemented⟩,
  ⟨11, .let_, .hint, false, false, .raisesNotImplemented⟩,
  ⟨11, .let_, .hint, false, true, .accepted⟩,
  ⟨11, .hint, .session, false, false, .raisesNotImplemented⟩,
  ⟨11, .hint, .collation, false, false, .raisesNotImplemented⟩,
  ⟨11, .hint, .arrayFilters, false, false, .raisesNotImplemented⟩,
  ⟨11, .hint, .let_, false, false, .raisesNotImplemented⟩,
  ⟨13, .session, .collation, true, false, .raisesNotImplemented⟩,
  ⟨13, .session, .collation, true, true, .raisesNotImplemented⟩,
  ⟨13, .session, .hint, true, false, .raisesNotImplemented⟩,
  ⟨13, .session, .hint, true, true, .raisesNotImplemented⟩,
  ⟨13, .collation, .session, true, false, .raisesNotImplemented⟩,
  ⟨13, .collation, .session, true, true, .raisesNotImplemented⟩,
  ⟨13, .collation, .hint, true, false, .raisesNotImplemented⟩,
  ⟨13, .collation, .hint, true, true, .raisesNotImplemented⟩,
  ⟨13, .hint, .session, true, false, .raisesNotImplemented⟩,
  ⟨13, .hint, .collation, true, false, .raisesNotImplemented⟩,
  ⟨14, .session, .collation, true, false, .raisesNotImplemented⟩,
  ⟨14, .session, .collation, true, true, .raisesNotImplemented⟩,
  ⟨14, .session, .hint, true, false, .raisesNotImplemented⟩,
  ⟨14, .session, .hint, true, true, .raisesNotImplemented⟩,
  ⟨14, .collation, .session, true, false, .raisesNotImplemented⟩,
  ⟨14, .collation, .session, true, true, .raisesNotImplemented⟩,
  ⟨14, .collation, .hint, true, false, .raisesNotImplemented⟩,
  ⟨14, .collation, .hint, true, true, .raisesNotImplemented⟩,
  ⟨14, .hint, .session, true, false, .raisesNotImplemented⟩,
  ⟨14, .hint, .collation, true, false, .raisesNotImplemented⟩,
  ⟨19, .session, .collation, false, false, .raisesOther⟩,
  ⟨19, .session, .collation, false, true, .raisesOther⟩,
  ⟨19, .session, .arrayFilters, false, false, .raisesOther⟩,
  ⟨19, .session, .arrayFilters, false, true, .raisesOther⟩,
  ⟨19, .session, .let_, false, false, .raisesOther⟩,
  ⟨19, .session, .let_, false, true, .raisesOther⟩,
  ⟨19, .session, .hint, false, false, .raisesOther⟩,
  ⟨19, .session, .hint, false, true, .raisesOther⟩,
  ⟨19, .collation, .session, false, false, .raisesOther⟩,
  ⟨19, .collation, .session, false, true, .raisesOther⟩,
  ⟨19, .collation, .arrayFilters, false, false, .raisesOther⟩,
  ⟨19, .collation, .arrayFilters, false, true, .raisesOther⟩,
  ⟨19, .collation, .let_, false, false, .raisesOther⟩,
  ⟨19, .collation, .let_, false, true, .raisesOther⟩,
  ⟨19, .collation, .hint, false, false, .raisesOther⟩,
  ⟨19, .collation, .hint, false, true, .raisesOther⟩,
  ⟨19, .arrayFilters, .session, false, false, .raisesOther⟩,
  ⟨19, .arrayFilters, .session, false, true, .raisesOther⟩,
  ⟨19, .arrayFilters, .collation, false, false, .raisesOther⟩,
  ⟨19, .arrayFilters, .collation, false, true, .raisesOther⟩,
  ⟨19, .arrayFilters, .let_, false, false, .raisesOther⟩,
  ⟨19, .arrayFilters, .let_, false, true, .raisesOther⟩,
  ⟨19, .arrayFilters, .hint, false, false, .raisesOther⟩,
  ⟨19, .arrayFilters, .hint, false, true, .raisesOther⟩,
  ⟨19, .let_, .session, false, false, .raisesOther⟩,
  ⟨19, .let_, .session, false, true, .raisesOther⟩,
  ⟨19, .let_, .collation, false, false, .raisesOther⟩,
  ⟨19, .let_, .collation, false, true, .raisesOther⟩,
  ⟨19, .let_, .arrayFilters, false, false, .raisesOther⟩,
  ⟨19, .let_, .arrayFilters, false, true, .raisesOther⟩,
  ⟨19, .let_, .hint, false, false, .raisesOther⟩,
  ⟨19, .let_, .hint, false, true, .raisesOther⟩,
  ⟨19, .hint, .session, false, false, .raisesOther⟩,
  ⟨19, .hint, .collation, false, false, .raisesOther⟩,
  ⟨19, .hint, .arrayFilters, false, false, .raisesOther⟩,
  ⟨19, .hint, .let_, false, false, .raisesOther⟩,
  ⟨20, .session, .collation, false, false, .raisesNotImplemented⟩,
  ⟨20, .session, .collation, false, true, .accepted⟩,
  ⟨20, .session, .arrayFilters, false, false, .raisesNotImplemented⟩,
  ⟨20, .session, .arrayFilters, false, true, .raisesOther⟩,
  ⟨20, .session, .let_, false, false, .raisesNotImplemented⟩,
  ⟨20, .session, .let_, false, true, .raisesOther⟩,
  ⟨20, .session, .hint, false, false, .raisesNotImplemented⟩,
  ⟨20, .session, .hint, false, true, .raisesOther⟩,
  ⟨20, .collation, .session, false, false, .raisesNotImplemented⟩,
  ⟨20, .collation, .session, false, true, .raisesNotImplemented⟩,
  ⟨20, .collation, .arrayFilters, false, false, .raisesOther⟩,
  ⟨20, .collation, .arrayFilters, false, true, .raisesOther⟩,
  ⟨20, .collation, .let_, false, false, .raisesOther⟩,
  ⟨20, .collation, .let_, false, true, .raisesOther⟩,
  ⟨20, .collation, .hint, false, false, .raisesOther⟩,
  ⟨20, .collation, .hint, false, true, .raisesOther⟩,
  ⟨20, .arrayFilters, .session, false, false, .raisesNotImplemented⟩,
  ⟨20, .arrayFilters, .session, false, true, .raisesNotImplemented⟩,
  ⟨20, .arrayFilters, .collation, false, false, .raisesOther⟩,
  ⟨20, .arrayFilters, .collation, false, true, .raisesOther⟩,
  ⟨20, .arrayFilters, .let_, false, false, .raisesOther⟩,
  ⟨20, .arrayFilters, .let_, false, true, .raisesOther⟩,
  ⟨20, .arrayFilters, .hint, false, false, .raisesOther⟩,
  ⟨20, .arrayFilters, .hint, false, true, .raisesOther⟩,
  ⟨20, .let_, .session, false, false, .raisesNotImplemented⟩,
  ⟨20, .let_, .session, false, true, .raisesNotImplemented⟩,
  ⟨20, .let_, .collation, false, false, .raisesOther⟩,
  ⟨20, .let_, .collation, false, true, .raisesOther⟩,
  ⟨20, .let_, .arrayFilters, false, false, .raisesOther⟩,
  ⟨20, .let_, .arrayFilters, false, true, .raisesOther⟩,
  ⟨20, .let_, .hint, false, false, .raisesOther⟩,
  ⟨20, .let_, .hint, false, true, .raisesOther⟩,
  ⟨20, .hint, .session, false, false, .raisesNotImplemented⟩,
  ⟨20, .hint, .collation, false, false, .raisesOther⟩,
  ⟨20, .hint, .arrayFilters, false, false, .raisesOther⟩,
  ⟨20, .hint, .let_, false, false, .raisesOther⟩,
  ⟨21, .session, .collation, false, false, .raisesNotImplemented⟩,
  ⟨21, .session, .collation, false, true, .raisesNotImplemented⟩,
  ⟨21, .session, .arrayFilters, false, false, .raisesNotImplemented⟩,
  ⟨21, .session, .arrayFilters, false, true, .raisesOther⟩,
  ⟨21, .session, .let_, false, false, .raisesNotImplemented⟩,
  ⟨21, .session, .let_, false, true, .raisesOther⟩,
  ⟨21, .session, .hint, false, false, .raisesNotImplemented⟩,
  ⟨21, .session, .hint, false, true, .raisesOther⟩,
  ⟨21, .collation, .session, false, false, .raisesNotImplemented⟩,
  ⟨21, .collation, .session, false, true, .raisesNotImplemented⟩,
  ⟨21, .collation, .arrayFilters, false, false, .raisesNotImplemented⟩,
  ⟨21, .collation, .arrayFilters, false, true, .raisesOther⟩,
  ⟨21, .collation, .let_, false, false, .raisesNotImplemented⟩,
  ⟨21, .collation, .let_, false, true, .raisesOther⟩,
  ⟨21, .collation, .hint, false, false, .raisesNotImplemented⟩,
  ⟨21, .collation, .hint, false, true, .raisesOther⟩,
  ⟨21, .arrayFilters, .session, false, false, .raisesNotImplemented⟩,
  ⟨21, .arrayFilters, .session, false, true, .raisesNotImplemented⟩,
  ⟨21, .arrayFilters, .collation, false, false, .raisesNotImplemented⟩,
  ⟨21, .arrayFilters, .collation, false, true, .raisesNotImplemented⟩,
  ⟨21, .arrayFilters, .let_, false, false, .raisesOther⟩,
  ⟨21, .arrayFilters, .let_, false, true, .raisesOther⟩,
  ⟨21, .arrayFilters, .hint, false, false, .raisesOther⟩,
  ⟨21, .arrayFilters, .hint, false, true, .raisesOther⟩,
  ⟨21, .let_, .session, false, false, .raisesNotImplemented⟩,
  ⟨21, .let_, .session, false, true, .raisesNotImplemented⟩,
  ⟨21, .let_, .collation, false, false, .raisesNotImplemented⟩,
  ⟨21, .let_, .collation, false, true, .raisesNotImplemented⟩,
  ⟨21, .let_, .arrayFilters, false, false, .raisesOther⟩,
  ⟨21, .let_, .arrayFilters, false, true, .raisesOther⟩,
  ⟨21, .let_, .hint, false, false, .raisesOther⟩,
  ⟨21, .let_, .hint, false, true, .raisesOther⟩,
  ⟨21, .hint, .session, false, false, .raisesNotImplemented⟩,
  ⟨21, .hint, .collation, false, false, .raisesNotImplemented⟩,
  ⟨21, .hint, .arrayFilters, false, false, .raisesOther⟩,
  ⟨21, .hint, .let_, false, false, .raisesOther⟩,
  ⟨22, .session, .collation, true, false, .raisesNotImplemented⟩,
  ⟨22, .session, .collation, true, true, .raisesNotImplemented⟩,
  ⟨22, .session, .arrayFilters, true, false, .raisesNotImplemented⟩,
  ⟨22, .session, .arrayFilters, true, true, .raisesNotImplemented⟩,
  ⟨22, .session, .let_, true, false, .raisesNotImplemented⟩,
  ⟨22, .session, .let_, true, true, .raisesNotImplemented⟩,
  ⟨22, .session, .hint, true, false, .raisesNotImplemented⟩,
  ⟨22, .session, .hint, true, true, .raisesNotImplemented⟩,
  ⟨22, .collation, .session, true, false, .raisesNotImplemented⟩,
  ⟨22, .collation, .session, true, true, .raisesNotImplemented⟩,
  ⟨22, .collation, .arrayFilters, true, false, .raisesNotImplemented⟩,
  ⟨22, .collation, .arrayFilters, true, true, .raisesNotImplemented⟩]

def optionPairs_2 : List OptPair := [
  ⟨22, .collation, .let_, true, false, .raisesNotImplemented⟩,
  ⟨22, .collation, .let_, true, true, .raisesNotImplemented⟩,
  ⟨22, .collation, .hint, true, false, .raisesNotImplemented⟩,
  ⟨22, .collation, .hint, true, true, .raisesNotImplemented⟩,
  ⟨22, .arrayFilters, .session, true, false, .raisesNotImplemented⟩,
  ⟨22, .arrayFilters, .session, true, true, .raisesNotImplemented⟩,
  ⟨22, .arrayFilters, .collation, true, false, .raisesNotImplemented⟩,
  ⟨22, .arrayFilters, .collation, true, true, .raisesNotImplemented⟩,
  ⟨22, .arrayFilters, .let_, true, false, .raisesNotImplemented⟩,
  ⟨22, .arrayFilters, .let_, true, true, .raisesNotImplemented⟩,
  ⟨22, .arrayFilters, .hint, true, false, .raisesNotImplemented⟩,
  ⟨22, .arrayFilters, .hint, true, true, .raisesNotImplemented⟩,
  ⟨22, .let_, .session, true, false, .raisesNotImplemented⟩,
  ⟨22, .let_, .session, true, true, .raisesNotImplemented⟩,
  ⟨22, .let_, .collation, true, false, .raisesNotImplemented⟩,
  ⟨22, .let_, .collation, true, true, .raisesNotImplemented⟩,
  ⟨22, .let_, .arrayFilters, true, false, .raisesNotImplemented⟩,
  ⟨22, .let_, .arrayFilters, true, true, .raisesNotImplemented⟩,
  ⟨22, .let_, .hint, true, false, .raisesNotImplemented⟩,
  ⟨22, .let_, .hint, true, true, .raisesNotImplemented⟩,
  ⟨22, .hint, .session, true, false, .raisesNotImplemented⟩,
  ⟨22, .hint, .collation, true, false, .raisesNotImplemented⟩,
  ⟨22, .hint, .arrayFilters, true, false, .raisesNotImplemented⟩,
  ⟨22, .hint, .let_, true, false, .raisesNotImplemented⟩,
  ⟨23, .session, .collation, true, false, .raisesNotImplemented⟩,
  ⟨23, .session, .collation, true, true, .raisesNotImplemented⟩,
  ⟨23, .session, .arrayFilters, true, false, .raisesNotImplemented⟩,
  ⟨23, .session, .arrayFilters, true, true, .raisesNotImplemented⟩,
  ⟨23, .session, .let_, true, false, .raisesNotImplemented⟩,
  ⟨23, .session, .let_, true, true, .raisesNotImplemented⟩,
  ⟨23, .session, .hint, true, false, .raisesNotImplemented⟩,
  ⟨23, .session, .hint, true, true, .raisesNotImplemented⟩,
  ⟨23, .collation, .session, true, false, .raisesNotImplemented⟩,
  ⟨23, .collation, .session, true, true, .raisesNotImplemented⟩,
  ⟨23, .collation, .arrayFilters, true, false, .raisesNotImplemented⟩,
  ⟨23, .collation, .arrayFilters, true, true, .raisesNotImplemented⟩,
  ⟨23, .collation, .let_, true, false, .raisesNotImplemented⟩,
  ⟨23, .collation, .let_, true, true, .raisesNotImplemented⟩,
  ⟨23, .collation, .hint, true, false, .raisesNotImplemented⟩,
  ⟨23, .collation, .hint, true, true, .raisesNotImplemented⟩,
  ⟨23, .arrayFilters, .session, true, false, .raisesNotImplemented⟩,
  ⟨23, .arrayFilters, .session, true, true, .raisesNotImplemented⟩,
  ⟨23, .arrayFilters, .collation, true, false, .raisesNotImplemented⟩,
  ⟨23, .arrayFilters, .collation, true, true, .raisesNotImplemented⟩,
  ⟨23, .arrayFilters, .let_, true, false, .raisesNotImplemented⟩,
  ⟨23, .arrayFilters, .let_, true, true, .raisesNotImplemented⟩,
  ⟨23, .arrayFilters, .hint, true, false, .raisesNotImplemented⟩,
  ⟨23, .arrayFilters, .hint, true, true, .raisesNotImplemented⟩,
  ⟨23, .let_, .session, true, false, .raisesNotImplemented⟩,
  ⟨23, .let_, .session, true, true, .raisesNotImplemented⟩,
  ⟨23, .let_, .collation, true, false, .raisesNotImplemented⟩,
  ⟨23, .let_, .collation, true, true, .raisesNotImplemented⟩,
  ⟨23, .let_, .arrayFilters, true, false, .raisesNotImplemented⟩,
  ⟨23, .let_, .arrayFilters, true, true, .raisesNotImplemented⟩,
  ⟨23, .let_, .hint, true, false, .raisesNotImplemented⟩,
  ⟨23, .let_, .hint, true, true, .raisesNotImplemented⟩,
  ⟨23, .hint, .session, true, false, .raisesNotImplemented⟩,
  ⟨23, .hint, .collation, true, false, .raisesNotImplemented⟩,
  ⟨23, .hint, .arrayFilters, true, false, .raisesNotImplemented⟩,
  ⟨23, .hint, .let_, true, false, .raisesNotImplemented⟩,
  ⟨24, .session, .collation, true, false, .raisesNotImplemented⟩,
  ⟨24, .session, .collation, true, true, .raisesNotImplemented⟩,
  ⟨24, .session, .arrayFilters, true, false, .raisesNotImplemented⟩,
  ⟨24, .session, .arrayFilters, true, true, .raisesNotImplemented⟩,
  ⟨24, .session, .let_, true, false, .raisesNotImplemented⟩,
  ⟨24, .session, .let_, true, true, .raisesNotImplemented⟩,
  ⟨24, .session, .hint, true, false, .raisesNotImplemented⟩,
  ⟨24, .session, .hint, true, true, .raisesNotImplemented⟩,
  ⟨24, .collation, .session, true, false, .raisesNotImplemented⟩,
  ⟨24, .collation, .session, true, true, .raisesNotImplemented⟩,
  ⟨24, .collation, .arrayFilters, true, false, .raisesNotImplemented⟩,
  ⟨24, .collation, .arrayFilters, true, true, .raisesNotImplemented⟩,
  ⟨24, .collation, .let_, true, false, .raisesNotImplemented⟩,
  ⟨24, .collation, .let_, true, true, .raisesNotImplemented⟩,
  ⟨24, .collation, .hint, true, false, .raisesNotImplemented⟩,
  ⟨24, .collation, .hint, true, true, .raisesNotImplemented⟩,
  ⟨24, .arrayFilters, .session, true, false, .raisesNotImplemented⟩,
  ⟨24, .arrayFilters, .session, true, true, .raisesNotImplemented⟩,
  ⟨24, .arrayFilters, .collation, true, false, .raisesNotImplemented⟩,
  ⟨24, .arrayFilters, .collation, true, true, .raisesNotImplemented⟩,
  ⟨24, .arrayFilters, .let_, true, false, .raisesNotImplemented⟩,
  ⟨24, .arrayFilters, .let_, true, true, .raisesNotImplemented⟩,
  ⟨24, .arrayFilters, .hint, true, false, .raisesNotImplemented⟩,
  ⟨24, .arrayFilters, .hint, true, true, .raisesNotImplemented⟩,
  ⟨24, .let_, .session, true, false, .raisesNotImplemented⟩,
  ⟨24, .let_, .session, true, true, .raisesNotImplemented⟩,
  ⟨24, .let_, .collation, true, false, .raisesNotImplemented⟩,
  ⟨24, .let_, .collation, true, true, .raisesNotImplemented⟩,
  ⟨24, .let_, .arrayFilters, true, false, .raisesNotImplemented⟩,
  ⟨24, .let_, .arrayFilters, true, true, .raisesNotImplemented⟩,
  ⟨24, .let_, .hint, true, false, .raisesNotImplemented⟩,
  ⟨24, .let_, .hint, true, true, .raisesNotImplemented⟩,
  ⟨24, .hint, .session, true, false, .raisesNotImplemented⟩,
  ⟨24, .hint, .collation, true, false, .raisesNotImplemented⟩,
  ⟨24, .hint, .arrayFilters, true, false, .raisesNotImplemented⟩,
  ⟨24, .hint, .let_, true, false, .raisesNotImplemented⟩,
  ⟨29, .session, .collation, false, false, .raisesNotImplemented⟩,
  ⟨29, .session, .collation, false, true, .raisesOther⟩,
  ⟨29, .session, .arrayFilters, false, false, .raisesNotImplemented⟩,
  ⟨29, .session, .arrayFilters, false, true, .raisesOther⟩,
  ⟨29, .session, .let_, false, false, .raisesNotImplemented⟩,
  ⟨29, .session, .let_, false, true, .raisesOther⟩,
  ⟨29, .session, .hint, false, false, .raisesNotImplemented⟩,
  ⟨29, .session, .hint, false, true, .raisesOther⟩,
  ⟨29, .collation, .session, false, false, .raisesNotImplemented⟩,
  ⟨29, .collation, .session, false, true, .raisesNotImplemented⟩,
  ⟨29, .collation, .arrayFilters, false, false, .raisesOther⟩,
  ⟨29, .collation, .arrayFilters, false, true, .raisesOther⟩,
  ⟨29, .collation, .let_, false, false, .raisesOther⟩,
  ⟨29, .collation, .let_, false, true, .raisesOther⟩,
  ⟨29, .collation, .hint, false, false, .raisesOther⟩,
  ⟨29, .collation, .hint, false, true, .raisesOther⟩,
  ⟨29, .arrayFilters, .session, false, false, .raisesNotImplemented⟩,
  ⟨29, .arrayFilters, .session, false, true, .raisesNotImplemented⟩,
  ⟨29, .arrayFilters, .collation, false, false, .raisesOther⟩,
  ⟨29, .arrayFilters, .collation, false, true, .raisesOther⟩,
  ⟨29, .arrayFilters, .let_, false, false, .raisesOther⟩,
  ⟨29, .arrayFilters, .let_, false, true, .raisesOther⟩,
  ⟨29, .arrayFilters, .hint, false, false, .raisesOther⟩,
  ⟨29, .arrayFilters, .hint, false, true, .raisesOther⟩,
  ⟨29, .let_, .session, false, false, .raisesNotImplemented⟩,
  ⟨29, .let_, .session, false, true, .raisesNotImplemented⟩,
  ⟨29, .let_, .collation, false, false, .raisesOther⟩,
  ⟨29, .let_, .collation, false, true, .raisesOther⟩,
  ⟨29, .let_, .arrayFilters, false, false, .raisesOther⟩,
  ⟨29, .let_, .arrayFilters, false, true, .raisesOther⟩,
  ⟨29, .let_, .hint, false, false, .raisesOther⟩,
  ⟨29, .let_, .hint, false, true, .raisesOther⟩,
  ⟨29, .hint, .session, false, false, .raisesNotImplemented⟩,
  ⟨29, .hint, .collation, false, false, .raisesOther⟩,
  ⟨29, .hint, .arrayFilters, false, false, .raisesOther⟩,
  ⟨29, .hint, .let_, false, false, .raisesOther⟩,
  ⟨30, .session, .hint, true, false, .raisesNotImplemented⟩,
  ⟨30, .session, .hint, true, true, .raisesNotImplemented⟩,
  ⟨30, .hint, .session, true, false, .raisesNotImplemented⟩,
  ⟨31, .session, .collation, true, false, .raisesNotImplemented⟩,
  ⟨31, .session, .collation, true, true, .raisesNotImplemented⟩,
  ⟨31, .session, .arrayFilters, true, false, .raisesNotImplemented⟩,
  ⟨31, .session, .arrayFilters, true, true, .raisesNotImplemented⟩,
  ⟨31, .session, .let_, true, false, .raisesNotImplemented⟩,
  ⟨31, .session, .let_, true, true, .raisesNotImplemented⟩,
  ⟨31, .session, .hint, true, false, .raisesNotImplemented⟩,
  ⟨31, .session, .hint, true, true, .raisesNotImplemented⟩,
  ⟨31, .collation, .session, true, false, .raisesNotImplemented⟩,
  ⟨31, .collation, .session, true, true, .raisesNotImplemented⟩,
  ⟨31, .collation, .arrayFilters, true, false, .raisesNotImplemented⟩,
  ⟨31, .collation, .arrayFilters, true, true, .raisesNotImplemented⟩,
  ⟨31, .collation, .let_, true, false, .raisesNotImplemented⟩,
  ⟨31, .collation, .let_, true, true, .raisesNotImplemented⟩,
  ⟨31, .collation, .hint, true, false, .raisesNotImplemented⟩]

def optionPairs_3 : List OptPair := [
  ⟨31, .collation, .hint, true, true, .raisesNotImplemented⟩,
  ⟨31, .arrayFilters, .session, true, false, .raisesNotImplemented⟩,
  ⟨31, .arrayFilters, .session, true, true, .raisesNotImplemented⟩,
  ⟨31, .arrayFilters, .collation, true, false, .raisesNotImplemented⟩,
  ⟨31, .arrayFilters, .collation, true, true, .raisesNotImplemented⟩,
  ⟨31, .arrayFilters, .let_, true, false, .raisesNotImplemented⟩,
  ⟨31, .arrayFilters, .let_, true, true, .raisesNotImplemented⟩,
  ⟨31, .arrayFilters, .hint, true, false, .raisesNotImplemented⟩,
  ⟨31, .arrayFilters, .hint, true, true, .raisesNotImplemented⟩,
  ⟨31, .let_, .session, true, false, .raisesNotImplemented⟩,
  ⟨31, .let_, .session, true, true, .raisesNotImplemented⟩,
  ⟨31, .let_, .collation, true, false, .raisesNotImplemented⟩,
  ⟨31, .let_, .collation, true, true, .raisesNotImplemented⟩,
  ⟨31, .let_, .arrayFilters, true, false, .raisesNotImplemented⟩,
  ⟨31, .let_, .arrayFilters, true, true, .raisesNotImplemented⟩,
  ⟨31, .let_, .hint, true, false, .raisesNotImplemented⟩,
  ⟨31, .let_, .hint, true, true, .raisesNotImplemented⟩,
  ⟨31, .hint, .session, true, false, .raisesNotImplemented⟩,
  ⟨31, .hint, .collation, true, false, .raisesNotImplemented⟩,
  ⟨31, .hint, .arrayFilters, true, false, .raisesNotImplemented⟩,
  ⟨31, .hint, .let_, true, false, .raisesNotImplemented⟩,
  ⟨32, .session, .collation, true, false, .raisesNotImplemented⟩,
  ⟨32, .session, .collation, true, true, .raisesNotImplemented⟩,
  ⟨32, .session, .arrayFilters, true, false, .raisesNotImplemented⟩,
  ⟨32, .session, .arrayFilters, true, true, .raisesNotImplemented⟩,
  ⟨32, .session, .let_, true, false, .raisesNotImplemented⟩,
  ⟨32, .session, .let_, true, true, .raisesNotImplemented⟩,
  ⟨32, .session, .hint, true, false, .raisesNotImplemented⟩,
  ⟨32, .session, .hint, true, true, .raisesNotImplemented⟩,
  ⟨32, .collation, .session, true, false, .raisesNotImplemented⟩,
  ⟨32, .collation, .session, true, true, .raisesNotImplemented⟩,
  ⟨32, .collation, .arrayFilters, true, false, .raisesNotImplemented⟩,
  ⟨32, .collation, .arrayFilters, true, true, .raisesNotImplemented⟩,
  ⟨32, .collation, .let_, true, false, .raisesNotImplemented⟩,
  ⟨32, .collation, .let_, true, true, .raisesNotImplemented⟩,
  ⟨32, .collation, .hint, true, false, .raisesNotImplemented⟩,
  ⟨32, .collation, .hint, true, true, .raisesNotImplemented⟩,
  ⟨32, .arrayFilters, .session, true, false, .raisesNotImplemented⟩,
  ⟨32, .arrayFilters, .session, true, true, .raisesNotImplemented⟩,
  ⟨32, .arrayFilters, .collation, true, false, .raisesNotImplemented⟩,
  ⟨32, .arrayFilters, .collation, true, true, .raisesNotImplemented⟩,
  ⟨32, .arrayFilters, .let_, true, false, .raisesNotImplemented⟩,
  ⟨32, .arrayFilters, .let_, true, true, .raisesNotImplemented⟩,
  ⟨32, .arrayFilters, .hint, true, false, .raisesNotImplemented⟩,
  ⟨32, .arrayFilters, .hint, true, true, .raisesNotImplemented⟩,
  ⟨32, .let_, .session, true, false, .raisesNotImplemented⟩,
  ⟨32, .let_, .session, true, true, .raisesNotImplemented⟩,
  ⟨32, .let_, .collation, true, false, .raisesNotImplemented⟩,
  ⟨32, .let_, .collation, true, true, .raisesNotImplemented⟩,
  ⟨32, .let_, .arrayFilters, true, false, .raisesNotImplemented⟩,
  ⟨32, .let_, .arrayFilters, true, true, .raisesNotImplemented⟩,
  ⟨32, .let_, .hint, true, false, .raisesNotImplemented⟩,
  ⟨32, .let_, .hint, true, true, .raisesNotImplemented⟩,
  ⟨32, .hint, .session, true, false, .raisesNotImplemented⟩,
  ⟨32, .hint, .collation, true, false, .raisesNotImplemented⟩,
  ⟨32, .hint, .arrayFilters, true, false, .raisesNotImplemented⟩,
  ⟨32, .hint, .let_, true, false, .raisesNotImplemented⟩,
  ⟨34, .session, .collation, false, false, .raisesNotImplemented⟩,
  ⟨34, .session, .collation, false, true, .raisesNotImplemented⟩,
  ⟨34, .session, .arrayFilters, false, false, .raisesNotImplemented⟩,
  ⟨34, .session, .arrayFilters, false, true, .raisesNotImplemented⟩,
  ⟨34, .session, .let_, false, false, .raisesNotImplemented⟩,
  ⟨34, .session, .let_, false, true, .raisesNotImplemented⟩,
  ⟨34, .session, .hint, false, false, .raisesNotImplemented⟩,
  ⟨34, .session, .hint, false, true, .accepted⟩,
  ⟨34, .collation, .session, false, false, .raisesNotImplemented⟩,
  ⟨34, .collation, .session, false, true, .raisesNotImplemented⟩,
  ⟨34, .collation, .arrayFilters, false, false, .raisesNotImplemented⟩,
  ⟨34, .collation, .arrayFilters, false, true, .raisesNotImplemented⟩,
  ⟨34, .collation, .let_, false, false, .raisesNotImplemented⟩,
  ⟨34, .collation, .let_, false, true, .raisesNotImplemented⟩,
  ⟨34, .collation, .hint, false, false, .raisesNotImplemented⟩,
  ⟨34, .collation, .hint, false, true, .accepted⟩,
  ⟨34, .arrayFilters, .session, false, false, .raisesNotImplemented⟩,
  ⟨34, .arrayFilters, .session, false, true, .raisesNotImplemented⟩,
  ⟨34, .arrayFilters, .collation, false, false, .raisesNotImplemented⟩,
  ⟨34, .arrayFilters, .collation, false, true, .raisesNotImplemented⟩,
  ⟨34, .arrayFilters, .let_, false, false, .raisesNotImplemented⟩,
  ⟨34, .arrayFilters, .let_, false, true, .raisesNotImplemented⟩,
  ⟨34, .arrayFilters, .hint, false, false, .raisesNotImplemented⟩,
  ⟨34, .arrayFilters, .hint, false, true, .accepted⟩,
  ⟨34, .let_, .session, false, false, .raisesNotImplemented⟩,
  ⟨34, .let_, .session, false, true, .raisesNotImplemented⟩,
  ⟨34, .let_, .collation, false, false, .raisesNotImplemented⟩,
  ⟨34, .let_, .collation, false, true, .raisesNotImplemented⟩,
  ⟨34, .let_, .arrayFilters, false, false, .raisesNotImplemented⟩,
  ⟨34, .let_, .arrayFilters, false, true, .raisesNotImplemented⟩,
  ⟨34, .let_, .hint, false, false, .raisesNotImplemented⟩,
  ⟨34, .let_, .hint, false, true, .accepted⟩,
  ⟨34, .hint, .session, false, false, .raisesNotImplemented⟩,
  ⟨34, .hint, .collation, false, false, .raisesNotImplemented⟩,
  ⟨34, .hint, .arrayFilters, false, false, .raisesNotImplemented⟩,
  ⟨34, .hint, .let_, false, false, .raisesNotImplemented⟩,
  ⟨35, .session, .collation, false, false, .raisesNotImplemented⟩,
  ⟨35, .session, .collation, false, true, .raisesNotImplemented⟩,
  ⟨35, .session, .arrayFilters, false, false, .raisesNotImplemented⟩,
  ⟨35, .session, .arrayFilters, false, true, .raisesNotImplemented⟩,
  ⟨35, .session, .let_, false, false, .raisesNotImplemented⟩,
  ⟨35, .session, .let_, false, true, .raisesNotImplemented⟩,
  ⟨35, .session, .hint, false, false, .raisesNotImplemented⟩,
  ⟨35, .session, .hint, false, true, .raisesNotImplemented⟩,
  ⟨35, .collation, .session, false, false, .raisesNotImplemented⟩,
  ⟨35, .collation, .session, false, true, .raisesNotImplemented⟩,
  ⟨35, .collation, .arrayFilters, false, false, .raisesNotImplemented⟩,
  ⟨35, .collation, .arrayFilters, false, true, .raisesNotImplemented⟩,
  ⟨35, .collation, .let_, false, false, .raisesNotImplemented⟩,
  ⟨35, .collation, .let_, false, true, .raisesNotImplemented⟩,
  ⟨35, .collation, .hint, false, false, .raisesNotImplemented⟩,
  ⟨35, .collation, .hint, false, true, .raisesNotImplemented⟩,
  ⟨35, .arrayFilters, .session, false, false, .raisesNotImplemented⟩,
  ⟨35, .arrayFilters, .session, false, true, .raisesNotImplemented⟩,
  ⟨35, .arrayFilters, .collation, false, false, .raisesNotImplemented⟩,
  ⟨35, .arrayFilters, .collation, false, true, .raisesNotImplemented⟩,
  ⟨35, .arrayFilters, .let_, false, false, .raisesNotImplemented⟩,
  ⟨35, .arrayFilters, .let_, false, true, .raisesNotImplemented⟩,
  ⟨35, .arrayFilters, .hint, false, false, .raisesNotImplemented⟩,
  ⟨35, .arrayFilters, .hint, false, true, .raisesNotImplemented⟩,
  ⟨35, .let_, .session, false, false, .raisesNotImplemented⟩,
  ⟨35, .let_, .session, false, true, .raisesNotImplemented⟩,
  ⟨35, .let_, .collation, false, false, .raisesNotImplemented⟩,
  ⟨35, .let_, .collation, false, true, .raisesNotImplemented⟩,
  ⟨35, .let_, .arrayFilters, false, false, .raisesNotImplemented⟩,
  ⟨35, .let_, .arrayFilters, false, true, .raisesNotImplemented⟩,
  ⟨35, .let_, .hint, false, false, .raisesNotImplemented⟩,
  ⟨35, .let_, .hint, false, true, .raisesNotImplemented⟩,
  ⟨35, .hint, .session, false, false, .raisesNotImplemented⟩,
  ⟨35, .hint, .collation, false, false, .raisesNotImplemented⟩,
  ⟨35, .hint, .arrayFilters, false, false, .raisesNotImplemented⟩,
  ⟨35, .hint, .let_, false, false, .raisesNotImplemented⟩]

def optionPairChunks : List (List OptPair) := [optionPairs_0, optionPairs_1, optionPairs_2, optionPairs_3]

/-- 579 pair probes -/
def optionPairs : List OptPair := optionPairChunks.flatten

end Generated
