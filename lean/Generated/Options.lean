/-
  GENERATED on every `./check C20` run by harness/extract_options.py from the working tree of /repo.
  Do not edit.  The option matrix: what each public method did with each option it accepts, with the feature opted out (ignore_feature) and not.
-/

import MongoModel.Vocab

namespace Generated
open MongoModel.Vocab

/-- the probed methods; `OptEntry.mid` is an index into this list -/
def methods : List (String × String) := [
  ("BulkOperationBuilder", "add_delete"),
  ("BulkOperationBuilder", "add_replace"),
  ("BulkOperationBuilder", "add_update"),
  ("BulkWriteOperation", "register_remove_op"),
  ("BulkWriteOperation", "register_update_op"),
  ("BulkWriteOperation", "replace_one"),
  ("BulkWriteOperation", "update"),
  ("BulkWriteOperation", "update_one"),
  ("Collection", "aggregate"),
  ("Collection", "bulk_write"),
  ("Collection", "count_documents"),
  ("Collection", "create_index"),
  ("Collection", "create_indexes"),
  ("Collection", "delete_many"),
  ("Collection", "delete_one"),
  ("Collection", "distinct"),
  ("Collection", "drop"),
  ("Collection", "drop_index"),
  ("Collection", "drop_indexes"),
  ("Collection", "estimated_document_count"),
  ("Collection", "find"),
  ("Collection", "find_one"),
  ("Collection", "find_one_and_delete"),
  ("Collection", "find_one_and_replace"),
  ("Collection", "find_one_and_update"),
  ("Collection", "index_information"),
  ("Collection", "insert_many"),
  ("Collection", "insert_one"),
  ("Collection", "list_indexes"),
  ("Collection", "rename"),
  ("Collection", "replace_one"),
  ("Collection", "update_many"),
  ("Collection", "update_one"),
  ("Cursor", "distinct"),
  ("Database", "command"),
  ("Database", "create_collection"),
  ("Database", "dereference"),
  ("Database", "drop_collection"),
  ("Database", "list_collection_names")]

/-- ⟨mid, option, named, write, optedOut, observed⟩ -/
def options : List OptEntry := [
  ⟨0, .collation, true, true, false, .accepted⟩,  -- BulkOperationBuilder.add_delete
  ⟨0, .collation, true, true, true, .accepted⟩,  -- BulkOperationBuilder.add_delete
  ⟨0, .hint, true, true, false, .raisesNotImplemented⟩,  -- BulkOperationBuilder.add_delete
  ⟨1, .collation, true, true, false, .accepted⟩,  -- BulkOperationBuilder.add_replace
  ⟨1, .collation, true, true, true, .accepted⟩,  -- BulkOperationBuilder.add_replace
  ⟨1, .hint, true, true, false, .raisesNotImplemented⟩,  -- BulkOperationBuilder.add_replace
  ⟨2, .collation, true, true, false, .accepted⟩,  -- BulkOperationBuilder.add_update
  ⟨2, .collation, true, true, true, .accepted⟩,  -- BulkOperationBuilder.add_update
  ⟨2, .arrayFilters, true, true, false, .raisesNotImplemented⟩,  -- BulkOperationBuilder.add_update
  ⟨2, .arrayFilters, true, true, true, .accepted⟩,  -- BulkOperationBuilder.add_update
  ⟨2, .hint, true, true, false, .raisesNotImplemented⟩,  -- BulkOperationBuilder.add_update
  ⟨3, .hint, true, true, false, .raisesNotImplemented⟩,  -- BulkWriteOperation.register_remove_op
  ⟨4, .session, false, true, false, .raisesNotImplemented⟩,  -- BulkWriteOperation.register_update_op
  ⟨4, .session, false, true, true, .accepted⟩,  -- BulkWriteOperation.register_update_op
  ⟨4, .collation, false, true, false, .raisesNotImplemented⟩,  -- BulkWriteOperation.register_update_op
  ⟨4, .collation, false, true, true, .accepted⟩,  -- BulkWriteOperation.register_update_op
  ⟨4, .arrayFilters, false, true, false, .raisesNotImplemented⟩,  -- BulkWriteOperation.register_update_op
  ⟨4, .arrayFilters, false, true, true, .accepted⟩,  -- BulkWriteOperation.register_update_op
  ⟨4, .let_, false, true, false, .raisesNotImplemented⟩,  -- BulkWriteOperation.register_update_op
  ⟨4, .let_, false, true, true, .accepted⟩,  -- BulkWriteOperation.register_update_op
  ⟨4, .hint, false, true, false, .raisesNotImplemented⟩,  -- BulkWriteOperation.register_update_op
  ⟨5, .hint, true, true, false, .raisesNotImplemented⟩,  -- BulkWriteOperation.replace_one
  ⟨6, .hint, true, true, false, .raisesNotImplemented⟩,  -- BulkWriteOperation.update
  ⟨7, .hint, true, true, false, .raisesNotImplemented⟩,  -- BulkWriteOperation.update_one
  ⟨8, .session, true, false, false, .raisesNotImplemented⟩,  -- Collection.aggregate
  ⟨8, .session, true, false, true, .raisesNotImplemented⟩,  -- Collection.aggregate
  ⟨8, .collation, false, false, false, .accepted⟩,  -- Collection.aggregate
  ⟨8, .collation, false, false, true, .accepted⟩,  -- Collection.aggregate
  ⟨8, .arrayFilters, false, false, false, .accepted⟩,  -- Collection.aggregate
  ⟨8, .arrayFilters, false, false, true, .accepted⟩,  -- Collection.aggregate
  ⟨8, .let_, false, false, false, .accepted⟩,  -- Collection.aggregate
  ⟨8, .let_, false, false, true, .accepted⟩,  -- Collection.aggregate
  ⟨8, .hint, false, false, false, .accepted⟩,  -- Collection.aggregate
  ⟨9, .session, true, true, false, .raisesNotImplemented⟩,  -- Collection.bulk_write
  ⟨9, .session, true, true, true, .accepted⟩,  -- Collection.bulk_write
  ⟨10, .session, false, false, false, .raisesNotImplemented⟩,  -- Collection.count_documents
  ⟨10, .session, false, false, true, .accepted⟩,  -- Collection.count_documents
  ⟨10, .collation, false, false, false, .raisesNotImplemented⟩,  -- Collection.count_documents
  ⟨10, .collation, false, false, true, .accepted⟩,  -- Collection.count_documents
  ⟨10, .arrayFilters, false, false, false, .raisesOther⟩,  -- Collection.count_documents
  ⟨10, .arrayFilters, false, false, true, .raisesOther⟩,  -- Collection.count_documents
  ⟨10, .let_, false, false, false, .raisesOther⟩,  -- Collection.count_documents
  ⟨10, .let_, false, false, true, .raisesOther⟩,  -- Collection.count_documents
  ⟨10, .hint, false, false, false, .accepted⟩,  -- Collection.count_documents
  ⟨11, .session, true, false, false, .raisesNotImplemented⟩,  -- Collection.create_index
  ⟨11, .session, true, false, true, .accepted⟩,  -- Collection.create_index
  ⟨11, .collation, false, false, false, .accepted⟩,  -- Collection.create_index
  ⟨11, .collation, false, false, true, .accepted⟩,  -- Collection.create_index
  ⟨11, .arrayFilters, false, false, false, .accepted⟩,  -- Collection.create_index
  ⟨11, .arrayFilters, false, false, true, .accepted⟩,  -- Collection.create_index
  ⟨11, .let_, false, false, false, .accepted⟩,  -- Collection.create_index
  ⟨11, .let_, false, false, true, .accepted⟩,  -- Collection.create_index
  ⟨11, .hint, false, false, false, .accepted⟩,  -- Collection.create_index
  ⟨12, .session, true, false, false, .raisesNotImplemented⟩,  -- Collection.create_indexes
  ⟨12, .session, true, false, true, .accepted⟩,  -- Collection.create_indexes
  ⟨13, .session, true, true, false, .raisesNotImplemented⟩,  -- Collection.delete_many
  ⟨13, .session, true, true, true, .accepted⟩,  -- Collection.delete_many
  ⟨13, .collation, true, true, false, .raisesNotImplemented⟩,  -- Collection.delete_many
  ⟨13, .collation, true, true, true, .accepted⟩,  -- Collection.delete_many
  ⟨13, .hint, true, true, false, .raisesNotImplemented⟩,  -- Collection.delete_many
  ⟨14, .session, true, true, false, .raisesNotImplemented⟩,  -- Collection.delete_one
  ⟨14, .session, true, true, true, .accepted⟩,  -- Collection.delete_one
  ⟨14, .collation, true, true, false, .raisesNotImplemented⟩,  -- Collection.delete_one
  ⟨14, .collation, true, true, true, .accepted⟩,  -- Collection.delete_one
  ⟨14, .hint, true, true, false, .raisesNotImplemented⟩,  -- Collection.delete_one
  ⟨15, .session, true, false, false, .raisesNotImplemented⟩,  -- Collection.distinct
  ⟨15, .session, true, false, true, .accepted⟩,  -- Collection.distinct
  ⟨16, .session, true, false, false, .raisesNotImplemented⟩,  -- Collection.drop
  ⟨16, .session, true, false, true, .accepted⟩,  -- Collection.drop
  ⟨17, .session, true, false, false, .raisesNotImplemented⟩,  -- Collection.drop_index
  ⟨17, .session, true, false, true, .accepted⟩,  -- Collection.drop_index
  ⟨18, .session, true, false, false, .raisesNotImplemented⟩,  -- Collection.drop_indexes
  ⟨18, .session, true, false, true, .accepted⟩,  -- Collection.drop_indexes
  ⟨19, .session, false, false, false, .raisesOther⟩,  -- Collection.estimated_document_count
  ⟨19, .session, false, false, true, .raisesOther⟩,  -- Collection.estimated_document_count
  ⟨19, .collation, false, false, false, .raisesOther⟩,  -- Collection.estimated_document_count
  ⟨19, .collation, false, false, true, .raisesOther⟩,  -- Collection.estimated_document_count
  ⟨19, .arrayFilters, false, false, false, .raisesOther⟩,  -- Collection.estimated_document_count
  ⟨19, .arrayFilters, false, false, true, .raisesOther⟩,  -- Collection.estimated_document_count
  ⟨19, .let_, false, false, false, .raisesOther⟩,  -- Collection.estimated_document_count
  ⟨19, .let_, false, false, true, .raisesOther⟩,  -- Collection.estimated_document_count
  ⟨19, .hint, false, false, false, .accepted⟩,  -- Collection.estimated_document_count
  ⟨20, .session, true, false, false, .accepted⟩,  -- Collection.find
  ⟨20, .session, true, false, true, .accepted⟩,  -- Collection.find
  ⟨20, .collation, true, false, false, .accepted⟩,  -- Collection.find
  ⟨20, .collation, true, false, true, .accepted⟩,  -- Collection.find
  ⟨20, .arrayFilters, false, false, false, .raisesOther⟩,  -- Collection.find
  ⟨20, .arrayFilters, false, false, true, .raisesOther⟩,  -- Collection.find
  ⟨20, .let_, false, false, false, .raisesOther⟩,  -- Collection.find
  ⟨20, .let_, false, false, true, .raisesOther⟩,  -- Collection.find
  ⟨20, .hint, false, false, false, .raisesOther⟩,  -- Collection.find
  ⟨21, .session, false, false, false, .accepted⟩,  -- Collection.find_one
  ⟨21, .session, false, false, true, .accepted⟩,  -- Collection.find_one
  ⟨21, .collation, false, false, false, .accepted⟩,  -- Collection.find_one
  ⟨21, .collation, false, false, true, .accepted⟩,  -- Collection.find_one
  ⟨21, .arrayFilters, false, false, false, .raisesOther⟩,  -- Collection.find_one
  ⟨21, .arrayFilters, false, false, true, .raisesOther⟩,  -- Collection.find_one
  ⟨21, .let_, false, false, false, .raisesOther⟩,  -- Collection.find_one
  ⟨21, .let_, false, false, true, .raisesOther⟩,  -- Collection.find_one
  ⟨21, .hint, false, false, false, .raisesOther⟩,  -- Collection.find_one
  ⟨22, .session, false, true, false, .raisesNotImplemented⟩,  -- Collection.find_one_and_delete
  ⟨22, .session, false, true, true, .accepted⟩,  -- Collection.find_one_and_delete
  ⟨22, .collation, false, true, false, .accepted⟩,  -- Collection.find_one_and_delete
  ⟨22, .collation, false, true, true, .accepted⟩,  -- Collection.find_one_and_delete
  ⟨22, .arrayFilters, false, true, false, .accepted⟩,  -- Collection.find_one_and_delete
  ⟨22, .arrayFilters, false, true, true, .accepted⟩,  -- Collection.find_one_and_delete
  ⟨22, .let_, false, true, false, .accepted⟩,  -- Collection.find_one_and_delete
  ⟨22, .let_, false, true, true, .accepted⟩,  -- Collection.find_one_and_delete
  ⟨22, .hint, false, true, false, .accepted⟩,  -- Collection.find_one_and_delete
  ⟨23, .session, false, true, false, .raisesNotImplemented⟩,  -- Collection.find_one_and_replace
  ⟨23, .session, false, true, true, .accepted⟩,  -- Collection.find_one_and_replace
  ⟨23, .collation, false, true, false, .accepted⟩,  -- Collection.find_one_and_replace
  ⟨23, .collation, false, true, true, .accepted⟩,  -- Collection.find_one_and_replace
  ⟨23, .arrayFilters, false, true, false, .accepted⟩,  -- Collection.find_one_and_replace
  ⟨23, .arrayFilters, false, true, true, .accepted⟩,  -- Collection.find_one_and_replace
  ⟨23, .let_, false, true, false, .accepted⟩,  -- Collection.find_one_and_replace
  ⟨23, .let_, false, true, true, .accepted⟩,  -- Collection.find_one_and_replace
  ⟨23, .hint, false, true, false, .accepted⟩,  -- Collection.find_one_and_replace
  ⟨24, .session, false, true, false, .raisesNotImplemented⟩,  -- Collection.find_one_and_update
  ⟨24, .session, false, true, true, .accepted⟩,  -- Collection.find_one_and_update
  ⟨24, .collation, false, true, false, .accepted⟩,  -- Collection.find_one_and_update
  ⟨24, .collation, false, true, true, .accepted⟩,  -- Collection.find_one_and_update
  ⟨24, .arrayFilters, false, true, false, .accepted⟩,  -- Collection.find_one_and_update
  ⟨24, .arrayFilters, false, true, true, .accepted⟩,  -- Collection.find_one_and_update
  ⟨24, .let_, false, true, false, .accepted⟩,  -- Collection.find_one_and_update
  ⟨24, .let_, false, true, true, .accepted⟩,  -- Collection.find_one_and_update
  ⟨24, .hint, false, true, false, .accepted⟩,  -- Collection.find_one_and_update
  ⟨25, .session, true, false, false, .raisesNotImplemented⟩,  -- Collection.index_information
  ⟨25, .session, true, false, true, .accepted⟩,  -- Collection.index_information
  ⟨26, .session, true, false, false, .raisesNotImplemented⟩,  -- Collection.insert_many
  ⟨26, .session, true, false, true, .accepted⟩,  -- Collection.insert_many
  ⟨27, .session, true, false, false, .raisesNotImplemented⟩,  -- Collection.insert_one
  ⟨27, .session, true, false, true, .accepted⟩,  -- Collection.insert_one
  ⟨28, .session, true, false, false, .raisesNotImplemented⟩,  -- Collection.list_indexes
  ⟨28, .session, true, false, true, .accepted⟩,  -- Collection.list_indexes
  ⟨29, .session, true, false, false, .raisesNotImplemented⟩,  -- Collection.rename
  ⟨29, .session, true, false, true, .accepted⟩,  -- Collection.rename
  ⟨29, .collation, false, false, false, .raisesOther⟩,  -- Collection.rename
  ⟨29, .collation, false, false, true, .raisesOther⟩,  -- Collection.rename
  ⟨29, .arrayFilters, false, false, false, .raisesOther⟩,  -- Collection.rename
  ⟨29, .arrayFilters, false, false, true, .raisesOther⟩,  -- Collection.rename
  ⟨29, .let_, false, false, false, .raisesOther⟩,  -- Collection.rename
  ⟨29, .let_, false, false, true, .raisesOther⟩,  -- Collection.rename
  ⟨29, .hint, false, false, false, .raisesOther⟩,  -- Collection.rename
  ⟨30, .session, true, true, false, .raisesNotImplemented⟩,  -- Collection.replace_one
  ⟨30, .session, true, true, true, .accepted⟩,  -- Collection.replace_one
  ⟨30, .hint, true, true, false, .raisesNotImplemented⟩,  -- Collection.replace_one
  ⟨31, .session, true, true, false, .raisesNotImplemented⟩,  -- Collection.update_many
  ⟨31, .session, true, true, true, .accepted⟩,  -- Collection.update_many
  ⟨31, .collation, true, true, false, .raisesNotImplemented⟩,  -- Collection.update_many
  ⟨31, .collation, true, true, true, .accepted⟩,  -- Collection.update_many
  ⟨31, .arrayFilters, true, true, false, .raisesNotImplemented⟩,  -- Collection.update_many
  ⟨31, .arrayFilters, true, true, true, .accepted⟩,  -- Collection.update_many
  ⟨31, .let_, true, true, false, .raisesNotImplemented⟩,  -- Collection.update_many
  ⟨31, .let_, true, true, true, .accepted⟩,  -- Collection.update_many
  ⟨31, .hint, true, true, false, .raisesNotImplemented⟩,  -- Collection.update_many
  ⟨32, .session, true, true, false, .raisesNotImplemented⟩,  -- Collection.update_one
  ⟨32, .session, true, true, true, .accepted⟩,  -- Collection.update_one
  ⟨32, .collation, true, true, false, .raisesNotImplemented⟩,  -- Collection.update_one
  ⟨32, .collation, true, true, true, .accepted⟩,  -- Collection.update_one
  ⟨32, .arrayFilters, true, true, false, .raisesNotImplemented⟩,  -- Collection.update_one
  ⟨32, .arrayFilters, true, true, true, .accepted⟩,  -- Collection.update_one
  ⟨32, .let_, true, true, false, .raisesNotImplemented⟩,  -- Collection.update_one
  ⟨32, .let_, true, true, true, .accepted⟩,  -- Collection.update_one
  ⟨32, .hint, true, true, false, .raisesNotImplemented⟩,  -- Collection.update_one
  ⟨33, .session, true, false, false, .raisesNotImplemented⟩,  -- Cursor.distinct
  ⟨33, .session, true, false, true, .accepted⟩,  -- Cursor.distinct
  ⟨34, .session, false, false, false, .accepted⟩,  -- Database.command
  ⟨34, .session, false, false, true, .accepted⟩,  -- Database.command
  ⟨34, .collation, false, false, false, .accepted⟩,  -- Database.command
  ⟨34, .collation, false, false, true, .accepted⟩,  -- Database.command
  ⟨34, .arrayFilters, false, false, false, .accepted⟩,  -- Database.command
  ⟨34, .arrayFilters, false, false, true, .accepted⟩,  -- Database.command
  ⟨34, .let_, false, false, false, .accepted⟩,  -- Database.command
  ⟨34, .let_, false, false, true, .accepted⟩,  -- Database.command
  ⟨34, .hint, false, false, false, .accepted⟩,  -- Database.command
  ⟨35, .session, false, false, false, .raisesNotImplemented⟩,  -- Database.create_collection
  ⟨35, .session, false, false, true, .raisesNotImplemented⟩,  -- Database.create_collection
  ⟨35, .collation, false, false, false, .raisesNotImplemented⟩,  -- Database.create_collection
  ⟨35, .collation, false, false, true, .raisesNotImplemented⟩,  -- Database.create_collection
  ⟨35, .arrayFilters, false, false, false, .raisesNotImplemented⟩,  -- Database.create_collection
  ⟨35, .arrayFilters, false, false, true, .raisesNotImplemented⟩,  -- Database.create_collection
  ⟨35, .let_, false, false, false, .raisesNotImplemented⟩,  -- Database.create_collection
  ⟨35, .let_, false, false, true, .raisesNotImplemented⟩,  -- Database.create_collection
  ⟨35, .hint, false, false, false, .raisesNotImplemented⟩,  -- Database.create_collection
  ⟨36, .session, true, false, false, .raisesNotImplemented⟩,  -- Database.dereference
  ⟨36, .session, true, false, true, .raisesNotImplemented⟩,  -- Database.dereference
  ⟨37, .session, true, false, false, .raisesNotImplemented⟩,  -- Database.drop_collection
  ⟨37, .session, true, false, true, .raisesNotImplemented⟩,  -- Database.drop_collection
  ⟨38, .session, true, false, false, .raisesNotImplemented⟩,  -- Database.list_collection_names
  ⟨38, .session, true, false, true, .raisesNotImplemented⟩   -- Database.list_collection_names
  ]

/-- known findings: options dropped silently (no opt-out given): BulkOperationBuilder.add_delete(collation), BulkOperationBuilder.add_replace(collation), BulkOperationBuilder.add_update(collation), Collection.aggregate(array_filters), Collection.aggregate(collation), Collection.aggregate(let), Collection.create_index(array_filters), Collection.create_index(collation), Collection.create_index(let), Collection.find(collation), Collection.find(session), Collection.find_one(collation), Collection.find_one(session), Collection.find_one_and_delete(array_filters), Collection.find_one_and_delete(collation), Collection.find_one_and_delete(hint), Collection.find_one_and_delete(let), Collection.find_one_and_replace(array_filters), Collection.find_one_and_replace(collation), Collection.find_one_and_replace(hint), Collection.find_one_and_replace(let), Collection.find_one_and_update(array_filters), Collection.find_one_and_update(collation), Collection.find_one_and_update(hint), Collection.find_one_and_update(let), Database.command(array_filters), Database.command(collation), Database.command(let), Database.command(session) -/
def knownSilent : List (Nat × Opt) := [(0, .collation), (1, .collation), (2, .collation), (8, .arrayFilters), (8, .collation), (8, .let_), (11, .arrayFilters), (11, .collation), (11, .let_), (20, .collation), (20, .session), (21, .collation), (21, .session), (22, .arrayFilters), (22, .collation), (22, .hint), (22, .let_), (23, .arrayFilters), (23, .collation), (23, .hint), (23, .let_), (24, .arrayFilters), (24, .collation), (24, .hint), (24, .let_), (34, .arrayFilters), (34, .collation), (34, .let_), (34, .session)]

/-- known findings: options that still raise after ignore_feature: Collection.aggregate(session), Database.create_collection(array_filters), Database.create_collection(collation), Database.create_collection(let), Database.create_collection(session), Database.dereference(session), Database.drop_collection(session), Database.list_collection_names(session) -/
def knownOptOutIneffective : List (Nat × Opt) := [(8, .session), (35, .arrayFilters), (35, .collation), (35, .let_), (35, .session), (36, .session), (37, .session), (38, .session)]

end Generated
