import MongoModel.Wire
import MongoModel.Expr
import Spec.ExprDomain
open MongoModel MongoModel.Wire MongoModel.Expr

namespace Driver

def parse2 (r : List String) : Option (Val × Val) :=
  match parseVal r with
  | some (e, r') => match parseVal r' with
    | some (d, []) => some (e, d)
    | _ => none
  | _ => none

/-- commands:
    `c04i e d` — Impl only: project | addFields | find
    `c04 e d`  — Impl project | addFields | find | Spec value | Spec filter | reasons | filter reasons -/
def handleC04 (ts : List String) : Option (List String) :=
  match ts with
  | "c04i" :: r =>
    match parse2 r with
    | some (e, d) =>
      some (showR showOpt (projectField e d) ++ ["|"] ++ showR showOpt (addFieldsField e d)
        ++ ["|"] ++ showR showBool (exprFilter e d))
    | none => some ["?parse"]
  | "c04" :: r =>
    match parse2 r with
    | some (e, d) =>
      some (showR showOpt (projectField e d) ++ ["|"] ++ showR showOpt (addFieldsField e d)
        ++ ["|"] ++ showR showBool (exprFilter e d)
        ++ ["|"] ++ showR showOpt (Spec.specEval d e) ++ ["|"] ++ showR showBool (Spec.specFilter e d)
        ++ ["|"] ++ Spec.exprReasons e d ++ ["|"] ++ (Spec.filterReasons e d).eraseDups)
    | none => some ["?parse"]
  | _ => none

end Driver
