import MongoModel.Vocab
import Generated.Tables
open MongoModel.Vocab

namespace Driver

def parsePosition : String → Option Position
  | "queryField" => some .queryField
  | "queryFieldDeadEnd" => some .queryFieldDeadEnd
  | "queryTop" => some .queryTop
  | "queryNot" => some .queryNot
  | "queryElemMatch" => some .queryElemMatch
  | "updateOp" => some .updateOp
  | "updateNoMatch" => some .updateNoMatch
  | "pushModifier" => some .pushModifier
  | "addToSetModifier" => some .addToSetModifier
  | "stage" => some .stage
  | "exprProject" => some .exprProject
  | "exprAddFields" => some .exprAddFields
  | "exprMatchExpr" => some .exprMatchExpr
  | "exprGroupId" => some .exprGroupId
  | "accumulator" => some .accumulator
  | "typeAlias" => some .typeAlias
  | _ => none

def showDisposition : Disposition → String
  | .implemented => "implemented"
  | .raisesNotImplemented => "raisesNotImplemented"
  | .raisesOther => "raisesOther"
  | .ignored => "ignored"
  | .plainKey => "plainKey"

/-- command: `c20 <position> <code>` → the disposition `MongoModel.Vocab.dispatch` gives the name
    with that code at that position over the regenerated `Generated.tables` -/
def handleC20 (ts : List String) : Option (List String) :=
  match ts with
  | ["c20", p, c] =>
    match parsePosition p, c.toNat? with
    | some pos, some k => some [showDisposition (dispatch Generated.tables pos k)]
    | _, _ => some ["?parse"]
  | "c20" :: _ => some ["?parse"]
  | _ => none

end Driver
