import MongoModel.Wire
import MongoModel.Project
import Spec.ProjectDomain
open MongoModel MongoModel.Wire

namespace Driver

partial def parseValsC12 : List String → Option (List Val)
  | [] => some []
  | ts => match parseVal ts with
    | some (v, r) => (parseValsC12 r).map (v :: ·)
    | none => none

def showOptVal : Option Val → List String
  | none => ["_"]
  | some v => showVal v

/-- the oracle's answer; `?` = the rule does not speak -/
def showSpec : Option Val → List String
  | none => ["?"]
  | some v => showVal v

def allSomeVals : List (Option Val) → Option (List Val)
  | [] => some []
  | none :: _ => none
  | some a :: r => (allSomeVals r).map (a :: ·)

/-- commands (values in wire format; answers are `|`-separated):
    `c12p d p`          find-path Impl | Spec | Spec with `_id` last | reasons
    `c12f f p d1 … dn`  `list(find(f, p))` | `list(find(f))`
    `c12o f p d1 … dn`  `find_one(f, p)`
    `c12a p d1 … dn`    `list(aggregate([{$project: p}]))` | Spec | reasons
    `c12s sv xs`        `$slice` Impl | Spec | reasons
    `c12sub o d`        o ⊑ d -/
def handleC12 (ts : List String) : Option (List String) :=
  match ts with
  | "c12p" :: r =>
    match parseValsC12 r with
    | some [d, p] =>
      some (showR showVal (copyOnlyFields d p) ++ ["|"] ++ showSpec (Spec.Proj.project p d) ++ ["|"]
        ++ showSpec ((Spec.Proj.project p d).map Spec.Proj.idLast) ++ ["|"]
        ++ (Spec.Proj.reasons p d).eraseDups)
    | _ => some ["?parse"]
  | "c12f" :: r =>
    match parseValsC12 r with
    | some (f :: p :: ds) =>
      some (showR showVals (findProject f p ds) ++ ["|"] ++ showR showVals (findProject f .null ds))
    | _ => some ["?parse"]
  | "c12o" :: r =>
    match parseValsC12 r with
    | some (f :: p :: ds) => some (showR showOptVal (findOneProject f p ds))
    | _ => some ["?parse"]
  | "c12a" :: r =>
    match parseValsC12 r with
    | some (p :: ds) =>
      some (showR showVals (aggProject ds p) ++ ["|"]
        ++ showSpec ((allSomeVals (ds.map (Spec.Proj.project p))).map .arr) ++ ["|"]
        ++ (ds.flatMap (Spec.Proj.aggReasons p)).eraseDups)
    | _ => some ["?parse"]
  | "c12s" :: r =>
    match parseValsC12 r with
    | some [sv, .arr xs] =>
      some (showR showVals (sliceOp sv xs) ++ ["|"] ++ showSpec ((Spec.Proj.slice sv xs).map .arr)
        ++ ["|"] ++ (Spec.Proj.sliceReasons sv).eraseDups)
    | _ => some ["?parse"]
  | "c12sub" :: r =>
    match parseValsC12 r with
    | some [o, d] => some (showBool (Spec.Proj.sub o d))
    | _ => some ["?parse"]
  | _ => none

end Driver
