import MongoModel.Wire
import MongoModel.Filter
import MongoModel.Sort
import Spec.OrderDomain
open MongoModel MongoModel.Wire

namespace Driver.C11

/-- all values on the rest of the line -/
partial def parseVals (ts : List String) (acc : List Val) : Option (List Val) :=
  match ts with
  | [] => some acc.reverse
  | _ => match parseVal ts with
    | some (v, r) => parseVals r (v :: acc)
    | none => none

def optInt : Val → Option (Option Int)
  | .null => some none
  | .int i => some (some i)
  | _ => none

def decSpec : List Val → Option SortSpec
  | [] => some []
  | .arr [.str k, .int d] :: r => (decSpec r).map ((k, d) :: ·)
  | _ => none

def decSort : Val → Option (Option SortSpec)
  | .null => some none
  | .arr xs => (decSpec xs).map some
  | _ => none

def decOp : Val → Option CurOp
  | .arr [.str "skip", v] => (stageCount v).map .skip       -- an int, or a whole-number double
  | .arr [.str "limit", v] => (stageCount v).map .limit
  | .arr [.str "sortk", .str k, d] => (optInt d).map (.sortKey k)
  | .arr [.str "sortl", .arr xs] => (decSpec xs).map .sortList
  | .arr [.str "slice", a, b] => do
    let a ← optInt a
    let b ← optInt b
    some (.slice a b)
  | .arr [.str "clone"] => some .clone
  | .arr [.str "rewind"] => some .rewind
  | _ => none

def decList {α} (f : Val → Option α) : List Val → Option (List α)
  | [] => some []
  | x :: r => do
    let y ← f x
    let ys ← decList f r
    some (y :: ys)

def decStage : Val → Option Stage
  | .arr [.str "sort", .arr xs] => (decSpec xs).map .sort
  | .arr [.str "skip", v] => (stageCount v).map .skip       -- an int, or a whole-number double
  | .arr [.str "limit", v] => (stageCount v).map .limit
  | _ => none

def decStoreOp : Val → Option StoreOp
  | .arr [.str "ins", k, d] => some (.insert k d)
  | .arr [.str "rew", k, d] => some (.rewrite k d)
  | .arr [.str "del", k] => some (.delete k)
  | _ => none

/-- `_iter_documents(spec)`: the stored documents the filter selects, in natural order -/
def selectDocs (f : Val) : List Val → R (List Val)
  | [] => .ok []
  | d :: r =>
    match filterApplies f d with
    | .error e => .error e
    | .ok b =>
      match selectDocs f r with
      | .error e => .error e
      | .ok ds => .ok (if b then d :: ds else ds)

def idOf : Val → Val
  | .doc fs => (dget "_id" fs).getD .null
  | _ => .null

def showIds (ds : List Val) : List String := showVals (ds.map idOf)

def bar : List String := ["|"]

def showReasons (rs : List String) : List String := rs.eraseDups

/-- commands (every argument a wire value):
    `c11 find  filter docs sort skip limit ops final`   final = N (list) | I<i> (cursor[i])
    `c11 count filter docs skip limit`                  limit = N (absent) | I<n> | S.. (not a number)
    `c11 agg   docs stages`
    `c11 hist  ops`
    `c11 key   key doc`                                  the ascending sort key `(rank, value)`
    answer: `impl | spec | reasons` -/
def handle (ts : List String) : Option (List String) :=
  match ts with
  | "c11" :: kind :: r =>
    match parseVals r [] with
    | none => some ["?parse"]
    | some vs =>
      match kind, vs with
      | "find", [f, .arr docs, sort, .int skip, .int limit, .arr ops, final] =>
        match decSort sort, decList decOp ops, optInt final with
        | some sort, some ops, some final =>
          match selectDocs f docs with
          | .error e => some (showErr e ++ bar ++ ["?"] ++ bar)
          | .ok sel =>
            let c0 := Cursor.new sort skip limit
            let s0 := Spec.Order.Settings.new sort skip limit
            let impl : List String :=
              match c0.run ops with
              | .error e => showErr e
              | .ok c =>
                match final with
                | none => showR showIds (c.results sel)
                | some i => showR (fun d => showVal (idOf d)) (c.getIndex sel i)
            let spec : List String :=
              match s0.run ops with
              | none => ["!Error"]
              | some s =>
                match final with
                | none => showIds (s.results sel)
                | some i =>
                  if i < 0 then ["!Error"]
                  else match (s.results sel)[i.toNat]? with
                    | some d => showVal (idOf d)
                    | none => ["!Error"]
            some (impl ++ bar ++ spec ++ bar ++ showReasons (Spec.Order.findReasons s0 ops sel))
        | _, _, _ => some ["?parse"]
      | "count", [f, .arr docs, .int skip, limit] =>
        let lim : CountLimit :=
          match limit with
          | .null => .absent
          | .int n => .num n
          | _ => .notNumber
        match selectDocs f docs with
        | .error e => some (showErr e ++ bar ++ ["?"] ++ bar)
        | .ok sel =>
          let impl := showR (fun n => [s!"I{n}"]) (countDocuments sel.length skip lim)
          let spec : List String :=
            match lim with
            | .absent => [s!"I{Spec.Order.count sel.length skip.toNat none}"]
            | .num l => if l ≤ 0 then ["!Error"] else [s!"I{Spec.Order.count sel.length skip.toNat (some l.toNat)}"]
            | .notNumber => ["!Error"]
          some (impl ++ bar ++ spec ++ bar ++ showReasons (Spec.Order.countReasons skip lim))
      | "agg", [.arr docs, .arr stages] =>
        match decList decStage stages with
        | none => some ["?parse"]
        | some sts =>
          some (showR showIds (runPipeline sts docs) ++ bar ++
            (match Spec.Order.runStages sts docs with
             | some out => showIds out
             | none => ["!Error"])                       -- rejected
            ++ bar ++ showReasons (Spec.Order.pipelineReasons sts docs))
      | "hist", [.arr ops] =>
        match decList decStoreOp ops with
        | none => some ["?parse"]
        | some ops =>
          let s := Store.runOps [] ops
          some (showVals s.docs ++ bar ++ showVals (Spec.Order.naturalIds [] ops) ++ bar)
      | "key", [.str key, d] =>
        some (showR (fun k => [s!"I{k.rank}"] ++ showVal k.val) (resolveSortKey key false d)
          ++ bar ++ (let k := Spec.Order.docKey key false d; [s!"I{k.rank}"] ++ showVal k.val)
          ++ bar ++ showReasons (Spec.Order.keyReasons key d))
      | _, _ => some ["?parse"]
  | _ => none

end Driver.C11

def Driver.handleC11 : List String → Option (List String) := Driver.C11.handle
