import MongoModel.Wire
import MongoModel.Filter
import Spec.MatchDomain
import Spec.MatchClasses
open MongoModel MongoModel.Wire

def handle (ts : List String) : List String :=
  match ts with
  | "echo" :: r =>
    match parseVal r with
    | some (v, []) => showVal v
    | _ => ["?parse"]
  | "pyeq" :: r =>
    match parseVal r with
    | some (a, r') => match parseVal r' with
      | some (b, []) => showBool (pyEq a b)
      | _ => ["?parse"]
    | _ => ["?parse"]
  | "match" :: r =>
    match parseVal r with
    | some (f, r') => match parseVal r' with
      | some (d, []) => showR showBool (filterApplies f d)
      | _ => ["?parse"]
    | _ => ["?parse"]
  | "c01" :: r =>
    match parseVal r with
    | some (f, r') => match parseVal r' with
      | some (d, []) =>
        showR showBool (filterApplies f d) ++ ["|"] ++ showR showBool (Spec.specMatches f d)
          ++ ["|"] ++ (Spec.reasons f d).eraseDups ++ ["|"] ++ (Spec.deepLabels f d).eraseDups
      | _ => ["?parse"]
    | _ => ["?parse"]
  | _ => ["?cmd"]

partial def loop (h : IO.FS.Stream) (out : IO.FS.Stream) : IO Unit := do
  let line ← h.getLine
  if line.isEmpty then return ()
  out.putStrLn (join (handle (tokens line)))
  loop h out

def main : IO Unit := do
  let out ← IO.getStdout
  loop (← IO.getStdin) out
