/-
  mmdriver — line protocol driver: one case per input line, one answer per output line.
  Each property contributes `Driver/<Id>.lean` with a handler `List String → Option (List String)`
  (`none` = not my command).
-/
import Driver.C01
import Driver.Hist
import Driver.C18
import Driver.C17
import Driver.C11
import Driver.C20
import Driver.C12
import Driver.C07
import Driver.C19
import Driver.C04
import Driver.C16
import Driver.C03
open MongoModel.Wire

def handlers : List (List String → Option (List String)) :=
  [Driver.handleC01, Driver.handleHist, Driver.handleC18, Driver.handleC17, Driver.handleC11, Driver.handleC20, Driver.handleC12, Driver.handleC07, Driver.handleC19, Driver.handleC04, Driver.handleC16, Driver.handleC03i]

def handle (ts : List String) : List String :=
  match handlers.findSome? (· ts) with
  | some out => out
  | none => ["?cmd"]

partial def loop (h : IO.FS.Stream) (out : IO.FS.Stream) : IO Unit := do
  let line ← h.getLine
  if line.isEmpty then return ()
  out.putStrLn (join (handle (tokens line)))
  loop h out

def main : IO Unit := do
  let out ← IO.getStdout
  loop (← IO.getStdin) out
