import MongoModel.Wire
import MongoModel.Pipeline
import Spec.PipelineDomain
import Spec.PipelineExt
open MongoModel MongoModel.Wire MongoModel.Pipe MongoModel.Spec.Pipe

namespace Driver

/-- the database: a document `{name: [documents…], …}` -/
def c03Db : Val → Option Db
  | .doc fs =>
    (fs.mapM (fun (kv : String × Val) => match kv.2 with
                | Val.arr ds => some (kv.1, ds)
                | _ => none)).map (fun cs => ⟨cs⟩)
  | _ => none

def c03Parse (r : List String) : Option (Db × String × List Val) :=
  match parseVal r with
  | some (dbv, r1) =>
    match parseVal r1 with
    | some (.str coll, r2) =>
      match parseVal r2 with
      | some (.arr p, []) => (c03Db dbv).map (fun db => (db, coll, p))
      | _ => none
    | _ => none
  | none => none

/-- the model's answer for a whole pipeline, scope limits applied -/
def c03Impl (db : Db) (coll : String) (p : List Val) : R (List Val) :=
  if aliasRisk p then unmodelled
  else if noneThenStage db p (db.get coll) then unmodelled
  else runPipeline db p (db.get coll)

/-- commands:
    `c03i db coll pipeline` — Impl only: the output documents (or `!Err`) -/
def handleC03i (ts : List String) : Option (List String) :=
  match ts with
  | "c03" :: r =>
    -- Impl | Spec (documents, `!Rejected`, or `?nospec`) | the reasons the case lies outside D
    match c03Parse r with
    | some (db, coll, p0) =>
      -- `Collection.aggregate` normalises the datetimes of the pipeline first: the stages — of
      -- the code and of the oracle alike — see the pipeline as the server would be sent it
      let p := normPipeline p0
      let docs := db.get coll
      some (showR showVals (c03Impl db coll p) ++ ["|"] ++
        (match specPipelineV p docs with
         | some (.docs out) => showVals out
         | some .rejected => ["!Rejected"]
         | none => ["?nospec"]) ++ ["|"] ++ (pipelineReasonsV p docs).eraseDups)
    | none => some ["?parse"]
  | "c03b" :: r =>
    -- the oracle of a single `$bucket` stage: Spec (documents or `?nospec`) | the reasons
    match c03Parse r with
    | some (db, coll, p0) =>
      (match normPipeline p0 with
       | [.doc [("$bucket", opts)]] =>
         let docs := db.get coll
         some ((match specBucketStage opts docs with
                | some out => showVals out
                | none => ["?nospec"]) ++ ["|"] ++ (bucketReasons opts docs).eraseDups)
       | _ => some ["?parse"])
    | none => some ["?parse"]
  | "c03i" :: r =>
    match c03Parse r with
    | some (db, coll, p) => some (showR showVals (c03Impl db coll (normPipeline p)))
    | none => some ["?parse"]
  | _ => none

end Driver
