import MongoModel.Wire
import MongoModel.Ops
import MongoModel.FindModify
open MongoModel MongoModel.Wire

namespace Driver

def showOut : Out → List String
  | .val v => showVal v
  | .err e => showErr e
  | .bulkErr d => "!BulkWriteError" :: showVal d

/-- like `MongoModel.run`, but an operation wrapped as `["noobs", op]` is not followed by the
    harness's observation (`find({})`), so that sequences such as "clock moves, then insert" reach
    the code with the expired documents still in the store -/
def runQ (cfg : Cfg) : St → List Val → List (Out × Option Val)
  | _, [] => []
  | s, .arr [.str "noobs", op] :: rest =>
    let (s1, out) := stepXS cfg s op
    (out, none) :: runQ cfg s1 rest
  | s, op :: rest =>
    let (s1, out) := stepXS cfg s op
    let (s2, obs) := observe s1
    (out, some obs) :: runQ cfg s2 rest

/-- `hist <T|F: server before 5.0> <[op, …]>` → for every step `<out> <observation> ;` -/
def handleHist (ts : List String) : Option (List String) :=
  match ts with
  | "hist" :: pre :: r =>
    match parseVal r with
    | some (.arr ops, []) =>
      let res := runQ { preV5 := pre == "T" } {} ops
      some (res.flatMap (fun p => showOut p.1 ++ showOpt p.2 ++ [";"]))
    | _ => some ["?parse"]
  | _ => none

end Driver
