import MongoModel.Wire
import MongoModel.Ops
open MongoModel MongoModel.Wire

namespace Driver

def showOut : Out → List String
  | .val v => showVal v
  | .err e => showErr e
  | .bulkErr d => "!BulkWriteError" :: showVal d

/-- `hist <T|F: server before 5.0> <[op, …]>` → for every step `<out> <observation> ;` -/
def handleHist (ts : List String) : Option (List String) :=
  match ts with
  | "hist" :: pre :: r =>
    match parseVal r with
    | some (.arr ops, []) =>
      let (res, _) := run { preV5 := pre == "T" } ops
      some (res.flatMap (fun p => showOut p.1 ++ showVal p.2 ++ [";"]))
    | _ => some ["?parse"]
  | _ => none

end Driver
