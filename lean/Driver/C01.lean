import MongoModel.Wire
import MongoModel.Filter
import Spec.MatchDomain
import Spec.MatchClasses
open MongoModel MongoModel.Wire

namespace Driver

/-- commands: `echo v`, `pyeq a b`, `match f d`, `c01 f d` -/
def handleC01 (ts : List String) : Option (List String) :=
  match ts with
  | "echo" :: r =>
    match parseVal r with
    | some (v, []) => some (showVal v)
    | _ => some ["?parse"]
  | "pyeq" :: r =>
    match parseVal r with
    | some (a, r') => match parseVal r' with
      | some (b, []) => some (showBool (pyEq a b))
      | _ => some ["?parse"]
    | _ => some ["?parse"]
  | "match" :: r =>
    match parseVal r with
    | some (f, r') => match parseVal r' with
      | some (d, []) => some (showR showBool (filterApplies f d))
      | _ => some ["?parse"]
    | _ => some ["?parse"]
  | "c01" :: r =>
    match parseVal r with
    | some (f, r') => match parseVal r' with
      | some (d, []) =>
        some (showR showBool (filterApplies f d) ++ ["|"] ++ showR showBool (Spec.specMatches f d)
          ++ ["|"] ++ (Spec.reasons f d).eraseDups ++ ["|"] ++ (Spec.deepLabels f d).eraseDups)
      | _ => some ["?parse"]
    | _ => some ["?parse"]
  | _ => none

end Driver
