/-
  Driver.C17 — line protocol for the catalog histories.

    c17 <σ0> <σ1> … : <op> ; <op> ; …
  σi = index of the server store client i is built on.  Operations (names are `S<hex utf8>`):
    gd c d | gc c d n | co c d n <collop> | cr c d n n' dt | cc c d n | dc c d n
    dh c d c' d' n' | rn c d n n' dt | lc c d | lf c d (e|q|n) s | ld c | dd c d | dD c c' d'
    collop: fi | ix | in id | de id | da | ci (name|-) u s k f1 d1 … | di name | dk k f1 d1 … | dx | dr
  Answer, per operation (separated by `;`):
    <impl out> | <spec out from abs(state)> | <spec out along the history> | <reasons> | <T/F>
  the last field says whether abs(step w op) and Spec.step (abs w) op denote the same maps.
-/
import MongoModel.Wire
import MongoModel.Catalog
import Spec.CatalogDomain
open MongoModel MongoModel.Wire MongoModel.Catalog

namespace Driver.C17
open MongoModel.Spec.Catalog

def pName (t : String) : Option String :=
  if t.front == 'S' then some (decodeStr (t.drop 1).toString) else none

def pBool (t : String) : Option Bool :=
  if t == "1" then some true else if t == "0" then some false else none

def pKeys : Nat → List String → Option (List (String × Int) × List String)
  | 0, r => some ([], r)
  | k + 1, f :: d :: r => do
    let f ← pName f
    let d ← d.toInt?
    let (ks, r') ← pKeys k r
    some ((f, d) :: ks, r')
  | _, _ => none

def pCollOp : List String → Option CollOp
  | ["fi"] => some .find
  | ["ix"] => some .indexInformation
  | ["in", i] => i.toNat?.map .insert
  | ["de", i] => i.toNat?.map .deleteOne
  | ["da"] => some .deleteAll
  | "ci" :: nm :: u :: s :: k :: r => do
    let nm ← if nm == "-" then some none else (pName nm).map some
    let u ← pBool u
    let s ← pBool s
    let k ← k.toNat?
    let (ks, r') ← pKeys k r
    if r'.isEmpty then some (.createIndex nm ⟨ks, u, s⟩) else none
  | ["di", n] => (pName n).map (fun n => .dropIndex (.byName n))
  | "dk" :: k :: r => do
    let k ← k.toNat?
    let (ks, r') ← pKeys k r
    if r'.isEmpty then some (.dropIndex (.byKeys ks)) else none
  | ["dx"] => some .dropIndexes
  | ["dr"] => some .drop
  | _ => none

def pOp : List String → Option Op
  | ["gd", c, d] => do some (.getDb (← c.toNat?) (← pName d))
  | ["gc", c, d, n] => do some (.getColl ⟨← c.toNat?, ← pName d⟩ (← pName n))
  | "co" :: c :: d :: n :: r => do some (.coll ⟨← c.toNat?, ← pName d, ← pName n⟩ (← pCollOp r))
  | ["cr", c, d, n, n', dt] => do
    some (.collRename ⟨← c.toNat?, ← pName d, ← pName n⟩ (← pName n') (← pBool dt))
  | ["cc", c, d, n] => do some (.createCollection ⟨← c.toNat?, ← pName d⟩ (← pName n))
  | ["dc", c, d, n] => do some (.dropCollection ⟨← c.toNat?, ← pName d⟩ (.byName (← pName n)))
  | ["dh", c, d, c', d', n'] => do
    some (.dropCollection ⟨← c.toNat?, ← pName d⟩ (.byHandle ⟨← c'.toNat?, ← pName d', ← pName n'⟩))
  | ["rn", c, d, n, n', dt] => do
    some (.renameCollection ⟨← c.toNat?, ← pName d⟩ (← pName n) (← pName n') (← pBool dt))
  | ["lc", c, d] => do some (.listCollectionNames ⟨← c.toNat?, ← pName d⟩ none)
  | ["lf", c, d, k, s] => do
    let s ← pName s
    let f ← if k == "e" then some (NameFilter.eqStr s) else if k == "q" then some (.opEq s)
      else if k == "n" then some (.opNe s) else none
    some (.listCollectionNames ⟨← c.toNat?, ← pName d⟩ (some f))
  | ["ld", c] => do some (.listDatabaseNames (← c.toNat?))
  | ["dd", c, d] => do some (.dropDatabase (← c.toNat?) (.byName (← pName d)))
  | ["dD", c, c', d'] => do some (.dropDatabase (← c.toNat?) (.byHandle ⟨← c'.toNat?, ← pName d'⟩))
  | _ => none

def splitOn (sep : String) : List String → List (List String)
  | [] => [[]]
  | t :: r =>
    match splitOn sep r with
    | [] => [[t]]
    | g :: gs => if t == sep then [] :: g :: gs else (t :: g) :: gs

def commaSep (l : List String) : String := ",".intercalate l

def showIndex (p : String × IndexInfo) : String :=
  "S" ++ encodeStr p.1 ++ "/" ++ (if p.2.unique then "1" else "0") ++ (if p.2.sparse then "1" else "0")
    ++ "/" ++ "+".intercalate (p.2.key.map fun k => "S" ++ encodeStr k.1 ++ ":" ++ toString k.2)

def showOut : Out → String
  | .ok => "ok"
  | .err e => "!" ++ e.name
  | .ids l => "ids:" ++ commaSep (l.map toString)
  | .count n => "n:" ++ toString n
  | .name s => "nm:S" ++ encodeStr s
  | .names l => "names:" ++ commaSep (l.map fun s => "S" ++ encodeStr s)
  | .indexes l => "ix:" ++ commaSep (l.map showIndex)

def sameMaps (a b : SStore) : Bool :=
  (alKeys a ++ alKeys b).all (fun k => alGet? k a == alGet? k b)

def runHist (σ : Nat → Nat) (nstores : Nat) : World → SWorld → List Op → List String
  | _, _, [] => []
  | w, sh, op :: ops =>
    let r := MongoModel.Catalog.step σ w op
    let a := abs w
    let rs := MongoModel.Spec.Catalog.step σ a op
    let rh := MongoModel.Spec.Catalog.step σ sh op
    let a' := abs r.1
    let agree := (List.range nstores).all (fun i => sameMaps (a' i) (rs.1 i))
    let ans := [showOut r.2, "|", showOut rs.2, "|", showOut rh.2, "|"] ++ reasons σ w op
      ++ ["|", if agree then "T" else "F"]
    (if ops.isEmpty then ans else ans ++ [";"]) ++ runHist σ nstores r.1 rh.1 ops

def handleC17 (ts : List String) : Option (List String) :=
  match ts with
  | "c17" :: r =>
    match splitOn ":" r with
    | [cfg, body] =>
      match cfg.mapM String.toNat? with
      | none => some ["?parse-cfg"]
      | some sig =>
        let σ : Nat → Nat := fun c => sig.getD c c
        let nstores := (sig.foldl max 0) + 1
        match (splitOn ";" body).mapM pOp with
        | none => some ["?parse-op"]
        | some ops => some (runHist σ nstores World.init SWorld.init ops)
    | _ => some ["?parse"]
  | _ => none

end Driver.C17

namespace Driver
def handleC17 := Driver.C17.handleC17
end Driver
