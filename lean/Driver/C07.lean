import MongoModel.Wire
import MongoModel.Heap
open MongoModel MongoModel.Wire MongoModel.Heap

namespace Driver

mutual
  /-- a wire value as a heap value, identities numbered in pre-order from `n` -/
  partial def ofVal : Val → Nat → HVal × Nat
    | .doc fs, n => let r := ofFields fs (n + 1); (.node n true r.1, r.2)
    | .arr xs, n => let r := ofList xs (n + 1); (.node n false r.1, r.2)
    | v, n => (.atom v, n)
  partial def ofFields : Fields → Nat → Kids × Nat
    | [], n => ([], n)
    | (k, v) :: r, n => let a := ofVal v n; let b := ofFields r a.2; ((k, a.1) :: b.1, b.2)
  partial def ofList : List Val → Nat → Kids × Nat
    | [], n => ([], n)
    | v :: r, n => let a := ofVal v n; let b := ofList r a.2; (("", a.1) :: b.1, b.2)
end

def posOfName (s : String) : Option Pos := Pos.all.find? (fun p => p.name == s)

def flowName : Flow → String
  | .argToStore => "argToStore" | .storeToStore => "storeToStore"
  | .argToCache => "argToCache" | .cacheToCache => "cacheToCache"
  | .storeToCache => "storeToCache" | .cacheToCaller => "cacheToCaller"
  | .storeToCaller => "storeToCaller" | .callerToCaller => "callerToCaller"

def shares (xs ys : List Nat) : Bool := xs.any (ys.contains ·)

/-- which leg of a read is asked about -/
inductive Leg where
  | whole   -- from where the caller can see the source (the store, an argument) to the destination
  | fill    -- store → cache only (a `store → cache` position)
  | out     -- cache → caller only (a `cache → caller` position)
  deriving DecidableEq

/-- Run the model on ONE travelling value: a world in which `v` is a stored document (for a
    position that reads from the store), a document a cursor has cached (`Leg.out`) or an object
    the caller holds (for a position that takes an argument), the steps that send it through
    `pos`, then look at the identities.  A read through a cursor is two steps: the cursor computes
    its results (`fill`, a `store → cache` position; `findDoc` when the position asked about is a
    `cache → caller` one) and hands them out (`read`, a `cache → caller` position; `cursorOut` when
    the position asked about is a `store → cache` one).
    Answer: `alias|fresh` (does the destination share a container with the source),
    `sep|nosep` (does `Sep` hold afterwards), `safe|unsafe` (are the steps covered by the
    theorem). -/
def flowAnswer (T : Table) (leg : Leg) (pos : Pos) (v : Val) : List String :=
  let hv := ofVal v 0
  let inStore : World := ⟨[hv.1], [], [], hv.2⟩
  let inCache : World := ⟨[], [], [hv.1], hv.2⟩
  let inHeld : World := ⟨[], [hv.1], [], hv.2⟩
  -- the world the value starts in, the steps, and where the destination is
  -- (0 = new held objects, 1 = store beyond the first document, 2 = whole store, 3 = cache,
  --  4 = cache beyond the first entry)
  let plan : World × List Step × Nat :=
    match pos.flow, leg with
    | .storeToCache, .fill => (inStore, [.fill [.piece pos (.store 0 [])]], 3)
    | .storeToCache, _ =>
      (inStore, [.fill [.piece pos (.store 0 [])], .read [.piece .cursorOut (.cache 0 [])]], 0)
    | .cacheToCaller, .out => (inCache, [.read [.piece pos (.cache 0 [])]], 0)
    | .cacheToCaller, _ =>
      (inStore, [.fill [.piece .findDoc (.store 0 [])], .read [.piece pos (.cache 0 [])]], 0)
    | .storeToCaller, _ => (inStore, [.read [.piece pos (.store 0 [])]], 0)
    | .callerToCaller, _ => (inHeld, [.read [.piece pos (.held 0 [])]], 0)
    | .argToCache, _ => (inHeld, [.fill [.piece pos (.held 0 [])]], 3)
    | .cacheToCache, _ => (inCache, [.fill [.piece pos (.cache 0 [])]], 4)
    | .storeToStore, _ => (inStore, [.write [] [] [(.piece pos (.store 0 []), .insertArg)] []], 1)
    | .argToStore, _ =>
      (inHeld, [if pos.final then .write [] [] [(.piece pos (.held 0 []), .insertArg)] []
                else .write [] [] [(.piece pos (.held 0 []), .upsertInsert)] []], 2)
  let w := plan.1
  let w' := run T w plan.2.1
  let src := hv.1.ids
  let dst : List Nat :=
    match plan.2.2 with
    | 0 => idsL w'.held |>.drop (idsL w.held).length
    | 1 => idsL (w'.store.drop 1)
    | 2 => idsL w'.store
    | 3 => idsL w'.cache
    | _ => idsL (w'.cache.drop 1)
  [ (if shares src dst then "alias" else "fresh"),
    (if decide (Sep w') then "sep" else "nosep"),
    (if safeRun T w plan.2.1 then "safe" else "unsafe") ]

def showFlows (l : List FieldFlow) : List String :=
  l.map (fun f => f.key.toUTF8.foldl (fun acc b => (acc.push (hexDigit (b.toNat / 16))).push (hexDigit (b.toNat % 16))) "S"
    ++ "=" ++ f.pos.name ++ (if f.elems then "/e" else ""))

def tableAnswer (T : Table) : List String :=
  Pos.all.map (fun p => p.name ++ "=" ++ ",".intercalate ((T.disc p).map Prim.name)
        ++ ":" ++ (if chainDeep (T.disc p) then "deep" else "alias")
        ++ ":" ++ flowName p.flow ++ ":" ++ (if p.final then "final" else "inner"))
      ++ ["|"] ++
      Op.all.map (fun o => o.name ++ "=" ++ ",".intercalate (o.rows.map Pos.name)
        ++ ":" ++ (if o.copying T then "copying" else "aliasing"))

def handleC07T (T : Table) (ts : List String) : Option (List String) :=
  match ts with
  | ["table"] => some (tableAnswer T)
  | "flow" :: p :: r =>
    match posOfName p, parseVal r with
    | some pos, some (v, []) => some (flowAnswer T .whole pos v)
    | _, _ => some ["?parse"]
  | "fill" :: p :: r =>
    match posOfName p, parseVal r with
    | some pos, some (v, []) => some (flowAnswer T .fill pos v)
    | _, _ => some ["?parse"]
  | "out" :: p :: r =>
    match posOfName p, parseVal r with
    | some pos, some (v, []) => some (flowAnswer T .out pos v)
    | _, _ => some ["?parse"]
  | "proj" :: r =>
    match parseOpt r with
    | some (pv, r') =>
      match parseVal r' with
      | some (.doc d, []) => some (showR showFlows (projFlows pv d))
      | _ => some ["?parse"]
    | none => some ["?parse"]
  | _ => none

/-- commands:
    `c07 table`                      → every row of the table and every operation's rows
    `c07 flow <pos> <value>`         → `alias|fresh sep|nosep safe|unsafe`
    `c07 fill <pos> <value>`         → the same for the store → cache leg alone
    `c07 out <pos> <value>`          → the same for the cache → caller leg alone
    `c07 proj <projection|_> <doc>`  → `<key>=<pos>[/e] …` or `!Error`
    `c07 <command>` asks the table of a client that reads naive datetimes, `c07 tz <command>` the
    table of a `tz_aware` client -/
def handleC07 (ts : List String) : Option (List String) :=
  match ts with
  | "c07" :: "tz" :: r => handleC07T (disciplineFor true) r
  | "c07" :: r => handleC07T (disciplineFor false) r
  | _ => none

end Driver
