import MongoModel.Wire
import MongoModel.Heap
open MongoModel MongoModel.Wire MongoModel.Heap

namespace Driver

mutual
  /-- a wire value as a heap value, identities numbered in pre-order from `n` -/
  partial def ofVal : Val → Nat → HVal × Nat
    | .doc fs, n => let r := ofFields fs (n + 1); (.node n true r.1, r.2)
    | .arr xs, n => let r := ofList xs (n + 1); (.node n false r.1, r.2)
    | v, n => (.atom v, n)
  partial def ofFields : Fields → Nat → Kids × Nat
    | [], n => ([], n)
    | (k, v) :: r, n => let a := ofVal v n; let b := ofFields r a.2; ((k, a.1) :: b.1, b.2)
  partial def ofList : List Val → Nat → Kids × Nat
    | [], n => ([], n)
    | v :: r, n => let a := ofVal v n; let b := ofList r a.2; (("", a.1) :: b.1, b.2)
end

def posOfName (s : String) : Option Pos := Pos.all.find? (fun p => p.name == s)

def flowName : Flow → String
  | .argToStore => "argToStore" | .storeToStore => "storeToStore"
  | .storeToCaller => "storeToCaller" | .callerToCaller => "callerToCaller"

def shares (xs ys : List Nat) : Bool := xs.any (ys.contains ·)

/-- Run the model on ONE travelling value: a world in which `v` is a stored document (for a
    position that reads from the store) or an object the caller holds (for a position that takes
    an argument), one step that sends it through `pos`, then look at the identities.
    Answer: `alias|fresh` (does the destination share a container with the source),
    `sep|nosep` (does `Sep` hold afterwards), `safe|unsafe` (is the step covered by the
    theorem). -/
def flowAnswer (T : Table) (pos : Pos) (v : Val) : List String :=
  let hv := ofVal v 0
  let fromStore := pos.flow == .storeToCaller || pos.flow == .storeToStore
  let w : World := if fromStore then ⟨[hv.1], [], hv.2⟩ else ⟨[], [hv.1], hv.2⟩
  let s : Step :=
    match pos.flow with
    | .storeToCaller => .read [.piece pos (.store 0 [])]
    | .callerToCaller => .read [.piece pos (.held 0 [])]
    | .storeToStore => .write [] [] [(.piece pos (.store 0 []), .insertArg)] []
    | .argToStore =>
      if pos.final then .write [] [] [(.piece pos (.held 0 []), .insertArg)] []
      else .write [] [] [(.piece pos (.held 0 []), .upsertInsert)] []
  let w' := step T w s
  let src := hv.1.ids
  let dst : List Nat :=
    match pos.flow with
    | .storeToCaller | .callerToCaller => idsL w'.held |>.drop (idsL w.held).length
    | .storeToStore => idsL (w'.store.drop 1)
    | .argToStore => idsL w'.store
  [ (if shares src dst then "alias" else "fresh"),
    (if decide (Sep w') then "sep" else "nosep"),
    (if s.safe T w then "safe" else "unsafe") ]

def showFlows (l : List FieldFlow) : List String :=
  l.map (fun f => f.key.toUTF8.foldl (fun acc b => (acc.push (hexDigit (b.toNat / 16))).push (hexDigit (b.toNat % 16))) "S"
    ++ "=" ++ f.pos.name ++ (if f.elems then "/e" else ""))

/-- commands:
    `c07 table`                      → every row of the table and every operation's rows
    `c07 flow <pos> <value>`         → `alias|fresh sep|nosep safe|unsafe`
    `c07 proj <projection|_> <doc>`  → `<key>=<pos>[/e] …` or `!Error` -/
def handleC07 (ts : List String) : Option (List String) :=
  match ts with
  | ["c07", "table"] =>
    some (Pos.all.map (fun p => p.name ++ "=" ++ ",".intercalate ((copyDiscipline.disc p).map Prim.name)
            ++ ":" ++ (if chainDeep (copyDiscipline.disc p) then "deep" else "alias")
            ++ ":" ++ flowName p.flow ++ ":" ++ (if p.final then "final" else "inner"))
          ++ ["|"] ++
          Op.all.map (fun o => o.name ++ "=" ++ ",".intercalate (o.rows.map Pos.name)
            ++ ":" ++ (if o.copying copyDiscipline then "copying" else "aliasing")))
  | "c07" :: "flow" :: p :: r =>
    match posOfName p, parseVal r with
    | some pos, some (v, []) => some (flowAnswer copyDiscipline pos v)
    | _, _ => some ["?parse"]
  | "c07" :: "proj" :: r =>
    match parseOpt r with
    | some (pv, r') =>
      match parseVal r' with
      | some (.doc d, []) => some (showR showFlows (projFlows pv d))
      | _ => some ["?parse"]
    | none => some ["?parse"]
  | _ => none

end Driver
