import MongoModel.Wire
import MongoModel.AggHeap
open MongoModel MongoModel.Wire MongoModel.AggHeap

namespace Driver.C16

mutual
  /-- a wire value as a heap value, identities `mk n` numbered in pre-order from `n` -/
  partial def ofVal (mk : Nat → Id) : Val → Nat → HV × Nat
    | .doc fs, n => let r := ofFields mk fs (n + 1); (.node (mk n) true r.1, r.2)
    | .arr xs, n => let r := ofList mk xs (n + 1); (.node (mk n) false r.1, r.2)
    | v, n => (.atom v, n)
  partial def ofFields (mk : Nat → Id) : Fields → Nat → Kids × Nat
    | [], n => ([], n)
    | (k, v) :: r, n => let a := ofVal mk v n; let b := ofFields mk r a.2; ((k, a.1) :: b.1, b.2)
  partial def ofList (mk : Nat → Id) : List Val → Nat → Kids × Nat
    | [], n => ([], n)
    | v :: r, n => let a := ofVal mk v n; let b := ofList mk r a.2; (("", a.1) :: b.1, b.2)
end

def ofVals (mk : Nat → Id) : List Val → Nat → List HV × Nat
  | [], n => ([], n)
  | v :: r, n => let a := ofVal mk v n; let b := ofVals mk r a.2; (a.1 :: b.1, b.2)

/-! ### the value-level decisions of the driver (`Sem.std`) -/

def isContainer : Val → Bool
  | .doc _ | .arr _ => true
  | _ => false

/-- `find({k: q})` for a scalar `q` on a top-level field holding scalars -/
def eqMatch (k : String) (q : Val) (doc : Val) : R Bool :=
  match doc with
  | .doc fs =>
    match dget k fs with
    | none => .ok (q matches .null)
    | some (.arr _) => .error .unmodelled
    | some x => .ok (pyEq x q)
  | _ => .error .unmodelled

def filterIdx (p : Val → R Bool) : List Val → Nat → R (List Nat)
  | [], _ => .ok []
  | d :: r, i =>
    match p d, filterIdx p r (i + 1) with
    | .ok b, .ok l => .ok (if b then i :: l else l)
    | .error e, _ => .error e
    | _, .error e => .error e

def allOk (ps : List (Val → R Bool)) (d : Val) : R Bool :=
  ps.foldl (fun acc p => match acc, p d with
    | .ok a, .ok b => .ok (a && b)
    | .error e, _ => .error e
    | _, .error e => .error e) (.ok true)

def intKey (k : String) : Val → Option Int
  | .doc fs => match dget k fs with
    | some (.int i) => some i
    | _ => none
  | _ => none

/-- stable insertion of position `i` with key `x` -/
def insertBy (desc : Bool) (x : Int) (i : Nat) : List (Int × Nat) → List (Int × Nat)
  | [] => [(x, i)]
  | (y, j) :: r =>
    if (if desc then decide (y < x) else decide (x < y)) then (x, i) :: (y, j) :: r
    else (y, j) :: insertBy desc x i r

/-- an integer, or a double that holds a whole number -/
def wholeInt : Val → Option Int
  | .int n => some n
  | .dbl m e => if m % (2 ^ e : Int) == 0 then some (m / (2 ^ e : Int)) else none
  | _ => none

def stdSel (op : String) (opts : Val) (docs : List Val) : R (List Nat) :=
  if op == "$match" then
    match opts with
    | .doc fs =>
      if fs.any (fun kv => isContainer kv.2 || (splitDots kv.1).length != 1 || isDollar kv.1) then
        .error .unmodelled
      else filterIdx (allOk (fs.map (fun kv => eqMatch kv.1 kv.2))) docs 0
    | _ => .error .unmodelled
  else if op == "$sort" then
    match opts with
    | .doc [(k, .int dir)] =>
      if (splitDots k).length != 1 then .error .unmodelled
      else
        let keys := docs.map (intKey k)
        if keys.any Option.isNone then .error .unmodelled
        else
          .ok (((keys.zipIdx).foldl (fun acc ki => insertBy (dir < 0) (ki.1.getD 0) ki.2 acc) []).map (·.2))
    | _ => .error .unmodelled
  else if op == "$skip" then
    -- `_handle_skip_stage`: a non-negative integer (a double that holds a whole number counts
    -- as that integer; not a bool), OperationFailure otherwise
    match wholeInt opts with
    | some n => if n < 0 then .error .opFail else .ok ((List.range docs.length).drop n.toNat)
    | none => .error .opFail
  else if op == "$limit" then
    -- `_handle_limit_stage`: a positive integer (same reading), OperationFailure otherwise
    match wholeInt opts with
    | some n => if n ≤ 0 then .error .opFail else .ok ((List.range docs.length).take n.toNat)
    | none => .error .opFail
  else .error .unmodelled

def stdJoins (loc frn : String) (doc : Val) (foreign : List Val) : R (List Nat) :=
  if (splitDots loc).length != 1 || (splitDots frn).length != 1 then .error .unmodelled
  else
    let q : Val := match doc with
      | .doc fs => (dget loc fs).getD .null
      | _ => .null
    if isContainer q then .error .unmodelled
    else filterIdx (eqMatch frn q) foreign 0

def Sem.std : Sem :=
  { sel := stdSel, shuffle := fun n => List.range n, joins := stdJoins,
    dup := fun k have_ => have_.any (pyEq · k) }

/-! ### commands -/

mutual
  /-- generated ObjectIds are all written `O0` (the harness does the same) -/
  partial def zeroOids : Val → Val
    | .oid _ => .oid 0
    | .doc fs => .doc (fs.map (fun kv => (kv.1, zeroOids kv.2)))
    | .arr xs => .arr (xs.map zeroOids)
    | v => v
end

def showRes (w : World) : Option Err → List String
  | none => showVals ((toVals w.work).map zeroOids)
  | some e => showErr e

def mkState (colls : List Val) (pipe : Val) : State :=
  let names := ["a", "b", "c"]
  let build := (names.zip colls).foldl (fun (acc : List (String × List HV) × Nat) nc =>
    match nc.2 with
    | .arr docs => let r := ofVals Id.st docs acc.2; (acc.1 ++ [(nc.1, r.1)], r.2)
    | _ => acc) ([], 0)
  { colls := build.1, idx := [], pipe := (ofVal Id.cl pipe 0).1, nextSt := build.2 }

mutual
  /-- objects a run allocated and left inside the caller's pipeline object (class
      `literal-written`) belong to the caller from then on: before the next run (whose run-local
      name space starts again at 0) they are renamed into the caller's name space -/
  partial def adopt (k : Nat) : HV → HV
    | .atom v => .atom v
    | .node (.tmp n) d kids => .node (.cl (1000000 * (k + 1) + n)) d (kids.map (fun kv => (kv.1, adopt k kv.2)))
    | .node i d kids => .node i d (kids.map (fun kv => (kv.1, adopt k kv.2)))
end

/-- `n` runs with one pipeline object -/
def runN (coll : String) : Nat → State → List (List String) × List (List String) × State
  | 0, s => ([], [], s)
  | n + 1, s =>
    let r := runStagesW Disc.reference Sem.std (s.world Disc.reference coll) (parsePipe s.pipe)
    let s0 := r.1.state
    let s' : State := { s0 with pipe := adopt n s0.pipe }
    let rest := runN coll n s'
    (showRes r.1 r.2 :: rest.1, showVal (zeroOids s'.pipe.toVal) :: rest.2.1, rest.2.2)

def bar (xs : List (List String)) : List String :=
  match xs with
  | [] => []
  | x :: r => r.foldl (fun acc y => acc ++ ["|"] ++ y) x

/-- commands:
    `c16 run <n> <coll> <[a-docs, b-docs, c-docs]> <pipeline>`
        → res_1 | … | res_n | pipe_1 | … | pipe_n | a | b | c
    `c16 proc <coll> <[…]> <prefix> <pipeline>` → the sub-pipeline alone on the prefix's output
    `c16 stagein <coll> <[…]> <prefix> <pipeline>` → the same, and the sub-pipeline's INPUT (kept
        alive on the stack, as `$facet` keeps it) as it is afterwards:  res | input
    `c16 table` → the reference discipline -/
def handle (ts : List String) : Option (List String) :=
  match ts with
  | ["c16", "table"] => some [reprStr Disc.reference]
  | "c16" :: "run" :: n :: coll :: r =>
    match n.toNat?, parseVal r with
    | some n, some (.arr colls, r') =>
      match parseVal r' with
      | some (pipe, []) =>
        let out := runN coll n (mkState colls pipe)
        some (bar (out.1 ++ out.2.1 ++
          ["a", "b", "c"].map (fun c => showVals ((toVals (getColl c out.2.2.colls)).map zeroOids))))
      | _ => some ["?parse"]
    | _, _ => some ["?parse"]
  | "c16" :: "stagein" :: coll :: r =>
    match parseVal r with
    | some (.arr colls, r') =>
      match parseVal r' with
      | some (.arr pre, r'') =>
        match parseVal r'' with
        | some (.arr sub, []) =>
          let s := mkState colls (.arr (pre ++ sub))
          let stages := parsePipe s.pipe
          let a := runStagesW Disc.reference Sem.std (s.world Disc.reference coll) (stages.take pre.length)
          match a.2 with
          | some e => some (showErr e)
          | none =>
            let b := runStagesW Disc.reference Sem.std { a.1 with stack := [a.1.work] } (stages.drop pre.length)
            some (bar [showRes b.1 b.2, showVals ((toVals (b.1.stack.headD [])).map zeroOids)])
        | _ => some ["?parse"]
      | _ => some ["?parse"]
    | _ => some ["?parse"]
  | "c16" :: "proc" :: coll :: r =>
    match parseVal r with
    | some (.arr colls, r') =>
      match parseVal r' with
      | some (.arr pre, r'') =>
        match parseVal r'' with
        | some (.arr sub, []) =>
          let s := mkState colls (.arr (pre ++ sub))
          let stages := parsePipe s.pipe
          let a := runStagesW Disc.reference Sem.std (s.world Disc.reference coll) (stages.take pre.length)
          match a.2 with
          | some e => some (showErr e)
          | none =>
            let b := runStagesW Disc.reference Sem.std a.1 (stages.drop pre.length)
            some (showRes b.1 b.2)
        | _ => some ["?parse"]
      | _ => some ["?parse"]
    | _ => some ["?parse"]
  | _ => none

end Driver.C16

def Driver.handleC16 := Driver.C16.handle
