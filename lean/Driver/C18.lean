import MongoModel.Wire
import MongoModel.DateTime
import MongoModel.ExprOps
open MongoModel MongoModel.Wire

namespace Driver

/-- `T` / `F` -/
def parseTz : String → Option Bool
  | "T" => some true
  | "F" => some false
  | _ => none

/-- commands:
      `patch v`  → `patch v`
      `aware v`  → `makeAware v`
      `c18 v`    → `patch v | makeAware (patch v) | AllDates Normal v | AllDates AwareUtc v |
                    the milliseconds (UTC) of the datetimes of v in document order`
      `aggpipe v` → `aggPipeline v | AllDates Normal (aggPipeline v)`
                    (what `Collection.aggregate` hands `process_pipeline` for the pipeline `v`,
                    whatever the client's tz_aware)
      `aggres T|F v` → `aggResult tz v | AllDates (ReadForm tz) (aggResult tz v) |
                    AllDates (ReadForm tz) v`
                    (what the caller gets for the results `v` of `process_pipeline`; the last
                    field ties the predicate `ReadForm` to the harness oracle on raw values)
      `cmpdate a b` → for each of `$eq $ne $gt $gte $lt $lte`, separated by `|`:
                    `compareOp op (aggInput (patch a)) (aggPipeline b)` — an expression comparison
                    between a field holding `a` and the value `b` written in the pipeline (or
                    computed by it: a naive datetime of whole milliseconds is its own prepared
                    form) -/
def handleC18 (ts : List String) : Option (List String) :=
  match ts with
  | "patch" :: r =>
    match parseVal r with
    | some (v, []) => some (showVal (patch v))
    | _ => some ["?parse"]
  | "aware" :: r =>
    match parseVal r with
    | some (v, []) => some (showVal (makeAware v))
    | _ => some ["?parse"]
  | "c18" :: r =>
    match parseVal r with
    | some (v, []) =>
      some (showVal (patch v) ++ ["|"] ++ showVal (makeAware (patch v)) ++ ["|"]
        ++ showBool (allDatesB normalB v) ++ ["|"] ++ showBool (allDatesB awareUtcB v) ++ ["|"]
        ++ (datesOf v).map (fun d => toString (msOf d.1 d.2)))
    | _ => some ["?parse"]
  | "aggpipe" :: r =>
    match parseVal r with
    | some (v, []) =>
      some (showVal (aggPipeline v) ++ ["|"] ++ showBool (allDatesB normalB (aggPipeline v)))
    | _ => some ["?parse"]
  | "aggres" :: tz :: r =>
    match parseTz tz, parseVal r with
    | some t, some (v, []) =>
      some (showVal (aggResult t v) ++ ["|"]
        ++ showBool (allDatesB (readFormB t) (aggResult t v)) ++ ["|"]
        ++ showBool (allDatesB (readFormB t) v))
    | _, _ => some ["?parse"]
  | "cmpdate" :: r =>
    match parseVal r with
    | some (stored, r') =>
      match parseVal r' with
      | some (lit, []) =>
        let a := aggInput (patch stored)
        let b := aggPipeline lit
        some (List.intercalate ["|"]
          (["$eq", "$ne", "$gt", "$gte", "$lt", "$lte"].map (fun op => showR showVal (Expr.compareOp op a b))))
      | _ => some ["?parse"]
    | _ => some ["?parse"]
  | _ => none

end Driver
