import MongoModel.Wire
import MongoModel.DateTime
open MongoModel MongoModel.Wire

namespace Driver

/-- commands:
      `patch v`  → `patch v`
      `aware v`  → `makeAware v`
      `c18 v`    → `patch v | makeAware (patch v) | AllDates Normal v | AllDates AwareUtc v |
                    the milliseconds (UTC) of the datetimes of v in document order` -/
def handleC18 (ts : List String) : Option (List String) :=
  match ts with
  | "patch" :: r =>
    match parseVal r with
    | some (v, []) => some (showVal (patch v))
    | _ => some ["?parse"]
  | "aware" :: r =>
    match parseVal r with
    | some (v, []) => some (showVal (makeAware v))
    | _ => some ["?parse"]
  | "c18" :: r =>
    match parseVal r with
    | some (v, []) =>
      some (showVal (patch v) ++ ["|"] ++ showVal (makeAware (patch v)) ++ ["|"]
        ++ showBool (allDatesB normalB v) ++ ["|"] ++ showBool (allDatesB awareUtcB v) ++ ["|"]
        ++ (datesOf v).map (fun d => toString (msOf d.1 d.2)))
    | _ => some ["?parse"]
  | _ => none

end Driver
