import MongoModel.Wire
import MongoModel.DateTime
import MongoModel.ExprOps
open MongoModel MongoModel.Wire

namespace Driver

/-- `T` / `F` -/
def parseTz : String → Option Bool
  | "T" => some true
  | "F" => some false
  | _ => none

/-- commands:
      `patch v`  → `patch v`
      `aware v`  → `makeAware v`
      `c18 v`    → `patch v | makeAware (patch v) | AllDates Normal v | AllDates AwareUtc v |
                    the milliseconds (UTC) of the datetimes of v in document order`
      `aggpipe T|F v` → `aggPipeline tz v | AllDates (ReadForm tz) (aggPipeline tz v) |
                    AllDates (ReadForm tz) v`
                    (what `Collection.aggregate` hands `process_pipeline` for the pipeline `v`; the
                    last field ties the predicate `ReadForm` to the harness oracle on raw values)
      `cmpdate T|F stored literal` → for each of `$eq $ne $gt $gte $lt $lte`, separated by `|`:
                    `compareOp op (readDoc tz (patch stored)) (aggPipeline tz literal)` — an
                    expression comparison between a field holding `stored` and the value `literal`
                    written in the pipeline -/
def handleC18 (ts : List String) : Option (List String) :=
  match ts with
  | "patch" :: r =>
    match parseVal r with
    | some (v, []) => some (showVal (patch v))
    | _ => some ["?parse"]
  | "aware" :: r =>
    match parseVal r with
    | some (v, []) => some (showVal (makeAware v))
    | _ => some ["?parse"]
  | "c18" :: r =>
    match parseVal r with
    | some (v, []) =>
      some (showVal (patch v) ++ ["|"] ++ showVal (makeAware (patch v)) ++ ["|"]
        ++ showBool (allDatesB normalB v) ++ ["|"] ++ showBool (allDatesB awareUtcB v) ++ ["|"]
        ++ (datesOf v).map (fun d => toString (msOf d.1 d.2)))
    | _ => some ["?parse"]
  | "aggpipe" :: tz :: r =>
    match parseTz tz, parseVal r with
    | some t, some (v, []) =>
      some (showVal (aggPipeline t v) ++ ["|"]
        ++ showBool (allDatesB (readFormB t) (aggPipeline t v)) ++ ["|"]
        ++ showBool (allDatesB (readFormB t) v))
    | _, _ => some ["?parse"]
  | "cmpdate" :: tz :: r =>
    match parseTz tz, parseVal r with
    | some t, some (stored, r') =>
      match parseVal r' with
      | some (lit, []) =>
        let a := readDoc t (patch stored)
        let b := aggPipeline t lit
        some (List.intercalate ["|"]
          (["$eq", "$ne", "$gt", "$gte", "$lt", "$lte"].map (fun op => showR showVal (Expr.compareOp op a b))))
      | _ => some ["?parse"]
    | _, _ => some ["?parse"]
  | _ => none

end Driver
